#!/usr/bin/env python3
"""C -> Lean translator for libscpi/src/lexer.c (clang's typed AST -> lean/ScpiVerif/Gen/LexerC.lean).

    python3 translate/c2lean_lexer.py            regenerate lean/ScpiVerif/Gen/LexerC.lean from $VERIF_REPO/libscpi/src/lexer.c
    python3 translate/c2lean_lexer.py --stdout   print the generated text instead

The generated definitions are written over the prelude lean/ScpiVerif/Gen/LexerCBase.lean (tracked).  The theorems of
lean/ScpiVerif/Lemmas/LexerC*.lean prove that every generated function equals the hand model ScpiVerif.Lexer for ALL buffers
and all cursor positions inside them AND that no read left the buffer (`oob = false`): the C idiom
`!iseos(state) && p(state->pos[0])`, which the hand model fuses into one primitive, is kept apart here.

Subset (anything else raises `Unsupported` for the function that contains it, with the source line - never guessed):

  function ::= ('int'|'void') f '(' param {',' param} ')' '{' stmt* '}'
  param    ::= 'lex_state_t *' state | 'scpi_token_t *' token | 'int' x | 'char' x
  stmt     ::= lvalue ('=' | '+=' | '-=' | '*=') expr ';' | lvalue ('++'|'--') ';' | ('++'|'--') lvalue ';'
             | ('int'|'char'|'[const] char *') local ['=' expr] ';' | expr ';' (a call)
             | 'if' '(' expr ')' stmt ['else' stmt] | 'while' '(' expr ')' stmt | 'for' '(' [stmt] ';' [expr] ';' [stmt] ')' stmt
             | 'switch' '(' pure-expr ')' '{' { {'case' const ':'} | 'default' ':' } stmt* 'return' expr ';' ... '}'  (every group returns)
             | 'return' [expr] ';' | 'break' ';' | '{' stmt* '}' | ';'
  lvalue   ::= state '->' 'pos' | token '->' ('type'|'ptr'|'len') | local
  expr     ::= integer / character literal | enum constant | local | parameter | state '->' ('buffer'|'pos'|'len')
             | token '->' field | state '->' 'pos' '[' expr ']' | expr (+ - *) expr | expr (== != < <= > >=) expr
             | expr ('&&' | '||') expr | expr ('|') expr (as a truth value only) | ('!'|'-'|'+') expr | pure-expr '?' pure-expr ':' pure-expr
             | '(' expr ')' | '(uint8_t)' expr | f '(' args ')' (f translated before; or isdigit isalpha isalnum isxdigit isupper
               islower isspace, as a truth value only)

C semantics, as decided here:
  * pointer = offset.  `state->buffer` points to an array object of exactly `state->len` bytes: buffer = offset 0,
    `state->len` = `state.buf.length`; `state->pos`, `token->ptr` and `char *` locals are offsets (`Int`, so that a pointer
    moved in front of the object shows as a negative number; the refinement theorems equate them with the hand model's `Nat`
    cursors).  Pointer +/- int, pointer - pointer, pointer comparisons are the integer operations on offsets.  Forming a
    pointer more than one past the end is undefined in C and NOT flagged (the block recogniser does it; the hand model keeps
    the same out-of-range value, see Props/C01).
  * EVERY read `state->pos[k]` is `rd state k`, which sets `oob` when pos + k is outside [0, len) and delivers the byte as a
    plain char otherwise.  Plain `char` is SIGNED 8-bit (the translator asks clang: `__CHAR_UNSIGNED__` must be undefined):
    `sc b`.  char -> int: the value; `(uint8_t) x`: `u8 x = x % 256`; int -> char: literals in -128..127 as they are, else `s8`.
    No other buffer access exists in the subset (`token->ptr[..]`, `*p`, locals indexed: refused).
  * `&&` `||` `?:` short-circuit: the right operand - and the read in it - is evaluated only when the left operand lets it.
    An expression that reads or writes the state is a Lean term of type `CLex × τ` (state passing).  Two operands of a
    non-sequencing operator may both READ (order irrelevant: the flag is sticky) but if one WRITES the state and the other
    touches it, the expression is refused (unspecified order in C).
  * `int`, `long` (pointer differences) arithmetic is `Int`.  Signed overflow is undefined in C; the translator does not
    prove its absence for loop counters.  Precondition listed in every docstring: `state->len <= INT_MAX - 2` (all counters,
    pointer differences and returned lengths are bounded by len + 2; the block length is at most 999999999 - hand-model
    theorem `block_length_bounded`, 9 decimal digits at most).
  * truth values: comparisons and `! && ||` yield `Bool`; a Bool used as a number is `b2i b`; a number used as a truth value
    is `x != 0`.  `a | b` is accepted where only its truth value is used: `(a != 0 || b != 0)` (both operands evaluated).
  * `<ctype.h>`: clang is run with `-D__NO_CTYPE`, so the classification macros stay function calls; `isdigit(x)` is
    `ctype Gen.cc_isdigit x`, the table extract.py reads off the linked function for 0..255 (`false` outside - C leaves it undefined).
  * loops: `whileC cond body fuel state locals` (Gen/LexerCBase.lean); fuel = `state.buf.length + 1` (every iteration of every
    loop of lexer.c advances the cursor; the refinement theorems PROVE the fuel sufficient: `ub = false`).
    `locals` = the local variables the loop assigns, as a right-nested tuple.
  * a local without initialiser is not bound until it is assigned; a use on a path where it may be unassigned is refused.
  * the `state` and `token` pointers are dereferenced unconditionally (non-NULL, distinct objects: preconditions).
  * result of a function: the state (when the function reads or writes it), the token (when it has the parameter), the value.
"""
import json, os, re, subprocess, sys

HERE = os.path.dirname(os.path.abspath(__file__))
VERIF = os.path.dirname(HERE)
sys.path.insert(0, HERE)
import c2lean as base                      # noqa: E402
from c2lean import Unsupported, loc_of     # noqa: E402

NAMESPACE = "ScpiVerif.Gen.LexerC"
CLANG_FLAGS = ("-D__NO_CTYPE",)
CTYPE = {"isdigit", "isalpha", "isalnum", "isxdigit", "isupper", "islower", "isspace"}
INT_TYPES = {"int", "long", "char", "signed char", "unsigned char", "short"}
RESERVED = set(base.LEAN_KEYWORDS) | {"state", "token", "rd", "sc", "u8", "s8", "ctype", "whileC", "b2i", "Flow", "CLex", "CTok", "l", "fuel"}


def lean_int(n):
    return str(n) if n >= 0 else "(%d)" % n


class V:
    """kind: int | bool | truth (a truth value whose numeric value is unknown) | ptr | state | token;
    eff: 0 pure (text : τ), 1 reads the buffer, 2 writes the state (text : CLex × τ, `state` free in it)"""
    def __init__(self, kind, text, eff=0, lit=None, void=False, pre=None, res=None):
        self.kind, self.text, self.eff, self.lit, self.void, self.pre, self.res = kind, text, eff, lit, void, pre, res


class K:
    """continuations of the statement translation: lines for falling off the end / break / return"""
    def __init__(self, fall, brk, ret):
        self.fall, self.brk, self.ret = fall, brk, ret


def ind(lines, n=2):
    return [" " * n + x for x in lines]


class File:
    def __init__(self, path):
        with open(path, encoding="latin-1") as f:
            self.src = f.read()
        self.check_char_signed()
        self.ast = base.clang_ast(path, CLANG_FLAGS)
        self.enums = {}
        self.structs = {}
        for n in base.walk(self.ast):
            if n.get("kind") == "EnumDecl":
                v = -1
                for c in n.get("inner", []):
                    if c.get("kind") != "EnumConstantDecl":
                        continue
                    init = [x for x in c.get("inner", []) if "kind" in x and x["kind"].endswith("Expr") or x.get("kind") == "IntegerLiteral"]
                    if init:
                        v = self.const_value(init[0])
                    else:
                        v += 1
                    self.enums[c["name"]] = v
            if n.get("kind") == "RecordDecl" and n.get("completeDefinition") and n.get("name") in ("_lex_state_t", "_scpi_token_t"):
                self.structs[n["name"]] = [(f["name"], f["type"].get("desugaredQualType", f["type"]["qualType"]))
                                           for f in n.get("inner", []) if f.get("kind") == "FieldDecl"]
        want = {"_lex_state_t": [("buffer", "char *"), ("pos", "char *"), ("len", "int")],
                "_scpi_token_t": [("type", "enum _scpi_token_type_t"), ("ptr", "char *"), ("len", "int")]}
        for s, fl in want.items():
            got = self.structs.get(s)
            if got is None or [g[0] for g in got] != [f[0] for f in fl] or any(g[1] != f[1] for g, f in zip(got, fl)):
                raise Unsupported("struct %s is not %s but %s" % (s, fl, got))
        self.sigs = {}

    def check_char_signed(self):
        r = subprocess.run([base.find_clang(), "-dM", "-E", "-x", "c", "/dev/null"], capture_output=True, text=True, timeout=60)
        if r.returncode != 0 or "__CHAR_UNSIGNED__" in r.stdout or "__CHAR_BIT__ 8" not in r.stdout or "__SIZEOF_INT__ 4" not in r.stdout:
            raise Unsupported("the target's plain char is not a signed 8-bit type / int is not 32 bits")

    def const_value(self, n):
        for x in base.walk(n):
            if x.get("kind") == "ConstantExpr" and "value" in x:
                return int(x["value"])
            if x.get("kind") in ("IntegerLiteral", "CharacterLiteral"):
                return int(x["value"])
        raise Unsupported("constant expression whose value clang does not print")

    def text(self, node, upto=None, stmt=False):
        b, _, _ = loc_of(node["range"]["begin"])
        if upto is not None:
            e, _, _ = loc_of(upto["range"]["begin"])
        else:
            e, tl, _ = loc_of(node["range"]["end"])
            e += tl
        s = self.src[b:e]
        if upto is None and stmt and re.match(r"\s*;", self.src[e:e + 8]):
            s += ";"
        return " ".join(s.split()).replace("-/", "- /")

    def where(self, node):
        b, _, _ = loc_of(node["range"]["begin"])
        return "?" if b is None else "line %d" % (self.src.count("\n", 0, b) + 1)

    def function_decls(self):
        res = []
        for n in self.ast.get("inner", []):
            if n.get("kind") == "FunctionDecl" and any(c.get("kind") == "CompoundStmt" for c in n.get("inner", [])) and loc_of(n["loc"])[2]:
                res.append(n)
        return res


def qt(n):
    t = n["type"]
    return t.get("desugaredQualType", t["qualType"]).replace("const ", "").strip()


def param_kind(t):
    if re.fullmatch(r"(struct _lex_state_t|lex_state_t) \*", t): return "state"
    if re.fullmatch(r"(struct _scpi_token_t|scpi_token_t) \*", t): return "token"
    if t in ("int", "char"): return "int"
    return None


class Fn:
    def __init__(self, ft, fn):
        self.ft, self.fn, self.name = ft, fn, fn["name"]
        self.tmp = 0
        self.pre = set()

    def fail(self, node, msg):
        raise Unsupported("%s: %s (%s)" % (self.name, msg, self.ft.where(node)))

    def fresh(self, p="t"):
        self.tmp += 1
        return "%s%d" % (p, self.tmp)

    def lname(self, n):
        if n in ("state", "token"):
            return n
        return n + "_" if (n in RESERVED or re.fullmatch(r"[tcr]\d*", n)) else n

    # ---- signature -------------------------------------------------------------------------------------------------------
    def analyse(self):
        fn = self.fn
        self.params = []
        for p in fn.get("inner", []):
            if p.get("kind") != "ParmVarDecl":
                continue
            k = param_kind(qt(p))
            if k is None or "name" not in p:
                self.fail(p, "parameter of type %s" % qt(p))
            if k in ("state", "token") and p["name"] != k:
                self.fail(p, "the %s parameter must be called `%s`" % (k, k))
            self.params.append((p["name"], k, qt(p)))
        if [k for _, k, _ in self.params].count("state") > 1 or [k for _, k, _ in self.params].count("token") > 1:
            self.fail(fn, "two state / token parameters")
        rt = fn["type"]["qualType"].split("(")[0].strip()
        if rt not in ("int", "void"):
            self.fail(fn, "return type %s" % rt)
        self.ret = rt
        self.has_state = any(k == "state" for _, k, _ in self.params)
        self.has_token = any(k == "token" for _, k, _ in self.params)
        self.body = [c for c in fn["inner"] if c.get("kind") == "CompoundStmt"][0]
        level = 0
        for n in base.walk(self.body):
            k = n.get("kind")
            if k == "ArraySubscriptExpr":
                level = max(level, 1)
            if k in ("BinaryOperator", "CompoundAssignOperator", "UnaryOperator") and (n.get("opcode") in ("=", "++", "--") or k == "CompoundAssignOperator"):
                lhs = self.unparen(n["inner"][0])
                if lhs.get("kind") == "MemberExpr" and self.member_base(lhs) == "state":
                    level = 2
            if k == "CallExpr":
                cal = self.callee(n)
                if cal in self.ft.sigs:
                    level = max(level, self.ft.sigs[cal]["level"])
            if k in ("GotoStmt", "LabelStmt", "ContinueStmt", "DoStmt", "AsmStmt"):
                self.fail(n, "statement of kind %s" % k)
        if level and not self.has_state:
            self.fail(fn, "buffer access without a state parameter")
        self.level = level
        self.shape = (["state"] if level else []) + (["token"] if self.has_token else []) + (["ret"] if rt != "void" else [])
        if not self.shape:
            self.fail(fn, "function without any effect or result")
        return {"params": self.params, "ret": rt, "level": level, "shape": self.shape, "has_token": self.has_token}

    def unparen(self, n):
        while n.get("kind") == "ParenExpr":
            n = n["inner"][0]
        return n

    def member_base(self, m):
        b = self.unparen(m["inner"][0])
        while b.get("kind") == "ImplicitCastExpr":
            b = self.unparen(b["inner"][0])
        if b.get("kind") == "DeclRefExpr":
            nm = b["referencedDecl"]["name"]
            for p, k, _ in self.params:
                if p == nm and k in ("state", "token"):
                    return k
        self.fail(m, "member access on something that is not the state / token parameter")

    def callee(self, n):
        c = self.unparen(n["inner"][0])
        while c.get("kind") == "ImplicitCastExpr":
            c = self.unparen(c["inner"][0])
        if c.get("kind") != "DeclRefExpr":
            self.fail(n, "call through a pointer")
        return c["referencedDecl"]["name"]

    # ---- expressions -----------------------------------------------------------------------------------------------------
    def bind(self, vs):
        """evaluate the values in order; returns (prefix lines as one string, [operand texts], effect level)"""
        effs = [v.eff for v in vs]
        if sum(1 for e in effs if e) > 1 and max(effs) == 2:
            raise Unsupported("%s: two operands touch the state and one of them writes it: the order of evaluation is unspecified in C" % self.name)
        pre, ops = "", []
        for v in vs:
            if v.eff and v.res is not None:
                pre += v.pre
                ops.append(v.res)
            elif v.eff:
                t = self.fresh()
                pre += "let (state, %s) := %s; " % (t, v.text)
                ops.append(t)
            else:
                ops.append(v.text)
        return pre, ops, max(effs) if effs else 0

    def mk(self, kind, vs, build, node=None):
        pre, ops, eff = self.bind(vs)
        r = build(*ops)
        if eff:
            return V(kind, "(%s(state, %s))" % (pre, r), eff, pre=pre, res=r)
        return V(kind, r, 0)

    def as_bool(self, v, node):
        if v.kind in ("bool", "truth"):
            return v
        if v.kind == "int":
            if v.lit is not None:
                return V("bool", "true" if v.lit != 0 else "false")
            return self.mk("bool", [v], lambda a: "(%s != 0)" % a)
        self.fail(node, "a %s used as a truth value" % v.kind)

    def as_int(self, v, node):
        if v.kind == "int":
            return v
        if v.kind == "bool":
            return self.mk("int", [v], lambda a: "(b2i %s)" % a)
        self.fail(node, "a %s used as a number (only its truth value is defined here)" % v.kind)

    def ex(self, n, env):
        k = n.get("kind")
        if k in ("ParenExpr", "ConstantExpr"):
            return self.ex(n["inner"][0], env)
        if k in ("IntegerLiteral", "CharacterLiteral"):
            v = int(n["value"])
            return V("int", lean_int(v), lit=v)
        if k in ("ImplicitCastExpr", "CStyleCastExpr"):
            return self.cast(n, env)
        if k == "DeclRefExpr":
            d = n["referencedDecl"]
            if d["kind"] == "EnumConstantDecl":
                v = self.ft.enums[d["name"]]
                return V("int", lean_int(v), lit=v)
            if d["kind"] in ("ParmVarDecl", "VarDecl"):
                nm = d["name"]
                if nm not in env["vars"]:
                    self.fail(n, "variable %s is not a local / parameter of the subset" % nm)
                if nm not in env["defined"]:
                    self.fail(n, "%s may be used uninitialised" % nm)
                kind = env["vars"][nm]
                return V(kind, self.lname(nm))
            self.fail(n, "reference to %s" % d["kind"])
        if k == "MemberExpr":
            b = self.member_base(n)
            f = n["name"]
            if b == "state":
                if f == "buffer": return V("ptr", "0", lit=0)
                if f == "pos": return V("ptr", "state.pos")
                if f == "len": return V("int", "(state.buf.length : Int)")
            else:
                if f == "type": return V("int", "token.type")
                if f == "ptr": return V("ptr", "token.ptr")
                if f == "len": return V("int", "token.len")
            self.fail(n, "field %s" % f)
        if k == "ArraySubscriptExpr":
            b = self.unparen(n["inner"][0])
            while b.get("kind") == "ImplicitCastExpr":
                b = self.unparen(b["inner"][0])
            if not (b.get("kind") == "MemberExpr" and self.member_base(b) == "state" and b["name"] == "pos"):
                self.fail(n, "indexing something other than state->pos")
            if qt(n) != "char":
                self.fail(n, "element type %s" % qt(n))
            i = self.as_int(self.ex(n["inner"][1], env), n)
            if i.eff:
                self.fail(n, "index with side effects")
            return V("int", "(rd state %s)" % i.text, 1)
        if k == "UnaryOperator":
            op = n["opcode"]
            a = self.ex(n["inner"][0], env)
            if op == "!":
                return self.mk("bool", [self.as_bool(a, n)], lambda x: "(!%s)" % x)
            if op == "-":
                a = self.as_int(a, n)
                if a.lit is not None:
                    return V("int", lean_int(-a.lit), lit=-a.lit)
                return self.mk("int", [a], lambda x: "(-%s)" % x)
            if op == "+":
                return self.as_int(a, n)
            self.fail(n, "unary %s inside an expression" % op)
        if k == "BinaryOperator":
            return self.binop(n, env)
        if k == "ConditionalOperator":
            c = self.as_bool(self.ex(n["inner"][0], env), n)
            a, b = self.ex(n["inner"][1], env), self.ex(n["inner"][2], env)
            if c.eff or a.eff or b.eff:
                self.fail(n, "?: with operands that touch the state")
            if a.kind == "ptr" and b.kind == "ptr":
                return V("ptr", "(if %s then %s else %s)" % (c.text, a.text, b.text))
            a, b = self.as_int(a, n), self.as_int(b, n)
            return V("int", "(if %s then %s else %s)" % (c.text, a.text, b.text))
        if k == "CallExpr":
            return self.call(n, env)
        self.fail(n, "expression of kind %s" % k)

    def cast(self, n, env):
        ck = n.get("castKind")
        inner = n["inner"][-1]
        if ck in ("LValueToRValue", "NoOp", "FunctionToPointerDecay"):
            return self.ex(inner, env)
        if ck == "IntegralCast":
            to = qt(n)
            v = self.ex(inner, env)
            if v.kind == "truth":
                self.fail(n, "numeric use of a ctype result / of `|`")
            v = self.as_int(v, n)
            if to in ("int", "long"):
                if qt(inner) not in INT_TYPES and qt(inner) != "_Bool":
                    self.fail(n, "conversion %s -> %s" % (qt(inner), to))
                return v
            if to == "unsigned int" and (qt(inner).startswith("enum ") or (v.lit is not None and v.lit >= 0)):
                return v          # enum values are small and non-negative: promotion for a comparison
            if to.startswith("enum "):
                if v.lit is None or v.lit not in self.ft.enums.values():
                    self.fail(n, "conversion of a computed value to %s" % to)
                return v
            if to == "char":
                if v.lit is not None and -128 <= v.lit <= 127:
                    return v
                if qt(inner) == "char":
                    return v
                return self.mk("int", [v], lambda a: "(s8 %s)" % a)
            if to == "unsigned char":
                if v.lit is not None:
                    return V("int", lean_int(v.lit % 256), lit=v.lit % 256)
                return self.mk("int", [v], lambda a: "(u8 %s)" % a)
            self.fail(n, "conversion to %s" % to)
        self.fail(n, "cast of kind %s" % ck)

    def binop(self, n, env):
        op = n["opcode"]
        if op in ("&&", "||"):
            a = self.as_bool(self.ex(n["inner"][0], env), n)
            b = self.as_bool(self.ex(n["inner"][1], env), n)
            lop = "&&" if op == "&&" else "||"
            if not b.eff:
                return self.mk("bool", [a, b], lambda x, y: "(%s %s %s)" % (x, lop, y))
            # C's short-circuit evaluation: the right operand is evaluated in the state the left operand leaves, and only when needed
            short = "(state, false)" if op == "&&" else "(state, true)"
            if a.eff:
                t = self.fresh()
                if op == "&&":
                    txt = "(let (state, %s) := %s; if %s then %s else %s)" % (t, a.text, t, b.text, short)
                else:
                    txt = "(let (state, %s) := %s; if %s then %s else %s)" % (t, a.text, t, short, b.text)
            else:
                if op == "&&":
                    txt = "(if %s then %s else %s)" % (a.text, b.text, short)
                else:
                    txt = "(if %s then %s else %s)" % (a.text, short, b.text)
            return V("bool", txt, max(a.eff, b.eff))
        if op == ",":
            self.fail(n, "comma operator")
        if op == "=" or op.endswith("=") and op not in ("==", "!=", "<=", ">="):
            self.fail(n, "assignment inside an expression")
        a, b = self.ex(n["inner"][0], env), self.ex(n["inner"][1], env)
        if op == "|":
            if a.kind == "truth" or b.kind == "truth":
                self.fail(n, "`|` on a ctype result")
            a, b = self.as_int(a, n), self.as_int(b, n)
            return self.mk("truth", [a, b], lambda x, y: "(%s != 0 || %s != 0)" % (x, y))
        if op in ("==", "!=", "<", "<=", ">", ">="):
            if a.kind == "ptr" and b.kind == "ptr":
                pass
            else:
                a, b = self.as_int(a, n), self.as_int(b, n)
            if op in ("==", "!="):
                return self.mk("bool", [a, b], lambda x, y: "((%s : Int) %s %s)" % (x, op, y))
            return self.mk("bool", [a, b], lambda x, y: "(decide ((%s : Int) %s %s))" % (x, {"<": "<", "<=": "≤", ">": ">", ">=": "≥"}[op], y))
        if op in ("+", "-", "*"):
            if a.kind == "ptr" and b.kind == "ptr":
                if op != "-":
                    self.fail(n, "pointer %s pointer" % op)
                return self.mk("int", [a, b], lambda x, y: "(%s - %s)" % (x, y))
            if a.kind == "ptr" or b.kind == "ptr":
                if op == "*" or (op == "-" and b.kind == "ptr"):
                    self.fail(n, "pointer arithmetic %s" % op)
                p, i = (a, b) if a.kind == "ptr" else (b, a)
                i = self.as_int(i, n)
                a, b = (p, i) if a.kind == "ptr" else (i, p)
                return self.mk("ptr", [a, b], lambda x, y: "(%s %s %s)" % (x, op, y))
            a, b = self.as_int(a, n), self.as_int(b, n)
            if a.lit is not None and b.lit is not None:
                v = {"+": a.lit + b.lit, "-": a.lit - b.lit, "*": a.lit * b.lit}[op]
                if not (base.INT_MIN <= v <= base.INT_MAX):
                    self.fail(n, "constant overflow")
                return V("int", lean_int(v), lit=v)
            return self.mk("int", [a, b], lambda x, y: "(%s %s %s)" % (x, op, y))
        self.fail(n, "operator %s" % op)

    def call(self, n, env):
        cal = self.callee(n)
        args = [self.ex(a, env) for a in n["inner"][1:]]
        if cal in CTYPE:
            if len(args) != 1:
                self.fail(n, "arity of %s" % cal)
            a = self.as_int(args[0], n)
            return self.mk("truth", [a], lambda x: "(ctype Gen.cc_%s %s)" % (cal, x))
        sig = self.ft.sigs.get(cal)
        if sig is None:
            self.fail(n, "call of %s, which is not translated" % cal)
        if sig["has_token"]:
            self.fail(n, "call of a function with a token parameter")
        scal, saw_state = [], False
        for (pn, pk, pt), a in zip(sig["params"], args):
            if pk == "state":
                if a.kind != "state":
                    self.fail(n, "state argument")
                saw_state = True
            else:
                if a.kind not in ("int", "bool"):
                    self.fail(n, "argument of kind %s" % a.kind)
                scal.append(self.as_int(a, n))
        lf = self.lname(cal)
        if sig["level"] == 0:
            st = " state" if saw_state else ""
            return self.mk("int", scal, lambda *xs: "(%s%s%s)" % (lf, st, "".join(" " + x for x in xs)))
        # the callee takes the state the arguments leave and returns the new one
        pre, ops, eff = self.bind(scal)
        if eff == 2:
            self.fail(n, "argument that writes the state")
        callt = "%s state%s" % (lf, "".join(" " + x for x in ops))
        void = sig["ret"] == "void"
        if void:
            txt = "(%slet state := %s; (state, ()))" % (pre, callt)
        else:
            txt = "(%s%s)" % (pre, callt)
        return V("int", txt, max(sig["level"], eff), void=void)

    # ---- statements ------------------------------------------------------------------------------------------------------
    def flat(self, s):
        if s is None:
            return []
        if s.get("kind") == "CompoundStmt":
            return list(s.get("inner", []))
        return [s]

    def has_jump(self, n, loops=True):
        """does the statement contain a return, or a break that leaves it"""
        k = n.get("kind")
        if k == "ReturnStmt":
            return True
        if k == "BreakStmt":
            return True
        if k in ("WhileStmt", "ForStmt", "SwitchStmt"):
            return any(x.get("kind") == "ReturnStmt" for x in base.walk(n))
        return any(self.has_jump(c) for c in n.get("inner", []) if isinstance(c, dict) and "kind" in c)

    def assigned(self, n, acc=None):
        """names assigned in a statement (state / token count as names); declarations inside are local to it"""
        acc = acc if acc is not None else []
        decl = set()

        def add(x):
            if x not in acc and x not in decl:
                acc.append(x)

        def visit(m):
            k = m.get("kind")
            if k == "VarDecl":
                decl.add(m["name"])
            if k in ("BinaryOperator", "CompoundAssignOperator", "UnaryOperator") and (m.get("opcode") in ("=", "++", "--") or k == "CompoundAssignOperator"):
                lhs = self.unparen(m["inner"][0])
                if lhs.get("kind") == "MemberExpr":
                    add(self.member_base(lhs))
                elif lhs.get("kind") == "DeclRefExpr":
                    add(lhs["referencedDecl"]["name"])
            if k == "ArraySubscriptExpr":
                add("state")
            if k == "CallExpr":
                c = self.callee(m)
                if c in self.ft.sigs and self.ft.sigs[c]["level"]:
                    add("state")
            for c in m.get("inner", []):
                if isinstance(c, dict) and "kind" in c:
                    visit(c)
        visit(n)
        return acc

    def tup(self, names):
        names = [self.lname(x) for x in names]
        if not names:
            return "()"
        if len(names) == 1:
            return names[0]
        return "(" + ", ".join(names) + ")"

    def comment(self, s, upto=None):
        return "-- " + self.ft.text(s, upto=upto, stmt=True)

    def stmts(self, lst, env, k):
        """lines of Lean for the statement list followed by the continuation k"""
        if not lst:
            return k.fall(env)
        s, rest = lst[0], lst[1:]
        kind = s.get("kind")
        if kind == "NullStmt":
            return self.stmts(rest, env, k)
        if kind == "CompoundStmt":
            # a nested block: its declarations stay visible (names are unique per function in the subset: checked in run)
            return self.stmts(self.flat(s) + rest, env, k)
        if kind == "ReturnStmt":
            inner = [c for c in s.get("inner", [])]
            out = [self.comment(s)]
            if not inner:
                if self.ret != "void":
                    self.fail(s, "return without a value")
                return out + k.ret(env, None)
            v = self.as_int(self.ex(inner[0], env), s)
            if v.eff:
                t = self.fresh("r")
                out.append("let (state, %s) := %s" % (t, v.text))
                return out + k.ret(env, t)
            return out + k.ret(env, v.text)
        if kind == "BreakStmt":
            return [self.comment(s)] + k.brk(env)
        if kind == "DeclStmt":
            out = []
            env = dict(env, vars=dict(env["vars"]), defined=set(env["defined"]))
            for d in s["inner"]:
                if d.get("kind") != "VarDecl" or d.get("storageClass"):
                    self.fail(s, "declaration")
                t = qt(d)
                vk = "int" if t in ("int", "char") else "ptr" if t == "char *" else None
                if vk is None:
                    self.fail(s, "local of type %s" % t)
                if d["name"] in env["vars"]:
                    self.fail(s, "the name %s is declared twice in the function" % d["name"])
                env["vars"][d["name"]] = vk
                init = [c for c in d.get("inner", []) if isinstance(c, dict) and "kind" in c and not c["kind"].endswith("Attr")]
                if init:
                    out.append(self.comment(s))
                    out += self.assign_lines(d["name"], vk, self.ex(init[0], env), env, s)
                    env["defined"].add(d["name"])
            return out + self.stmts(rest, env, k)
        if kind == "IfStmt":
            return self.if_stmt(s, rest, env, k)
        if kind in ("WhileStmt", "ForStmt"):
            return self.loop(s, rest, env, k)
        if kind == "SwitchStmt":
            return self.switch(s, rest, env, k)
        # expression statements
        out = [self.comment(s)]
        env = dict(env, defined=set(env["defined"]))
        out += self.simple(s, env)
        return out + self.stmts(rest, env, k)

    def assign_lines(self, name, vk, v, env, node):
        if vk == "ptr":
            if v.kind != "ptr":
                self.fail(node, "a %s stored into a pointer" % v.kind)
        else:
            v = self.as_int(v, node)
        if v.void:
            self.fail(node, "value of a void function")
        ln = self.lname(name)
        if v.eff:
            t = self.fresh()
            return ["let (state, %s) := %s" % (t, v.text), "let %s : Int := %s" % (ln, t)]
        return ["let %s : Int := %s" % (ln, v.text)]

    def simple(self, s, env):
        kind = s.get("kind")
        if kind == "CallExpr":
            v = self.ex(s, env)
            if not v.eff:
                return []          # a call without effect whose value is dropped
            if v.void:
                return ["let state := (%s).1" % v.text]
            return ["let state := (%s).1" % v.text]
        if kind == "UnaryOperator" and s["opcode"] in ("++", "--"):
            return self.store(s["inner"][0], s["opcode"][0], V("int", "1", lit=1), env, s)
        if kind == "CompoundAssignOperator":
            op = s["opcode"][:-1]
            if op not in ("+", "-", "*"):
                self.fail(s, "operator %s" % s["opcode"])
            return self.store(s["inner"][0], op, self.ex(s["inner"][1], env), env, s)
        if kind == "BinaryOperator" and s["opcode"] == "=":
            return self.store(s["inner"][0], None, self.ex(s["inner"][1], env), env, s)
        if kind in ("ParenExpr",):
            return self.simple(s["inner"][0], env)
        self.fail(s, "statement of kind %s" % kind)

    def store(self, lhs, op, v, env, node):
        lhs = self.unparen(lhs)
        out = []
        if v.void:
            self.fail(node, "value of a void function")
        # target
        if lhs.get("kind") == "MemberExpr":
            b, f = self.member_base(lhs), lhs["name"]
            if b == "state" and f != "pos":
                self.fail(node, "store into state->%s" % f)
            tk = "ptr" if f in ("pos", "ptr") else "int"
            cur = "%s.%s" % (b, f)
        elif lhs.get("kind") == "DeclRefExpr" and lhs["referencedDecl"]["kind"] == "VarDecl":
            nm = lhs["referencedDecl"]["name"]
            if nm not in env["vars"]:
                self.fail(node, "store into %s" % nm)
            tk = env["vars"][nm]
            cur = self.lname(nm)
            if op is not None and nm not in env["defined"]:
                self.fail(node, "%s may be used uninitialised" % nm)
        else:
            self.fail(node, "store into this lvalue (parameters are not written in the subset)")
        if tk == "ptr":
            if op is None:
                if v.kind != "ptr":
                    self.fail(node, "a %s stored into a pointer" % v.kind)
            elif op in ("+", "-"):
                v = self.as_int(v, node)
            else:
                self.fail(node, "pointer %s=" % op)
        else:
            v = self.as_int(v, node)
        if v.eff:
            t = self.fresh()
            out.append("let (state, %s) := %s" % (t, v.text))
            vt = t
        else:
            vt = v.text
        new = vt if op is None else "(%s %s %s)" % (cur, op, vt)
        if lhs.get("kind") == "MemberExpr":
            out.append("let %s := { %s with %s := %s }" % (b, b, f, new))
        else:
            out.append("let %s : Int := %s" % (cur, new))
            env["defined"].add(nm)
        return out

    def cond_lines(self, c, env, node):
        """(lines before, Lean Bool term) of a condition"""
        v = self.as_bool(self.ex(c, env), node)
        if v.eff:
            t = self.fresh("c")
            return ["let (state, %s) := %s" % (t, v.text)], t
        return [], v.text

    def if_stmt(self, s, rest, env, k):
        inner = s["inner"]
        cond, then = inner[0], inner[1]
        els = inner[2] if len(inner) > 2 else None
        out = [self.comment(s, upto=then)]
        pre, c = self.cond_lines(cond, env, s)
        out += pre
        if self.has_jump(then) or (els is not None and self.has_jump(els)):
            # a branch leaves: the rest of the block goes into the branches that fall through
            def sub(b):
                e2 = dict(env, vars=dict(env["vars"]), defined=set(env["defined"]))
                return self.stmts(self.flat(b) + rest, e2, k)
            out.append("if %s then (" % c)
            out += ind(sub(then))
            out.append(") else (")
            if els is not None:
                out.append("  -- else")
            out += ind(sub(els))
            out.append(")")
            return out
        # join: the variables either branch assigns
        names = []
        self.assigned(then, names)
        if els is not None:
            self.assigned(els, names)
        res = {}

        def branch(b):
            e2 = dict(env, vars=dict(env["vars"]), defined=set(env["defined"]))
            box = {}

            def fall(e3):
                box["defined"] = set(e3["defined"])
                return ["@JOIN@"]
            lines = self.stmts(self.flat(b), e2, K(fall, None, None))
            return lines, box["defined"]
        tl, td = branch(then)
        el, ed = branch(els)
        live = [x for x in names if x in ("state", "token") or (x in env["vars"] and x in td and x in ed)]
        join = self.tup(live)
        tl = [x.replace("@JOIN@", join) for x in tl]
        el = [x.replace("@JOIN@", join) for x in el]
        if not live:
            return out[:1] + self.stmts(rest, env, k) if not pre else out + self.stmts(rest, env, k)
        out.append("let %s := if %s then (" % (join, c))
        out += ind(tl)
        out.append(") else (")
        if els is not None:
            out.append("  -- else")
        out += ind(el)
        out.append(")")
        env = dict(env, defined=set(env["defined"]) | {x for x in live if x in env["vars"]})
        return out + self.stmts(rest, env, k)

    def loop(self, s, rest, env, k):
        inner = s["inner"]
        if s["kind"] == "WhileStmt":
            init, cond, step, body = None, inner[0], None, inner[1]
        else:
            init, _, cond, step, body = inner[0], inner[1], inner[2], inner[3], inner[4]
            init = init if init and "kind" in init else None
            cond = cond if cond and "kind" in cond else None
            step = step if step and "kind" in step else None
            if inner[1] and "kind" in inner[1]:
                self.fail(s, "condition variable")
        out = []
        env = dict(env, vars=dict(env["vars"]), defined=set(env["defined"]))
        if init is not None:
            if init.get("kind") == "DeclStmt":
                self.fail(s, "declaration in the for header")
            out.append(self.comment(init))
            out += self.simple(init, env)
        bodyl = self.flat(body) + ([step] if step is not None else [])
        names = []
        for b in bodyl:
            self.assigned(b, names)
        cnames = self.assigned(cond, []) if cond is not None else []
        if any(x != "state" for x in cnames):
            self.fail(s, "loop condition that assigns a local")
        if "token" in names:
            self.fail(s, "loop that writes the token")
        locs = [x for x in names if x != "state"]
        for x in locs:
            if x not in env["vars"]:
                self.fail(s, "loop assigns %s" % x)
            if x not in env["defined"]:
                self.fail(s, "%s is assigned in the loop but not initialised before it" % x)
        if "state" not in names and "state" not in cnames:
            self.fail(s, "loop that does not touch the state (no fuel argument available)")
        ltup = self.tup(locs)

        def unpack():
            if not locs:
                return []
            if len(locs) == 1:
                return ["let %s := l" % self.lname(locs[0])]
            r, acc = [], "l"
            for i, x in enumerate(locs):
                if i < len(locs) - 1:
                    r.append("let %s := %s.1" % (self.lname(x), acc))
                    acc += ".2"
                else:
                    r.append("let %s := %s" % (self.lname(x), acc))
            return r
        lv = "l" if locs else "_"
        out.append(self.comment(s, upto=body))
        # condition
        cl = []
        if cond is None:
            cl = ["(state, true)"]
        else:
            v = self.as_bool(self.ex(cond, env), s)
            cl = [v.text if v.eff else "(state, %s)" % v.text]
        # body
        e2 = dict(env, vars=dict(env["vars"]), defined=set(env["defined"]))
        kb = K(lambda e: ["(state, %s, Flow.next)" % ltup], lambda e: ["(state, %s, Flow.brk)" % ltup],
               lambda e, r: ["(state, %s, Flow.ret %s)" % (ltup, "()" if r is None else r)])
        bl = self.stmts(bodyl, e2, kb)
        rho = "Int" if self.ret == "int" else "Unit"
        out.append("match whileC (L := %s) (ρ := %s)" % (" × ".join(["Int"] * len(locs)) or "Unit", rho))
        out.append("    (fun state %s =>" % lv)
        out += ind(unpack() + cl, 6)
        out.append("    )")
        out.append("    (fun state %s =>" % lv)
        out += ind(unpack() + bl, 6)
        out.append("    )")
        out.append("    (state.buf.length + 1) state %s with" % ltup)
        has_ret = any(x.get("kind") == "ReturnStmt" for x in base.walk(body))
        if has_ret:
            out.append("| (state, %s, some r) => (" % ltup)
            out += ind(k.ret(env, "r"))
            out.append("  )")
            out.append("| (state, %s, none) => (" % ltup)
        else:
            out.append("| (state, %s, _) => (" % ltup)
        out += ind(self.stmts(rest, env, k))
        out.append("  )")
        return out

    def switch(self, s, rest, env, k):
        """switch on a pure value in which every group of labels ends in a return: an if-chain"""
        cond, body = s["inner"][0], s["inner"][1]
        v = self.as_int(self.ex(cond, env), s)
        if v.eff:
            self.fail(s, "switch on a value that touches the state")
        if body.get("kind") != "CompoundStmt":
            self.fail(s, "switch body")
        groups, cur = [], None
        for st in body.get("inner", []):
            labels = []
            while st.get("kind") in ("CaseStmt", "DefaultStmt"):
                if st["kind"] == "CaseStmt":
                    if len(st["inner"]) != 2:
                        self.fail(st, "case range")
                    labels.append(self.ft.const_value(st["inner"][0]))
                    st = st["inner"][1]
                else:
                    labels.append(None)
                    st = st["inner"][0]
            if labels:
                if cur is not None and not self.ends_in_return(cur[1]):
                    self.fail(st, "case group that falls through")
                cur = (labels, [st])
                groups.append(cur)
            else:
                if cur is None:
                    self.fail(st, "statement before the first case")
                cur[1].append(st)
        if not groups or not all(self.ends_in_return(g[1]) for g in groups):
            self.fail(s, "switch with a group that does not end in return")
        if any(x.get("kind") == "BreakStmt" for g in groups for st in g[1] for x in base.walk(st)):
            self.fail(s, "break inside switch")
        out = [self.comment(s, upto=body)]
        default = [g for g in groups if None in g[0]]
        if len(default) > 1:
            self.fail(s, "two defaults")
        others = [g for g in groups if None not in g[0]]
        seen = set()
        close = 0
        for labels, body_ in others:
            if seen & set(labels):
                self.fail(s, "duplicate case")
            seen |= set(labels)
            c = " || ".join("%s == %s" % (v.text, lean_int(x)) for x in labels)
            out.append("if (%s) then (" % c)
            e2 = dict(env, vars=dict(env["vars"]), defined=set(env["defined"]))
            out += ind(self.stmts(body_, e2, k))
            out.append(") else (")
            close += 1
        e2 = dict(env, vars=dict(env["vars"]), defined=set(env["defined"]))
        if default:
            # labels sharing the default group need no test
            out += ind(self.stmts(default[0][1], e2, k))
        else:
            out += ind(self.stmts(rest, e2, k))
        out.append(")" * close)
        return out

    def ends_in_return(self, lst):
        return bool(lst) and lst[-1].get("kind") == "ReturnStmt"

    # ---- whole function --------------------------------------------------------------------------------------------------
    def result(self, env, r):
        parts = []
        for x in self.shape:
            parts.append("state" if x == "state" else "token" if x == "token" else r)
        if any(p is None for p in parts):
            raise Unsupported("%s: control reaches the end of a non-void function" % self.name)
        return [parts[0] if len(parts) == 1 else "(" + ", ".join(parts) + ")"]

    def run(self):
        sig = self.analyse()
        names = [d["name"] for d in base.walk(self.body) if d.get("kind") == "VarDecl"]
        env = {"vars": {}, "defined": set()}
        ps = []
        for nm, kd, t in self.params:
            if kd == "state":
                env["vars"][nm] = "state"; ps.append("(state : CLex)")
            elif kd == "token":
                env["vars"][nm] = "token"; ps.append("(token : CTok)")
            else:
                env["vars"][nm] = "int"; ps.append("(%s : Int)" % self.lname(nm))
            env["defined"].add(nm)
        if len(set(names)) != len(names) or set(names) & set(env["vars"]):
            self.fail(self.fn, "a local name is declared twice")
        lt = {"state": "CLex", "token": "CTok", "ret": "Int"}
        rty = " × ".join(lt[x] for x in self.shape)
        k = K(lambda e: self.result(e, None) if self.ret == "void" else self.no_fall(),
              lambda e: self.no_break(), lambda e, r: self.result(e, r))
        body = self.stmts(self.flat(self.body), env, k)
        proto = self.ft.text(self.fn, upto=self.body)
        doc = ["/-- `%s`" % proto,
               "result: %s" % ", ".join({"state": "the state", "token": "the token", "ret": "the C return value"}[x] for x in self.shape),
               "preconditions of the C function (undefined behaviour otherwise): " + "; ".join(
                   (["state != NULL, state->buffer points to an array of state->len bytes, state->len <= INT_MAX - 2"] if self.has_state else []) +
                   (["token != NULL"] if self.has_token else []) +
                   (["chr is a char value (-128..127)"] if any(t == "char" for _, _, t in self.params) else []) +
                   ([] if (self.has_state or self.has_token) else ["none"])) + " -/"]
        attr = "@[lexc_fn]" if self.has_state else "@[lexc_pred]"
        lines = doc + ["%s def %s %s : %s :=" % (attr, self.lname(self.name), " ".join(ps), rty)] + ind(body)
        return "\n".join(lines), sig

    def no_fall(self):
        raise Unsupported("%s: control reaches the end of a non-void function" % self.name)

    def no_break(self):
        raise Unsupported("%s: break outside a loop" % self.name)


HEADER = """/- GENERATED by translate/c2lean_lexer.py from %s - do not edit.
   One definition per C function of lexer.c, over the prelude Gen/LexerCBase.lean; the C source line precedes each statement.
   Refinement theorems: Lemmas/LexerC*.lean; property theorems: Props/C13Gen.lean, Props/C01Gen.lean. -/
import ScpiVerif.Gen.Tables
import ScpiVerif.Gen.LexerCBase
import ScpiVerif.Gen.LexerCAttr
set_option linter.unusedVariables false
namespace ScpiVerif.Gen.LexerC
"""


def translate_file(path):
    ft = File(path)
    failed, chunks, done = {}, [], []
    for fn in ft.function_decls():
        name = fn["name"]
        try:
            f = Fn(ft, fn)
            text, sig = f.run()
            ft.sigs[name] = sig
            chunks.append(text)
            done.append(name)
        except (Unsupported, KeyError, IndexError, TypeError, AttributeError, ValueError) as e:
            why = str(e) if isinstance(e, Unsupported) else "%s: %s: %s" % (name, type(e).__name__, e)
            failed[name] = why
            chunks.append("/-- NOT TRANSLATED: %s -/\ndef %s : NotTranslated := ⟨%s⟩" % (
                why.replace("-/", "- /"), name + "_" if name in RESERVED else name, json.dumps(why, ensure_ascii=False)))
    text = HEADER % os.path.relpath(path, base.REPO) + "\n" + "\n\n".join(chunks) + "\n\n/-- the functions translated on this run -/\ndef translated : List String := [%s]\n\nend %s\n" % (
        ", ".join(json.dumps(x) for x in done), NAMESPACE)
    return text, failed, done


def stub(why):
    return ("/- GENERATED by translate/c2lean_lexer.py: the translation FAILED, nothing is defined here.\n   reason: %s -/\n"
            "import ScpiVerif.Gen.LexerCBase\nnamespace %s\n\ndef translated : List String := []\n\nend %s\n") % (why.replace("-/", "- /"), NAMESPACE, NAMESPACE)


def generate_lexer(outpath=None):
    """regenerate Gen/LexerC.lean; returns {"changed", "path", "failed": {function or 'all': reason}, "functions": [...]}"""
    outpath = outpath or os.path.join(VERIF, "lean", "ScpiVerif", "Gen", "LexerC.lean")
    path = os.path.join(base.REPO, "libscpi", "src", "lexer.c")
    failed, done = {}, []
    try:
        text, failed, done = translate_file(path)
    except (Unsupported, OSError, subprocess.SubprocessError, ValueError, KeyError, IndexError, TypeError, AttributeError) as e:
        failed = {"all": "%s: %s" % (type(e).__name__, e)}
        text = stub(failed["all"])
    old = None
    if os.path.exists(outpath):
        with open(outpath, encoding="utf-8") as f:
            old = f.read()
    if old != text:
        os.makedirs(os.path.dirname(outpath), exist_ok=True)
        with open(outpath, "w", encoding="utf-8") as f:
            f.write(text)
    return {"changed": old != text, "path": outpath, "failed": failed, "functions": done}


if __name__ == "__main__":
    if "--stdout" in sys.argv:
        t, failed, _ = translate_file(os.path.join(base.REPO, "libscpi", "src", "lexer.c"))
        sys.stdout.write(t)
        if failed:
            sys.stderr.write(json.dumps(failed, indent=1) + "\n")
        sys.exit(1 if failed else 0)
    r = generate_lexer()
    print(json.dumps(r))
    sys.exit(1 if r["failed"] else 0)
