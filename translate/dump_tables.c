/* Table dumper: compiled against /repo/libscpi on every run, for the configuration under check.  Output is parsed by
 * extract.py.  Two programs come out of this file:
 *   default            only public headers and the public API, linked with the whole library.  The error-class table is
 *                      read off the BEHAVIOUR of SCPI_ErrorPush for all 65536 codes (which event-status bits one push
 *                      sets), so it does not depend on how error.c represents it;
 *   -DDUMP_REGS        #includes ieee488.c for its file-static register tables (no other way to read them). */
#include <stdio.h>
#include <string.h>
#ifdef DUMP_REGS
#include "ieee488.c"
#else
#include "scpi/scpi.h"
#include "scpi/units.h"
#include "scpi/utils.h"
#include "utils_private.h"
#endif

static void hex(const char *s) {
    if (!s) { printf("NULL"); return; }
    if (!*s) { printf("-"); return; }
    while (*s) printf("%02x", (unsigned char) *s++);
}

#ifdef DUMP_REGS
int main(void) {
    int i;
    for (i = 0; i < SCPI_REG_COUNT; i++)
        printf("REGDETAIL %d %d %d\n", i, (int) scpi_reg_details[i].type, (int) scpi_reg_details[i].group);
    for (i = 0; i < SCPI_REG_GROUP_COUNT; i++) {
        const scpi_reg_group_info_t *g = &scpi_reg_group_details[i];
        printf("REGGROUP %d %d %d %d %d %d %d %u\n", i, (int) g->event, (int) g->enable, (int) g->condition,
               (int) g->ptfilt, (int) g->ntfilt, (int) g->parent_reg, (unsigned) g->parent_bit);
    }
    return 0;
}
#else
static const scpi_command_t no_cmds[] = { SCPI_CMD_LIST_END };
static size_t w_write(scpi_t *c, const char *d, size_t n) { (void) c; (void) d; return n; }

/* maximal ranges of codes whose push sets the same non-empty set of event-status bits, ascending; printed as
 * "ERRCLASS <highest> <lowest> <bits>" (the order error.c itself uses: from = upper bound, to = lower bound) */
static void dump_error_classes(void) {
    static scpi_t ctx; static scpi_interface_t ifc; static scpi_error_t q[4]; static char in[16];
    long code, start = 0; unsigned cur = 0;
#if USE_DEVICE_DEPENDENT_ERROR_INFORMATION && !USE_MEMORY_ALLOCATION_FREE
    static char heap[64];
#endif
    memset(&ifc, 0, sizeof ifc); ifc.write = w_write;
    SCPI_Init(&ctx, no_cmds, &ifc, scpi_units_def, "a", "b", "c", "d", in, sizeof in, q, 4);
#if USE_DEVICE_DEPENDENT_ERROR_INFORMATION && !USE_MEMORY_ALLOCATION_FREE
    SCPI_InitHeap(&ctx, heap, sizeof heap);
#endif
    for (code = -32768; code <= 32768; code++) {
        unsigned bits = 0;
        if (code <= 32767) {
            SCPI_ErrorClear(&ctx); SCPI_RegSet(&ctx, SCPI_REG_ESR, 0);
            SCPI_ErrorPush(&ctx, (int16_t) code);
            bits = (unsigned) SCPI_RegGet(&ctx, SCPI_REG_ESR);
        }
        if (bits != cur) {
            if (cur) printf("ERRCLASS %ld %ld %u\n", code - 1, start, cur);
            cur = bits; start = code;
        }
    }
    SCPI_ErrorClear(&ctx);
}

int main(void) {
    int i;
    dump_error_classes();
#define X(def, val, str) printf("ERRDESC %d ", (int)(val)); hex(SCPI_ErrorTranslate(val)); printf(" "); hex(str); printf("\n");
#if USE_FULL_ERROR_LIST
#define XE X
#else
#define XE(def, val, str)
#endif
    LIST_OF_ERRORS
#undef X
#undef XE
    printf("ERRFALLBACK "); hex(SCPI_ErrorTranslate(12345)); printf("\n");
#define C(n) printf("CONST %s %ld\n", #n, (long)(n))
    C(STB_R01); C(STB_PRO); C(STB_QMA); C(STB_QES); C(STB_MAV); C(STB_ESR); C(STB_SRQ); C(STB_OPS);
    C(ESR_OPC); C(ESR_REQ); C(ESR_QER); C(ESR_DER); C(ESR_EER); C(ESR_CER); C(ESR_URQ); C(ESR_PON);
    C(SCPI_REG_STB); C(SCPI_REG_SRE); C(SCPI_REG_ESR); C(SCPI_REG_ESE); C(SCPI_REG_OPER); C(SCPI_REG_OPERE);
    C(SCPI_REG_OPERC); C(SCPI_REG_QUES); C(SCPI_REG_QUESE); C(SCPI_REG_QUESC); C(SCPI_REG_COUNT); C(SCPI_REG_NONE);
    C(SCPI_REG_CLASS_STB); C(SCPI_REG_CLASS_SRE); C(SCPI_REG_CLASS_EVEN); C(SCPI_REG_CLASS_ENAB);
    C(SCPI_REG_CLASS_COND); C(SCPI_REG_CLASS_NTR); C(SCPI_REG_CLASS_PTR);
    C(SCPI_REG_GROUP_COUNT);
    C(SCPI_STD_ERROR_DESC_MAX_STRING_LENGTH);
    C(SCPI_ERROR_QUEUE_OVERFLOW); C(SCPIDEFINE_DESCRIPTION_MAX_PARTS);
    C(USE_DEVICE_DEPENDENT_ERROR_INFORMATION); C(USE_MEMORY_ALLOCATION_FREE); C(USE_CUSTOM_DTOSTRE);
    C(USE_FULL_ERROR_LIST); C(USE_COMMAND_TAGS); C(HAVE_SNPRINTF);
    C(SCPI_UNIT_NONE); C(SCPI_FORMAT_ASCII); C(SCPI_FORMAT_NORMAL); C(SCPI_FORMAT_SWAPPED);
    C(SCPI_FORMAT_BIGENDIAN); C(SCPI_FORMAT_LITTLEENDIAN);
    printf("STR LINE_ENDING "); hex(SCPI_LINE_ENDING); printf("\n");
    printf("STR STD_VERSION "); hex(SCPI_STD_VERSION_REVISION); printf("\n");
    for (i = 0; scpi_units_def[i].name; i++) {
        printf("UNIT "); hex(scpi_units_def[i].name);
        printf(" %d %a\n", (int) scpi_units_def[i].unit, (double) scpi_units_def[i].mult);
    }
    for (i = 0; scpi_special_numbers_def[i].name; i++) {
        printf("SPECIAL "); hex(scpi_special_numbers_def[i].name); printf(" %d\n", (int) scpi_special_numbers_def[i].tag);
    }
    for (i = 0; scpi_bool_def[i].name; i++) {
        printf("BOOLDEF "); hex(scpi_bool_def[i].name); printf(" %d\n", (int) scpi_bool_def[i].tag);
    }
    return 0;
}
#endif
