/* Table dumper: compiled against /repo/libscpi on every run.  It #includes the .c files
 * that hold file-static tables so that the values printed are the ones the compiler sees
 * for the configuration under check.  Output is parsed by extract.py. */
#include <stdio.h>
#include <string.h>
#include "error.c"
#undef X
#undef XE
#include "ieee488.c"
#include "scpi/units.h"
#include "scpi/utils.h"
#include "utils_private.h"

static void hex(const char *s) {
    if (!s) { printf("NULL"); return; }
    if (!*s) { printf("-"); return; }
    while (*s) printf("%02x", (unsigned char) *s++);
}

int main(void) {
    int i;
    for (i = 0; i < ERROR_DEFS_N; i++)
        printf("ERRCLASS %d %d %u\n", errs[i].from, errs[i].to, (unsigned) errs[i].esrBit);
#define X(def, val, str) printf("ERRDESC %d ", (int)(val)); hex(SCPI_ErrorTranslate(val)); printf(" "); hex(str); printf("\n");
#if USE_FULL_ERROR_LIST
#define XE X
#else
#define XE(def, val, str)
#endif
    LIST_OF_ERRORS
#undef X
#undef XE
    printf("ERRFALLBACK "); hex(SCPI_ErrorTranslate(12345)); printf("\n");
    for (i = 0; i < SCPI_REG_COUNT; i++)
        printf("REGDETAIL %d %d %d\n", i, (int) scpi_reg_details[i].type, (int) scpi_reg_details[i].group);
    for (i = 0; i < SCPI_REG_GROUP_COUNT; i++) {
        const scpi_reg_group_info_t *g = &scpi_reg_group_details[i];
        printf("REGGROUP %d %d %d %d %d %d %d %u\n", i, (int) g->event, (int) g->enable, (int) g->condition,
               (int) g->ptfilt, (int) g->ntfilt, (int) g->parent_reg, (unsigned) g->parent_bit);
    }
#define C(n) printf("CONST %s %ld\n", #n, (long)(n))
    C(STB_R01); C(STB_PRO); C(STB_QMA); C(STB_QES); C(STB_MAV); C(STB_ESR); C(STB_SRQ); C(STB_OPS);
    C(ESR_OPC); C(ESR_REQ); C(ESR_QER); C(ESR_DER); C(ESR_EER); C(ESR_CER); C(ESR_URQ); C(ESR_PON);
    C(SCPI_REG_STB); C(SCPI_REG_SRE); C(SCPI_REG_ESR); C(SCPI_REG_ESE); C(SCPI_REG_OPER); C(SCPI_REG_OPERE);
    C(SCPI_REG_OPERC); C(SCPI_REG_QUES); C(SCPI_REG_QUESE); C(SCPI_REG_QUESC); C(SCPI_REG_COUNT); C(SCPI_REG_NONE);
    C(SCPI_REG_CLASS_STB); C(SCPI_REG_CLASS_SRE); C(SCPI_REG_CLASS_EVEN); C(SCPI_REG_CLASS_ENAB);
    C(SCPI_REG_CLASS_COND); C(SCPI_REG_CLASS_NTR); C(SCPI_REG_CLASS_PTR);
    C(SCPI_REG_GROUP_COUNT);
    C(SCPI_STD_ERROR_DESC_MAX_STRING_LENGTH);
    C(SCPI_ERROR_QUEUE_OVERFLOW); C(SCPIDEFINE_DESCRIPTION_MAX_PARTS);
    C(USE_DEVICE_DEPENDENT_ERROR_INFORMATION); C(USE_MEMORY_ALLOCATION_FREE); C(USE_CUSTOM_DTOSTRE);
    C(USE_FULL_ERROR_LIST); C(USE_COMMAND_TAGS); C(HAVE_SNPRINTF);
    C(SCPI_UNIT_NONE); C(SCPI_FORMAT_ASCII); C(SCPI_FORMAT_NORMAL); C(SCPI_FORMAT_SWAPPED);
    C(SCPI_FORMAT_BIGENDIAN); C(SCPI_FORMAT_LITTLEENDIAN);
    printf("STR LINE_ENDING "); hex(SCPI_LINE_ENDING); printf("\n");
    printf("STR STD_VERSION "); hex(SCPI_STD_VERSION_REVISION); printf("\n");
    for (i = 0; scpi_units_def[i].name; i++) {
        printf("UNIT "); hex(scpi_units_def[i].name);
        printf(" %d %a\n", (int) scpi_units_def[i].unit, (double) scpi_units_def[i].mult);
    }
    for (i = 0; scpi_special_numbers_def[i].name; i++) {
        printf("SPECIAL "); hex(scpi_special_numbers_def[i].name); printf(" %d\n", (int) scpi_special_numbers_def[i].tag);
    }
    for (i = 0; scpi_bool_def[i].name; i++) {
        printf("BOOLDEF "); hex(scpi_bool_def[i].name); printf(" %d\n", (int) scpi_bool_def[i].tag);
    }
    return 0;
}
