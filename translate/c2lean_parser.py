#!/usr/bin/env python3
"""C -> Lean translator for the stateful core of libscpi/src/parser.c (clang typed AST), two sections:

    result_c : writeData flushData writeDelimiter writeNewLine writeSemicolon SCPI_ResultCharacters -> lean/ScpiVerif/Gen/ResultC.lean
    input_c  : SCPI_Input                                                                          -> lean/ScpiVerif/Gen/InputC.lean

    python3 translate/c2lean_parser.py [--stdout] [result_c|input_c]

clang is run WITHOUT -DSCPI_PARSER_VERIF (the hook calls of the verification build are not part of the translated text).
Reused from translate/c2lean.py: the clang invocation, `Unsupported`, locations, the stub writer.

Subset (anything else raises `Unsupported` for the function, with the source line; the function is then emitted as
`def f : NotTranslated := ⟨reason⟩`):

  function ::= ret name '(' scpi_t '*' context {',' param} ')' block       ret: void | bool | integer type
  param    ::= integer-type x | bool x | [const] char '*' q
  stmt     ::= lvalue '=' expr ';' | lvalue ('+=' | '-=') expr ';' | lvalue ('++' | '--') ';' | ('++' | '--') lvalue ';'
             | type local ['=' expr] ';' | call ';' | 'if' '(' expr ')' stmt ['else' stmt] | block | 'return' [expr] ';'
             | 'while' '(' expr ')' stmt | 'for' '(' [simple] ';' [expr] ';' [simple] ')' stmt | 'break' ';' | 'continue' ';' | ';'
  lvalue   ::= local | context '->' path (scalar) | bufptr '[' expr ']'
  path     ::= field {'.' field}
  expr     ::= literal | enum-constant | local | parameter | context '->' path | expr (+ - * == != < <= > >= && ||) expr
             | ('!' | '-' | '+') expr | expr '?' expr ':' expr | '(' expr ')' | '(' type ')' expr | string-literal
             | q | q '==' NULL | context | context '->' ptrpath | bufptr '+' expr | '&' bufptr '[' expr ']' | sizeof string-literal
             | call
  bufptr   ::= context '->' path (a `char *` field) | local `char *` initialised from a bufptr expression
  call     ::= f '(' context {',' expr} ')'                                  f translated before (same file)
             | external '(' ... ')'                                          see EXTERNALS: becomes a PARAMETER of the generated function
             | context '->' 'interface' '->' cb '(' context ... ')'          see CALLBACKS: the application's callbacks
             | strlen '(' string-literal | q ')' | memcpy '(' bufptr ',' q ',' expr ')' | memmove '(' bufptr ',' bufptr ',' expr ')'

C semantics, as decided here (target: what clang's default x86-64 target says - int 32, long / size_t / int_fast16_t 64 bits, plain
char signed; the widths are read from the AST types, never assumed):
  * every integer value is a Lean `Int`; every C type has its range.  The translator does interval arithmetic on every
    expression (leaves: the range of their C type; literals and enum constants exact).
      - UNSIGNED arithmetic and conversions TO an unsigned type wrap: `wrapU64` / `wrapU32` is emitted unless the interval shows
        that the exact result is in range;
      - a conversion to a SIGNED type that may not fit is implementation-defined: `wrapS32` / `wrapS64` / `wrapS16` (two's
        complement, what gcc and clang document), emitted unless the interval shows that it fits;
      - SIGNED arithmetic (+ - * ++ --) that may leave the range of its type is undefined behaviour: the exact result is
        computed and a CHECK `context.chk (decide (lo ≤ e ∧ e ≤ hi))` is emitted before the statement; a failed check sets the
        flag `ub` of the generated state (it is never cleared), so the refinement theorems can state `ub = false`.
  * comparisons and `! && ||` yield `Bool`; Bool as a number is `if b then 1 else 0`; a number as a truth value is `x != 0`.
    `&&` `||` `?:` operands must be free of checks; a call with effects in the RIGHT operand of `&&` / `||` is hoisted under a
    guard (`let (context, r) := if a then f context … else (context, false)`).  A full expression may contain at most one call
    with effects, and then no read of the state outside the arguments of that call (C leaves the order unspecified).
  * the state pointer `context` is not NULL (precondition of every function; used as a truth value it is `true`); the structure
    is passed by value and every function returns it (first component).  Only the fields that the translated functions touch
    appear in the generated structure `CCtx ρ`; everything else of `scpi_t` is the opaque component `rest : ρ`, which only
    external functions can change.  Nested members `context->a.b` are the field `a_b`.
  * a `char *` field of the state (`buffer.data`) is the array it points to (`List UInt8`, never NULL, never reseated - an
    assignment to it is refused); a pointer into it is that field plus an offset (`Int`).  `p[i] = v`, memcpy and memmove are
    preceded by a CHECK that the bytes touched lie inside the object (`0 ≤ off ∧ off + n ≤ length`); out of bounds the Lean
    definitions are total but meaningless and `ub` is set.  memcpy from a parameter into the buffer assumes that the two objects
    do not overlap (pointer validity / aliasing is not modelled).
  * a `[const] char *` parameter is `Option (List UInt8)`: `none` = NULL, `some l` = pointer to the first byte of an object with
    content `l`.  As a truth value: `isSome`.  Reading through it is preceded by a CHECK `isSome` and of the length.
    A string literal is `some [bytes…, 0]`; `strlen` is `cstrlen` (bytes before the first 0), `sizeof` of a literal its size.
  * enum constants are emitted as named `Int` constants with the value clang computed; an enum-typed field has the range of
    clang's underlying type (unsigned int unless a constant is negative).
  * `context->interface`, `context->interface->flush`, … (pointers to the application's callback table) can only be tested
    (`Bool` fields `interface_nonnull`, `interface_flush_nonnull`) or called.  CALLBACKS (the model of the application, the same
    one the hand model and the harness use): `write(context, p, n)` appends the first n bytes of p to the log `written` and returns n
    (CHECK: p not NULL, n ≤ size of the object); `flush(context)` increments `flushes` and returns SCPI_RES_OK.  A call through a
    pointer is preceded by a CHECK that `interface` and the function pointer are not NULL.
  * EXTERNALS (functions of the library that are not translated here) become parameters of the generated function, in the order
    of the table below, each taking and returning the whole state: the refinement theorem instantiates them with the hand model's
    functions.  Pointer arguments must point into `context->buffer.data` and are passed as offsets.
  * loops become a definition of their own by structural recursion on a fuel argument; the initial fuel is the expression of
    FUEL (a hint only: running out of fuel sets the flag `outOfFuel` of the state, and the refinement theorem proves that it stays
    false).  `return` inside a loop is refused.
  * locals declared without initialiser may not be read before an assignment on the same path (checked per path; an `if` takes
    the rest of its block into both branches, so paths are explicit).
"""
import json, os, re, subprocess, sys
HERE = os.path.dirname(os.path.abspath(__file__))
sys.path.insert(0, HERE)
import c2lean
from c2lean import Unsupported, loc_of, walk, strip, LEAN_KEYWORDS

VERIF = os.path.dirname(HERE)

SECTIONS = {
    "result_c": {"namespace": "ScpiVerif.Gen.ResultC", "file": "ResultC.lean",
                 "funcs": ["writeData", "flushData", "writeDelimiter", "writeNewLine", "writeSemicolon", "SCPI_ResultCharacters"]},
    "input_c": {"namespace": "ScpiVerif.Gen.InputC", "file": "InputC.lean", "funcs": ["SCPI_Input"]},
}
# external functions: (lean parameter name, argument roles, result)   roles: ctx | &path | bufptr | int
EXTERNALS = {
    "scpiParser_detectProgramMessageUnit": ("ext_detect", ["&parser_state", "bufptr", "int"], "int"),
    "SCPI_Parse": ("ext_parse", ["ctx", "bufptr", "int"], "bool"),
    "SCPI_ErrorPush": ("ext_errorPush", ["ctx", "int"], "void"),
}
EXT_ORDER = ["ext_detect", "ext_parse", "ext_errorPush"]
EXT_TYPES = {"ext_detect": "CCtx ρ → Int → Int → CCtx ρ × Int", "ext_parse": "CCtx ρ → Int → Int → CCtx ρ × Bool",
             "ext_errorPush": "CCtx ρ → Int → CCtx ρ"}
EXT_DOC = {"ext_detect": "scpiParser_detectProgramMessageUnit(&context->parser_state, context->buffer.data + off, len)",
           "ext_parse": "SCPI_Parse(context, context->buffer.data + off, len)", "ext_errorPush": "SCPI_ErrorPush(context, code)"}
CALLBACKS = {"write": ("cb_write", ["ctx", "ptr", "int"], "int"), "flush": ("cb_flush", ["ctx"], "int")}
FUEL = {"SCPI_Input": ["(context.buffer_position + 2).toNat"]}

CT = {"int": ("s", 32), "long": ("s", 64), "long long": ("s", 64), "short": ("s", 16), "char": ("s", 8), "signed char": ("s", 8),
      "unsigned char": ("u", 8), "unsigned short": ("u", 16), "unsigned int": ("u", 32), "unsigned long": ("u", 64),
      "unsigned long long": ("u", 64), "_Bool": "bool", "bool": "bool", "void": "void"}


def rng(ct):
    s, b = ct
    return (-(1 << (b - 1)), (1 << (b - 1)) - 1) if s == "s" else (0, (1 << b) - 1)


def lint(n):
    return str(n) if n >= 0 else "(%d)" % n


class V:
    def __init__(self, kind, text, atom=False, lo=None, hi=None, lit=None, ct=None, **kw):
        self.kind, self.text, self.atom, self.lo, self.hi, self.lit, self.ct = kind, text, atom, lo, hi, lit, ct
        self.__dict__.update(kw)

    def p(self):
        return self.text if self.atom else "(" + self.text + ")"


class Pre:
    def __init__(self):
        self.lines, self.cond, self.ncalls, self.reads, self.argreads = [], None, 0, 0, 0


class Ctl:
    def __init__(self, brk=None, cont=None, ret=True):
        self.brk, self.cont, self.ret = brk, cont, ret


def c_unescape(s):
    assert s[0] == '"' and s[-1] == '"'
    s, out, i = s[1:-1], [], 0
    simple = {"n": 10, "r": 13, "t": 9, "\\": 92, '"': 34, "'": 39, "a": 7, "b": 8, "f": 12, "v": 11, "?": 63}
    while i < len(s):
        ch = s[i]
        if ch != "\\":
            out += list(ch.encode("latin-1")); i += 1; continue
        i += 1
        e = s[i]
        if e in simple:
            out.append(simple[e]); i += 1
        elif e == "x":
            m = re.match(r"[0-9a-fA-F]+", s[i + 1:]); out.append(int(m.group(0), 16) & 255); i += 1 + len(m.group(0))
        elif e in "01234567":
            m = re.match(r"[0-7]{1,3}", s[i:]); out.append(int(m.group(0), 8) & 255); i += len(m.group(0))
        else:
            raise Unsupported("escape \\%s in a string literal" % e)
    return out


class Unit:
    """one generated file"""
    def __init__(self, ast, src, wanted):
        self.ast, self.src, self.wanted = ast, src, wanted
        self.fields = {}      # lean field -> (lean type, comment)
        self.enums = {}       # constant -> value
        self.funcs = {}       # name -> sig
        self.enumvals, self.enumtypes = {}, {}
        self.uses_cb = False
        for n in walk(ast):
            if n.get("kind") == "EnumDecl":
                prev, neg, names = -1, False, []
                for c in n.get("inner", []):
                    if c.get("kind") != "EnumConstantDecl":
                        continue
                    val = None
                    for x in c.get("inner", []):
                        for y in walk(x):
                            if "value" in y and y.get("kind") in ("ConstantExpr", "IntegerLiteral"):
                                val = int(y["value"]); break
                        if val is not None:
                            break
                    val = prev + 1 if val is None else val
                    prev = val
                    neg = neg or val < 0
                    self.enumvals[c["id"]] = (c["name"], val)
                    names.append(c["name"])
                if n.get("name"):
                    self.enumtypes["enum " + n["name"]] = ("s", 32) if neg else ("u", 32)

    def ctype(self, t):
        q = t.get("desugaredQualType", t.get("qualType")) if isinstance(t, dict) else t
        toks = [x for x in q.replace("*", " * ").split() if x not in ("const", "restrict", "__restrict")]
        if "volatile" in toks:
            raise Unsupported("volatile type %s" % q)
        s = " ".join(toks)
        s = {"short int": "short", "long int": "long", "unsigned long int": "unsigned long", "signed int": "int"}.get(s, s)
        if s in CT:
            return CT[s]
        if s in self.enumtypes:
            return self.enumtypes[s]
        if s in ("char *", "void *"):
            return "ptr"
        if s in ("struct _scpi_t *", "scpi_t *"):
            return "ctx"
        if s.endswith("*") or "(" in s:
            return "opaqueptr"
        raise Unsupported("type '%s'" % q)

    def text(self, node, upto=None, stmt=False):
        b, _, _ = loc_of(node["range"]["begin"])
        if upto is not None:
            e, _, _ = loc_of(upto["range"]["begin"])
            s = self.src[b:e]
        else:
            e, tl, _ = loc_of(node["range"]["end"])
            e += tl
            s = self.src[b:e]
            if stmt and re.match(r"\s*;", self.src[e:e + 8]) and node.get("kind") not in ("CompoundStmt", "IfStmt", "WhileStmt", "ForStmt"):
                s += ";"
        s = re.sub(r"/\*.*?\*/", " ", s, flags=re.S)
        s = "\n".join(l for l in s.split("\n") if not l.strip().startswith("#"))
        return " ".join(s.split()).replace("-/", "- /")

    def where(self, node):
        b, _, _ = loc_of(node["range"]["begin"])
        return "?" if b is None else "line %d" % (self.src.count("\n", 0, b) + 1)

    def field(self, name, ltype, comment):
        if name in self.fields and self.fields[name][0] != ltype:
            raise Unsupported("field %s used at two types" % name)
        self.fields.setdefault(name, (ltype, comment))


class Func:
    def __init__(self, u, fn):
        self.u, self.fn, self.name = u, fn, fn["name"]
        self.body = [c for c in fn["inner"] if c.get("kind") == "CompoundStmt"][0]
        self.exts, self.aux, self.nloop, self.ntmp = set(), [], 0, 0
        self.notes = []

    def fail(self, node, msg):
        raise Unsupported("%s, %s: %s  [%s]" % (self.name, self.u.where(node), msg, self.u.text(node)[:80]))

    def ln(self, n):
        return n + "_c" if (n in LEAN_KEYWORDS or n in ("context_", "fuel", "rest", "ub") or re.match(r"r\d+_$", n)) else n

    def tmp(self):
        self.ntmp += 1
        return "r%d_" % self.ntmp

    def ltype(self, ct):
        return {"bool": "Bool", "ptr": "Option (List UInt8)"}.get(ct, "Int")

    # ---------------------------------------------------------------- value helpers
    def lit(self, v, ct):
        return V("int", lint(v), True, v, v, v, ct)

    def as_int(self, v, node):
        if v.kind == "int":
            return v
        if v.kind == "bool":
            if v.lit is not None:
                return self.lit(int(v.lit), ("s", 32))
            r = V("int", "if %s then 1 else 0" % v.text, False, 0, 1, None, ("s", 32))
            r.frombool = v
            return r
        self.fail(node, "a number is needed here")

    def as_bool(self, v, node):
        if v.kind == "bool":
            return v
        if v.kind == "int":
            if v.lit is not None:
                return V("bool", "true" if v.lit != 0 else "false", True, lit=(v.lit != 0))
            if getattr(v, "frombool", None) is not None:
                return v.frombool
            return V("bool", "%s != 0" % v.p(), False)
        if v.kind == "ptr":
            if v.obj == "param":
                return V("bool", "%s.isSome" % v.base, True)
            if v.obj == "null":
                return V("bool", "false", True, lit=False)
            return V("bool", "true", True, lit=True)     # a pointer into an object of the state / a literal
        if v.kind == "ctx":
            return V("bool", "true", True, lit=True)
        if v.kind == "opaque":
            f = "_".join(v.path) + "_nonnull"
            self.u.field(f, "Bool", "`context->%s != NULL`" % "->".join(v.path))
            return V("bool", "context.%s" % f, True)
        self.fail(node, "a truth value is needed here")

    def not_(self, v):
        if v.lit is not None:
            return V("bool", "false" if v.lit else "true", True, lit=not v.lit)
        return V("bool", "!%s" % v.p(), False)

    def check(self, pre, cond, node, why):
        if pre.cond is not None:
            self.fail(node, "a checked operation (%s) inside a conditionally evaluated operand" % why)
        pre.lines.append("-- CHECK (%s): %s" % (self.u.where(node), why))
        pre.lines.append("let context := context.chk (%s)" % cond)

    def convert(self, v, to, node):
        """integral conversion of an int value to C type `to`"""
        if to == "bool":
            return self.as_bool(v, node)
        v = self.as_int(v, node)
        lo, hi = rng(to)
        if lo <= v.lo and v.hi <= hi:
            r = V("int", v.text, v.atom, v.lo, v.hi, v.lit, to)
            return r
        if v.lit is not None:
            w = (v.lit - lo) % (hi - lo + 1) + lo
            return self.lit(w, to)
        fn = "wrap%s%d" % ("U" if to[0] == "u" else "S", to[1])
        if fn not in ("wrapU64", "wrapU32", "wrapS64", "wrapS32", "wrapS16"):
            self.fail(node, "conversion to a %d-bit type that may not fit" % to[1])
        return V("int", "%s %s" % (fn, v.p()), False, lo, hi, None, to)

    def arith(self, op, a, b, ct, node, pre):
        if ct == "bool" or ct[1] < 32:
            self.fail(node, "arithmetic at a type narrower than int")
        if op == "+": lo, hi = a.lo + b.lo, a.hi + b.hi
        elif op == "-": lo, hi = a.lo - b.hi, a.hi - b.lo
        elif op == "*":
            c = [a.lo * b.lo, a.lo * b.hi, a.hi * b.lo, a.hi * b.hi]; lo, hi = min(c), max(c)
        else:
            self.fail(node, "binary operator '%s'" % op)
        if a.lit is not None and b.lit is not None:
            val = {"+": a.lit + b.lit, "-": a.lit - b.lit, "*": a.lit * b.lit}[op]
            e = V("int", lint(val), True, val, val, val, ct)
        else:
            e = V("int", "%s %s %s" % (a.p(), op, b.p()), False, lo, hi, None, ct)
        tl, th = rng(ct)
        if tl <= lo and hi <= th:
            return e
        if ct[0] == "u":
            return self.convert(e, ct, node)
        self.check(pre, "decide (%s ≤ %s ∧ %s ≤ %s)" % (lint(tl), e.text, e.text, lint(th)), node,
                   "signed overflow of `%s` is undefined" % self.u.text(node))
        e.lo, e.hi = max(lo, tl), min(hi, th)
        return e

    # ---------------------------------------------------------------- member paths
    def path(self, n):
        """['a','b'] for context->a.b ; None when n is not rooted at the state pointer"""
        n = strip(n)
        if n.get("kind") != "MemberExpr":
            return None
        base = n["inner"][0]
        while base.get("kind") in ("ParenExpr", "ImplicitCastExpr") and (base.get("kind") == "ParenExpr" or base.get("castKind") in ("LValueToRValue", "NoOp")):
            base = base["inner"][0]
        if base.get("kind") == "DeclRefExpr" and base["referencedDecl"].get("name") == self.ctxname and n.get("isArrow"):
            return [n["name"]]
        p = self.path(base)
        if p is None:
            return None
        # a.b (no arrow) or p->b through a pointer member (only the callback table)
        return p + [("->" if n.get("isArrow") else "") + n["name"]]

    # ---------------------------------------------------------------- expressions
    def expr(self, n, env, pre):
        u = self.u
        k = n.get("kind")
        if k == "ParenExpr":
            return self.expr(n["inner"][0], env, pre)
        if k == "IntegerLiteral":
            return self.lit(int(n["value"]), u.ctype(n["type"]))
        if k == "CharacterLiteral":
            return self.lit(int(n["value"]), u.ctype(n["type"]))
        if k == "StringLiteral":
            by = c_unescape(n["value"]) + [0]
            return V("ptr", None, True, obj="lit", bytes=by, base="(some [%s])" % ", ".join(map(str, by)), off=None)
        if k in ("ImplicitCastExpr", "CStyleCastExpr"):
            ck, sub = n.get("castKind"), n["inner"][0]
            if ck in ("LValueToRValue", "NoOp", "ArrayToPointerDecay"):
                return self.expr(sub, env, pre)
            if ck == "BitCast":
                v = self.expr(sub, env, pre)
                if v.kind != "ptr":
                    self.fail(n, "cast %s" % ck)
                return v
            if ck == "IntegralCast":
                return self.convert(self.expr(sub, env, pre), u.ctype(n["type"]), n)
            if ck in ("IntegralToBoolean", "PointerToBoolean"):
                return self.as_bool(self.expr(sub, env, pre), n)
            if ck == "NullToPointer":
                return V("ptr", None, True, obj="null", base="none", off=None)
            if ck == "ToVoid":
                self.expr(sub, env, pre)
                return V("void", "()", True)
            self.fail(n, "cast %s" % ck)
        if k == "DeclRefExpr":
            rd = n["referencedDecl"]
            nm = rd.get("name")
            if rd.get("kind") == "EnumConstantDecl":
                name, val = u.enumvals[rd["id"]]
                u.enums[name] = val
                return V("int", name, True, val, val, val, ("s", 32))
            if rd.get("kind") not in ("ParmVarDecl", "VarDecl"):
                self.fail(n, "reference to %s %s" % (rd.get("kind"), nm))
            if nm == self.ctxname:
                return V("ctx", "context", True)
            if nm in env:
                e = env[nm]
                if not e["init"]:
                    self.fail(n, "'%s' may be read before it is assigned" % nm)
                if e["ct"] == "bool":
                    return V("bool", self.ln(nm), True)
                if e["ct"] == "ptr":
                    return V("ptr", None, True, obj="param", base=self.ln(nm), off=None)
                if e["ct"] == "bufptr":
                    return V("ptr", None, True, obj="field", base=e["base"], off=V("int", self.ln(nm) + "_off", True, *rng(("s", 64)), None, ("s", 64)))
                lo, hi = rng(e["ct"])
                return V("int", self.ln(nm), True, lo, hi, None, e["ct"])
            self.fail(n, "use of '%s'" % nm)
        if k == "MemberExpr":
            p = self.path(n)
            if p is None:
                self.fail(n, "member access not rooted at %s->" % self.ctxname)
            ct = u.ctype(n["type"])
            if any(x.startswith("->") for x in p) or ct == "opaqueptr":
                if ct != "opaqueptr":
                    self.fail(n, "value read through a pointer member")
                return V("opaque", None, True, path=[x.lstrip("->") for x in p])
            f = "_".join(p)
            pre.reads += 1
            cdesc = "`%s context->%s`" % (n["type"]["qualType"], ".".join(p))
            if ct == "ptr":
                u.field(f, "List UInt8", cdesc + ": the array it points to")
                return V("ptr", None, True, obj="field", base="context." + f, off=None)
            if ct == "bool":
                u.field(f, "Bool", cdesc)
                return V("bool", "context." + f, True)
            if ct in ("void", "ctx"):
                self.fail(n, "member of this type")
            u.field(f, "Int", cdesc + " (range %d .. %d)" % rng(ct))
            lo, hi = rng(ct)
            return V("int", "context." + f, True, lo, hi, None, ct)
        if k == "UnaryExprOrTypeTraitExpr" and n.get("name") == "sizeof":
            a = strip(n["inner"][0]) if n.get("inner") else None
            if a is not None and a.get("kind") == "StringLiteral":
                v = len(c_unescape(a["value"])) + 1
                return self.lit(v, u.ctype(n["type"]))
            self.fail(n, "sizeof of something that is not a string literal")
        if k == "UnaryOperator":
            op = n.get("opcode")
            if op == "!":
                return self.not_(self.as_bool(self.expr(n["inner"][0], env, pre), n))
            if op in ("-", "+"):
                v = self.as_int(self.expr(n["inner"][0], env, pre), n)
                if op == "+":
                    return v
                return self.arith("-", self.lit(0, u.ctype(n["type"])), v, u.ctype(n["type"]), n, pre)
            if op == "&":
                a = strip(n["inner"][0])
                if a.get("kind") == "ArraySubscriptExpr":
                    b, i = self.subscript(a, env, pre)
                    return self.ptr_add(b, i, n)
                p = self.path(a)
                if p is not None:
                    return V("addr", None, True, path=p)
                self.fail(n, "address of this expression")
            self.fail(n, "unary operator '%s' inside an expression" % op)
        if k == "BinaryOperator":
            return self.binop(n, env, pre)
        if k == "ConditionalOperator":
            c = self.as_bool(self.expr(n["inner"][0], env, pre), n)
            sub = Pre(); sub.cond = "?"
            a, b = self.expr(n["inner"][1], env, sub), self.expr(n["inner"][2], env, sub)
            if sub.lines or sub.ncalls:
                self.fail(n, "operands of ?: with effects")
            pre.reads += sub.reads
            if a.kind == "bool" and b.kind == "bool":
                return V("bool", "if %s then %s else %s" % (c.text, a.text, b.text), False)
            a, b = self.as_int(a, n), self.as_int(b, n)
            return V("int", "if %s then %s else %s" % (c.text, a.text, b.text), False, min(a.lo, b.lo), max(a.hi, b.hi), None, u.ctype(n["type"]))
        if k == "CallExpr":
            return self.call(n, env, pre)
        self.fail(n, "expression of kind %s" % k)

    def ptr_add(self, b, i, node):
        if b.kind != "ptr" or b.obj != "field":
            self.fail(node, "pointer arithmetic on something that is not a pointer into a buffer of the state")
        if b.off is None:
            off = i
        else:
            off = V("int", "%s + %s" % (b.off.p(), i.p()), False, b.off.lo + i.lo, b.off.hi + i.hi)
        return V("ptr", None, True, obj="field", base=b.base, off=off)

    def subscript(self, n, env, pre):
        b = self.expr(n["inner"][0], env, pre)
        i = self.as_int(self.expr(n["inner"][1], env, pre), n)
        return b, i

    def off_text(self, p):
        return "0" if p.off is None else p.off.text

    def binop(self, n, env, pre):
        u = self.u
        op = n["opcode"]
        if op in ("&&", "||"):
            a = self.as_bool(self.expr(n["inner"][0], env, pre), n)
            sub = Pre()
            sub.cond = a.text if op == "&&" else "!%s" % a.p()
            if pre.cond is not None:
                sub.cond = "(%s) && (%s)" % (pre.cond, sub.cond)
            b = self.as_bool(self.expr(n["inner"][1], env, sub), n)
            pre.lines += sub.lines; pre.ncalls += sub.ncalls; pre.reads += sub.reads; pre.argreads += sub.argreads
            if a.lit is not None:
                return b if a.lit == (op == "&&") else a
            return V("bool", "%s %s %s" % (a.p(), op, b.p()), False)
        if op in ("=", ",") or op.endswith("="):
            if op not in ("==", "!=", "<=", ">="):
                self.fail(n, "operator '%s' inside an expression" % op)
        a, b = self.expr(n["inner"][0], env, pre), self.expr(n["inner"][1], env, pre)
        if op in ("==", "!=", "<", "<=", ">", ">="):
            if a.kind == "ptr" or b.kind == "ptr":
                if op not in ("==", "!=") or not (a.obj == "null" or b.obj == "null"):
                    self.fail(n, "pointer comparison other than with NULL")
                v = self.as_bool(b if a.obj == "null" else a, n)
                return v if op == "!=" else self.not_(v)
            if a.kind in ("opaque", "ctx") or b.kind in ("opaque", "ctx"):
                self.fail(n, "comparison of this pointer")
            if a.kind == "bool" and b.kind == "bool" and op in ("==", "!="):
                return V("bool", "%s %s %s" % (a.p(), op, b.p()), False)
            a, b = self.as_int(a, n), self.as_int(b, n)
            if op in ("==", "!="):
                return V("bool", "%s %s %s" % (a.p(), op, b.p()), False)
            return V("bool", "decide (%s %s %s)" % (a.p(), {"<": "<", "<=": "≤", ">": ">", ">=": "≥"}[op], b.p()), False)
        if op in ("+", "-", "*"):
            if a.kind == "ptr" and op == "+":
                return self.ptr_add(a, self.as_int(b, n), n)
            if b.kind == "ptr" and op == "+":
                return self.ptr_add(b, self.as_int(a, n), n)
            if a.kind == "ptr" or b.kind == "ptr":
                self.fail(n, "pointer subtraction")
            return self.arith(op, self.as_int(a, n), self.as_int(b, n), u.ctype(n["type"]), n, pre)
        self.fail(n, "binary operator '%s'" % op)

    # ---------------------------------------------------------------- calls
    def callee(self, n):
        c = n["inner"][0]
        while c.get("kind") in ("ImplicitCastExpr", "ParenExpr"):
            c = c["inner"][0]
        return c

    def is_ctx(self, a):
        a = strip(a)
        while a.get("kind") == "ImplicitCastExpr" and a.get("castKind") in ("LValueToRValue", "NoOp"):
            a = strip(a["inner"][0])
        return a.get("kind") == "DeclRefExpr" and a["referencedDecl"].get("name") == self.ctxname

    def emit_call(self, pre, text, rkind, node):
        """hoist a call with effects; returns the V of its result"""
        pre.ncalls += 1
        if rkind == "void":
            if pre.cond is not None:
                self.fail(node, "void call in a conditionally evaluated operand")
            pre.lines.append("let context := %s" % text)
            return V("void", "()", True)
        r = self.tmp()
        if pre.cond is not None:
            if rkind != "bool":
                self.fail(node, "call in a conditionally evaluated operand whose value is not a truth value")
            pre.lines.append("let (context, %s) := if %s then %s else (context, false)" % (r, pre.cond, text))
        else:
            pre.lines.append("let (context, %s) := %s" % (r, text))
        if rkind == "bool":
            return V("bool", r, True)
        lo, hi = rng(rkind)
        return V("int", r, True, lo, hi, None, rkind)

    def call(self, n, env, pre):
        u = self.u
        cal = self.callee(n)
        args = n["inner"][1:]
        reads0 = pre.reads
        def done(v):
            pre.argreads += pre.reads - reads0
            return v
        if cal.get("kind") == "MemberExpr":
            p = self.path(cal)
            if p is None or len(p) != 2 or p[0] != "interface" or not p[1].startswith("->") or p[1][2:] not in CALLBACKS:
                self.fail(n, "call through a pointer that is not a callback of CALLBACKS")
            cbn = p[1][2:]
            lean, roles, ret = CALLBACKS[cbn]
            u.uses_cb = True
            if len(args) != len(roles):
                self.fail(n, "argument count of the callback")
            at = self.args(args, roles, env, pre, n)
            u.field("interface_nonnull", "Bool", "`context->interface != NULL`")
            u.field("interface_%s_nonnull" % cbn, "Bool", "`context->interface->%s != NULL`" % cbn)
            self.check(pre, "context.interface_nonnull && context.interface_%s_nonnull" % cbn, n, "call through `context->interface->%s`" % cbn)
            rct = u.ctype(n["type"])
            return done(self.emit_call(pre, " ".join([lean, "context"] + at), rct, n))
        if cal.get("kind") != "DeclRefExpr":
            self.fail(n, "call of this expression")
        name = cal["referencedDecl"].get("name")
        if name in u.funcs:
            sig = u.funcs[name]
            if len(args) != len(sig["params"]) + 1 or not self.is_ctx(args[0]):
                self.fail(n, "arguments of %s (the first must be the state pointer)" % name)
            at = self.args(args[1:], [("ptr" if ct == "ptr" else "bool" if ct == "bool" else "int") for _, ct in sig["params"]], env, pre, n)
            self.exts |= set(sig["exts"])
            ex = [e for e in EXT_ORDER if e in sig["exts"]]
            return done(self.emit_call(pre, " ".join([self.ln(name)] + ex + ["context"] + at), sig["ret"], n))
        if name in EXTERNALS:
            lean, roles, ret = EXTERNALS[name]
            if len(args) != len(roles):
                self.fail(n, "argument count of %s" % name)
            at = self.args(args, roles, env, pre, n)
            self.exts.add(lean)
            rct = u.ctype(n["type"])
            if (ret == "void") != (rct == "void") or (ret == "bool") != (rct == "bool"):
                self.fail(n, "result type of %s is not what EXTERNALS says" % name)
            return done(self.emit_call(pre, " ".join([lean, "context"] + at), rct, n))
        if name == "strlen":
            v = self.expr(args[0], env, pre)
            if v.kind != "ptr" or v.obj not in ("lit", "param"):
                self.fail(n, "strlen of something that is not a literal or a parameter")
            if v.obj == "lit":
                m = v.bytes.index(0)
                return V("int", "cstrlen (%s.getD [])" % v.base, False, m, m, None, u.ctype(n["type"]))
            self.check(pre, "%s.isSome && (%s.getD []).contains 0" % (v.base, v.base), n, "strlen needs a NUL-terminated object")
            return V("int", "cstrlen (%s.getD [])" % v.base, False, 0, (1 << 63) - 1, None, u.ctype(n["type"]))
        if name in ("memcpy", "memmove"):
            d, s = self.expr(args[0], env, pre), self.expr(args[1], env, pre)
            cnt = self.as_int(self.expr(args[2], env, pre), n)
            if d.kind != "ptr" or d.obj != "field":
                self.fail(n, "%s destination is not a pointer into a buffer of the state" % name)
            if s.kind != "ptr" or s.obj not in ("field", "param", "lit"):
                self.fail(n, "%s source" % name)
            if s.obj == "field" and name == "memcpy":
                self.fail(n, "memcpy inside one object (overlap would be undefined): use memmove")
            if s.obj == "field" and s.base != d.base:
                self.fail(n, "memmove between two different buffers")
            do = self.off_text(d)
            if s.obj == "field":
                so, sl, sv, extra = self.off_text(s), "%s.length" % s.base, s.base, ""
            else:
                so, sl, sv, extra = "0", "(%s.getD []).length" % s.base, "(%s.getD [])" % s.base, "%s.isSome && " % s.base
            par = lambda t: t if re.match(r"^[\w.]+$", t) else "(" + t + ")"
            self.check(pre, "%sdecide (0 ≤ %s ∧ %s + %s ≤ %s.length ∧ 0 ≤ %s ∧ %s + %s ≤ %s)" % (extra, do, do, cnt.p(), d.base, so, so, cnt.p(), sl), n,
                       "%s: both ranges inside their objects" % name)
            f = d.base.split(".", 1)[1]
            pre.lines.append("let context := { context with %s := bwrite %s %s (bslice %s %s %s) }" % (f, d.base, par(do), sv, par(so), cnt.p()))
            pre.ncalls += 0
            return V("void", "()", True)
        self.fail(n, "call of '%s', which is neither translated here nor listed in EXTERNALS" % name)

    def args(self, args, roles, env, pre, node):
        out = []
        for a, r in zip(args, roles):
            if r == "ctx":
                if not self.is_ctx(a):
                    self.fail(a, "the state argument is not the function's own state pointer")
                continue
            v = self.expr(a, env, pre)
            if r.startswith("&"):
                if v.kind != "addr" or ".".join(v.path) != r[1:]:
                    self.fail(a, "argument must be &context->%s" % r[1:])
            elif r == "bufptr":
                if v.kind != "ptr" or v.obj != "field" or v.base != "context.buffer_data":
                    self.fail(a, "pointer argument that does not point into context->buffer.data")
                t = self.off_text(v)
                out.append(t if re.match(r"^[\w.]+$", t) else "(" + t + ")")
            elif r == "ptr":
                if v.kind != "ptr" or v.obj not in ("param", "lit", "null"):
                    self.fail(a, "pointer argument that is not a parameter, a literal or NULL")
                out.append(v.base)
            elif r == "bool":
                out.append(self.as_bool(v, a).p())
            else:
                out.append(self.as_int(v, a).p())
        return out

    # ---------------------------------------------------------------- statements
    def ret_text(self, v):
        return "context" if v is None else "(context, %s)" % v

    def flush(self, pre, pad, out):
        for l in pre.lines:
            out.append(pad + l)
        if pre.ncalls > 1:
            raise Unsupported("%s: two calls with effects in one expression" % self.name)
        if pre.ncalls == 1 and pre.reads - pre.argreads > 0:
            raise Unsupported("%s: a call with effects and a read of the state in the same expression (order unspecified in C)" % self.name)

    def block(self, lst, env, k, ind, ctl):
        u = self.u
        out, pad = [], "  " * ind
        for i, s in enumerate(lst):
            kind = s.get("kind")
            rest = lst[i + 1:]
            if kind == "NullStmt":
                continue
            if kind == "CompoundStmt":
                return out + self.block(s.get("inner", []) + rest, env, k, ind, ctl)
            if kind == "ReturnStmt":
                if not ctl.ret:
                    self.fail(s, "return inside a loop")
                out.append(pad + "-- " + u.text(s, stmt=True))
                if s.get("inner"):
                    pre = Pre()
                    v = self.expr(s["inner"][0], env, pre)
                    v = self.as_bool(v, s) if self.ret == "bool" else self.as_int(v, s)
                    self.flush(pre, pad, out)
                    out.append(pad + self.ret_text(v.text))
                else:
                    out.append(pad + self.ret_text(None))
                return out
            if kind == "BreakStmt":
                if ctl.brk is None:
                    self.fail(s, "break outside a loop")
                out.append(pad + "-- break;")
                return out + ctl.brk(env, ind)
            if kind == "ContinueStmt":
                if ctl.cont is None:
                    self.fail(s, "continue outside a loop")
                out.append(pad + "-- continue;")
                return out + ctl.cont(env, ind)
            if kind == "IfStmt":
                if s.get("hasInit") or s.get("hasVar"):
                    self.fail(s, "if with declaration")
                inner = s["inner"]
                cond, then = inner[0], inner[1]
                els = inner[2] if len(inner) > 2 else None
                out.append(pad + "-- " + u.text(s, upto=then) + (" {" if then.get("kind") == "CompoundStmt" else ""))
                pre = Pre()
                c = self.as_bool(self.expr(cond, env, pre), cond)
                self.flush(pre, pad, out)
                kk = lambda e, d, rest=rest: self.block(rest, e, k, d, ctl)
                tl = then.get("inner", []) if then.get("kind") == "CompoundStmt" else [then]
                el = [] if els is None else (els.get("inner", []) if els.get("kind") == "CompoundStmt" else [els])
                if c.lit is not None:
                    out.append(pad + "-- (condition is constant: %s)" % c.text)
                    return out + self.block(tl if c.lit else el, dict(env), kk, ind, ctl)
                out.append(pad + "if %s then" % c.text)
                out += self.block(tl, self.envcopy(env), kk, ind + 1, ctl)
                if els is not None:
                    out.append(pad + "-- } else {")
                out.append(pad + "else")
                out += self.block(el, self.envcopy(env), kk, ind + 1, ctl)
                return out
            if kind in ("WhileStmt", "ForStmt"):
                lines, env = self.loop(s, env, ind, ctl)
                out += lines
                continue
            if kind == "DeclStmt":
                out.append(pad + "-- " + u.text(s, stmt=True))
                env = self.envcopy(env)
                for d in s["inner"]:
                    if d.get("kind") != "VarDecl" or d.get("storageClass"):
                        self.fail(s, "declaration")
                    ct = u.ctype(d["type"])
                    nm = d["name"]
                    if nm in env or nm == self.ctxname:
                        self.fail(s, "local '%s' shadows another name" % nm)
                    init = [c for c in d.get("inner", []) if "Comment" not in c.get("kind", "")]
                    if ct == "ptr":
                        if not init:
                            self.fail(s, "pointer local without initialiser")
                        pre = Pre()
                        v = self.expr(init[0], env, pre)
                        self.flush(pre, pad, out)
                        if v.kind != "ptr" or v.obj != "field":
                            self.fail(s, "pointer local that does not point into a buffer of the state")
                        out.append(pad + "let %s_off : Int := %s" % (self.ln(nm), self.off_text(v)))
                        env[nm] = {"ct": "bufptr", "init": True, "base": v.base}
                        continue
                    if ct in ("void", "ctx", "opaqueptr"):
                        self.fail(s, "local of type %s" % d["type"]["qualType"])
                    if init:
                        pre = Pre()
                        v = self.expr(init[0], env, pre)
                        v = self.as_bool(v, s) if ct == "bool" else self.fit(self.as_int(v, s), ct, s)
                        self.flush(pre, pad, out)
                        out.append(pad + "let %s : %s := %s" % (self.ln(nm), self.ltype(ct), v.text))
                    env[nm] = {"ct": ct, "init": bool(init)}
                continue
            out.append(pad + "-- " + u.text(s, stmt=True))
            lines, env = self.simple(s, env, pad)
            out += lines
        return out + k(env, ind)

    def envcopy(self, env):
        return {k: dict(v) for k, v in env.items()}

    def fit(self, v, ct, node):
        lo, hi = rng(ct)
        if not (lo <= v.lo and v.hi <= hi):
            self.fail(node, "value used at a narrower type without a conversion in the AST")
        return v

    def simple(self, s, env, pad):
        u = self.u
        s0 = strip(s)
        k = s0.get("kind")
        out, pre = [], Pre()
        if k == "CStyleCastExpr" and s0.get("castKind") == "ToVoid":
            s0 = strip(s0["inner"][0]); k = s0.get("kind")
        if k == "CallExpr":
            self.expr(s0, env, pre)
            self.flush(pre, pad, out)
            return out, env
        if k == "UnaryOperator" and s0.get("opcode") in ("++", "--"):
            lhs = strip(s0["inner"][0])
            lct = u.ctype(lhs["type"])
            if lct == "bool" or lct == "ptr":
                self.fail(s0, "++/-- on this type")
            cur = self.as_int(self.expr(lhs, env, pre), s0)
            act = lct if lct[1] >= 32 else ("s", 32)
            v = self.arith("+" if s0["opcode"] == "++" else "-", self.convert(cur, act, s0), self.lit(1, act), act, s0, pre)
            return self.store(lhs, self.convert(v, lct, s0), env, pad, s0, pre, out)
        if k == "CompoundAssignOperator":
            op = s0["opcode"]
            if op not in ("+=", "-=", "*="):
                self.fail(s0, "compound assignment '%s'" % op)
            lhs = strip(s0["inner"][0])
            lct, cl, cr = u.ctype(lhs["type"]), u.ctype(s0["computeLHSType"]), u.ctype(s0["computeResultType"])
            rhs = self.as_int(self.expr(s0["inner"][1], env, pre), s0)
            pre_l = Pre(); pre_l.cond = pre.cond
            cur = self.as_int(self.expr(lhs, env, pre_l), s0)
            pre.lines += pre_l.lines; pre.reads += pre_l.reads
            v = self.arith(op[0], self.convert(cur, cl, s0), rhs, cr, s0, pre)
            return self.store(lhs, self.convert(v, lct, s0), env, pad, s0, pre, out)
        if k == "BinaryOperator" and s0.get("opcode") == "=":
            lhs = strip(s0["inner"][0])
            v = self.expr(s0["inner"][1], env, pre)
            return self.store(lhs, v, env, pad, s0, pre, out)
        self.fail(s, "statement of kind %s" % k)

    def store(self, lhs, v, env, pad, node, pre, out):
        u = self.u
        k = lhs.get("kind")
        if k == "DeclRefExpr" and lhs["referencedDecl"].get("name") in env:
            nm = lhs["referencedDecl"]["name"]
            ct = env[nm]["ct"]
            if ct in ("ptr", "bufptr"):
                self.fail(node, "assignment to a pointer variable")
            v = self.as_bool(v, node) if ct == "bool" else self.fit(self.as_int(v, node), ct, node)
            self.flush(pre, pad, out)
            out.append(pad + "let %s : %s := %s" % (self.ln(nm), self.ltype(ct), v.text))
            env = self.envcopy(env)
            env[nm]["init"] = True
            return out, env
        if k == "MemberExpr":
            p = self.path(lhs)
            ct = u.ctype(lhs["type"])
            if p is None or any(x.startswith("->") for x in p) or ct in ("ptr", "opaqueptr", "void", "ctx"):
                self.fail(node, "assignment to this member")
            f = "_".join(p)
            if ct == "bool":
                u.field(f, "Bool", "`%s context->%s`" % (lhs["type"]["qualType"], ".".join(p)))
                v = self.as_bool(v, node)
            else:
                u.field(f, "Int", "`%s context->%s` (range %d .. %d)" % ((lhs["type"]["qualType"], ".".join(p)) + rng(ct)))
                v = self.fit(self.as_int(v, node), ct, node)
            self.flush(pre, pad, out)
            out.append(pad + "let context := { context with %s := %s }" % (f, v.text))
            return out, env
        if k == "ArraySubscriptExpr":
            b, i = self.subscript(lhs, env, pre)
            if b.kind != "ptr" or b.obj != "field":
                self.fail(node, "store through a pointer that does not point into a buffer of the state")
            p = self.ptr_add(b, i, node)
            v = self.as_int(v, node)
            if v.lit is None or not (0 <= v.lit <= 127):
                self.fail(node, "store of a byte that is not a literal 0..127")
            self.check(pre, "decide (0 ≤ %s ∧ %s < %s.length)" % (p.off.text, p.off.text, b.base), node, "`%s` inside the object" % u.text(lhs))
            self.flush(pre, pad, out)
            f = b.base.split(".", 1)[1]
            out.append(pad + "let context := { context with %s := %s.set %s.toNat %d }" % (f, b.base, p.off.p(), v.lit))
            return out, env
        self.fail(node, "assignment to this left-hand side")

    # ---------------------------------------------------------------- loops
    def assigned_locals(self, n, env):
        res = []
        for x in walk(n):
            k = x.get("kind")
            if (k == "BinaryOperator" and x.get("opcode") == "=") or k == "CompoundAssignOperator" or \
               (k == "UnaryOperator" and x.get("opcode") in ("++", "--")):
                l = strip(x["inner"][0])
                if l.get("kind") == "DeclRefExpr" and l["referencedDecl"].get("name") in env and l["referencedDecl"]["name"] not in res:
                    res.append(l["referencedDecl"]["name"])
        return res

    def loop(self, s, env, ind, ctl):
        u = self.u
        pad = "  " * ind
        out = []
        if s["kind"] == "ForStmt":
            init, _var, cond, inc, body = (s["inner"] + [{}] * 5)[:5]
            if _var:
                self.fail(s, "for with a condition variable")
            if init:
                if init.get("kind") == "DeclStmt":
                    self.fail(s, "declaration in the for header")
                out.append(pad + "-- (for: initialisation) " + u.text(init))
                l, env = self.simple(init, env, pad)
                out += l
        else:
            cond, body = s["inner"][0], s["inner"][1]
            inc = None
        self.nloop += 1
        hints = FUEL.get(self.name, [])
        if self.nloop > len(hints):
            self.fail(s, "loop number %d of this function has no fuel expression in FUEL" % self.nloop)
        lname = "%s_loop%d" % (self.ln(self.name), self.nloop)
        av = [v for v in env if v in self.assigned_locals(s, env)]
        for v in av:
            if not env[v]["init"]:
                self.fail(s, "'%s' is assigned in the loop but has no value before it" % v)
            if env[v]["ct"] in ("ptr", "bufptr"):
                self.fail(s, "pointer variable assigned in a loop")
        used = {x["referencedDecl"].get("name") for x in walk(s) if x.get("kind") == "DeclRefExpr"}
        ro = [v for v in env if v not in av and env[v]["init"] and v in used]   # read-only variables the loop mentions
        def typ(v):
            return "Int" if env[v]["ct"] == "bufptr" else self.ltype(env[v]["ct"])
        def nm(v):
            return self.ln(v) + ("_off" if env[v]["ct"] == "bufptr" else "")
        tup = lambda e=None: "(" + ", ".join(["context"] + [self.ln(v) for v in av]) + ")" if av else "context"
        rtype = " × ".join(["CCtx ρ"] + [typ(v) for v in av])
        exts_ph = "@EXTS@"   # the externals of the whole function are known only at the end
        call = lambda fuel: " ".join([lname, exts_ph] + [nm(v) for v in ro] + [fuel, "context"] + [self.ln(v) for v in av])
        lenv = self.envcopy(env)
        lctl = Ctl(brk=lambda e, d: ["  " * d + tup()], ret=False)
        recur = lambda e, d: ["  " * d + call("fuel")]
        if inc:
            def after(e, d):
                l, e2 = self.simple(inc, e, "  " * d)
                return ["  " * d + "-- (for: step) " + u.text(inc)] + l + recur(e2, d)
            lctl.cont = after
        else:
            lctl.cont = recur
        body_l = body.get("inner", []) if body.get("kind") == "CompoundStmt" else [body]
        hdr = u.text(s, upto=body) + (" {" if body.get("kind") == "CompoundStmt" else "")
        L = ["/-- the loop `%s` of `%s` (%s): one unfolding per unit of fuel; out of fuel sets `outOfFuel` -/" % (hdr.rstrip(" {"), self.name, u.where(s)),
             "def %s %s %s: Nat → CCtx ρ → %s :=" % (lname, "@EXTPARAMS@", "".join("(%s : %s) " % (nm(v), typ(v)) for v in ro),
                                               " → ".join([typ(v) for v in av] + [rtype])),
             "  fun fuel_ context_ %s=> match fuel_, context_ %swith" % ("".join(self.ln(v) + " " for v in av), "".join(", " + self.ln(v) + " " for v in av)),
             "  | 0, context%s => %s" % ("".join(", " + self.ln(v) for v in av),
                                        "(" + ", ".join(["{ context with outOfFuel := true }"] + [self.ln(v) for v in av]) + ")" if av else "{ context with outOfFuel := true }"),
             "  | fuel + 1, context%s =>" % "".join(", " + self.ln(v) for v in av),
             "    -- " + hdr]
        pre = Pre()
        c = None
        if cond:
            c = self.as_bool(self.expr(cond, lenv, pre), cond)
        tmp = []
        self.flush(pre, "    ", tmp)
        L += tmp
        if c is None or c.lit is True:
            L += self.block(body_l, lenv, lctl.cont, 2, lctl)
        elif c.lit is False:
            L.append("    " + tup())
        else:
            L.append("    if %s then" % c.text)
            L += self.block(body_l, lenv, lctl.cont, 3, lctl)
            L.append("    else")
            L.append("      " + tup())
        self.aux.append(L)
        out.append(pad + "-- " + hdr + " … }   (fuel: " + hints[self.nloop - 1] + ")")
        out.append(pad + "let %s := %s" % (tup(), call("(" + hints[self.nloop - 1] + ")")))
        return out, env

    # ---------------------------------------------------------------- whole function
    def run(self):
        u = self.u
        rt = self.fn["type"]["qualType"]
        rts = rt[:rt.index("(")].strip()
        self.ret = u.ctype({"qualType": rts, "desugaredQualType": self.desugar(rts)})
        if self.ret in ("ptr", "ctx", "opaqueptr"):
            raise Unsupported("%s: return type %s" % (self.name, rts))
        if self.fn.get("variadic"):
            raise Unsupported("%s: variadic" % self.name)
        pds = [c for c in self.fn["inner"] if c.get("kind") == "ParmVarDecl"]
        if not pds or u.ctype(pds[0]["type"]) != "ctx":
            raise Unsupported("%s: the first parameter is not scpi_t *" % self.name)
        self.ctxname = pds[0].get("name")
        env, params, pre_doc = {}, [], []
        for p in pds[1:]:
            if "name" not in p:
                raise Unsupported("%s: unnamed parameter" % self.name)
            ct = u.ctype(p["type"])
            if ct in ("ctx", "opaqueptr", "void"):
                raise Unsupported("%s: parameter %s of type %s" % (self.name, p["name"], p["type"]["qualType"]))
            env[p["name"]] = {"ct": ct, "init": True}
            params.append((p["name"], ct))
            if ct not in ("ptr", "bool"):
                pre_doc.append("%d ≤ %s ≤ %d" % (rng(ct)[0], p["name"], rng(ct)[1]))
        for x in walk(self.body):
            if x.get("kind") == "UnaryOperator" and x.get("opcode") == "&":
                a = strip(x["inner"][0])
                if a.get("kind") == "DeclRefExpr":
                    raise Unsupported("%s, %s: address of a variable" % (self.name, u.where(x)))
            if x.get("kind") in ("BinaryOperator",) and x.get("opcode") == "=":
                l = strip(x["inner"][0])
                if l.get("kind") == "DeclRefExpr" and any(l["referencedDecl"].get("name") == p for p, _ in params):
                    raise Unsupported("%s, %s: assignment to a parameter" % (self.name, u.where(x)))
        def end(e, d):
            if self.ret != "void":
                raise Unsupported("%s: control reaches the end of a non-void function" % self.name)
            return ["  " * d + "context"]
        body = self.block(self.body.get("inner", []), env, end, 1, Ctl())
        exts = [e for e in EXT_ORDER if e in self.exts]
        extp = " ".join("(%s : %s)" % (e, EXT_TYPES[e]) for e in exts)
        rtype = "CCtx ρ" if self.ret == "void" else "CCtx ρ × %s" % self.ltype(self.ret)
        proto = u.text(self.fn, upto=self.body)
        doc = ["/-- `%s`" % proto,
               "result: the state%s" % ("" if self.ret == "void" else ", the C return value")]
        if exts:
            doc.append("external functions (parameters): " + "; ".join("%s = %s" % (e, EXT_DOC[e]) for e in exts))
        doc.append("preconditions of the C function: %s != NULL%s; every CHECK below passes (otherwise `ub` is set) -/" %
                   (self.ctxname, "".join("; " + x for x in pre_doc)))
        head = "def %s %s(context : CCtx ρ) %s: %s :=" % (self.ln(self.name), extp + " " if extp else "",
                                                        "".join("(%s : %s) " % (self.ln(n), self.ltype(ct)) for n, ct in params), rtype)
        fix = lambda l: l.replace("@EXTS@ ", "".join(e + " " for e in exts)).replace("@EXTPARAMS@ ", extp + " " if extp else "")
        text = []
        for a in self.aux:
            text += [fix(l) for l in a] + [""]
        text += doc + [head] + [fix(l) for l in body]
        sig = {"params": params, "ret": self.ret, "exts": exts}
        return "\n".join(text), sig

    def desugar(self, name):
        for n in self.u.ast.get("inner", []):
            if n.get("kind") == "TypedefDecl" and n.get("name") == name:
                t = n["type"]
                return t.get("desugaredQualType", t.get("qualType"))
        return name


PRELUDE = """/-- conversion to a 64-bit / 32-bit unsigned type, unsigned arithmetic: modulo 2^n (C99 6.2.5p9, 6.3.1.3p2) -/
def wrapU64 (x : Int) : Int := x % 18446744073709551616
def wrapU32 (x : Int) : Int := x % 4294967296
/-- conversion to a signed type that may not hold the value: implementation-defined (6.3.1.3p3); two's complement wrap as gcc and clang define it -/
def wrapS64 (x : Int) : Int := (x + 9223372036854775808) % 18446744073709551616 - 9223372036854775808
def wrapS32 (x : Int) : Int := (x + 2147483648) % 4294967296 - 2147483648
def wrapS16 (x : Int) : Int := (x + 32768) % 65536 - 32768

/-- `strlen` of the object `s`: the number of bytes before the first 0 -/
def cstrlen (s : List UInt8) : Int := ((s.takeWhile (· != 0)).length : Int)
/-- the `n` bytes at offset `off` of an object -/
def bslice (b : List UInt8) (off n : Int) : List UInt8 := (b.drop off.toNat).take n.toNat
/-- `src` stored at offset `off` of `dst` (memcpy / memmove; the CHECK before it says that it fits) -/
def bwrite (dst : List UInt8) (off : Int) (src : List UInt8) : List UInt8 := dst.take off.toNat ++ src ++ dst.drop (off.toNat + src.length)

/-- what stands in the place of a function that could not be translated -/
structure NotTranslated where
  reason : String
"""

CB_PRELUDE = """
/-- the application's `interface->write(context, data, len)`: the first `len` bytes of the object at `data` are appended to the
log, the callback returns `len`.  NULL or an object shorter than `len` is undefined behaviour (`ub`). -/
def cb_write (c : CCtx ρ) (data : Option (List UInt8)) (len : Int) : CCtx ρ × Int :=
  ({ c with written := c.written ++ (data.getD []).take len.toNat,
            ub := c.ub || !(data.isSome && decide (0 ≤ len ∧ len ≤ (data.getD []).length)) }, len)

/-- the application's `interface->flush(context)`: counted; returns SCPI_RES_OK -/
def cb_flush (c : CCtx ρ) : CCtx ρ × Int := ({ c with flushes := c.flushes + 1 }, @RES_OK@)
"""


def translate(section, path, flags=()):
    cfg = SECTIONS[section]
    ast = c2lean.clang_ast(path, flags)
    with open(path, encoding="latin-1") as f:
        src = f.read()
    u = Unit(ast, src, cfg["funcs"])
    decls = {}
    for n in ast.get("inner", []):
        if n.get("kind") == "FunctionDecl" and any(c.get("kind") == "CompoundStmt" for c in n.get("inner", [])) and loc_of(n["loc"])[2]:
            if n["name"] in cfg["funcs"]:
                decls[n["name"]] = n
    def callees(fn):
        out = []
        for x in walk(fn):
            if x.get("kind") == "DeclRefExpr" and x.get("referencedDecl", {}).get("kind") == "FunctionDecl":
                c = x["referencedDecl"]["name"]
                if c in decls and c not in out:
                    out.append(c)
        return out
    order, state, failed = [], {}, {}
    def visit(name):
        if state.get(name) == "done":
            return
        if state.get(name) == "open":
            raise Unsupported("recursion through %s" % name)
        state[name] = "open"
        for c in callees(decls[name]):
            visit(c)
        state[name] = "done"
        order.append(name)
    for name in decls:
        try:
            visit(name)
        except Unsupported as e:
            state[name] = "done"
            if name not in order:
                order.append(name)
            failed[name] = str(e)
    bodies, done = [], []
    def placeholder(name, why):
        failed[name] = why
        bodies.append("/-- `%s` is NOT TRANSLATED: %s -/\ndef %s : NotTranslated := ⟨%s⟩\n" %
                      (name, why.replace("\n", " ").replace("-/", "- /"), name, json.dumps(why[:300], ensure_ascii=False)))
    for name in order:
        if name in failed:
            placeholder(name, failed[name]); continue
        try:
            text, sig = Func(u, decls[name]).run()
        except Unsupported as e:
            placeholder(name, str(e)); continue
        except (KeyError, IndexError, TypeError, AttributeError, ValueError, AssertionError) as e:
            placeholder(name, "translator error %s: %s" % (type(e).__name__, e)); continue
        u.funcs[name] = sig
        done.append(name)
        bodies.append(text + "\n")
    for w in cfg["funcs"]:
        if w not in done and w not in failed:
            if w == "writeSemicolon":      # optional: older sources do not have it
                continue
            placeholder(w, "no definition of %s in %s" % (w, os.path.basename(path)))
    ns = cfg["namespace"]
    L = ["/- GENERATED by translate/c2lean_parser.py (section %s) from %s (clang typed AST). Do not edit. -/" % (section, path),
         "set_option linter.unusedVariables false\n", "namespace %s\n" % ns, PRELUDE]
    if u.enums:
        L.append("/-! enum constants, with the values clang computed -/")
        for k, v in sorted(u.enums.items(), key=lambda kv: (kv[1], kv[0])):
            L.append("def %s : Int := %s" % (k, lint(v)))
        L.append("")
    L.append("/-- the part of `scpi_t` that the translated functions touch (integers as `Int` within the range of their C type), the\n"
             "rest of it (`rest`, opaque here: only external functions can change it), and two flags of the translation: `ub` = a CHECK\n"
             "failed (the C behaviour is undefined from there on), `outOfFuel` = a loop ran out of fuel -/")
    L.append("structure CCtx (ρ : Type) where")
    for f, (t, c) in u.fields.items():
        L.append("  /-- %s -/" % c)
        L.append("  %s : %s" % (f, t))
    if u.uses_cb:
        L.append("  /-- every byte handed to `interface->write`, in order -/\n  written : List UInt8")
        L.append("  /-- number of calls of `interface->flush` -/\n  flushes : Nat")
    L.append("  ub : Bool\n  outOfFuel : Bool\n  rest : ρ\nderiving DecidableEq\n")
    L.append("variable {ρ : Type}\n")
    L.append("/-- record the outcome of a CHECK -/\ndef CCtx.chk (c : CCtx ρ) (ok : Bool) : CCtx ρ := if ok then c else { c with ub := true }")
    if u.uses_cb:
        ok = [v for (nm_, v) in u.enumvals.values() if nm_ == "SCPI_RES_OK"]
        if len(ok) != 1:
            raise Unsupported("no enum constant SCPI_RES_OK")
        L.append(CB_PRELUDE.replace("@RES_OK@", lint(ok[0])))
    L.append("")
    L += bodies
    L.append("/-- the C functions translated in this run -/")
    L.append("def translated : List String := [%s]\n" % ", ".join('"%s"' % d for d in done))
    L.append("end %s" % ns)
    return "\n".join(L) + "\n", failed, done


def generate(section, outdir=None, flags=()):
    cfg = SECTIONS[section]
    outdir = outdir or os.path.join(VERIF, "lean", "ScpiVerif", "Gen")
    outpath = os.path.join(outdir, cfg["file"])
    path = os.path.join(c2lean.REPO, "libscpi", "src", "parser.c")
    failed, done = {}, []
    try:
        text, failed, done = translate(section, path, flags)
    except (Unsupported, OSError, subprocess.SubprocessError, ValueError, KeyError, IndexError, TypeError, AttributeError) as e:
        failed = {"all": "%s: %s" % (type(e).__name__, e)}
        text = c2lean.stub(cfg["namespace"], failed["all"]).replace("c2lean.py", "c2lean_parser.py")
    old = None
    if os.path.exists(outpath):
        with open(outpath, encoding="utf-8") as f:
            old = f.read()
    if old != text:
        os.makedirs(outdir, exist_ok=True)
        with open(outpath, "w", encoding="utf-8") as f:
            f.write(text)
    return {"changed": old != text, "path": outpath, "failed": failed, "functions": done}


if __name__ == "__main__":
    secs = [a for a in sys.argv[1:] if a in SECTIONS] or list(SECTIONS)
    rc = 0
    res = {}
    for s in secs:
        if "--stdout" in sys.argv:
            t, failed, done = translate(s, os.path.join(c2lean.REPO, "libscpi", "src", "parser.c"))
            sys.stdout.write(t)
            if failed:
                sys.stderr.write(json.dumps(failed, indent=1) + "\n"); rc = 1
        else:
            res[s] = generate(s)
            rc = rc or (1 if res[s]["failed"] else 0)
    if res:
        print(json.dumps(res))
    sys.exit(rc)
