#!/usr/bin/env python3
"""C -> Lean translator for a small imperative subset of C, driven by clang's typed AST.

    python3 translate/c2lean.py            regenerate lean/ScpiVerif/Gen/FifoC.lean from $VERIF_REPO/libscpi/src/fifo.c
    python3 translate/c2lean.py --stdout   print the generated text instead

The functions of libscpi/src/fifo.c are turned into Lean definitions over a structure `CFifo α` (state passing, no monad).
The theorems of lean/ScpiVerif/Lemmas/FifoC.lean prove that these GENERATED definitions refine the hand-written model
ScpiVerif.Fifo on every well-formed state, so a semantic change of fifo.c changes the generated file and breaks a proof.

Subset (everything else raises `Unsupported` for the function that contains it - the translator never guesses):

  function   ::= ret-type name '(' state-struct '*' p {',' param} ')' '{' stmt* '}'       ret-type: void | bool | int16_t | int
  param      ::= int16_t x | int x | bool x | [const] elem '*' p | int16_t '*' p
  stmt       ::= lvalue '=' expr ';' | lvalue ('+='|'-=') expr ';' | lvalue '++' ';' | lvalue '--' ';' (also prefix)
               | int16_t/int/bool local = expr ';' | f(args) ';' | lvalue '=' f(args) ';'      (f translated before)
               | 'if' '(' expr ')' stmt ['else' stmt] | '{' stmt* '}' (as a branch) | 'return' [expr] ';' | ';'
  lvalue     ::= p '->' scalar-field | p '->' array-field '[' expr ']' | p '->' array-field (= array parameter)
               | '*' q | local
  expr       ::= integer-literal | local | scalar parameter | p '->' scalar-field | p '->' array-field '[' expr ']' | '*' q
               | expr (+ - % & == != < <= > >= && ||) expr | ('!' | '-' | '+') expr | expr '?' expr ':' expr | '(' expr ')'
               | q | '!' q | q '==' NULL | q '!=' NULL          (NULL tests of a pointer parameter)
               | f(args)                                        (f translated before and writing nothing)
  where p is the state pointer parameter and q a pointer parameter to one element / one int16_t.

C semantics, as decided here (see notes/EXT_C2LEAN_REPORT.md):
  * int16_t / bool operands are promoted to int; int arithmetic is modelled by Lean `Int`.  Signed overflow is undefined in C, so
    the translator PROVES ITS ABSENCE by interval arithmetic (every int16_t leaf is in [-32768, 32767]; literals are exact) and refuses
    an expression whose intermediate results could leave [-2^31, 2^31-1].
  * `%` is the C99 truncated remainder: `Int.tmod` (never Lean's `%` on Int).  `x % 0` is undefined in C (`Int.tmod x 0 = x` in Lean);
    the side condition is listed in the docstring of the generated function.
  * a conversion int -> int16_t (where clang's AST has an IntegralCast, or the store of a compound assignment) is `wrap16`
    (two's complement, what gcc and clang define); literals that fit are stored as they are.
  * comparisons and logical operators yield `Bool`; a Bool used as a number is `if b then 1 else 0`; a number used as a truth
    value is `x != 0`.  Operands are free of side effects in the subset, so `&&` `||` `?:` need no sequencing.
  * the state pointer is dereferenced unconditionally and must not be NULL (precondition; the structure is passed by value).
  * a pointer parameter to one object that the function TESTS against NULL is `Option τ` (`none` = NULL, `some x` = points to an
    object holding x); a dereference must be dominated by such a test (`if (q) {..}`, `if (!q) return ..;`), otherwise the function
    is refused.  A pointer parameter that is never tested but dereferenced is a plain `τ`: non-NULL is a precondition of the C
    function (listed in the docstring).  A function returns, in this order: the state (when it writes it), the final content of
    every pointer parameter it writes, the C return value.
  * an element pointer parameter that is only stored into the array field (`fifo->data = data`) is the array itself (`List α`).
  * `a[i]`: `aget a i` / `aset a i v`; outside 0 ≤ i < length the C behaviour is undefined; `aget` then yields `default`, `aset`
    changes nothing (the refinement theorems force the reads to be in bounds: the hand model returns `none` there).
"""
import json, os, re, subprocess, sys, shutil

HERE = os.path.dirname(os.path.abspath(__file__))
VERIF = os.path.dirname(HERE)
REPO = os.environ.get("VERIF_REPO", "/repo")

INT_MIN, INT_MAX = -2 ** 31, 2 ** 31 - 1
I16_MIN, I16_MAX = -2 ** 15, 2 ** 15 - 1

LEAN_KEYWORDS = {"at", "end", "from", "fun", "if", "then", "else", "let", "have", "show", "do", "in", "match", "with", "by", "open",
                 "def", "theorem", "namespace", "section", "where", "structure", "instance", "class", "import", "true", "false",
                 "some", "none", "default", "Type", "Prop", "Sort", "for", "return", "mut", "unless", "deriving", "using", "calc",
                 "wrap16", "aget", "aset", "band32", "NotTranslated", "translated", "α"}


class Unsupported(Exception):
    """construct outside the subset (the message says which, and where)"""


# ------------------------------------------------------------------------------------------------------------------------
# clang

def find_clang():
    for c in ("clang-14", "clang"):
        p = shutil.which(c)
        if p:
            return p
    raise Unsupported("no clang-14 / clang on PATH")


def clang_ast(path, flags=()):
    cmd = [find_clang(), "-Xclang", "-ast-dump=json", "-fsyntax-only", "-I" + os.path.join(REPO, "libscpi", "inc"),
           "-I" + os.path.join(REPO, "libscpi", "src")] + list(flags) + [path]
    r = subprocess.run(cmd, capture_output=True, text=True, timeout=120)
    if r.returncode != 0:
        raise Unsupported("clang rejects %s: %s" % (path, r.stderr[-400:]))
    return json.loads(r.stdout)


def loc_of(l):
    """(offset, tokLen, in_main_file) of a clang JSON location; macro uses count with their expansion site"""
    if "expansionLoc" in l:
        l = l["expansionLoc"]
    return l.get("offset"), l.get("tokLen", 0), "includedFrom" not in l


# ------------------------------------------------------------------------------------------------------------------------
# values of the expression translation

class V:
    """kind: int | bool | elem | null | ptr ; text: Lean term; atom: needs no parentheses as an operand;
    lo, hi: interval of an int value; lit: exact value of a literal"""
    def __init__(self, kind, text, atom=False, lo=None, hi=None, lit=None, ptr=None):
        self.kind, self.text, self.atom, self.lo, self.hi, self.lit, self.ptr = kind, text, atom, lo, hi, lit, ptr

    def p(self):
        return self.text if self.atom else "(" + self.text + ")"


def lean_int(n):
    return str(n) if n >= 0 else "(%d)" % n


class Env:
    """what the Lean variables of the current program point stand for"""
    def __init__(self):
        self.ptr = {}      # cell pointer parameter -> 'opt' | 'some' | 'none' | 'plain'
        self.locals = {}   # local / scalar parameter -> ctype ('i16' | 'i32' | 'bool')
        self.order = []    # locals in declaration order (parameters excluded)

    def copy(self):
        e = Env()
        e.ptr, e.locals, e.order = dict(self.ptr), dict(self.locals), list(self.order)
        return e


# ------------------------------------------------------------------------------------------------------------------------

class FileTranslator:
    def __init__(self, ast, src, state_typedef, lean_struct):
        self.ast, self.src = ast, src
        self.state_typedef, self.lean_struct = state_typedef, lean_struct
        self.typedefs = {}
        self.records = {}
        for n in ast.get("inner", []):
            if n.get("kind") == "TypedefDecl":
                t = n["type"]
                self.typedefs[n["name"]] = t.get("qualType")
            elif n.get("kind") == "RecordDecl" and n.get("completeDefinition") and n.get("name"):
                self.records[n["name"]] = n
        self.funcs = {}        # name -> signature info of the functions translated so far
        self.state_struct = None
        self.scalar_fields, self.array_field, self.elem_type = {}, None, None
        self._read_state_struct()

    # ---- types ----------------------------------------------------------------------------------------------------------
    def norm(self, t):
        """canonical spelling of a type: typedefs expanded, qualifiers const dropped (volatile refused)"""
        q = t.get("qualType") if isinstance(t, dict) else t
        for _ in range(20):
            toks = re.findall(r"[A-Za-z_]\w*|\*|\(|\)|,|\[|\]|\d+", q)
            out, changed = [], False
            for tk in toks:
                if tk in self.typedefs and self.typedefs[tk] != tk:
                    out.append(self.typedefs[tk]); changed = True
                else:
                    out.append(tk)
            q = " ".join(out)
            if not changed:
                break
        toks = q.split()
        if "volatile" in toks:
            raise Unsupported("volatile type %s" % q)
        toks = [x for x in toks if x not in ("const", "restrict", "__restrict")]
        s = " ".join(toks)
        s = {"short int": "short", "signed short": "short", "signed short int": "short", "signed int": "int", "signed": "int",
             "_Bool": "bool"}.get(s, s)
        return s

    def ctype(self, t):
        """'i16' | 'i32' | 'bool' | 'void' | 'elem' | 'stateptr' | 'elemptr' | 'i16ptr' or Unsupported"""
        s = self.norm(t)
        if s == "short": return "i16"
        if s == "int": return "i32"
        if s == "bool": return "bool"
        if s == "void": return "void"
        if s == "struct %s *" % self.state_struct: return "stateptr"
        if self.elem_type and s == self.elem_type: return "elem"
        if self.elem_type and s == self.elem_type + " *": return "elemptr"
        if s == "short *": return "i16ptr"
        raise Unsupported("type '%s' (%s)" % (t.get("qualType") if isinstance(t, dict) else t, s))

    def _read_state_struct(self):
        und = self.typedefs.get(self.state_typedef)
        if not und or not und.startswith("struct "):
            raise Unsupported("typedef %s is not a struct" % self.state_typedef)
        self.state_struct = und.split()[1]
        rec = self.records.get(self.state_struct)
        if rec is None:
            raise Unsupported("struct %s has no definition" % self.state_struct)
        self.field_order = []
        for f in rec.get("inner", []):
            if f.get("kind") != "FieldDecl":
                continue
            s = self.norm(f["type"])
            if f.get("isBitfield"):
                raise Unsupported("bit-field %s.%s" % (self.state_struct, f["name"]))
            if s == "short":
                self.scalar_fields[f["name"]] = "i16"
            elif s.startswith("struct ") and s.endswith(" *") and s.count("*") == 1 and self.array_field is None:
                self.array_field = f["name"]
                self.elem_type = s[:-2]
            else:
                raise Unsupported("field %s.%s of type '%s'" % (self.state_struct, f["name"], s))
            self.field_order.append(f["name"])
        if self.array_field is None:
            raise Unsupported("struct %s has no array field" % self.state_struct)

    # ---- source text ----------------------------------------------------------------------------------------------------
    def text(self, node, upto=None, stmt=False):
        """source text of a node (upto: only the part before that child, e.g. the header of an if); stmt: with its semicolon"""
        b, _, _ = loc_of(node["range"]["begin"])
        if upto is not None:
            e, _, _ = loc_of(upto["range"]["begin"])
            s = self.src[b:e]
        else:
            e, tl, _ = loc_of(node["range"]["end"])
            e += tl
            s = self.src[b:e]
            if stmt and re.match(r"\s*;", self.src[e:e + 8]) and node.get("kind") not in ("CompoundStmt", "IfStmt"):
                s += ";"
        return " ".join(s.split())

    def where(self, node):
        b, _, _ = loc_of(node["range"]["begin"])
        if b is None:
            return "?"
        return "line %d" % (self.src.count("\n", 0, b) + 1)

    # ---- functions ------------------------------------------------------------------------------------------------------
    def function_decls(self):
        res = []
        for n in self.ast.get("inner", []):
            if n.get("kind") == "FunctionDecl" and any(c.get("kind") == "CompoundStmt" for c in n.get("inner", [])):
                if loc_of(n["loc"])[2]:
                    res.append(n)
        return res

    def translate_function(self, fn):
        return FuncTranslator(self, fn).run()


def strip(e):
    """remove ParenExpr"""
    while e.get("kind") == "ParenExpr":
        e = e["inner"][0]
    return e


def strip_casts(e):
    """remove parentheses and the implicit casts that do not change a value's meaning for classification purposes"""
    while True:
        if e.get("kind") == "ParenExpr":
            e = e["inner"][0]
        elif e.get("kind") == "ImplicitCastExpr" and e.get("castKind") in ("LValueToRValue", "NoOp"):
            e = e["inner"][0]
        else:
            return e


def walk(n):
    yield n
    for c in n.get("inner", []):
        yield from walk(c)


class FuncTranslator:
    def __init__(self, ft, fn):
        self.ft, self.fn = ft, fn
        self.name = fn["name"]
        self.side = []           # side conditions (C undefined behaviour the Lean text totalises)
        self.params = []         # (name, role, extra) role: state | scalar | cell | array
        self.body = [c for c in fn["inner"] if c.get("kind") == "CompoundStmt"][0]
        self.needs_inh = False   # an array read (`aget`, which needs a default element) occurs here or in a callee

    def fail(self, node, msg):
        raise Unsupported("%s, %s: %s  [%s]" % (self.name, self.ft.where(node), msg, self.ft.text(node)[:80]))

    def lname(self, n):
        return n + "_c" if n in LEAN_KEYWORDS else n

    # ---- pre-analysis ---------------------------------------------------------------------------------------------------
    def analyse(self):
        ft = self.ft
        rt = self.fn["type"]["qualType"]
        self.ret = ft.ctype(rt[:rt.index("(")].strip())
        if self.ret not in ("void", "bool", "i16", "i32"):
            raise Unsupported("%s: return type %s" % (self.name, rt))
        if self.fn.get("variadic"):
            raise Unsupported("%s: variadic" % self.name)
        pds = [c for c in self.fn["inner"] if c.get("kind") == "ParmVarDecl"]
        self.pinfo = {}
        self.state = None
        for i, p in enumerate(pds):
            if "name" not in p:
                raise Unsupported("%s: unnamed parameter" % self.name)
            ct = ft.ctype(p["type"])
            nm = p["name"]
            if ct == "stateptr":
                if self.state is not None:
                    raise Unsupported("%s: two state pointers" % self.name)
                self.state = nm
                self.pinfo[nm] = {"role": "state"}
            elif ct in ("i16", "i32", "bool"):
                self.pinfo[nm] = {"role": "scalar", "ctype": ct}
            elif ct in ("elemptr", "i16ptr"):
                const = bool(re.search(r"\bconst\b[^*]*\*", p["type"]["qualType"]))
                self.pinfo[nm] = {"role": "cell", "pointee": "elem" if ct == "elemptr" else "i16", "const": const,
                                  "tested": False, "deref": False, "written": False, "stored": False}
            else:
                raise Unsupported("%s: parameter %s of type %s" % (self.name, nm, p["type"]["qualType"]))
            self.params.append(nm)
        if self.state is None or self.params[0] != self.state:
            raise Unsupported("%s: first parameter is not %s *" % (self.name, ft.state_typedef))
        self.writes_state = False
        # uses of the pointer parameters, writes of the state
        for n in walk(self.body):
            k = n.get("kind")
            if k in ("BinaryOperator", "CompoundAssignOperator") and (n.get("opcode") == "=" or k == "CompoundAssignOperator") or \
               (k == "UnaryOperator" and n.get("opcode") in ("++", "--")):
                lhs = strip(n["inner"][0])
                if lhs.get("kind") == "MemberExpr" or lhs.get("kind") == "ArraySubscriptExpr":
                    self.writes_state = True
                elif lhs.get("kind") == "UnaryOperator" and lhs.get("opcode") == "*":
                    q = strip_casts(lhs["inner"][0])
                    if q.get("kind") == "DeclRefExpr" and q["referencedDecl"]["name"] in self.pinfo:
                        self.pinfo[q["referencedDecl"]["name"]]["written"] = True
                if n.get("opcode") == "=" and lhs.get("kind") == "MemberExpr" and lhs.get("name") == ft.array_field:
                    q = strip_casts(n["inner"][1])
                    if q.get("kind") == "DeclRefExpr" and self.pinfo.get(q["referencedDecl"]["name"], {}).get("role") == "cell":
                        self.pinfo[q["referencedDecl"]["name"]]["stored"] = True
            if k == "UnaryOperator" and n.get("opcode") == "*":
                q = strip_casts(n["inner"][0])
                if q.get("kind") == "DeclRefExpr" and self.pinfo.get(q["referencedDecl"]["name"], {}).get("role") == "cell":
                    self.pinfo[q["referencedDecl"]["name"]]["deref"] = True
            if k == "CallExpr":
                cal = strip_casts(n["inner"][0])
                while cal.get("kind") == "ImplicitCastExpr":
                    cal = cal["inner"][0]
                cname = cal.get("referencedDecl", {}).get("name")
                sig = ft.funcs.get(cname)
                if sig is None:
                    self.fail(n, "call of '%s', which is not a function translated before" % cname)
                if sig["writes_state"]:
                    self.writes_state = True
                for a, (pn, pi) in zip(n["inner"][1:], sig["params"]):
                    q = strip_casts(a)
                    if pi["role"] == "cell" and q.get("kind") == "DeclRefExpr" and self.pinfo.get(q["referencedDecl"]["name"], {}).get("role") == "cell":
                        mine = self.pinfo[q["referencedDecl"]["name"]]
                        mine["written"] = mine["written"] or pi["written"]
                        if pi["nullable"]:
                            mine["tested"] = True
                        else:
                            mine["deref"] = True
        # NULL tests: `!q`, `q == NULL`, `q != NULL`, and q as a truth value (condition of if / ?:, operand of && ||)
        for n in walk(self.body):
            q = self.null_test(n)
            if q is not None:
                self.pinfo[q[0]]["tested"] = True
            k = n.get("kind")
            truth = []
            if k in ("IfStmt", "ConditionalOperator"):
                truth.append(n["inner"][0])
            elif k == "BinaryOperator" and n.get("opcode") in ("&&", "||"):
                truth += n["inner"][:2]
            for tnode in truth:
                q = self.ptr_param(tnode)
                if q:
                    self.pinfo[q]["tested"] = True
        for nm, pi in self.pinfo.items():
            if pi["role"] != "cell":
                continue
            if pi["stored"]:
                if pi["deref"] or pi["tested"] or pi["written"] or pi["pointee"] != "elem":
                    raise Unsupported("%s: pointer parameter %s is stored into the array field and also used otherwise" % (self.name, nm))
                pi["role"] = "array"
                continue
            if pi["written"] and pi["const"]:
                raise Unsupported("%s: write through const pointer %s" % (self.name, nm))
            pi["nullable"] = pi["tested"]
            if not pi["nullable"] and pi["deref"]:
                self.side.append("%s != NULL (dereferenced without a test)" % nm)

    def null_test(self, n):
        """(parameter, polarity) when the expression n is a NULL test of a cell pointer parameter: polarity True = 'is not NULL'"""
        n = strip(n)
        k = n.get("kind")
        if k == "UnaryOperator" and n.get("opcode") == "!":
            r = self.null_test_operand(n["inner"][0])
            return (r[0], not r[1]) if r else None
        if k == "BinaryOperator" and n.get("opcode") in ("==", "!="):
            a, b = n["inner"]
            pa, pb = self.ptr_param(a), self.ptr_param(b)
            if pa and self.is_null(b): return (pa, n["opcode"] == "!=")
            if pb and self.is_null(a): return (pb, n["opcode"] == "!=")
        return None

    def null_test_operand(self, n):
        """a pointer parameter used as a truth value, or a nested test"""
        p = self.ptr_param(n)
        if p:
            return (p, True)
        return self.null_test(n)

    def ptr_param(self, n):
        q = strip_casts(n)
        if q.get("kind") == "DeclRefExpr":
            nm = q["referencedDecl"]["name"]
            if self.pinfo.get(nm, {}).get("role") == "cell" and q["referencedDecl"].get("kind") == "ParmVarDecl":
                return nm
        return None

    def is_null(self, n):
        n = strip(n)
        if n.get("kind") == "ImplicitCastExpr" and n.get("castKind") in ("NullToPointer", "BitCast"):
            return self.is_null(n["inner"][0]) or n.get("castKind") == "NullToPointer"
        if n.get("kind") == "CStyleCastExpr" and n.get("castKind") == "NullToPointer":
            return True
        if n.get("kind") == "IntegerLiteral" and n.get("value") == "0":
            return True
        return False

    def cond_test(self, n):
        """NULL test when n is the whole condition of an if (a bare pointer counts)"""
        p = self.ptr_param(n)
        if p:
            return (p, True)
        return self.null_test(n)

    # ---- signature ------------------------------------------------------------------------------------------------------
    def lean_type(self, ct):
        return {"i16": "Int", "i32": "Int", "bool": "Bool", "elem": "α"}[ct]

    def signature(self):
        ft = self.ft
        args, outs = [], []
        sigparams = []
        for nm in self.params:
            pi = self.pinfo[nm]
            if pi["role"] == "state":
                args.append("(%s : %s α)" % (self.lname(nm), ft.lean_struct))
                if self.writes_state:
                    outs.append("%s α" % ft.lean_struct)
            elif pi["role"] == "scalar":
                args.append("(%s : %s)" % (self.lname(nm), self.lean_type(pi["ctype"])))
            elif pi["role"] == "array":
                args.append("(%s : List α)" % self.lname(nm))
            else:
                t = self.lean_type(pi["pointee"])
                t = "Option " + t if pi["nullable"] else t
                args.append("(%s : %s)" % (self.lname(nm), t))
                if pi["written"]:
                    outs.append("(" + t + ")" if " " in t else t)
            sigparams.append((nm, dict(pi)))
        if self.ret != "void":
            outs.append(self.lean_type(self.ret))
        rtype = " × ".join(outs) if outs else "Unit"
        self.sig = {"params": sigparams, "writes_state": self.writes_state, "ret": self.ret, "rtype": rtype, "inh": self.needs_inh,
                    "pure_value": (not self.writes_state) and not any(pi.get("written") for _, pi in sigparams if pi["role"] == "cell")
                                  and self.ret != "void"}
        return "def %s %s%s : %s :=" % (self.lname(self.name), "[Inhabited α] " if self.needs_inh else "", " ".join(args), rtype)

    # ---- expressions ----------------------------------------------------------------------------------------------------
    def as_int(self, v, node):
        if v.kind == "int":
            return v
        if v.kind == "bool":
            if v.lit is not None:
                return V("int", str(int(v.lit)), True, int(v.lit), int(v.lit), int(v.lit))
            r = V("int", "if %s then 1 else 0" % v.text, False, 0, 1)
            r.frombool = v      # a truth value promoted to int: used as a truth value again, it is the original one
            return r
        self.fail(node, "a number is needed here")

    def as_bool(self, v, node, env):
        if v.kind == "bool":
            return v
        if v.kind == "int":
            if v.lit is not None:
                return V("bool", "true" if v.lit != 0 else "false", True, lit=(v.lit != 0))
            if getattr(v, "frombool", None) is not None:
                return v.frombool
            return V("bool", "%s != 0" % v.p(), False)
        if v.kind == "ptr":
            st = env.ptr[v.ptr]
            if st == "opt":
                return V("bool", "%s.isSome" % self.lname(v.ptr), True)
            if st == "some":
                return V("bool", "true", True, lit=True)
            if st == "none":
                return V("bool", "false", True, lit=False)
        self.fail(node, "a truth value is needed here")

    def int_result(self, node, text, lo, hi, atom=False):
        if lo < INT_MIN or hi > INT_MAX:
            self.fail(node, "possible signed overflow of int arithmetic (interval [%d, %d])" % (lo, hi))
        return V("int", text, atom, lo, hi)

    def expr(self, n, env):
        ft = self.ft
        k = n.get("kind")
        if k == "ParenExpr":
            return self.expr(n["inner"][0], env)
        if k == "IntegerLiteral":
            v = int(n["value"])
            if ft.ctype(n["type"]) != "i32":
                self.fail(n, "integer literal of type %s" % n["type"]["qualType"])
            return V("int", lean_int(v), True, v, v, v)
        if k == "ImplicitCastExpr" or k == "CStyleCastExpr":
            ck = n.get("castKind")
            sub = n["inner"][0]
            if ck in ("LValueToRValue", "NoOp"):
                return self.expr(sub, env)
            if ck == "IntegralCast":
                to = ft.ctype(n["type"])
                v = self.as_int(self.expr(sub, env), n)
                return self.convert(v, to, n)
            if ck == "IntegralToBoolean":
                return self.as_bool(self.expr(sub, env), n, env)
            if ck == "PointerToBoolean":
                return self.as_bool(self.expr(sub, env), n, env)
            if ck in ("NullToPointer",):
                return V("null", "none", True)
            self.fail(n, "cast %s" % ck)
        if k == "DeclRefExpr":
            rd = n["referencedDecl"]
            nm = rd.get("name")
            if rd.get("kind") not in ("ParmVarDecl", "VarDecl"):
                self.fail(n, "reference to %s %s" % (rd.get("kind"), nm))
            if nm in env.locals:
                ct = env.locals[nm]
                if ct == "bool":
                    return V("bool", self.lname(nm), True)
                lo, hi = (I16_MIN, I16_MAX) if ct == "i16" else (INT_MIN, INT_MAX)
                return V("int", self.lname(nm), True, lo, hi)
            pi = self.pinfo.get(nm)
            if pi and pi["role"] == "cell":
                return V("ptr", self.lname(nm), True, ptr=nm)
            self.fail(n, "use of '%s' as a value" % nm)
        if k == "MemberExpr":
            base = strip_casts(n["inner"][0])
            if not (n.get("isArrow") and base.get("kind") == "DeclRefExpr" and base["referencedDecl"]["name"] == self.state):
                self.fail(n, "member access other than %s->field" % self.state)
            f = n["name"]
            if f in ft.scalar_fields:
                return V("int", "%s.%s" % (self.lname(self.state), f), True, I16_MIN, I16_MAX)
            self.fail(n, "field '%s' used as a value" % f)
        if k == "ArraySubscriptExpr":
            arr, idx = self.array_access(n, env)
            self.side.append("0 <= %s < length of %s->%s (%s)" % (self.ft.text(n["inner"][1]), self.state, ft.array_field, self.ft.where(n)))
            self.needs_inh = True
            return V("elem", "aget %s %s" % (arr, idx.p()), False)
        if k == "UnaryOperator":
            op = n.get("opcode")
            if op == "*":
                q = self.ptr_param(n["inner"][0])
                if not q:
                    self.fail(n, "dereference of something that is not a pointer parameter")
                return self.deref(q, n, env)
            if op == "!":
                t = self.null_test(n)
                if t:
                    v = self.as_bool(V("ptr", t[0], True, ptr=t[0]), n, env)
                    return v if t[1] else self.not_(v)
                return self.not_(self.as_bool(self.expr(n["inner"][0], env), n, env))
            if op in ("-", "+"):
                v = self.as_int(self.expr(n["inner"][0], env), n)
                if op == "+":
                    return v
                if v.lit is not None:
                    return V("int", lean_int(-v.lit), True, -v.lit, -v.lit, -v.lit)
                return self.int_result(n, "-%s" % v.p(), -v.hi, -v.lo)
            self.fail(n, "unary operator '%s' inside an expression" % op)
        if k == "BinaryOperator":
            return self.binop(n, env)
        if k == "ConditionalOperator":
            c = self.as_bool(self.expr(n["inner"][0], env), n, env)
            a, b = self.expr(n["inner"][1], env), self.expr(n["inner"][2], env)
            if a.kind == "bool" and b.kind == "bool":
                return V("bool", "if %s then %s else %s" % (c.text, a.text, b.text), False)
            if a.kind in ("int", "bool") and b.kind in ("int", "bool"):
                a, b = self.as_int(a, n), self.as_int(b, n)
                return V("int", "if %s then %s else %s" % (c.text, a.text, b.text), False, min(a.lo, b.lo), max(a.hi, b.hi))
            if a.kind == "elem" and b.kind == "elem":
                return V("elem", "if %s then %s else %s" % (c.text, a.text, b.text), False)
            self.fail(n, "operands of ?: ")
        if k == "CallExpr":
            name, sig, args, _ = self.call(n, env)
            if not sig["pure_value"]:
                self.fail(n, "call of '%s' inside an expression, but it writes through its pointer arguments" % name)
            txt = " ".join([self.lname(name)] + args)
            if sig["ret"] == "bool":
                return V("bool", txt, False)
            lo, hi = (I16_MIN, I16_MAX) if sig["ret"] == "i16" else (INT_MIN, INT_MAX)
            return V("int", txt, False, lo, hi)
        self.fail(n, "expression of kind %s" % k)

    def not_(self, v):
        if v.lit is not None:
            return V("bool", "false" if v.lit else "true", True, lit=not v.lit)
        return V("bool", "!%s" % v.p(), False)

    def convert(self, v, to, node):
        """integral conversion of an int value to C type `to`"""
        if to == "i32":
            return v
        if to == "i16":
            if v.lit is not None and I16_MIN <= v.lit <= I16_MAX:
                return v
            return V("int", "wrap16 %s" % v.p(), False, I16_MIN, I16_MAX)
        if to == "bool":
            return V("bool", "%s != 0" % v.p(), False)
        self.fail(node, "conversion to %s" % to)

    def fits(self, v, to, node):
        """the value is used at C type `to` and clang's AST already carries the conversion: check that it does"""
        if to == "i16" and not (I16_MIN <= v.lo and v.hi <= I16_MAX):
            self.fail(node, "value of type int used as int16_t without a conversion in the AST")
        return v

    def deref(self, q, node, env):
        st = env.ptr[q]
        pi = self.pinfo[q]
        if st == "plain":
            txt = self.lname(q)
        elif st == "some":
            txt = self.lname(q) + "_v"
        else:
            self.fail(node, "dereference of '%s', which %s here (no dominating NULL test)" % (q, "may be NULL" if st == "opt" else "is NULL"))
        if pi["pointee"] == "elem":
            return V("elem", txt, True)
        return V("int", txt, True, I16_MIN, I16_MAX)

    def array_access(self, n, env):
        base = strip_casts(n["inner"][0])
        if not (base.get("kind") == "MemberExpr" and base.get("name") == self.ft.array_field and base.get("isArrow") and
                strip_casts(base["inner"][0]).get("kind") == "DeclRefExpr" and
                strip_casts(base["inner"][0])["referencedDecl"]["name"] == self.state):
            self.fail(n, "subscript of something other than %s->%s" % (self.state, self.ft.array_field))
        idx = self.as_int(self.expr(n["inner"][1], env), n)
        return "%s.%s" % (self.lname(self.state), self.ft.array_field), idx

    def binop(self, n, env):
        op = n["opcode"]
        t = self.null_test(n)
        if t:
            v = self.as_bool(V("ptr", t[0], True, ptr=t[0]), n, env)
            return v if t[1] else self.not_(v)
        if op in ("&&", "||"):
            a = self.as_bool(self.expr(n["inner"][0], env), n, env)
            b = self.as_bool(self.expr(n["inner"][1], env), n, env)
            return V("bool", "%s %s %s" % (a.p(), op, b.p()), False)
        a, b = self.expr(n["inner"][0], env), self.expr(n["inner"][1], env)
        if op in ("==", "!=", "<", "<=", ">", ">="):
            if a.kind == "bool" and b.kind == "bool" and op in ("==", "!="):
                return V("bool", "%s %s %s" % (a.p(), op, b.p()), False)
            a, b = self.as_int(a, n), self.as_int(b, n)
            if op in ("==", "!="):
                return V("bool", "%s %s %s" % (a.p(), op, b.p()), False)
            return V("bool", "decide (%s %s %s)" % (a.p(), {"<": "<", "<=": "≤", ">": ">", ">=": "≥"}[op], b.p()), False)
        if op in ("+", "-", "%", "&"):
            a, b = self.as_int(a, n), self.as_int(b, n)
            if self.ft.ctype(n["type"]) != "i32":
                self.fail(n, "arithmetic at type %s" % n["type"]["qualType"])
            return self.arith(op, a, b, n)
        self.fail(n, "binary operator '%s'" % op)

    def arith(self, op, a, b, n):
        if op == "+":
            return self.int_result(n, "%s + %s" % (a.p(), b.p()), a.lo + b.lo, a.hi + b.hi)
        if op == "-":
            return self.int_result(n, "%s - %s" % (a.p(), b.p()), a.lo - b.hi, a.hi - b.lo)
        if op == "&":
            # both operands are ints (32 bits, two's complement: implementation-defined before C23, universal): `band32`
            if a.lo >= 0 and b.lo >= 0:
                lo, hi = 0, min(a.hi, b.hi)
            elif a.lo >= 0 or b.lo >= 0:
                lo, hi = 0, (a.hi if a.lo >= 0 else b.hi)
            else:
                k = max(abs(a.lo), a.hi + 1, abs(b.lo), b.hi + 1)
                lo, hi = -k, k - 1
            return self.int_result(n, "band32 %s %s" % (a.p(), b.p()), lo, hi)
        # C99 6.5.5: truncated division; the result has the sign of the dividend
        if b.lo <= 0 <= b.hi:
            self.side.append("%s != 0 (%s, operand of %%)" % (self.ft.text(n["inner"][1]), self.ft.where(n)))
        if a.lo <= INT_MIN and b.lo <= -1 <= b.hi:
            self.fail(n, "INT_MIN % -1 is possible")
        m = max(abs(b.lo), abs(b.hi)) - 1
        m = max(m, 0)
        lo, hi = max(-m, min(a.lo, 0)), min(m, max(a.hi, 0))
        if b.lo <= 0 <= b.hi:   # Int.tmod x 0 = x
            lo, hi = min(lo, a.lo), max(hi, a.hi)
        return self.int_result(n, "Int.tmod %s %s" % (a.p(), b.p()), lo, hi)

    def call(self, n, env):
        """returns (name, signature, argument texts, [(kind, name) of the results that must be bound back])"""
        cal = n["inner"][0]
        while cal.get("kind") in ("ImplicitCastExpr", "ParenExpr"):
            cal = cal["inner"][0]
        name = cal.get("referencedDecl", {}).get("name")
        sig = self.ft.funcs.get(name)
        if cal.get("kind") != "DeclRefExpr" or sig is None:
            self.fail(n, "call of something that is not a function translated before")
        self.needs_inh = self.needs_inh or sig["inh"]
        actual = n["inner"][1:]
        if len(actual) != len(sig["params"]):
            self.fail(n, "argument count")
        args, back = [], []
        for a, (pn, pi) in zip(actual, sig["params"]):
            q = strip_casts(a)
            if pi["role"] == "state":
                if not (q.get("kind") == "DeclRefExpr" and q["referencedDecl"]["name"] == self.state):
                    self.fail(a, "state argument is not the function's own state pointer")
                args.append(self.lname(self.state))
                if sig["writes_state"]:
                    back.append(("state", self.state))
            elif pi["role"] == "scalar":
                v = self.expr(a, env)
                v = self.as_bool(v, a, env) if pi["ctype"] == "bool" else self.as_int(v, a)
                args.append(v.p())
            elif pi["role"] == "array":
                self.fail(a, "array argument")
            else:
                mine = self.ptr_param(a)
                if not mine or self.pinfo[mine]["pointee"] != pi["pointee"]:
                    self.fail(a, "pointer argument that is not one of the function's own pointer parameters")
                st = env.ptr[mine]
                if pi["nullable"]:
                    txt = {"opt": self.lname(mine), "some": "(some %s_v)" % self.lname(mine), "none": "none"}.get(st)
                    if txt is None:
                        txt = "(some %s)" % self.lname(mine)
                else:
                    if st == "plain": txt = self.lname(mine)
                    elif st == "some": txt = self.lname(mine) + "_v"
                    else: self.fail(a, "'%s' may be NULL here but '%s' dereferences it without a test" % (mine, name))
                args.append(txt)
                if pi["written"]:
                    back.append(("cell", mine, pi["nullable"]))
        return name, sig, args, back

    # ---- statements -----------------------------------------------------------------------------------------------------
    def ret_tuple(self, env, retv):
        comps = []
        if self.writes_state:
            comps.append(self.lname(self.state))
        for nm in self.params:
            pi = self.pinfo[nm]
            if pi["role"] == "cell" and pi["written"]:
                comps.append(self.ptr_repr(nm, env))
        if retv is not None:
            comps.append(retv)
        if not comps:
            return "()"
        return comps[0] if len(comps) == 1 else "(" + ", ".join(comps) + ")"

    def ptr_repr(self, nm, env):
        st = env.ptr[nm]
        ln = self.lname(nm)
        return {"opt": ln, "plain": ln, "some": "some %s_v" % ln, "none": "none"}[st]

    def contains_return(self, n):
        return any(x.get("kind") == "ReturnStmt" for x in walk(n))

    def assigned(self, n, env):
        """mutable Lean variables (state, written pointer parameters, locals in scope) that the statement may rebind"""
        st, cells, locs = False, [], []
        for x in walk(n):
            k = x.get("kind")
            if (k in ("BinaryOperator",) and x.get("opcode") == "=") or k == "CompoundAssignOperator" or \
               (k == "UnaryOperator" and x.get("opcode") in ("++", "--")):
                lhs = strip(x["inner"][0])
                if lhs.get("kind") in ("MemberExpr", "ArraySubscriptExpr"):
                    st = True
                elif lhs.get("kind") == "UnaryOperator":
                    q = self.ptr_param(lhs["inner"][0])
                    if q and q not in cells: cells.append(q)
                elif lhs.get("kind") == "DeclRefExpr":
                    nm = lhs["referencedDecl"]["name"]
                    if nm in env.order and nm not in locs: locs.append(nm)
            if k == "CallExpr":
                cal = x["inner"][0]
                while cal.get("kind") in ("ImplicitCastExpr", "ParenExpr"):
                    cal = cal["inner"][0]
                sig = self.ft.funcs.get(cal.get("referencedDecl", {}).get("name"))
                if sig:
                    st = st or sig["writes_state"]
                    for a, (pn, pi) in zip(x["inner"][1:], sig["params"]):
                        q = self.ptr_param(a)
                        if q and pi["role"] == "cell" and pi["written"] and q not in cells: cells.append(q)
        return st, [c for c in self.params if c in cells], [l for l in env.order if l in locs]

    def branch_list(self, n):
        if n.get("kind") == "CompoundStmt":
            return n.get("inner", [])
        return [n]

    def stmts(self, lst, env, k, ind):
        """Lean lines for the statement list followed by the continuation k(env, ind)"""
        out = []
        pad = "  " * ind
        for i, s in enumerate(lst):
            kind = s.get("kind")
            if kind == "NullStmt":
                continue
            if kind == "ReturnStmt":
                out.append(pad + "-- " + self.ft.text(s, stmt=True))
                if s.get("inner"):
                    if self.ret == "void":
                        self.fail(s, "return with a value in a void function")
                    v = self.expr(s["inner"][0], env)
                    v = self.as_bool(v, s, env) if self.ret == "bool" else self.fits(self.as_int(v, s), self.ret, s)
                    out.append(pad + self.ret_tuple(env, v.text))
                else:
                    if self.ret != "void":
                        self.fail(s, "return without a value")
                    out.append(pad + self.ret_tuple(env, None))
                if [x for x in lst[i + 1:] if x.get("kind") != "NullStmt"]:
                    out.append(pad + "-- (unreachable statements after the return are not translated)")
                return out
            if kind == "IfStmt":
                inner = s["inner"]
                if s.get("hasInit") or s.get("hasVar"):
                    self.fail(s, "if with declaration")
                cond, then = inner[0], inner[1]
                els = inner[2] if len(inner) > 2 else None
                rest = lst[i + 1:]
                if self.contains_return(s):
                    kk = lambda e, d, rest=rest, k=k: self.stmts(rest, e, k, d)
                    out += self.emit_if(s, cond, then, els, env, kk, ind, join=None)
                    return out
                st, cells, locs = self.assigned(s, env)
                join = (st, cells, locs)
                out += self.emit_if(s, cond, then, els, env, None, ind, join=join)
                env = env.copy()
                for c in cells:
                    env.ptr[c] = "opt" if self.pinfo[c]["nullable"] else "plain"
                continue
            if kind == "CompoundStmt":
                self.fail(s, "nested block that is not the branch of an if")
            if kind == "DeclStmt":
                out.append(pad + "-- " + self.ft.text(s, stmt=True))
                env = env.copy()
                for d in s["inner"]:
                    if d.get("kind") != "VarDecl" or d.get("storageClass"):
                        self.fail(s, "declaration")
                    ct = self.ft.ctype(d["type"])
                    if ct not in ("i16", "i32", "bool"):
                        self.fail(s, "local of type %s" % d["type"]["qualType"])
                    nm = d["name"]
                    if nm in env.locals or nm in self.pinfo or any(nm == p + "_v" for p in self.pinfo):
                        self.fail(s, "local '%s' shadows another name" % nm)
                    if d.get("inner"):
                        init = [c for c in d["inner"] if "Comment" not in c.get("kind", "")]
                        v = self.expr(init[0], env)
                        v = self.as_bool(v, s, env) if ct == "bool" else self.fits(self.as_int(v, s), ct, s)
                        out.append(pad + "let %s := %s" % (self.lname(nm), v.text))
                    else:
                        # indeterminate value in C; reading it before an assignment is undefined and the translator does no
                        # definite-assignment analysis
                        self.fail(s, "local '%s' declared without an initialiser" % nm)
                    env.locals[nm] = ct
                    env.order.append(nm)
                continue
            # expression statements
            out.append(pad + "-- " + self.ft.text(s, stmt=True))
            lines, env = self.simple(s, env, pad)
            out += lines
        out += k(env, ind)
        return out

    def simple(self, s, env, pad):
        """assignment / compound assignment / increment / call statement -> (lines, env)"""
        k = s.get("kind")
        s0 = strip(s)
        k = s0.get("kind")
        if k == "CallExpr":
            name, sig, args, back = self.call(s0, env)
            return self.bind_call(name, sig, args, back, None, env, pad, s0)
        if k == "UnaryOperator" and s0.get("opcode") in ("++", "--"):
            lhs = strip(s0["inner"][0])
            cur = self.as_int(self.expr(lhs, env), s0)
            one = V("int", "1", True, 1, 1, 1)
            v = self.arith("+" if s0["opcode"] == "++" else "-", cur, one, s0)
            return self.store(lhs, v, env, pad, s0, converted=False)
        if k == "CompoundAssignOperator":
            op = s0["opcode"]
            if op not in ("+=", "-="):
                self.fail(s0, "compound assignment '%s'" % op)
            if self.ft.ctype(s0["computeResultType"]) != "i32" or self.ft.ctype(s0["computeLHSType"]) != "i32":
                self.fail(s0, "compound assignment computed at type %s" % s0["computeResultType"]["qualType"])
            lhs = strip(s0["inner"][0])
            cur = self.as_int(self.expr(lhs, env), s0)
            rhs = self.as_int(self.expr(s0["inner"][1], env), s0)
            v = self.arith(op[0], cur, rhs, s0)
            return self.store(lhs, v, env, pad, s0, converted=False)
        if k == "BinaryOperator" and s0.get("opcode") == "=":
            lhs = strip(s0["inner"][0])
            rhs = s0["inner"][1]
            r0 = strip_casts(rhs)
            if r0.get("kind") == "CallExpr":
                name, sig, args, back = self.call(r0, env)
                if not sig["pure_value"]:
                    if strip(rhs).get("kind") != "CallExpr" and not (strip(rhs).get("kind") == "ImplicitCastExpr"):
                        self.fail(s0, "call with effects inside an expression")
                    return self.bind_call(name, sig, args, back, (lhs, rhs), env, pad, s0)
            # array parameter stored into the array field
            if lhs.get("kind") == "MemberExpr" and lhs.get("name") == self.ft.array_field:
                q = strip_casts(rhs)
                nm = q.get("referencedDecl", {}).get("name") if q.get("kind") == "DeclRefExpr" else None
                if nm and self.pinfo.get(nm, {}).get("role") == "array":
                    st = self.lname(self.state)
                    return [pad + "let %s := { %s with %s := %s }" % (st, st, self.ft.array_field, self.lname(nm))], env
                self.fail(s0, "store into the array field of something that is not an array parameter")
            v = self.expr(rhs, env)
            return self.store(lhs, v, env, pad, s0, converted=True)
        self.fail(s, "statement of kind %s" % k)

    def lhs_ctype(self, lhs, env):
        k = lhs.get("kind")
        if k == "MemberExpr":
            base = strip_casts(lhs["inner"][0])
            if lhs.get("isArrow") and base.get("kind") == "DeclRefExpr" and base["referencedDecl"]["name"] == self.state and \
               lhs["name"] in self.ft.scalar_fields:
                return self.ft.scalar_fields[lhs["name"]]
            self.fail(lhs, "assignment to this member")
        if k == "ArraySubscriptExpr":
            return "elem"
        if k == "UnaryOperator" and lhs.get("opcode") == "*":
            q = self.ptr_param(lhs["inner"][0])
            if q:
                return self.pinfo[q]["pointee"]
        if k == "DeclRefExpr" and lhs["referencedDecl"]["name"] in env.order:
            return env.locals[lhs["referencedDecl"]["name"]]
        self.fail(lhs, "assignment to this left-hand side")

    def store(self, lhs, v, env, pad, node, converted):
        """`lhs = v`; converted: clang's AST already carries the conversion to the type of lhs"""
        ct = self.lhs_ctype(lhs, env)
        if ct == "elem":
            if v.kind != "elem":
                self.fail(node, "element assigned from a non-element")
        elif ct == "bool":
            v = self.as_bool(v, node, env)
        else:
            v = self.as_int(v, node)
            if not converted:
                v = self.convert(v, ct, node)
            else:
                v = self.fits(v, ct, node)
        k = lhs.get("kind")
        st = self.lname(self.state)
        if k == "MemberExpr":
            return [pad + "let %s := { %s with %s := %s }" % (st, st, lhs["name"], v.text)], env
        if k == "ArraySubscriptExpr":
            arr, idx = self.array_access(lhs, env)
            self.side.append("0 <= %s < length of %s->%s (%s)" % (self.ft.text(lhs["inner"][1]), self.state, self.ft.array_field, self.ft.where(lhs)))
            return [pad + "let %s := { %s with %s := aset %s %s %s }" % (st, st, self.ft.array_field, arr, idx.p(), v.p())], env
        if k == "UnaryOperator":
            q = self.ptr_param(lhs["inner"][0])
            stq = env.ptr[q]
            if stq == "plain":
                return [pad + "let %s := %s" % (self.lname(q), v.text)], env
            if stq == "some":
                return [pad + "let %s_v := %s" % (self.lname(q), v.text)], env
            self.fail(node, "store through '%s', which %s here (no dominating NULL test)" % (q, "may be NULL" if stq == "opt" else "is NULL"))
        if k == "DeclRefExpr":
            return [pad + "let %s := %s" % (self.lname(lhs["referencedDecl"]["name"]), v.text)], env
        self.fail(node, "store")

    def bind_call(self, name, sig, args, back, assign, env, pad, node):
        """statement `f(args);` or `lhs = f(args);` for a function that writes through its pointers"""
        pats = []
        post = []
        env = env.copy()
        for b in back:
            if b[0] == "state":
                pats.append(self.lname(self.state))
            else:
                _, mine, callee_nullable = b
                st = env.ptr[mine]
                ln = self.lname(mine)
                if callee_nullable and st == "some":
                    # the callee hands back an Option; the pointer itself is unchanged, so it is still `some`
                    pats.append(ln + "_o")
                    post.append(pad + "let %s_v := %s_o.getD %s_v" % (ln, ln, ln))
                elif callee_nullable and st == "plain":
                    pats.append(ln + "_o")
                    post.append(pad + "let %s := %s_o.getD %s" % (ln, ln, ln))
                elif callee_nullable:
                    pats.append(ln)
                    env.ptr[mine] = "opt"
                else:
                    pats.append(ln if st == "plain" else ln + "_v")
        lines = []
        if sig["ret"] != "void":
            pats.append("r_" if assign else "_")
        callt = " ".join([self.lname(name)] + args)
        if not pats:
            lines.append(pad + "let _ := %s" % callt)
        elif len(pats) == 1:
            lines.append(pad + "let %s := %s" % (pats[0], callt))
        else:
            lines.append(pad + "let (%s) := %s" % (", ".join(pats), callt))
        lines += post
        if assign:
            lhs, rhs = assign
            rv = V("bool", "r_", True) if sig["ret"] == "bool" else V("int", "r_", True, *((I16_MIN, I16_MAX) if sig["ret"] == "i16" else (INT_MIN, INT_MAX)))
            # conversions that clang put around the call
            n = strip(rhs)
            chain = []
            while n.get("kind") == "ImplicitCastExpr":
                chain.append(n); n = strip(n["inner"][0])
            for c in reversed(chain):
                ck = c.get("castKind")
                if ck == "IntegralCast": rv = self.convert(self.as_int(rv, c), self.ft.ctype(c["type"]), c)
                elif ck == "IntegralToBoolean": rv = self.as_bool(rv, c, env)
                elif ck not in ("LValueToRValue", "NoOp"): self.fail(c, "cast %s" % ck)
            l2, env = self.store(lhs, rv, env, pad, node, converted=True)
            lines += l2
        return lines, env

    def emit_if(self, s, cond, then, els, env, k, ind, join):
        """join = None: continuation-passing (a branch returns); the continuation k is inlined into every branch that falls through.
        join = (state?, cells, locals): no branch returns; the if is an expression yielding the rebound variables."""
        pad = "  " * ind
        out = []
        # a NULL test inside `a || b` / `a && b`: `if (a || b) S else T` is `if (a) S else if (b) S else T`, `if (a && b) S else T`
        # is `if (a) { if (b) S else T } else T` (operands are free of side effects in the subset), so that the test of the
        # pointer becomes the condition of an if of its own and dominates what follows
        c0 = strip(cond)
        if c0.get("kind") == "BinaryOperator" and c0.get("opcode") in ("||", "&&") and self.has_ptr_test(c0, env):
            a, b = c0["inner"]
            def mk(c, th, el):
                return {"kind": "IfStmt", "inner": [c, th] + ([el] if el is not None else []), "range": s["range"],
                        "_header": "(%s, split) if (%s) {" % (c0["opcode"], self.ft.text(c))}
            if c0["opcode"] == "||":
                new = mk(a, then, mk(b, then, els))
            else:
                inner = mk(b, then, els)
                new = mk(a, inner, els)
            out.append(pad + "-- " + (s.get("_header") or self.ft.text(s, upto=then) + (" {" if then.get("kind") == "CompoundStmt" else "")))
            return out + self.emit_if(new, new["inner"][0], new["inner"][1], new["inner"][2] if len(new["inner"]) > 2 else None, env, k, ind, join)
        header = s.get("_header") or self.ft.text(s, upto=then) + (" {" if then.get("kind") == "CompoundStmt" else "")
        out.append(pad + "-- " + header)
        t = self.cond_test(cond)
        if join is not None:
            st, cells, locs = join
            def tup(e):
                comps = ([self.lname(self.state)] if st else []) + [self.ptr_repr(c, e) for c in cells] + [self.lname(l) for l in locs]
                return comps[0] if len(comps) == 1 else "(" + ", ".join(comps) + ")"
            names = ([self.lname(self.state)] if st else []) + [self.lname(c) for c in cells] + [self.lname(l) for l in locs]
            if not names:
                # nothing is assigned: the statement has no effect in the subset (conditions are free of side effects)
                self.expr_check(cond, env)
                out.append(pad + "-- (no effect)")
                return out
            pat = names[0] if len(names) == 1 else "(" + ", ".join(names) + ")"
            out.append(pad + "let %s :=" % pat)
            kk = lambda e, d: ["  " * d + tup(e)]
            ind2 = ind + 1
        else:
            kk = k
            ind2 = ind
        pad2 = "  " * ind2
        tl, el = self.branch_list(then), (self.branch_list(els) if els is not None else [])
        if t is not None and env.ptr.get(t[0]) == "opt":
            q, pos = t
            ln = self.lname(q)
            e_some, e_none = env.copy(), env.copy()
            e_some.ptr[q], e_none.ptr[q] = "some", "none"
            some_l = self.stmts(tl if pos else el, e_some, kk, ind2 + 1)
            none_l = self.stmts(el if pos else tl, e_none, kk, ind2 + 1)
            arms = [("| some %s_v =>" % ln, some_l, pos), ("| none =>", none_l, not pos)]
            if not pos:
                arms.reverse()
            out.append(pad2 + "match %s with" % ln)
            for j, (hd, body, is_then) in enumerate(arms):
                if not is_then and els is not None:
                    out.append(pad2 + "-- } else {")
                out.append(pad2 + hd + " (")
                body[-1] = body[-1] + ")"
                out += body
            return out
        c = self.as_bool(self.expr(cond, env), cond, env)
        out.append(pad2 + "if %s then" % c.text)
        out += self.stmts(tl, env.copy(), kk, ind2 + 1)
        if els is not None:
            out.append(pad2 + "-- } else {")
        out.append(pad2 + "else")
        out += self.stmts(el, env.copy(), kk, ind2 + 1)
        return out

    def has_ptr_test(self, c, env):
        c = strip(c)
        if c.get("kind") == "BinaryOperator" and c.get("opcode") in ("||", "&&"):
            return any(self.has_ptr_test(x, env) for x in c["inner"])
        t = self.cond_test(c)
        return t is not None and env.ptr.get(t[0]) == "opt"

    def expr_check(self, cond, env):
        self.expr(cond, env)

    # ---- whole function -------------------------------------------------------------------------------------------------
    def run(self):
        self.analyse()
        env = Env()
        for nm in self.params:
            pi = self.pinfo[nm]
            if pi["role"] == "scalar":
                env.locals[nm] = pi["ctype"]
            elif pi["role"] == "cell":
                env.ptr[nm] = "opt" if pi["nullable"] else "plain"
        def end(e, d):
            if self.ret != "void":
                raise Unsupported("%s: control reaches the end of a non-void function" % self.name)
            return ["  " * d + self.ret_tuple(e, None)]
        body = self.stmts(self.body.get("inner", []), env, end, 1)
        head = self.signature()
        proto = self.ft.text(self.fn, upto=self.body)
        doc = ["/-- `%s`" % proto]
        res = []
        if self.writes_state: res.append("the state")
        res += ["the final `*%s`" % nm for nm in self.params if self.pinfo[nm]["role"] == "cell" and self.pinfo[nm]["written"]]
        if self.ret != "void": res.append("the C return value")
        doc.append("result: " + (", ".join(res) if res else "nothing"))
        seen = []
        for c in self.side:
            if c not in seen: seen.append(c)
        if seen:
            doc.append("preconditions of the C function (undefined behaviour otherwise): %s != NULL; " % self.state + "; ".join(seen))
        else:
            doc.append("preconditions of the C function (undefined behaviour otherwise): %s != NULL" % self.state)
        doc[-1] += " -/"
        return "\n".join(doc + [head] + body), self.sig


# ------------------------------------------------------------------------------------------------------------------------

PRELUDE = """/-- conversion int -> int16_t as gcc and clang define it (two's complement wrap); the identity on [-32768, 32767] -/
def wrap16 (x : Int) : Int := (x + 32768) % 65536 - 32768

/-- `a & b` on two ints (32 bits, two's complement) -/
def band32 (a b : Int) : Int := (BitVec.ofInt 32 a &&& BitVec.ofInt 32 b).toInt

/-- what stands in the place of a function that could not be translated: every statement about that function stops
type-checking, statements about the other functions are unaffected -/
structure NotTranslated where
  reason : String

/-- `a[i]` as a value.  Outside `0 ≤ i < a.length` the C behaviour is undefined; the model yields `default`. -/
def aget {α : Type} [Inhabited α] (a : List α) (i : Int) : α := if 0 ≤ i then a.getD i.toNat default else default

/-- `a[i] = v`.  Outside `0 ≤ i < a.length` the C behaviour is undefined; the model changes nothing. -/
def aset {α : Type} (a : List α) (i : Int) (v : α) : List α := if 0 ≤ i then a.set i.toNat v else a
"""


def translate_file(path, state_typedef="scpi_fifo_t", lean_struct="CFifo", namespace="ScpiVerif.Gen.FifoC", wanted=None, flags=()):
    """returns (lean text, {function: reason} of the functions that could not be translated).  Raises Unsupported when nothing
    can be generated at all (clang fails, the state structure is outside the subset)."""
    ast = clang_ast(path, flags)
    with open(path, encoding="latin-1") as f:
        src = f.read()
    ft = FileTranslator(ast, src, state_typedef, lean_struct)
    L = ["/- GENERATED by translate/c2lean.py from %s (clang typed AST). Do not edit. -/" % path,
         "set_option linter.unusedVariables false\n", "namespace %s\n" % namespace, PRELUDE,
         "/-- `struct %s`: int16_t fields as `Int` (their C range is a hypothesis of the theorems), `%s` as the array it points to -/" % (ft.state_struct, ft.array_field),
         "structure %s (α : Type) where" % lean_struct]
    for f in ft.field_order:
        L.append("  %s : %s" % (f, "List α" if f == ft.array_field else "Int"))
    L.append("deriving Repr, DecidableEq\n")
    L.append("variable {α : Type}\n")
    failed, done = {}, []
    def placeholder(name, why):
        failed[name] = why
        L.append("/-- `%s` is NOT TRANSLATED: %s -/" % (name, why.replace("\n", " ").replace("-/", "- /")))
        L.append("def %s : NotTranslated := ⟨%s⟩\n" % (name + "_c" if name in LEAN_KEYWORDS else name, json.dumps(why[:300], ensure_ascii=False)))
    # callees first (C needs only a prototype before a call, Lean needs the definition); recursion is outside the subset
    decls = {fn["name"]: fn for fn in ft.function_decls() if wanted is None or fn["name"] in wanted}
    def callees(fn):
        out = []
        for x in walk(fn):
            if x.get("kind") == "DeclRefExpr" and x.get("referencedDecl", {}).get("kind") == "FunctionDecl":
                c = x["referencedDecl"]["name"]
                if c in decls and c not in out:
                    out.append(c)
        return out
    order, state = [], {}
    def visit(name):
        if state.get(name) == "done":
            return
        if state.get(name) == "open":
            raise Unsupported("recursion through %s" % name)
        state[name] = "open"
        for c in callees(decls[name]):
            visit(c)
        state[name] = "done"
        order.append(name)
    for name in decls:
        try:
            visit(name)
        except Unsupported as e:
            state[name] = "done"
            if name not in order:
                order.append(name)
            failed[name] = str(e)
    for name in order:
        fn = decls[name]
        if name in failed:
            placeholder(name, failed[name])
            continue
        try:
            text, sig = ft.translate_function(fn)
        except Unsupported as e:
            placeholder(name, str(e))
            continue
        except (KeyError, IndexError, TypeError, AttributeError, ValueError) as e:
            placeholder(name, "translator error %s: %s" % (type(e).__name__, e))
            continue
        ft.funcs[name] = sig
        done.append(name)
        L.append(text + "\n")
    for w in (wanted or []):
        if w not in done and w not in failed:
            placeholder(w, "no definition of %s in %s" % (w, os.path.basename(path)))
    L.append("/-- the C functions translated in this run -/")
    L.append("def translated : List String := [%s]\n" % ", ".join('"%s"' % d for d in done))
    L.append("end %s" % namespace)
    return "\n".join(L) + "\n", failed


FIFO_FUNCS = ["fifo_init", "fifo_clear", "fifo_is_empty", "fifo_is_full", "fifo_add", "fifo_remove", "fifo_remove_last", "fifo_count"]


def stub(namespace, why):
    """a file WITHOUT the definitions: every theorem about the generated code then fails to build"""
    return ("/- GENERATED by translate/c2lean.py: the translation FAILED, nothing is defined here.\n   reason: %s -/\n"
            "namespace %s\n\ndef translated : List String := []\n\nend %s\n") % (why.replace("-/", "- /"), namespace, namespace)


def generate_fifo(outpath=None, flags=()):
    """regenerate Gen/FifoC.lean; returns {"changed", "path", "failed": {function or 'all': reason}, "functions": [...]}"""
    outpath = outpath or os.path.join(VERIF, "lean", "ScpiVerif", "Gen", "FifoC.lean")
    path = os.path.join(REPO, "libscpi", "src", "fifo.c")
    failed = {}
    try:
        text, failed = translate_file(path, wanted=FIFO_FUNCS, flags=flags)
    except (Unsupported, OSError, subprocess.SubprocessError, ValueError, KeyError, IndexError, TypeError, AttributeError) as e:
        failed = {"all": "%s: %s" % (type(e).__name__, e)}
        text = stub("ScpiVerif.Gen.FifoC", failed["all"])
    old = None
    if os.path.exists(outpath):
        with open(outpath, encoding="utf-8") as f:
            old = f.read()
    if old != text:
        os.makedirs(os.path.dirname(outpath), exist_ok=True)
        with open(outpath, "w", encoding="utf-8") as f:
            f.write(text)
    return {"changed": old != text, "path": outpath, "failed": failed, "functions": [f for f in FIFO_FUNCS if f not in failed and "all" not in failed]}


if __name__ == "__main__":
    if "--stdout" in sys.argv:
        t, failed = translate_file(os.path.join(REPO, "libscpi", "src", "fifo.c"), wanted=FIFO_FUNCS)
        sys.stdout.write(t)
        if failed:
            sys.stderr.write(json.dumps(failed, indent=1) + "\n")
        sys.exit(1 if failed else 0)
    r = generate_fifo()
    print(json.dumps(r))
    sys.exit(1 if r["failed"] else 0)
