#!/usr/bin/env python3
"""C -> Lean translator for the status-register functions of libscpi/src/ieee488.c (clang typed AST -> Gen/RegsC.lean).

    python3 translate/c2lean_regs.py            regenerate lean/ScpiVerif/Gen/RegsC.lean from $VERIF_REPO/libscpi/src/ieee488.c
    python3 translate/c2lean_regs.py --stdout   print the generated text instead

Translated: SCPI_RegGet, SCPI_RegSet, SCPI_RegSetBits, SCPI_RegClearBits and every function of ieee488.c they call (today:
writeControl; a static helper a refactoring introduces is picked up by itself).  The theorems of lean/ScpiVerif/Lemmas/RegsC.lean prove
that the GENERATED definitions compute what the hand-written model ScpiVerif.Regs (Model/Regs.lean) computes, for every state,
register name and 16-bit value, so a semantic change of these C functions breaks a proof.  Reused from translate/c2lean.py:
the clang invocation, `Unsupported`, source locations, the stub writer, the keyword list.

Subset (anything else raises `Unsupported` for the function that contains it, with the source line - never guessed):

  function ::= ret name '(' scpi_t '*' ctx {',' param} ')' '{' stmt* '}'      ret: void | scpi_reg_val_t | scpi_bool_t | enum | size_t
  param    ::= scpi_reg_val_t x | enum-type x | scpi_bool_t x | size_t x | scpi_reg_group_info_t g | scpi_reg_info_t d   (by value)
  stmt     ::= type local ['=' expr] ';' | lvalue '=' expr ';' | lvalue ('|=' | '&=' | '^=') expr ';' | call ';' | ';'
             | 'if' '(' expr ')' stmt ['else' stmt] | '{' stmt* '}' | 'return' [expr] ';' | 'break' ';' | 'continue' ';'
             | 'switch' '(' expr ')' '{' { ('case' const ':')+ stmt* | 'default' ':' stmt* } '}'      (fall-through allowed)
             | 'do' stmt 'while' '(' expr ')' ';' | 'while' '(' expr ')' stmt | 'for' '(' [assign] ';' [expr] ';' [assign] ')' stmt
               (one loop level per function; the loop becomes a recursive definition on a fuel argument)
  lvalue   ::= local | parameter | ctx '->' 'registers' '[' expr ']'
  expr     ::= literal | enum-constant | local | parameter | ctx '->' 'registers' '[' expr ']' | g '.' field
             | 'scpi_reg_details' '[' expr ']' ['.' field] | 'scpi_reg_group_details' '[' expr ']' ['.' field]
             | expr ('&' | '|' | '^') expr | '~' expr | expr ('==' | '!=' | '<' | '<=' | '>' | '>=') expr | '!' expr
             | expr ('&&' | '||') expr | expr '?' expr ':' expr | '(' expr ')' | f '(' ctx {',' expr} ')'   (f translated)
             | ctx | ctx '==' NULL | ctx '!=' NULL | ctx '->' 'interface' | ctx '->' 'interface' '->' 'control'   (as truth values)
             | ctx '->' 'interface' '->' 'control' '(' ctx ',' expr ',' expr ')'        (the callback; statement / return / initialiser)

C semantics, as decided here:
  * `scpi_reg_val_t` = uint16_t is a Lean `BitVec 16`.  C promotes a uint16_t operand to (32-bit) int before `& | ^ ~` and converts
    back modulo 2^16 on a store.  For these four operators the low 16 bits of the result depend only on the low 16 bits of the
    operands (`trunc16 (a op b) = trunc16 a op trunc16 b`, `trunc16 (~a) = ~ trunc16 a`), so an int expression built from them is
    represented by its low 16 bits and a store needs no conversion.  What does NOT commute with truncation - a test against zero,
    `== !=`, a conversion to bool - looks at all 32 bits; the translator therefore tracks for every expression whether the upper
    16 bits are known to be zero (uint16_t objects, literals below 65536, `a & b` if one side is, `a | b` and `a ^ b` if both are;
    never after `~`) and REFUSES a truth-value use or comparison of an expression for which they are not (e.g. `if (~x)`).
    Every arithmetic operator (`+ - * / % << >>`, unary `-`, `++ --`, `+=` ...) on such values is refused.
  * enum objects (`scpi_reg_name_t`, `scpi_reg_class_t`, `scpi_reg_group_t`, `scpi_ctrl_name_t`: enums without negative
    enumerators, unsigned int for gcc and clang), `unsigned int` and `size_t` values are Lean `Nat`; only constants, copies,
    comparisons and array indexing are accepted on them (no arithmetic, hence no wrap-around).  Enumerators are emitted as
    numerals (value computed from the EnumDecl of the AST) with the name in a comment.
  * comparisons and `! && ||` yield `Bool`; conversion to `scpi_bool_t` and use as a condition are `!= 0`.  Operands are free of side
    effects in the subset (an effectful call is accepted only as a whole statement / return value / initialiser).
  * the context: `structure CCtx` = the fields these functions touch: `registers` (a `List (BitVec 16)`), `hasInterface`
    (`context->interface != NULL`), `hasControl` (`context->interface->control != NULL`, meaningful only when `hasInterface`),
    `ctrlLog` (the calls of the control callback so far, oldest first, as (ctrl, value)), `ctrlRet` (what the callback answers),
    `oof` (set when a translated loop ran out of fuel; never reset).  The context POINTER is assumed non-NULL: `context`,
    `context != NULL` fold to true, `context == NULL` to false (precondition in every docstring; the hand model has no NULL
    context either).
  * the callback `context->interface->control(context, ctrl, val)` appends `(ctrl, val)` to `ctrlLog`, yields `ctrlRet` and is
    ASSUMED to leave the registers alone (an assumption about the application, as in the hand model).
  * `context->registers[i]`: `aget16 regs i` = `regs.getD i 0`, `aset16 regs i v` = `regs.set i v`.  An index outside the array
    (bound read from the field's type) is undefined behaviour in C; a constant index is checked by the translator, any other is
    listed as a precondition in the docstring of the generated function.
  * the file-static tables `scpi_reg_details[]` / `scpi_reg_group_details[]` are NOT re-translated: an access becomes an index
    into `Gen.regDetails` / `Gen.regGroups` (regenerated from the compiled tables by translate/extract.py + dump_tables.c, which
    prints the fields by NAME; the translator checks that the structures still have exactly these fields).  An index outside the
    table is undefined behaviour in C and yields the all-zero detail / the all-`SCPI_REG_NONE` group here (precondition listed).
  * a struct-typed local (`scpi_reg_group_info_t register_group`) is a Lean structure value, `=` copies it; a local without
    initialiser is unusable until assigned on the path (a read before that is refused); a loop iteration starts with exactly the
    variables that were assigned when the loop was entered.
  * a loop is a definition by recursion on `fuel`: `f_loopN (fuel+1) vars` runs one iteration and calls `f_loopN fuel vars'`;
    `f_loopN 0 vars` sets `oof` in the context and returns.  The initial fuel (`f_loopN_fuel`) is emitted by the translator;
    that it suffices is a THEOREM of Lemmas/RegsC.lean (`oof` stays false).  Code after the loop is translated into the loop's exits.
"""
import json, os, re, subprocess, sys

HERE = os.path.dirname(os.path.abspath(__file__))
sys.path.insert(0, HERE)
import c2lean
from c2lean import Unsupported, clang_ast, loc_of, LEAN_KEYWORDS, walk

VERIF = os.path.dirname(HERE)
NAMESPACE = "ScpiVerif.Gen.RegsC"
TARGETS = ["SCPI_RegGet", "SCPI_RegSet", "SCPI_RegSetBits", "SCPI_RegClearBits"]      # and whatever they call (writeControl)
# initial fuel of the loops, by function: (enumerator, offset).  The walk of SCPI_RegSet goes up a hierarchy of at most
# SCPI_REG_COUNT registers; that this bound suffices for the generated tables is proved in Lean, not assumed.
FUEL = {"SCPI_RegSet": ("SCPI_REG_COUNT", 1)}
DEFAULT_FUEL = 65536

DETAIL_FIELDS = ["type", "group"]
GROUP_FIELDS = ["event", "enable", "condition", "ptfilt", "ntfilt", "parent_reg", "parent_bit"]
EXTRA_KEYWORDS = {"aget16", "aset16", "CCtx", "fuel", "scpi_reg_details_at", "scpi_reg_group_details_at", "RegInfo", "RegGroupInfo",
                  "cb_r", "call_r", "sw", "type"}


def repo():
    return os.environ.get("VERIF_REPO", "/repo")


class V:
    """kind: u16 | nat | bool | sint | lit | grp | det | ctx | unit;  text: Lean term;  atom: no parentheses needed as an operand;
    hi0 (u16): the upper 16 bits of the C int are zero;  lit: value of a literal / enumerator;  const (bool): folded truth value"""
    def __init__(self, kind, text, atom=False, hi0=True, lit=None, const=None):
        self.kind, self.text, self.atom, self.hi0, self.lit, self.const = kind, text, atom, hi0, lit, const

    def p(self):
        return self.text if self.atom else "(" + self.text + ")"


LEAN_TYPE = {"u16": "BitVec 16", "nat": "Nat", "bool": "Bool", "sint": "Int", "grp": "RegGroupInfo", "det": "RegInfo", "ctx": "CCtx"}
DEFAULT_VAL = {"u16": "0#16", "nat": "0", "bool": "false", "sint": "0"}


class Env:
    def __init__(self):
        self.kind = {}       # variable -> kind
        self.assigned = {}   # variable -> definitely assigned on this path
        self.order = []      # variables in scope, declaration order

    def copy(self):
        e = Env()
        e.kind, e.assigned, e.order = dict(self.kind), dict(self.assigned), list(self.order)
        return e

    def restrict(self, names):
        """leave a scope: keep only the variables `names` (in their order)"""
        e = Env()
        e.order = [n for n in self.order if n in names]
        e.kind = {n: self.kind[n] for n in e.order}
        e.assigned = {n: self.assigned[n] for n in e.order}
        return e


class Ctl:
    def __init__(self, brk=None, cont=None):
        self.brk, self.cont = brk, cont


class File:
    def __init__(self, ast, src):
        self.ast, self.src = ast, src
        self.typedefs, self.records, self.enums, self.enum_tag_min = {}, {}, {}, {}
        for n in walk(ast):
            k = n.get("kind")
            if k == "TypedefDecl":
                self.typedefs[n["name"]] = n["type"].get("desugaredQualType") or n["type"].get("qualType")
            elif k == "RecordDecl" and n.get("completeDefinition") and n.get("name"):
                self.records[n["name"]] = n
            elif k == "EnumDecl":
                nxt, lo = 0, 0
                for c in n.get("inner", []):
                    if c.get("kind") != "EnumConstantDecl":
                        continue
                    val = None
                    for x in walk(c):
                        if x.get("kind") == "ConstantExpr" and "value" in x:
                            val = int(x["value"]); break
                    if val is None:
                        if any(x.get("kind") not in ("EnumConstantDecl", "FullComment", "ParagraphComment", "TextComment") for x in walk(c)):
                            val = "?"      # an initialiser clang did not evaluate for us
                        else:
                            val = nxt
                    self.enums[c["name"]] = val
                    if val != "?":
                        nxt = val + 1; lo = min(lo, val)
                if n.get("name"):
                    self.enum_tag_min[n["name"]] = lo
        self.funcs = {}
        self.check_layout()

    # ---- types ---------------------------------------------------------------------------------------------------------------
    def canon(self, t):
        q = (t.get("desugaredQualType") or t.get("qualType")) if isinstance(t, dict) else t
        for _ in range(20):
            toks = re.findall(r"[A-Za-z_]\w*|\*|\(|\)|,|\[|\]|\d+", q)
            if "volatile" in toks:
                raise Unsupported("volatile type %s" % q)
            toks = [x for x in toks if x not in ("const", "restrict", "__restrict")]
            out, changed = [], False
            for tk in toks:
                if tk in self.typedefs and self.typedefs[tk] != tk:
                    out.append(self.typedefs[tk]); changed = True
                else:
                    out.append(tk)
            q = " ".join(out)
            if not changed:
                break
        return " ".join(x for x in q.split() if x not in ("const",))

    def kind_of(self, t):
        s = self.canon(t)
        if s in ("unsigned short", "unsigned short int", "short unsigned int"): return "u16"
        if s in ("bool", "_Bool"): return "bool"
        if s == "void": return "unit"
        if s in ("unsigned int", "unsigned long", "unsigned", "long unsigned int", "unsigned long int"): return "nat"
        if s.startswith("enum "):
            tag = s.split()[1]
            if tag not in self.enum_tag_min: raise Unsupported("enum %s without definition" % tag)
            return "nat" if self.enum_tag_min[tag] >= 0 else "sint"
        if s == "struct _scpi_reg_group_info_t": return "grp"
        if s == "struct _scpi_reg_info_t": return "det"
        if s == "struct _scpi_t *": return "ctx"
        if s == "int": return "int"
        raise Unsupported("type '%s' (%s)" % (t.get("qualType") if isinstance(t, dict) else t, s))

    def check_layout(self):
        def fields(rec):
            r = self.records.get(rec)
            if r is None: raise Unsupported("struct %s has no definition" % rec)
            return [(f["name"], f) for f in r.get("inner", []) if f.get("kind") == "FieldDecl"]
        f = fields("_scpi_reg_info_t")
        if sorted(n for n, _ in f) != sorted(DETAIL_FIELDS) or any(self.kind_of(x["type"]) != "nat" for _, x in f):
            raise Unsupported("struct _scpi_reg_info_t is no longer {type, group} of enum type: %s" % [n for n, _ in f])
        f = fields("_scpi_reg_group_info_t")
        if sorted(n for n, _ in f) != sorted(GROUP_FIELDS):
            raise Unsupported("struct _scpi_reg_group_info_t no longer has the fields %s: %s" % (GROUP_FIELDS, [n for n, _ in f]))
        for n, x in f:
            if self.kind_of(x["type"]) != ("u16" if n == "parent_bit" else "nat"):
                raise Unsupported("field %s of struct _scpi_reg_group_info_t has type %s" % (n, x["type"]["qualType"]))
        ctxf = dict(fields("_scpi_t"))
        m = re.fullmatch(r"unsigned short \[ (\d+) \]", self.canon(ctxf.get("registers", {"type": {"qualType": "void"}})["type"]))
        if not m: raise Unsupported("scpi_t.registers is not an array of uint16_t")
        self.nregs = int(m.group(1))
        if self.canon(ctxf.get("interface", {"type": {"qualType": "void"}})["type"]) != "struct _scpi_interface_t *":
            raise Unsupported("scpi_t.interface is not a scpi_interface_t *")
        itf = dict(fields("_scpi_interface_t"))
        if "control" not in itf or self.canon(itf["control"]["type"]) != \
                "enum _scpi_result_t ( * ) ( struct _scpi_t * , enum _scpi_ctrl_name_t , unsigned short )":
            raise Unsupported("scpi_interface_t.control has type %s" % (self.canon(itf["control"]["type"]) if "control" in itf else "-"))
        self.table_len = {}
        for n in self.ast.get("inner", []):
            if n.get("kind") == "VarDecl" and n.get("name") in ("scpi_reg_details", "scpi_reg_group_details"):
                m = re.search(r"\[(\d+)\]", n["type"]["qualType"])
                want = "struct _scpi_reg_info_t" if n["name"] == "scpi_reg_details" else "struct _scpi_reg_group_info_t"
                if not m or not self.canon(n["type"]).startswith(want) or "const" not in n["type"]["qualType"]:
                    raise Unsupported("table %s has type %s" % (n["name"], n["type"]["qualType"]))
                self.table_len[n["name"]] = int(m.group(1))

    # ---- source text ---------------------------------------------------------------------------------------------------------
    def text(self, node, upto=None, stmt=False):
        b, _, _ = loc_of(node["range"]["begin"])
        if upto is not None:
            e, _, _ = loc_of(upto["range"]["begin"])
            s = self.src[b:e]
        else:
            e, tl, _ = loc_of(node["range"]["end"])
            e += tl
            s = self.src[b:e]
            if stmt and re.match(r"\s*;", self.src[e:e + 8]):
                s += ";"
        return " ".join(s.split()).replace("-/", "- /")

    def where(self, node):
        b, _, _ = loc_of(node["range"]["begin"])
        return "?" if b is None else "line %d" % (self.src.count("\n", 0, b) + 1)

    def function_decls(self):
        return {n["name"]: n for n in self.ast.get("inner", [])
                if n.get("kind") == "FunctionDecl" and any(c.get("kind") == "CompoundStmt" for c in n.get("inner", []))
                and loc_of(n["loc"])[2]}


def strip(e):
    while e.get("kind") == "ParenExpr":
        e = e["inner"][0]
    return e


def strip_casts(e):
    while e.get("kind") in ("ParenExpr", "ImplicitCastExpr", "CStyleCastExpr", "ConstantExpr"):
        e = e["inner"][0]
    return e


def is_null(e):
    e = strip(e)
    if e.get("kind") in ("ImplicitCastExpr", "CStyleCastExpr") and e.get("castKind") in ("NullToPointer", "BitCast"):
        x = strip_casts(e)
        return x.get("kind") == "IntegerLiteral" and x.get("value") == "0"
    return False


class Func:
    def __init__(self, ft, fn):
        self.ft, self.fn, self.name = ft, fn, fn["name"]
        self.body = [c for c in fn["inner"] if c.get("kind") == "CompoundStmt"][0]
        self.side, self.aux, self.nloops, self.in_loop, self.nsw = [], [], 0, False, 0
        self.hoisted = {}

    def fail(self, node, msg):
        raise Unsupported("%s, %s: %s  [%s]" % (self.name, self.ft.where(node), msg, self.ft.text(node)[:80]))

    def lname(self, n):
        return n + "_c" if (n in LEAN_KEYWORDS or n in EXTRA_KEYWORDS) else n

    # ---- signature -----------------------------------------------------------------------------------------------------------
    def analyse(self):
        ft = self.ft
        rt = self.fn["type"]["qualType"]
        self.ret = ft.kind_of(rt[:rt.index("(")].strip())
        if self.ret not in ("unit", "u16", "bool", "nat"):
            raise Unsupported("%s: return type %s" % (self.name, rt))
        if self.fn.get("variadic"):
            raise Unsupported("%s: variadic" % self.name)
        self.params = []
        for p in [c for c in self.fn["inner"] if c.get("kind") == "ParmVarDecl"]:
            if "name" not in p: raise Unsupported("%s: unnamed parameter" % self.name)
            k = ft.kind_of(p["type"])
            if k not in ("ctx", "u16", "nat", "bool", "grp", "det"):
                raise Unsupported("%s: parameter %s of type %s" % (self.name, p["name"], p["type"]["qualType"]))
            self.params.append((p["name"], k))
        if not self.params or self.params[0][1] != "ctx" or any(k == "ctx" for _, k in self.params[1:]):
            raise Unsupported("%s: the first parameter (and only it) must be scpi_t *" % self.name)
        self.ctx = self.params[0][0]
        names = [n for n, _ in self.params]
        # does the function change the context?  (a store, a call of a function that does, the callback, a loop: out-of-fuel flag)
        self.writes = False
        for n in walk(self.body):
            k = n.get("kind")
            if k in ("DoStmt", "WhileStmt", "ForStmt"):
                self.writes = True
            if (k == "BinaryOperator" and n.get("opcode") == "=") or k == "CompoundAssignOperator":
                if strip(n["inner"][0]).get("kind") == "ArraySubscriptExpr":
                    self.writes = True
            if k == "CallExpr":
                if self.is_callback(n):
                    self.writes = True
                else:
                    c = strip_casts(n["inner"][0])
                    nm = c.get("referencedDecl", {}).get("name")
                    if nm in ft.funcs and ft.funcs[nm]["writes"]:
                        self.writes = True
            if k == "VarDecl" and (n["name"] in names or names.count(n["name"]) > 0):
                raise Unsupported("%s: local %s shadows a parameter" % (self.name, n["name"]))
        for n in walk(self.body):
            if n.get("kind") == "VarDecl" and n.get("storageClass"):
                raise Unsupported("%s: %s local %s" % (self.name, n["storageClass"], n["name"]))

    def is_callback(self, call):
        c = strip_casts(call["inner"][0])
        if c.get("kind") == "MemberExpr" and c.get("name") == "control" and c.get("isArrow"):
            i = strip_casts(c["inner"][0])
            return i.get("kind") == "MemberExpr" and i.get("name") == "interface" and i.get("isArrow") and self.is_ctx(i["inner"][0])
        return False

    def is_ctx(self, e):
        e = strip_casts(e)
        return e.get("kind") == "DeclRefExpr" and e["referencedDecl"].get("name") == self.ctx

    def ret_type(self):
        parts = (["CCtx"] if self.writes else []) + ([LEAN_TYPE[self.ret]] if self.ret != "unit" else [])
        return " × ".join(parts) if parts else "Unit"

    def ret_text(self, v):
        c = self.lname(self.ctx)
        if self.writes and v is not None: return "(%s, %s)" % (c, v.text)
        if self.writes: return c
        return v.text if v is not None else "()"

    # ---- expressions ---------------------------------------------------------------------------------------------------------
    def lit(self, val, name=None):
        return V("lit", str(val), atom=True, lit=val, hi0=(0 <= val < 65536), const=None) if name is None else \
            V("lit", "%d /- %s -/" % (val, name), atom=False, lit=val, hi0=(0 <= val < 65536))

    def to_u16(self, v, node):
        if v.kind == "u16": return v
        if v.kind == "lit":
            if not (0 <= v.lit < 65536): self.fail(node, "literal %d as a 16-bit operand" % v.lit)
            nm = v.text[v.text.index("/-"):] if "/-" in v.text else ""
            return V("u16", ("%d#16 %s" % (v.lit, nm)).strip(), atom=not nm, hi0=True, lit=v.lit)
        self.fail(node, "a %s value where a 16-bit register value is needed" % v.kind)

    def to_nat(self, v, node):
        if v.kind == "nat": return v
        if v.kind == "lit":
            if v.lit < 0: self.fail(node, "negative constant as an unsigned value")
            return V("nat", v.text, atom=v.atom, lit=v.lit)
        self.fail(node, "a %s value where an enum / unsigned value is needed" % v.kind)

    def to_kind(self, v, kind, node):
        if kind == "u16": return self.to_u16(v, node)
        if kind == "nat": return self.to_nat(v, node)
        if kind == "bool": return self.as_bool(v, node)
        if v.kind == kind: return v
        self.fail(node, "a %s value where %s is needed" % (v.kind, kind))

    def as_bool(self, v, node):
        if v.kind == "bool": return v
        if v.kind == "lit": return V("bool", "true" if v.lit != 0 else "false", atom=True, const=(v.lit != 0))
        if v.kind == "u16":
            if not v.hi0: self.fail(node, "truth value of a promoted 16-bit expression whose upper bits may be set (after `~`)")
            return V("bool", "%s != 0#16" % v.p())
        if v.kind == "nat": return V("bool", "%s != 0" % v.p())
        self.fail(node, "truth value of a %s" % v.kind)

    def expr(self, n, env):
        k = n.get("kind")
        if id(n) in self.hoisted:
            return self.hoisted[id(n)]
        if k in ("ParenExpr", "ConstantExpr"):
            return self.expr(n["inner"][0], env)
        if k == "IntegerLiteral":
            return self.lit(int(n["value"]))
        if k == "DeclRefExpr":
            rd = n["referencedDecl"]
            if rd.get("kind") == "EnumConstantDecl":
                val = self.ft.enums.get(rd["name"])
                if val is None or val == "?": self.fail(n, "value of enumerator %s unknown" % rd["name"])
                return self.lit(val, rd["name"])
            nm = rd.get("name")
            if nm == self.ctx:
                return V("ctx", self.lname(nm), atom=True)
            if nm in env.kind:
                if not env.assigned[nm]: self.fail(n, "read of %s, which is not assigned on every path to here" % nm)
                return V(env.kind[nm], self.lname(nm), atom=True)
            self.fail(n, "reference to %s" % nm)
        if k == "ImplicitCastExpr" or k == "CStyleCastExpr":
            ck = n.get("castKind")
            if is_null(n): return V("null", "NULL", atom=True)
            if k == "CStyleCastExpr" and ck not in ("IntegralCast", "NoOp"): self.fail(n, "cast %s" % ck)
            v = self.expr(n["inner"][0], env)
            if ck in ("LValueToRValue", "NoOp"): return v
            if ck == "IntegralCast":
                to = self.ft.kind_of(n["type"])
                if to == "u16":
                    if v.kind == "u16": return V("u16", v.text, v.atom, hi0=True, lit=v.lit)
                    if v.kind == "lit": return self.to_u16(self.lit(v.lit % 65536) if "/-" not in v.text and 0 <= v.lit else v, n)
                    self.fail(n, "conversion of a %s to uint16_t" % v.kind)
                if to == "int":
                    if v.kind in ("u16", "lit", "nat"): return v     # a nat seen as int only feeds a comparison / index again
                    if v.kind == "bool": return v     # a truth value promoted to int: accepted where it is used as a truth value again
                                                      # (`summary ? a : b`, `if (summary)`); any numeric use is refused by the operators
                if to == "nat":
                    if v.kind in ("nat", "lit"): return v
                    if v.kind == "sint": return V("nat", "(%s %% 18446744073709551616).toNat" % v.p()) if self.ft.canon(n["type"]) in ("unsigned long", "long unsigned int") \
                        else self.fail(n, "conversion of a signed value to %s" % n["type"]["qualType"])
                    if v.kind == "u16": self.fail(n, "a register value used as an unsigned int / enum")
                self.fail(n, "integral conversion of a %s to %s" % (v.kind, n["type"]["qualType"]))
            if ck == "IntegralToBoolean":
                return self.as_bool(v, n)
            self.fail(n, "cast %s" % ck)
        if k == "UnaryOperator":
            op = n.get("opcode")
            if op == "~":
                v = self.to_u16(self.expr(n["inner"][0], env), n)
                return V("u16", "~~~%s" % v.p(), hi0=False)
            if op == "!":
                v = self.truth(n["inner"][0], env)
                if v.const is not None: return V("bool", "false" if v.const else "true", atom=True, const=not v.const)
                return V("bool", "!%s" % v.p())
            self.fail(n, "unary operator %s" % op)
        if k == "BinaryOperator":
            return self.binop(n, env)
        if k == "ConditionalOperator":
            c = self.truth(n["inner"][0], env)
            a, b = self.expr(n["inner"][1], env), self.expr(n["inner"][2], env)
            kind = a.kind if a.kind != "lit" else b.kind
            if kind == "lit": kind = "u16" if self.ft.kind_of(n["type"]) in ("u16", "int") else "nat"
            a, b = self.to_kind(a, kind, n), self.to_kind(b, kind, n)
            if c.const is not None: return a if c.const else b
            return V(kind, "if %s then %s else %s" % (c.text, a.text, b.text), hi0=a.hi0 and b.hi0)
        if k == "ArraySubscriptExpr":
            return self.subscript(n, env)
        if k == "MemberExpr":
            if n.get("isArrow"):
                b = strip_casts(n["inner"][0])
                if n["name"] == "interface" and self.is_ctx(b):
                    return V("bool", "%s.hasInterface" % self.lname(self.ctx), atom=True)
                if n["name"] == "control" and b.get("kind") == "MemberExpr" and b.get("name") == "interface" and b.get("isArrow") and self.is_ctx(b["inner"][0]):
                    return V("bool", "%s.hasControl" % self.lname(self.ctx), atom=True)
                self.fail(n, "member access ->%s" % n["name"])
            b = self.expr(n["inner"][0], env)
            if b.kind == "det" and n["name"] in DETAIL_FIELDS:
                return V("nat", "%s.%s" % (b.p(), self.field(n["name"])), atom=b.atom)
            if b.kind == "grp" and n["name"] in GROUP_FIELDS:
                return V("u16" if n["name"] == "parent_bit" else "nat", "%s.%s" % (b.p(), self.field(n["name"])), atom=b.atom)
            self.fail(n, "member access .%s of a %s" % (n["name"], b.kind))
        if k == "CallExpr":
            return self.call(n, env)
        self.fail(n, "expression of kind %s" % k)

    def field(self, f):
        return "type_c" if f == "type" else f

    def truth(self, n, env):
        v = self.expr(n, env)
        if v.kind == "ctx": return V("bool", "true", atom=True, const=True)
        return self.as_bool(v, n)

    def subscript(self, n, env):
        base, idx = strip_casts(n["inner"][0]), self.expr(n["inner"][1], env)
        idx = self.to_nat(idx, n)
        def bound(limit, what):
            if idx.lit is not None:
                if not idx.lit < limit: self.fail(n, "constant index %d outside %s[%d]" % (idx.lit, what, limit))
            else:
                c = "%s < %d (%s, index of %s)" % (self.ft.text(n["inner"][1]), limit, self.ft.where(n), what)
                if c not in self.side: self.side.append(c)
        if base.get("kind") == "MemberExpr" and base.get("name") == "registers" and base.get("isArrow") and self.is_ctx(base["inner"][0]):
            bound(self.ft.nregs, "registers")
            return V("u16", "aget16 %s.registers %s" % (self.lname(self.ctx), idx.p()), hi0=True)
        if base.get("kind") == "DeclRefExpr" and base["referencedDecl"].get("name") in self.ft.table_len:
            t = base["referencedDecl"]["name"]
            bound(self.ft.table_len[t], t)
            return V("det" if t == "scpi_reg_details" else "grp", "%s_at %s" % (t, idx.p()))
        self.fail(n, "array access")

    def binop(self, n, env):
        op = n["opcode"]
        if op in ("&&", "||"):
            a, b = self.truth(n["inner"][0], env), self.truth(n["inner"][1], env)
            if a.const is not None:
                return b if a.const == (op == "&&") else a
            if b.const is not None:     # operands are free of side effects: `a && true` = a, `a || false` = a, `a && false` = false
                return a if b.const == (op == "&&") else b
            return V("bool", "%s %s %s" % (a.p(), op, b.p()))
        if op == "=" or op == ",":
            self.fail(n, "operator %s inside an expression" % op)
        a, b = self.expr(n["inner"][0], env), self.expr(n["inner"][1], env)
        if op in ("==", "!="):
            if "ctx" in (a.kind, b.kind) and "null" in (a.kind, b.kind):
                return V("bool", "true" if op == "!=" else "false", atom=True, const=(op == "!="))
        if op in ("&", "|", "^"):
            a, b = self.to_u16(a, n), self.to_u16(b, n)
            hi0 = (a.hi0 or b.hi0) if op == "&" else (a.hi0 and b.hi0)
            return V("u16", "%s %s %s" % (a.p(), {"&": "&&&", "|": "|||", "^": "^^^"}[op], b.p()), hi0=hi0)
        if op in ("==", "!=", "<", "<=", ">", ">="):
            if a.kind == "lit" and b.kind == "lit":
                a = self.to_nat(a, n)
            if a.kind == "u16" or b.kind == "u16":
                a, b = self.to_u16(a, n), self.to_u16(b, n)
                if op not in ("==", "!="): self.fail(n, "ordering comparison of register values")
                if not (a.hi0 and b.hi0): self.fail(n, "comparison of a promoted 16-bit expression whose upper bits may be set (after `~`)")
            elif a.kind in ("nat", "lit") and b.kind in ("nat", "lit"):
                a, b = self.to_nat(a, n), self.to_nat(b, n)
            elif a.kind == "bool" and b.kind == "bool" and op in ("==", "!="):
                pass
            else:
                self.fail(n, "comparison of a %s with a %s" % (a.kind, b.kind))
            if op in ("==", "!="):
                return V("bool", "%s %s %s" % (a.p(), op, b.p()))
            return V("bool", "decide (%s %s %s)" % (a.p(), {"<": "<", "<=": "≤", ">": ">", ">=": "≥"}[op], b.p()))
        self.fail(n, "binary operator %s" % op)

    def call(self, n, env):
        """a call inside an expression: only of translated functions that leave the context alone"""
        if self.is_callback(n):
            self.fail(n, "the control callback inside an expression (accepted as a statement, return value or initialiser)")
        c = strip_casts(n["inner"][0])
        nm = c.get("referencedDecl", {}).get("name")
        sig = self.ft.funcs.get(nm)
        if sig is None: self.fail(n, "call of %s, which is not translated" % nm)
        if sig["writes"]: self.fail(n, "call of %s (which changes the context) inside an expression" % nm)
        if sig["ret"] == "unit": self.fail(n, "value of a void function")
        return V(sig["ret"], self.call_text(n, sig, env), hi0=True)

    def call_text(self, n, sig, env):
        args = n["inner"][1:]
        if len(args) != len(sig["params"]): self.fail(n, "argument count")
        out = []
        for a, (pn, pk) in zip(args, sig["params"]):
            if pk == "ctx":
                if not self.is_ctx(a): self.fail(n, "the context argument is not the context parameter")
                out.append(self.lname(self.ctx))
            else:
                out.append(self.to_kind(self.expr(a, env), pk, a).p())
        return "%s %s" % (sig["lean"], " ".join(out))

    # ---- effectful calls (statement level) ----------------------------------------------------------------------------------
    def effect_root(self, e):
        """the CallExpr at the root of e (below casts / parentheses) if it changes the context, else None"""
        x = strip_casts(e)
        if x.get("kind") != "CallExpr": return None
        if self.is_callback(x): return x
        nm = strip_casts(x["inner"][0]).get("referencedDecl", {}).get("name")
        sig = self.ft.funcs.get(nm)
        return x if sig and sig["writes"] else None

    def hoist(self, e, env, pad, want_value):
        """emit the bindings for an effectful call at the root of e; afterwards self.expr(e) sees its value.  Returns lines."""
        x = self.effect_root(e)
        if x is None: return []
        c = self.lname(self.ctx)
        if self.is_callback(x):
            args = x["inner"][1:]
            if len(args) != 3 or not self.is_ctx(args[0]): self.fail(x, "callback arguments")
            a1 = self.to_nat(self.expr(args[1], env), args[1])
            a2 = self.to_u16(self.expr(args[2], env), args[2])
            lines = []
            if want_value:
                lines.append(pad + "let cb_r := %s.ctrlRet" % c)
                self.hoisted[id(x)] = V("sint", "cb_r", atom=True)
            lines.append(pad + "let %s := { %s with ctrlLog := %s.ctrlLog ++ [(%s, %s)] }" % (c, c, c, a1.text, a2.text))
            return lines
        nm = strip_casts(x["inner"][0])["referencedDecl"]["name"]
        sig = self.ft.funcs[nm]
        t = self.call_text(x, sig, env)
        if sig["ret"] == "unit":
            if want_value: self.fail(x, "value of a void function")
            return [pad + "let %s := %s" % (c, t)]
        if not want_value:
            return [pad + "let %s := (%s).1" % (c, t)]
        self.hoisted[id(x)] = V(sig["ret"], "call_r.2", atom=True)
        return [pad + "let call_r := %s" % t, pad + "let %s := call_r.1" % c]

    def no_inner_effects(self, e, root=None):
        for x in walk(e):
            if x.get("kind") == "CallExpr" and x is not root:
                if self.is_callback(x): self.fail(x, "the control callback inside an expression")
                nm = strip_casts(x["inner"][0]).get("referencedDecl", {}).get("name")
                sig = self.ft.funcs.get(nm)
                if sig and sig["writes"]: self.fail(x, "call of %s (which changes the context) inside an expression" % nm)
            if x.get("kind") in ("CompoundAssignOperator",) or (x.get("kind") == "BinaryOperator" and x.get("opcode") in ("=", ",")) or \
               (x.get("kind") == "UnaryOperator" and x.get("opcode") in ("++", "--")):
                if x is not e: self.fail(x, "assignment inside an expression")

    # ---- statements (continuation passing: k(env, ind) yields the lines of everything that follows) --------------------------
    def jumps(self, n, in_loop=False, in_switch=False):
        k = n.get("kind")
        if k == "ReturnStmt": return True
        if k == "BreakStmt": return not (in_loop or in_switch)
        if k == "ContinueStmt": return not in_loop
        if k in ("DoStmt", "WhileStmt", "ForStmt"): return True      # a loop consumes its continuation
        if k == "SwitchStmt": return True                            # translated by duplication of the continuation
        return any(self.jumps(c, in_loop, in_switch) for c in n.get("inner", []))

    def branch_list(self, n):
        return n.get("inner", []) if n.get("kind") == "CompoundStmt" else [n]

    def comment(self, s, pad, upto=None):
        return pad + "-- " + self.ft.text(s, upto=upto, stmt=upto is None)

    def stmts(self, lst, env, ctl, k, ind):
        pad = "  " * ind
        if not lst:
            return k(env, ind)
        s, rest = lst[0], lst[1:]
        kind = s.get("kind")
        nxt = lambda e, i=ind: self.stmts(rest, e, ctl, k, i)
        if kind == "NullStmt":
            return nxt(env)
        if kind == "CompoundStmt":
            scope = list(env.order)
            return self.stmts(s.get("inner", []), env.copy(), ctl, lambda e, i: self.stmts(rest, e.restrict(scope), ctl, k, i), ind)
        if kind == "ReturnStmt":
            out = [self.comment(s, pad)]
            v = None
            if s.get("inner"):
                e0 = s["inner"][0]
                self.no_inner_effects(e0, self.effect_root(e0))
                out += self.hoist(e0, env, pad, True)
                v = self.expr(e0, env)
                if self.ret == "unit": self.fail(s, "return with a value in a void function")
                v = self.to_kind(v, self.ret, s)
            elif self.ret != "unit":
                self.fail(s, "return without a value")
            return out + [pad + self.ret_text(v)]
        if kind == "BreakStmt":
            if ctl.brk is None: self.fail(s, "break outside a loop / switch")
            return [self.comment(s, pad)] + ctl.brk(env, ind)
        if kind == "ContinueStmt":
            if ctl.cont is None: self.fail(s, "continue outside a loop")
            return [self.comment(s, pad)] + ctl.cont(env, ind)
        if kind == "DeclStmt":
            out = []
            env = env.copy()
            for d in s.get("inner", []):
                if d.get("kind") != "VarDecl": self.fail(s, "declaration of kind %s" % d.get("kind"))
                kd = self.ft.kind_of(d["type"])
                if kd not in ("u16", "nat", "bool", "grp", "det"): self.fail(s, "local of type %s" % d["type"]["qualType"])
                if d["name"] in env.kind: self.fail(s, "local %s shadows a variable in scope" % d["name"])
                init = [c for c in d.get("inner", []) if "Comment" not in c.get("kind", "")]
                env.order.append(d["name"]); env.kind[d["name"]] = kd
                if init:
                    self.no_inner_effects(init[0], self.effect_root(init[0]))
                    out.append(pad + "-- " + self.ft.text(d) + ";")
                    out += self.hoist(init[0], env, pad, True)
                    v = self.to_kind(self.expr(init[0], env), kd, d)
                    out.append(pad + "let %s := %s" % (self.lname(d["name"]), v.text))
                    env.assigned[d["name"]] = True
                else:
                    out.append(pad + "-- " + self.ft.text(d) + ";   (no value yet)")
                    env.assigned[d["name"]] = False
            return out + nxt(env)
        if kind in ("BinaryOperator", "CompoundAssignOperator") and (s.get("opcode") == "=" or kind == "CompoundAssignOperator"):
            out = [self.comment(s, pad)]
            lhs, rhs = strip(s["inner"][0]), s["inner"][1]
            self.no_inner_effects(rhs, self.effect_root(rhs) if kind == "BinaryOperator" else None)
            self.no_inner_effects(lhs)
            if kind == "BinaryOperator":
                out += self.hoist(rhs, env, pad, True)
                v = self.expr(rhs, env)
            else:
                op = s["opcode"][:-1]
                if op not in ("&", "|", "^"): self.fail(s, "compound assignment %s" % s["opcode"])
                a, b = self.to_u16(self.expr(lhs, env.copy()), s), self.to_u16(self.expr(rhs, env), s)
                v = V("u16", "%s %s %s" % (a.p(), {"&": "&&&", "|": "|||", "^": "^^^"}[op], b.p()), hi0=False)
            env = env.copy()
            if lhs.get("kind") == "DeclRefExpr" and lhs["referencedDecl"].get("name") in env.kind:
                nm = lhs["referencedDecl"]["name"]
                v = self.to_kind(v, env.kind[nm], s)
                out.append(pad + "let %s := %s" % (self.lname(nm), v.text))
                env.assigned[nm] = True
            elif lhs.get("kind") == "ArraySubscriptExpr":
                cell = self.subscript(lhs, env)      # checks base and index, records the bound
                if cell.kind != "u16": self.fail(s, "store into a table")
                idx = self.to_nat(self.expr(lhs["inner"][1], env), lhs)
                v = self.to_u16(v, s)
                c = self.lname(self.ctx)
                out.append(pad + "let %s := { %s with registers := aset16 %s.registers %s %s }" % (c, c, c, idx.p(), v.p()))
            else:
                self.fail(s, "assignment to this left-hand side")
            return out + nxt(env)
        if kind == "CallExpr":
            out = [self.comment(s, pad)]
            self.no_inner_effects(s, self.effect_root(s))
            if self.effect_root(s) is not None:
                out += self.hoist(s, env, pad, False)
            else:
                self.expr(s, env)        # checked, then dropped: no effect
                out.append(pad + "-- (call without effect on the context: value dropped)")
            return out + nxt(env)
        if kind == "IfStmt":
            return self.if_stmt(s, rest, env, ctl, k, ind)
        if kind == "SwitchStmt":
            return self.switch_stmt(s, rest, env, ctl, k, ind)
        if kind in ("DoStmt", "WhileStmt", "ForStmt"):
            return self.loop_stmt(s, rest, env, ctl, k, ind)
        self.fail(s, "statement of kind %s" % kind)

    def if_stmt(self, s, rest, env, ctl, k, ind):
        pad = "  " * ind
        parts = [c for c in s["inner"]]
        cond, then = parts[0], parts[1]
        els = parts[2] if len(parts) > 2 else None
        if s.get("hasInit") or s.get("hasVar"): self.fail(s, "if with a declaration")
        self.no_inner_effects(cond)
        c = self.truth(cond, env)
        head = self.comment(s, pad, upto=then)
        scope = list(env.order)
        after = lambda e, i: self.stmts(rest, e.restrict(scope), ctl, k, i)
        tl, el = self.branch_list(then), (self.branch_list(els) if els is not None else [])
        if c.const is not None:        # folded condition (NULL tests of the context): the dead branch is not translated
            return [head + "   (condition folds to %s)" % ("true" if c.const else "false")] + \
                self.stmts(tl if c.const else el, env.copy(), ctl, after, ind)
        if not self.jumps(then) and not (els is not None and self.jumps(els)):
            # both branches fall through: one expression yielding the variables they assign
            ends = []
            probe = lambda e, i: (ends.append(e.restrict(scope)), ["?"])[1]
            self.stmts(tl, env.copy(), ctl, probe, ind + 1)
            self.stmts(el, env.copy(), ctl, probe, ind + 1)
            e1, e2 = ends[0], ends[1]
            written = self.assigned_in(then) | (self.assigned_in(els) if els is not None else set())
            tup = [v for v in scope if v in written and e1.assigned[v] and e2.assigned[v]]
            env2 = env.copy()
            for v in scope:
                env2.assigned[v] = e1.assigned[v] and e2.assigned[v]
            if not tup:
                return [head + "   (no effect)"] + self.stmts(rest, env2, ctl, k, ind)
            tt = self.lname(tup[0]) if len(tup) == 1 else "(" + ", ".join(self.lname(v) for v in tup) + ")"
            fin = lambda e, i: ["  " * i + tt]
            out = [head, pad + "let %s :=" % tt, pad + "  if %s then" % c.text]
            out += self.stmts(tl, env.copy(), ctl, fin, ind + 2)
            out.append(pad + "  else")
            out += self.stmts(el, env.copy(), ctl, fin, ind + 2)
            return out + self.stmts(rest, env2, ctl, k, ind)
        out = [head, pad + "if %s then" % c.text]
        out += self.stmts(tl, env.copy(), ctl, after, ind + 1)
        out.append(pad + "else")
        out += self.stmts(el, env.copy(), ctl, after, ind + 1)
        return out

    def assigned_in(self, n):
        res = set()
        for x in walk(n):
            k = x.get("kind")
            if (k == "BinaryOperator" and x.get("opcode") == "=") or k == "CompoundAssignOperator":
                l = strip(x["inner"][0])
                if l.get("kind") == "DeclRefExpr": res.add(l["referencedDecl"].get("name"))
                else: res.add(self.ctx)
            if k == "CallExpr" and self.effect_root(x) is not None:
                res.add(self.ctx)
        return res

    def switch_stmt(self, s, rest, env, ctl, k, ind):
        pad = "  " * ind
        parts = s["inner"]
        if len(parts) != 2 or parts[1].get("kind") != "CompoundStmt": self.fail(s, "switch without a block")
        self.no_inner_effects(parts[0])
        scr = self.to_nat(self.expr(parts[0], env), s)
        segs = []          # [labels (values or None for default), statements]
        def add_label(node):
            if node.get("kind") == "CaseStmt":
                if len(node["inner"]) != 2: self.fail(node, "case range")
                lv = self.expr(node["inner"][0], env)
                if lv.lit is None or lv.lit < 0: self.fail(node, "case label is not a non-negative constant")
                lab, sub = (lv.lit, lv.text), node["inner"][1]
            else:
                lab, sub = None, node["inner"][0]
            if segs and not segs[-1][1]: segs[-1][0].append(lab)
            else: segs.append([[lab], []])
            if sub.get("kind") in ("CaseStmt", "DefaultStmt"): add_label(sub)
            else: segs[-1][1].append(sub)
        for c in parts[1].get("inner", []):
            if c.get("kind") in ("CaseStmt", "DefaultStmt"):
                add_label(c)
            else:
                if not segs: self.fail(c, "statement before the first case label")
                if c.get("kind") == "DeclStmt": self.fail(c, "declaration directly inside a switch")
                segs[-1][1].append(c)
        vals = [l[0] for sg in segs for l in sg[0] if l is not None]
        if len(vals) != len(set(vals)): self.fail(s, "duplicate case labels")
        scope = list(env.order)
        after = lambda e, i: self.stmts(rest, e.restrict(scope), ctl, k, i)
        inner = Ctl(brk=after, cont=ctl.cont)
        def seg_body(j, e, i):       # the statements of segment j, falling through into segment j+1
            if j >= len(segs): return after(e, i)
            return self.stmts(segs[j][1], e.copy(), inner, lambda e2, i2: seg_body(j + 1, e2.restrict(scope), i2), i)
        out = [self.comment(s, pad, upto=parts[1]) + "{"]
        if not scr.atom:
            self.nsw += 1
            out.append(pad + "let sw%d := %s" % (self.nsw, scr.text))
            scr = V("nat", "sw%d" % self.nsw, atom=True)
        first = True
        default = None
        for j, (labels, _) in enumerate(segs):
            if None in labels: default = j
            ls = [l for l in labels if l is not None]
            if not ls: continue
            cond = " || ".join("%s == %s" % (scr.text, ("(%s)" % l[1]) if "/-" in l[1] else l[1]) for l in ls)
            out.append(pad + ("if " if first else "else if ") + cond + " then")
            out += seg_body(j, env, ind + 1)
            first = False
        if first:
            return out + (seg_body(default, env, ind) if default is not None else after(env, ind))
        out.append(pad + "else")
        out += seg_body(default, env, ind + 1) if default is not None else after(env, ind + 1)
        return out

    def loop_stmt(self, s, rest, env, ctl, k, ind):
        pad = "  " * ind
        if self.in_loop: self.fail(s, "nested loop")
        kind = s["kind"]
        parts = s["inner"]
        init = inc = cond = None
        if kind == "DoStmt": body, cond = parts[0], parts[1]
        elif kind == "WhileStmt":
            if len(parts) != 2: self.fail(s, "while with a declaration")
            cond, body = parts[0], parts[1]
        else:
            if len(parts) != 5 or parts[1]: self.fail(s, "for with a condition variable")
            init, cond, inc, body = parts[0] or None, parts[2] or None, parts[3] or None, parts[4]
            if init is not None and init.get("kind") == "DeclStmt": self.fail(s, "declaration in the for header")
        pre = []
        if init is not None:
            done = []
            pre = self.stmts([init], env, ctl, lambda e, i: (done.append(e), [])[1], ind)
            env = done[0]
        self.nloops += 1
        lname = "%s_loop%d" % (self.name, self.nloops)
        vars_ = [v for v in env.order if env.assigned[v]]
        c = self.lname(self.ctx)
        names = [self.lname(v) for v in vars_]
        types = [LEAN_TYPE[env.kind[v]] for v in vars_]
        lenv = env.copy()
        for v in lenv.order:
            lenv.assigned[v] = v in vars_
        scope = list(env.order)
        self.in_loop = True
        rec = lambda e, i: ["  " * i + "%s fuel %s" % (lname, " ".join(names))]
        after = lambda e, i: self.stmts(rest, e.restrict(scope), ctl, k, i)
        def test(e, i, then_rec):
            """the loop condition at the end (do) or the beginning (while / for) of an iteration"""
            p = "  " * i
            if cond is None:
                return then_rec(e, i)
            self.no_inner_effects(cond)
            cv = self.truth(cond, e)
            hd = p + "-- %s (%s)" % ("while" if kind != "ForStmt" else "for condition", self.ft.text(cond))
            if cv.const is not None:
                return [hd] + (then_rec(e, i) if cv.const else after(e, i))
            return [hd, p + "if %s then" % cv.text] + then_rec(e, i + 1) + [p + "else"] + after(e, i + 1)
        def step(e, i):            # end of an iteration: increment, then (do) the test, then the next iteration
            e = e.restrict(scope)
            if inc is not None:
                return self.stmts([inc], e, Ctl(), (lambda e2, i2: rec(e2, i2)), i)
            return test(e, i, rec) if kind == "DoStmt" else rec(e, i)
        inner = Ctl(brk=after, cont=step)
        bl = self.branch_list(body)
        run = lambda e, i: self.stmts(bl, e.copy(), inner, step, i)
        blines = run(lenv, 3) if kind == "DoStmt" else test(lenv, 3, run)
        self.in_loop = False
        oof = "{ %s with oof := true }" % c
        dflt = "(%s, %s)" % (oof, DEFAULT_VAL[self.ret]) if self.ret != "unit" else oof
        fuel = FUEL.get(self.name)
        fv = (self.ft.enums[fuel[0]] + fuel[1]) if fuel and isinstance(self.ft.enums.get(fuel[0]), int) else DEFAULT_FUEL
        aux = ["/-- initial fuel of the loop at %s of `%s`%s -/" % (self.ft.where(s), self.name, (" (%s + %d)" % fuel) if fuel else ""),
               "def %s_fuel : Nat := %d\n" % (lname, fv),
               "/-- the loop at %s of `%s`: one iteration per unit of fuel, with everything that follows the loop in its exits;" % (self.ft.where(s), self.name),
               "without fuel: the context with `oof` set -/",
               "@[regsC] def %s : Nat → %s → %s" % (lname, " → ".join(types), self.ret_type()),
               "  | 0, %s => %s" % (", ".join(names), dflt),
               "  | fuel+1, %s =>" % ", ".join(names)] + blines + [""]
        self.aux += aux
        return pre + [self.comment(s, pad, upto=body) + ("{ ... } while (%s);" % self.ft.text(cond) if kind == "DoStmt" else "{ ... }"),
                      pad + "%s %s_fuel %s" % (lname, lname, " ".join(names))]

    # ---- whole function ------------------------------------------------------------------------------------------------------
    def run(self):
        self.analyse()
        env = Env()
        for nm, kd in self.params:
            env.order.append(nm); env.kind[nm] = kd; env.assigned[nm] = True
        def end(e, i):
            if self.ret != "unit": raise Unsupported("%s: control reaches the end of a non-void function" % self.name)
            return ["  " * i + self.ret_text(None)]
        body = self.stmts(self.body.get("inner", []), env, Ctl(), end, 1)
        lean = self.lname(self.name)
        head = "@[regsC] def %s %s : %s :=" % (lean, " ".join("(%s : %s)" % (self.lname(n), LEAN_TYPE[k]) for n, k in self.params), self.ret_type())
        doc = ["/-- `%s`" % self.ft.text(self.fn, upto=self.body)]
        res = (["the context"] if self.writes else []) + (["the C return value"] if self.ret != "unit" else [])
        doc.append("result: " + (", ".join(res) if res else "nothing"))
        doc.append("preconditions of the C function (undefined behaviour otherwise): " + "; ".join(["%s != NULL" % self.ctx] + self.side) + " -/")
        sig = {"lean": lean, "writes": self.writes, "ret": self.ret, "params": self.params}
        return "\n".join(self.aux + doc + [head] + body), sig


PRELUDE = """/-- what stands in the place of a function that could not be translated: every statement about that function stops
type-checking, statements about the other functions are unaffected -/
structure NotTranslated where
  reason : String

/-- the part of `scpi_t` the register functions touch.  `registers`: `context->registers[%(nregs)d]`; `hasInterface`:
`context->interface != NULL`; `hasControl`: `context->interface->control != NULL` (meaningful only with `hasInterface`);
`ctrlLog`: the calls `control(context, ctrl, val)` made so far, oldest first; `ctrlRet`: the callback's answer;
`oof`: a translated loop ran out of fuel (never reset) -/
structure CCtx where
  registers : List (BitVec 16)
  hasInterface : Bool
  hasControl : Bool
  ctrlLog : List (Nat × BitVec 16)
  ctrlRet : Int
  oof : Bool
deriving Repr, DecidableEq

/-- `struct _scpi_reg_info_t` -/
structure RegInfo where
  type_c : Nat
  group : Nat
deriving Repr, DecidableEq

/-- `struct _scpi_reg_group_info_t` -/
structure RegGroupInfo where
  event : Nat
  enable : Nat
  condition : Nat
  ptfilt : Nat
  ntfilt : Nat
  parent_reg : Nat
  parent_bit : BitVec 16
deriving Repr, DecidableEq

/-- enumerator `SCPI_CTRL_SRQ` (the control message of a service request), for the statements about `ctrlLog` -/
def SCPI_CTRL_SRQ : Nat := %(srq)d

/-- `regs[i]` as a value.  Outside the array the C behaviour is undefined; the model yields 0. -/
@[regsC] def aget16 (a : List (BitVec 16)) (i : Nat) : BitVec 16 := a.getD i 0

/-- `regs[i] = v`.  Outside the array the C behaviour is undefined; the model changes nothing. -/
@[regsC] def aset16 (a : List (BitVec 16)) (i : Nat) (v : BitVec 16) : List (BitVec 16) := a.set i v

/-- `scpi_reg_details[i]`: row i of the table regenerated from the compiled library (Gen.regDetails); outside the table
(undefined behaviour in C): the all-zero row -/
def scpi_reg_details_at (i : Nat) : RegInfo :=
  let r := ScpiVerif.Gen.regDetails.getD i (0, 0)
  ⟨r.1, r.2⟩

/-- `scpi_reg_group_details[i]`: row i of Gen.regGroups; outside the table (undefined behaviour in C): every register
SCPI_REG_NONE, parent bit 0 -/
def scpi_reg_group_details_at (i : Nat) : RegGroupInfo :=
  match ScpiVerif.Gen.regGroups[i]? with
  | some (a, b, c, d, e, f, h) => ⟨a, b, c, d, e, f, BitVec.ofNat 16 h⟩
  | none => ⟨%(none)d, %(none)d, %(none)d, %(none)d, %(none)d, %(none)d, 0⟩
"""


def translate_file(path, wanted=None, flags=()):
    """returns (lean text, {function: reason})"""
    ast = clang_ast(path, flags)
    with open(path, encoding="latin-1") as f:
        src = f.read()
    ft = File(ast, src)
    none = ft.enums.get("SCPI_REG_NONE")
    if not isinstance(none, int): raise Unsupported("enumerator SCPI_REG_NONE not found")
    srq = ft.enums.get("SCPI_CTRL_SRQ")
    if not isinstance(srq, int): raise Unsupported("enumerator SCPI_CTRL_SRQ not found")
    L = ["/- GENERATED by translate/c2lean_regs.py from %s (clang typed AST). Do not edit. -/" % path,
         "import ScpiVerif.Gen.Tables", "import ScpiVerif.Gen.RegsCAttr",
         "set_option linter.unusedVariables false\n", "namespace %s\n" % NAMESPACE, PRELUDE % {"nregs": ft.nregs, "none": none, "srq": srq}]
    decls = ft.function_decls()
    wanted = list(wanted or TARGETS)
    failed, done = {}, []
    def placeholder(name, why):
        failed[name] = why
        L.append("/-- `%s` is NOT TRANSLATED: %s -/" % (name, why.replace("\n", " ").replace("-/", "- /")))
        L.append("def %s : NotTranslated := ⟨%s⟩\n" % (name + "_c" if name in LEAN_KEYWORDS else name, json.dumps(why[:300], ensure_ascii=False)))
    def callees(fn):
        out = []
        for x in walk(fn):
            if x.get("kind") == "DeclRefExpr" and x.get("referencedDecl", {}).get("kind") == "FunctionDecl":
                c = x["referencedDecl"]["name"]
                if c not in out: out.append(c)
        return out
    order, state = [], {}
    def visit(name):
        if state.get(name) == "done": return
        if state.get(name) == "open": raise Unsupported("recursion through %s" % name)
        state[name] = "open"
        for c in callees(decls[name]):
            if c in decls: visit(c)
        state[name] = "done"
        order.append(name)
    for name in wanted:
        if name not in decls: continue
        try:
            visit(name)
        except Unsupported as e:
            state[name] = "done"
            if name not in order: order.append(name)
            failed[name] = str(e)
    for name in order:
        if name in failed:
            placeholder(name, failed[name]); continue
        try:
            text, sig = Func(ft, decls[name]).run()
        except Unsupported as e:
            placeholder(name, str(e)); continue
        except (KeyError, IndexError, TypeError, AttributeError, ValueError) as e:
            placeholder(name, "translator error %s: %s" % (type(e).__name__, e)); continue
        ft.funcs[name] = sig
        done.append(name)
        L.append(text + "\n")
    for w in wanted:
        if w not in done and w not in failed:
            placeholder(w, "no definition of %s in %s" % (w, os.path.basename(path)))
    L.append("/-- the C functions translated in this run -/")
    L.append("def translated : List String := [%s]\n" % ", ".join('"%s"' % d for d in done))
    L.append("end %s" % NAMESPACE)
    return "\n".join(L) + "\n", failed


def generate_regs(outpath=None, flags=()):
    """regenerate Gen/RegsC.lean; returns {"changed", "path", "failed": {function or 'all': reason}, "functions": [...]}"""
    outpath = outpath or os.path.join(VERIF, "lean", "ScpiVerif", "Gen", "RegsC.lean")
    path = os.path.join(repo(), "libscpi", "src", "ieee488.c")
    c2lean.REPO = repo()
    failed = {}
    try:
        text, failed = translate_file(path, flags=flags)
    except (Unsupported, OSError, subprocess.SubprocessError, ValueError, KeyError, IndexError, TypeError, AttributeError) as e:
        failed = {"all": "%s: %s" % (type(e).__name__, e)}
        text = c2lean.stub(NAMESPACE, failed["all"])
    old = None
    if os.path.exists(outpath):
        with open(outpath, encoding="utf-8") as f:
            old = f.read()
    if old != text:
        os.makedirs(os.path.dirname(outpath), exist_ok=True)
        with open(outpath, "w", encoding="utf-8") as f:
            f.write(text)
    return {"changed": old != text, "path": outpath, "failed": failed, "functions": [f for f in TARGETS if f not in failed and "all" not in failed]}


if __name__ == "__main__":
    if "--stdout" in sys.argv:
        c2lean.REPO = repo()
        t, failed = translate_file(os.path.join(repo(), "libscpi", "src", "ieee488.c"))
        sys.stdout.write(t)
        if failed:
            sys.stderr.write(json.dumps(failed, indent=1) + "\n")
        sys.exit(1 if failed else 0)
    r = generate_regs()
    print(json.dumps(r))
    sys.exit(1 if r["failed"] else 0)
