/* Exhaustive table of ONE character-class predicate of lexer.c (a file-static function: the source file is included),
 * or of a libc <ctype.h> function the way lexer.c / utils.c call it, for all 256 byte values.
 * The recognisers pass `state->pos[0]`, a plain `char`: the argument is (int)(char) b, negative for b >= 128 here.
 * Compile with -DPRED=<function name>; one program per predicate so that a renamed predicate costs only its own table. */
#include <stdio.h>
#include <ctype.h>
#include "lexer.c"
#define STR2(x) #x
#define STR(x) STR2(x)
int main(void) {
    int b;
    printf("CHARCLASS %s ", STR(PRED));
    for (b = 0; b < 256; b++) {
#ifdef ARG_UNSIGNED
        int c = b;                  /* the <ctype.h> functions are called with (uint8_t) / (unsigned char) casts */
#else
        int c = (int)(char) b;      /* the file-static predicates get state->pos[0], a plain char */
#endif
        putchar(PRED(c) ? '1' : '0'); }
    putchar('\n');
    /* and the case mapping, for the two mapping functions */
#ifdef MAPPING
    printf("CHARMAP %s", STR(PRED));
    for (b = 0; b < 256; b++) printf(" %d", (int)(unsigned char) PRED(b));
    putchar('\n');
#endif
    return 0;
}
