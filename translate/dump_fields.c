/* Width and signedness of ONE counter / index field of the library's structures, as compiled for this platform.
 * The Lean model counts with unbounded Nat / Int; the generated widths carry the side conditions under which that is
 * faithful (Lemmas/FieldWidths.lean).  Compile with -DSTRUCT=<type> -DFIELD=<member path>. */
#include <stdio.h>
#include "scpi/scpi.h"
#include "lexer_private.h"
#include "fifo_private.h"
#define STR2(x) #x
#define STR(x) STR2(x)
int main(void) {
    STRUCT s;
    __typeof__(s.FIELD) minus1 = (__typeof__(s.FIELD)) -1;
    printf("FIELD %s.%s %u %d\n", STR(STRUCT), STR(FIELD), (unsigned) sizeof(s.FIELD), minus1 < 0 ? 1 : 0);
    return 0;
}
