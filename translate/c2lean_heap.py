#!/usr/bin/env python3
"""C -> Lean translator for the allocation-free string heap of libscpi/src/utils.c (scpiheap_init, scpiheap_strndup,
scpiheap_get_parts, scpiheap_free; compiled only with -DUSE_MEMORY_ALLOCATION_FREE=0), driven by clang's typed AST.

    python3 translate/c2lean_heap.py            regenerate lean/ScpiVerif/Gen/HeapC.lean from $VERIF_REPO/libscpi/src/utils.c
    python3 translate/c2lean_heap.py --stdout   print the generated text instead

The theorems of lean/ScpiVerif/Lemmas/HeapC.lean prove that the GENERATED definitions refine the hand model ScpiVerif.Heap
(and that their undefined-behaviour flag stays false), so a semantic change of the C text breaks a proof.  Anything outside the
subset raises `Unsupported` for the function that contains it (with the source line); the translator never guesses.

Subset
  function ::= (void | scpi_bool_t | char *) name '(' scpi_error_info_heap_t * heap {',' param} ')' block
  param    ::= size_t x | scpi_bool_t x | [const] char * p | size_t * q | const char ** q
  stmt     ::= lvalue '=' expr ';' | lvalue ('+=' | '-=') expr ';' | lvalue '++' ';' | lvalue '--' ';'
             | T local ['=' expr] ';' | size_t a '[' N ']' ';' | f(args) ';' | memcpy(hp, sp, e); | memset(hp, lit, e);
             | 'if' '(' cond ')' stmt ['else' stmt] | block as a branch | 'return' [expr] ';' | ';'
  lvalue   ::= heap->wr | heap->count | heap->size | heap->data (= buffer parameter) | heap->data[e] | hp[e] | *hp
             | *q | local | a[literal] | pointer local (only '+=' / '-=' / '++' on a non-NULL pointer, or initialisation)
  expr     ::= literal | local | parameter | heap->field | heap->data[e] | p[e] | *p | *q | a[literal]
             | e (+ | -) e  (size_t) | e (== != < <= > >=) e | ! e | e && e | e || e | (e)
             | strnlen(p, e) | f(args) (f translated) | pointer expressions:
               heap->data | &heap->data[e] | &p[e] | p + e | p | NULL | (size_t)(p - p')  (same object) | p == p' | p != p'
  cond     ::= expr | NULL tests of pointer variables (`!p`, `p`, `p == NULL`, `p != NULL`), also inside || and &&

C semantics, as decided here (see notes/EXT_GEN_HEAP_REPORT.md)
  * size_t is `unsigned long`, 64 bits (the translator checks sizeof through clang's type names, not the width: the width 64 is an
    assumption of the trusted base, LP64).  size_t values are Lean `Nat`; `+` is `szadd` (mod 2^64), `-` is `szsub` (mod 2^64),
    so wrap-around is modelled exactly as C defines it for unsigned types; `++`/`+=`/`-=` likewise.  Integer literals converted to
    size_t must be non-negative.  No signed arithmetic is in the subset except the pointer difference below.
  * scpi_bool_t is C99 bool: Lean `Bool`.  `char` values are bytes (`UInt8`); the only operations on them are `== lit`, `!= lit`
    and stores of a character / integer literal in 0..127 (the same byte whether plain char is signed or not).
  * POINTER = OFFSET.  A `char *` is an offset (Nat) into ONE object that the translator determines statically:
      - `heap->data`, `&heap->data[e]`, the pointer parameters declared as heap pointers (`s` of get_parts and free), locals
        initialised from such expressions, the cell `*s2`, and the return value of strndup: offsets into `heap.data : List UInt8`
        (heap->data itself is offset 0);
      - the parameter `s` of scpiheap_strndup and locals derived from it: offsets into the source object `s : List UInt8`.
        That `s` points to an object DISJOINT from the heap buffer is a precondition (memcpy's no-overlap rule; not modelled);
      - `error_info_heap` of scpiheap_init is the buffer object itself.
    Which parameter plays which role is the table PTR_ROLES below (part of the trusted base).  A nullable pointer variable is
    `Option Nat` (NULL = none); NULL tests become `match`; arithmetic on or dereference of a possibly-NULL pointer is refused.
    Pointer arithmetic `p + e` / `&p[e]` is `off + e` on Nat (no wrap: leaving the object is undefined, not modular) and sets
    the undefined-behaviour flag when the result exceeds the length of the object (one past the end is allowed, C99 6.5.6p8).
    `(size_t)(p - q)` for two pointers into the same object is `szsub p q` (the ptrdiff_t value converted to size_t).
    `p == q` for two non-NULL pointers into the same object compares offsets.
  * every function returns, in this order: the state (if it writes it; `Option CHeap` when the function tests `heap`), the final
    content of every out-parameter it writes, the C return value, and the flag `ub : Bool` = some load, store, memcpy, memset,
    strnlen or pointer computation of this call left its object.  The refinement theorems show `ub = false`.
  * `memcpy`, `memset`, `strnlen` are the three primitives of the generated prelude (list semantics, with the out-of-bounds
    flag); memcpy is only accepted from the source object into the heap (so overlap cannot occur under the disjointness
    precondition).
  * a local declared without initialiser holds `0` / `none`; the translator refuses a function that reads it before it was
    assigned or handed to a callee by address, and hands an uninitialised local to a callee only if the callee writes the cell
    before every read (checked syntactically: every read of `*q` is preceded by a store `*q = ..` in the same or an enclosing
    block).  A callee that returns without writing leaves the caller's variable at `0` / `none` where C has an indeterminate
    value: reading it then would be undefined in C and is NOT detected (trusted base; scpiheap_free returns immediately).
  * out-parameters (`size_t * len1`, `const char ** s2`) are cells: `Option τ` when tested against NULL; distinct cells and the
    heap are assumed not to alias (precondition).
  * `a[literal]` of a local array `size_t a[N]` is the scalar `a_<literal>`; any other index is refused.
  * `||` / `&&` whose operands test pointers or can set `ub` are split into nested ifs (C's short-circuit order is kept).
"""
import json, os, re, subprocess, sys
sys.path.insert(0, os.path.dirname(os.path.abspath(__file__)))
import c2lean
from c2lean import Unsupported, strip, walk, loc_of

HERE = os.path.dirname(os.path.abspath(__file__))
VERIF = os.path.dirname(HERE)
NAMESPACE = "ScpiVerif.Gen.HeapC"
FLAGS = ["-DUSE_MEMORY_ALLOCATION_FREE=0"]
JOIN_IFS = True
# SCALAR_STATE = True: scalar replacement of the state structure.  Inside a function that WRITES the state, every field of
# `heap` lives in its own Lean variable (`heap_v_wr`, `heap_v_count`, ...: bound from the structure where the structure becomes
# available - function entry or the `some` arm of the NULL test - and rebound by each C assignment `heap->f = e`); the structure
# is built only at `return`, at a call of another translated function, and in the tuple of a join-if the FIELDS travel, not
# the structure.  With `let heap_v := { heap_v with f := e }` the unfolded term of a chain of k updates grows like 3^k under
# simp's zeta reduction (each update mentions the three other projections of its predecessor); with one variable per field
# every `let` mentions its predecessor once.  Functions that only read the state (get_parts) keep `heap_v.f`.
SCALAR_STATE = True
HEAP_FUNCS = ["scpiheap_init", "scpiheap_strndup", "scpiheap_get_parts", "scpiheap_free"]
# role of the `char *` parameters (trusted: what the callers pass)
PTR_ROLES = {"scpiheap_init": {"error_info_heap": "buffer"}, "scpiheap_strndup": {"s": "src"},
             "scpiheap_get_parts": {"s": "heapptr"}, "scpiheap_free": {"s": "heapptr"}}
KEYWORDS = set(c2lean.LEAN_KEYWORDS) | {"ub", "memcpy", "memset", "strnlen", "szadd", "szsub", "rd", "CHeap", "r_", "j_", "m_"}

PRELUDE = """/-- size_t addition: unsigned, 64 bits, wraps -/
def szadd (a b : Nat) : Nat := (a + b) % 18446744073709551616
/-- size_t subtraction: unsigned, 64 bits, wraps -/
def szsub (a b : Nat) : Nat := (a + 18446744073709551616 - b % 18446744073709551616) % 18446744073709551616

/-- the byte at offset `i` of an object (the caller sets `ub` when `i` is outside) -/
def rd (a : List UInt8) (i : Nat) : UInt8 := a.getD i 0

/-- `memcpy(dst + off, src + soff, n)`: the new content of `dst`, and whether a range left its object -/
def memcpy (dst : List UInt8) (off : Nat) (src : List UInt8) (soff n : Nat) : List UInt8 × Bool :=
  if off + n ≤ dst.length ∧ soff + n ≤ src.length then
    (dst.take off ++ (src.drop soff).take n ++ dst.drop (off + n), false)
  else (dst, true)

/-- `memset(dst + off, b, n)` -/
def memset (dst : List UInt8) (off : Nat) (b : UInt8) (n : Nat) : List UInt8 × Bool :=
  if off + n ≤ dst.length then (dst.take off ++ List.replicate n b ++ dst.drop (off + n), false) else (dst, true)

/-- `strnlen(src + off, max)`: the length, and whether the scan left the object (it reads up to and including the first NUL,
at most `max` bytes) -/
def strnlen (src : List UInt8) (off max : Nat) : Nat × Bool :=
  let l := (((src.drop off).take max).takeWhile (· ≠ 0)).length
  (l, decide (src.length < off + (if l < max then l + 1 else l)))

/-- what stands in the place of a function that could not be translated -/
structure NotTranslated where
  reason : String
"""


class HV:
    """kind: sz | bool | char | cint (char promoted to int) | intlit | ptr
    ptr: region 'heap' | 'src:<param>'; null 'some' (text = offset) | 'none' | 'opt' (text = the Option variable)"""
    def __init__(self, kind, text, atom=False, lit=None, region=None, null=None):
        self.kind, self.text, self.atom, self.lit, self.region, self.null = kind, text, atom, lit, region, null

    def p(self):
        return self.text if self.atom else "(" + self.text + ")"


class Env:
    def __init__(self):
        self.ptr = {}      # pointer-ish lvalue key ('p', '*q', state name, src object) -> 'opt' | 'some' | 'none' | 'plain'
        self.vars = {}     # C name -> dict(kind=sz|bool|hptr|sptr|arr, ...)
        self.order = []    # assignable Lean-level entities in declaration order: ('sz', leanname) | ('ptr', key)
        self.uninit = set()

    def copy(self):
        e = Env()
        e.ptr, e.vars, e.order, e.uninit = dict(self.ptr), dict(self.vars), list(self.order), set(self.uninit)
        return e


class HeapFile(c2lean.FileTranslator):
    def _read_state_struct(self):
        und = self.typedefs.get(self.state_typedef)
        if not und or not und.startswith("struct "):
            raise Unsupported("typedef %s is not a struct" % self.state_typedef)
        self.state_struct = und.split()[1]
        rec = self.records.get(self.state_struct)
        if rec is None:
            raise Unsupported("struct %s has no definition" % self.state_struct)
        self.field_order = []
        for f in rec.get("inner", []):
            if f.get("kind") != "FieldDecl":
                continue
            s = self.norm(f["type"])
            if f.get("isBitfield"):
                raise Unsupported("bit-field %s" % f["name"])
            if s == "unsigned long":
                self.scalar_fields[f["name"]] = "sz"
            elif s == "char *" and self.array_field is None:
                self.array_field = f["name"]
            else:
                raise Unsupported("field %s.%s of type '%s'" % (self.state_struct, f["name"], s))
            self.field_order.append(f["name"])
        if self.array_field is None:
            raise Unsupported("struct %s has no char * field" % self.state_struct)

    def translate_function(self, fn):
        return HeapFunc(self, fn).run()


def strip_all(e):
    """remove parentheses and value-preserving casts (lvalue conversion, NoOp, pointer BitCast, array decay)"""
    while True:
        k = e.get("kind")
        if k == "ParenExpr":
            e = e["inner"][0]
        elif k in ("ImplicitCastExpr", "CStyleCastExpr") and e.get("castKind") in ("LValueToRValue", "NoOp", "BitCast", "ArrayToPointerDecay"):
            e = e["inner"][0]
        else:
            return e


class HeapFunc:
    def __init__(self, ft, fn):
        self.ft, self.fn, self.name = ft, fn, fn["name"]
        self.body = [c for c in fn["inner"] if c.get("kind") == "CompoundStmt"][0]
        self.side = []
        self.pre = []      # hoisted lines of the statement being translated (ub updates, calls)
        self.tmp = 0

    def fail(self, node, msg):
        raise Unsupported("%s, %s: %s  [%s]" % (self.name, self.ft.where(node), msg, self.ft.text(node)[:80]))

    def ln(self, n):
        return n + "_c" if n in KEYWORDS else n

    # ---- analysis -------------------------------------------------------------------------------------------------------
    def analyse(self):
        ft = self.ft
        rt = self.fn["type"]["qualType"]
        r = ft.norm(rt[:rt.index("(")].strip())
        self.ret = {"void": "void", "bool": "bool", "char *": "hptr"}.get(r)
        if self.ret is None:
            raise Unsupported("%s: return type %s" % (self.name, rt))
        self.params, self.pinfo, self.state = [], {}, None
        roles = PTR_ROLES.get(self.name, {})
        for p in [c for c in self.fn["inner"] if c.get("kind") == "ParmVarDecl"]:
            if "name" not in p:
                raise Unsupported("%s: unnamed parameter" % self.name)
            nm, t = p["name"], ft.norm(p["type"])
            if t == "struct %s *" % ft.state_struct:
                if self.state:
                    raise Unsupported("%s: two state pointers" % self.name)
                self.state = nm
                pi = {"role": "state"}
            elif t == "unsigned long":
                pi = {"role": "sz"}
            elif t == "bool":
                pi = {"role": "bool"}
            elif t == "char *":
                if nm not in roles:
                    raise Unsupported("%s: no role is declared for the char * parameter %s (PTR_ROLES)" % (self.name, nm))
                pi = {"role": roles[nm]}
            elif t == "unsigned long *":
                pi = {"role": "cell", "pointee": "sz"}
            elif t == "char * *":
                pi = {"role": "cell", "pointee": "hptr"}
            else:
                raise Unsupported("%s: parameter %s of type %s" % (self.name, nm, p["type"]["qualType"]))
            pi.update(tested=False, written=False)
            self.pinfo[nm] = pi
            self.params.append(nm)
        if self.state is None or self.params[0] != self.state:
            raise Unsupported("%s: first parameter is not %s *" % (self.name, ft.state_typedef))
        # NULL tests of parameters
        for n in walk(self.body):
            for q in self.tested_in(n):
                if q in self.pinfo:
                    self.pinfo[q]["tested"] = True
        # writes
        self.writes_state = False
        for n in walk(self.body):
            k = n.get("kind")
            if (k == "BinaryOperator" and n.get("opcode") == "=") or k == "CompoundAssignOperator" or \
               (k == "UnaryOperator" and n.get("opcode") in ("++", "--")):
                lhs = strip(n["inner"][0])
                lk = lhs.get("kind")
                if lk == "MemberExpr":
                    self.writes_state = True
                elif lk == "ArraySubscriptExpr":
                    b = strip_all(lhs["inner"][0])
                    if not (b.get("kind") == "DeclRefExpr" and b["referencedDecl"].get("kind") == "VarDecl" and
                            "[" in b.get("type", {}).get("qualType", "")):
                        self.writes_state = True
                elif lk == "UnaryOperator" and lhs.get("opcode") == "*":
                    q = strip_all(lhs["inner"][0])
                    nm = q.get("referencedDecl", {}).get("name") if q.get("kind") == "DeclRefExpr" else None
                    if nm in self.pinfo and self.pinfo[nm]["role"] == "cell":
                        self.pinfo[nm]["written"] = True
                    else:
                        self.writes_state = True
            if k == "CallExpr":
                cname = self.callee(n)
                if cname in ("memcpy", "memset"):
                    self.writes_state = True
                sig = ft.funcs.get(cname)
                if sig:
                    if sig["writes_state"]:
                        self.writes_state = True
                    for a, (pn, pi) in zip(n["inner"][1:], sig["params"]):
                        q = strip_all(a)
                        if pi["role"] == "cell" and pi["written"] and q.get("kind") == "DeclRefExpr" and \
                           self.pinfo.get(q["referencedDecl"]["name"], {}).get("role") == "cell":
                            self.pinfo[q["referencedDecl"]["name"]]["written"] = True
        # cells: every read of *q must be preceded by a store in the same or an enclosing block
        for nm, pi in self.pinfo.items():
            if pi["role"] == "cell":
                pi["write_first"] = self.write_first(nm)
        for nm, pi in self.pinfo.items():
            pi["nullable"] = pi["tested"]
            if not pi["nullable"] and pi["role"] not in ("sz", "bool"):
                self.side.append("%s != NULL" % nm)

    def callee(self, n):
        cal = n["inner"][0]
        while cal.get("kind") in ("ImplicitCastExpr", "ParenExpr"):
            cal = cal["inner"][0]
        return cal.get("referencedDecl", {}).get("name") if cal.get("kind") == "DeclRefExpr" else None

    def ptr_var_key(self, n):
        """key of a pointer-ish lvalue used as a value: 'p' for a pointer variable / parameter, '*q' for the content of a
        pointer cell; None otherwise"""
        q = strip_all(n)
        if q.get("kind") == "DeclRefExpr" and q["referencedDecl"].get("kind") in ("ParmVarDecl", "VarDecl"):
            t = self.ft.norm(q["type"]) if "type" in q else ""
            if t.endswith("*"):
                return q["referencedDecl"]["name"]
        if q.get("kind") == "UnaryOperator" and q.get("opcode") == "*":
            inner = strip_all(q["inner"][0])
            if inner.get("kind") == "DeclRefExpr" and self.ft.norm(q["type"]).endswith("*"):
                return "*" + inner["referencedDecl"]["name"]
        return None

    def is_null(self, n):
        n = strip(n)
        if n.get("kind") in ("ImplicitCastExpr", "CStyleCastExpr"):
            if n.get("castKind") == "NullToPointer":
                return True
            if n.get("castKind") in ("BitCast", "NoOp"):
                return self.is_null(n["inner"][0])
        return False

    def null_test(self, n):
        """(key, polarity) when n is a NULL test; polarity True = 'is not NULL'"""
        n = strip(n)
        k = n.get("kind")
        if k == "UnaryOperator" and n.get("opcode") == "!":
            r = self.null_test_operand(n["inner"][0])
            return (r[0], not r[1]) if r else None
        if k == "BinaryOperator" and n.get("opcode") in ("==", "!="):
            a, b = n["inner"]
            ka, kb = self.ptr_var_key(a), self.ptr_var_key(b)
            if ka and self.is_null(b): return (ka, n["opcode"] == "!=")
            if kb and self.is_null(a): return (kb, n["opcode"] == "!=")
        return None

    def null_test_operand(self, n):
        k = self.ptr_var_key(n)
        if k:
            return (k, True)
        return self.null_test(n)

    def cond_test(self, n):
        n0 = strip(n)
        if n0.get("kind") == "ImplicitCastExpr" and n0.get("castKind") == "PointerToBoolean":
            n0 = n0["inner"][0]
        k = self.ptr_var_key(n0)
        if k:
            return (k, True)
        return self.null_test(n0)

    def tested_in(self, n):
        res = []
        t = self.null_test(n)
        if t:
            res.append(t[0])
        k = n.get("kind")
        truth = []
        if k in ("IfStmt", "ConditionalOperator"):
            truth.append(n["inner"][0])
        elif k == "BinaryOperator" and n.get("opcode") in ("&&", "||"):
            truth += n["inner"][:2]
        for tn in truth:
            t = self.cond_test(tn)
            if t:
                res.append(t[0])
        return res

    def write_first(self, q):
        """every read of *q is preceded by `*q = ..` as a statement of the same or an enclosing block"""
        ok = [True]
        def is_store(s):
            s = strip(s)
            if s.get("kind") == "BinaryOperator" and s.get("opcode") == "=":
                l = strip(s["inner"][0])
                if l.get("kind") == "UnaryOperator" and l.get("opcode") == "*":
                    i = strip_all(l["inner"][0])
                    return i.get("kind") == "DeclRefExpr" and i["referencedDecl"]["name"] == q
            return False
        def reads(n, top=True):
            """does n read *q (not counting the lhs of a plain store at statement level)"""
            if top and is_store(n):
                return reads(strip(n)["inner"][1], False)
            if n.get("kind") == "UnaryOperator" and n.get("opcode") == "*":
                i = strip_all(n["inner"][0])
                if i.get("kind") == "DeclRefExpr" and i["referencedDecl"]["name"] == q:
                    return True
            return any(reads(c, False) for c in n.get("inner", []))
        def block(lst, written):
            for s in lst:
                k = s.get("kind")
                if k == "CompoundStmt":
                    block(s.get("inner", []), written)
                elif k == "IfStmt":
                    if reads(s["inner"][0], False) and not written: ok[0] = False
                    for br in s["inner"][1:]:
                        block(br.get("inner", []) if br.get("kind") == "CompoundStmt" else [br], written)
                else:
                    if reads(s) and not written: ok[0] = False
                    if is_store(s): written = True
        block(self.body.get("inner", []), False)
        return ok[0]

    # ---- names ----------------------------------------------------------------------------------------------------------
    def opt_name(self, key):
        return self.ln(key[1:]) + "_v" if key.startswith("*") else self.ln(key)

    def val_name(self, key):
        return self.ln(key[1:]) + "_pv" if key.startswith("*") else self.ln(key) + "_v"

    def st(self, env):
        """Lean name of the state structure value at this point"""
        s = env.ptr[self.state]
        if s == "plain":
            return self.ln(self.state)
        if s == "some":
            return self.ln(self.state) + "_v"
        return None

    def need_state(self, node, env):
        s = self.st(env)
        if s is None:
            self.fail(node, "use of '%s', which %s here (no dominating NULL test)" % (self.state, "may be NULL" if env.ptr[self.state] == "opt" else "is NULL"))
        return s

    def scalar(self):
        return SCALAR_STATE and self.writes_state

    def fld(self, s, f):
        """text of field f of the state value named s"""
        return "%s_%s" % (s, f) if self.scalar() else "%s.%s" % (s, f)

    def setfld(self, s, f, val):
        if self.scalar():
            return "let %s_%s := %s" % (s, f, val)
        return "let %s := { %s with %s := %s }" % (s, s, f, val)

    def pack(self, s):
        """the state value named s as a structure"""
        if not self.scalar():
            return s
        return "({ %s } : CHeap)" % ", ".join("%s := %s_%s" % (f, s, f) for f in self.ft.field_order)

    def unpack(self, s):
        """lines that bind the field variables of the state value named s"""
        if not self.scalar():
            return []
        return ["let %s_%s := %s.%s" % (s, f, s, f) for f in self.ft.field_order]

    def ub(self, cond):
        self.pre.append("let ub := ub || %s" % cond)

    def fresh(self, base):
        self.tmp += 1
        return "%s%d" % (base, self.tmp)

    # ---- signature ------------------------------------------------------------------------------------------------------
    def signature(self):
        args, outs, sigparams = [], [], []
        for nm in self.params:
            pi = self.pinfo[nm]
            r = pi["role"]
            base = {"state": "CHeap", "sz": "Nat", "bool": "Bool", "src": "List UInt8", "buffer": "List UInt8", "heapptr": "Nat"}.get(r)
            if r == "cell":
                base = "Nat" if pi["pointee"] == "sz" else "Option Nat"
            nullable = pi["nullable"] or r == "heapptr"
            pi["nullable"] = nullable if r not in ("sz", "bool") else False
            t = base
            if pi["nullable"]:
                t = "Option " + (base if " " not in base else "(" + base + ")")
            args.append("(%s : %s)" % (self.ln(nm), t))
            if (r == "state" and self.writes_state) or (r == "cell" and pi["written"]):
                outs.append(t if " " not in t else "(" + t + ")")
            sigparams.append((nm, dict(pi)))
        if self.ret != "void":
            outs.append({"bool": "Bool", "hptr": "(Option Nat)"}[self.ret])
        outs.append("Bool")
        self.nout = len(outs)
        self.sig = {"params": sigparams, "writes_state": self.writes_state, "ret": self.ret, "nout": self.nout}
        return "def %s %s : %s :=" % (self.ln(self.name), " ".join(args), " × ".join(outs))

    # ---- expressions ----------------------------------------------------------------------------------------------------
    def region_len(self, region, node, env):
        if region == "heap":
            return "%s.length" % self.fld(self.need_state(node, env), self.ft.array_field)
        return "%s.length" % self.src_obj(region[4:], node, env)

    def region_obj(self, region, node, env):
        if region == "heap":
            return self.fld(self.need_state(node, env), self.ft.array_field)
        return self.src_obj(region[4:], node, env)

    def src_obj(self, nm, node, env):
        s = env.ptr[nm]
        if s == "plain":
            return self.ln(nm)
        if s == "some":
            return self.ln(nm) + "_v"
        self.fail(node, "use of '%s', which may be NULL here" % nm)

    def ptr_value(self, key, node, env):
        """value of the pointer variable / cell content `key`"""
        if key.startswith("*"):
            q = key[1:]
            self.cell_access(q, node, env)
            region = "heap"
        else:
            vi = env.vars.get(key)
            if vi is None:
                self.fail(node, "use of pointer '%s'" % key)
            if key in env.uninit:
                self.fail(node, "'%s' is read before it is assigned" % key)
            if vi["kind"] == "srcobj":
                s = env.ptr[key]
                if s in ("plain", "some"):
                    return HV("ptr", "0", True, region="src:" + key, null="some")
                if s == "none":
                    return HV("ptr", "none", True, region="src:" + key, null="none")
                return HV("ptr", self.ln(key), True, region="src:" + key, null="opt")
            if vi["kind"] == "state":
                self.fail(node, "the state pointer used as a value")
            region = vi["region"]
        s = env.ptr[key]
        if s == "some":
            return HV("ptr", self.val_name(key), True, region=region, null="some")
        if s == "none":
            return HV("ptr", "none", True, region=region, null="none")
        return HV("ptr", self.opt_name(key), True, region=region, null="opt")

    def cell_access(self, q, node, env):
        pi = self.pinfo.get(q)
        if not pi or pi["role"] != "cell":
            self.fail(node, "dereference of '%s'" % q)
        s = env.ptr[q]
        if s not in ("plain", "some"):
            self.fail(node, "dereference of '%s', which %s here (no dominating NULL test)" % (q, "may be NULL" if s == "opt" else "is NULL"))
        return self.ln(q) if s == "plain" else self.ln(q) + "_v"

    def nonnull(self, v, node):
        if v.kind != "ptr" or v.null != "some":
            self.fail(node, "a pointer that is known not to be NULL is needed here")
        return v

    def ptr_add(self, p, idx, node, env):
        p = self.nonnull(p, node)
        off = idx.text if p.text == "0" else "%s + %s" % (p.text, idx.p())
        self.ub("decide (%s < %s)" % (self.region_len(p.region, node, env), off))
        return HV("ptr", off, p.text == "0" and idx.atom, region=p.region, null="some")

    def subscript_target(self, n, env):
        """(region, offset text) of the lvalue a[i] where a is a pointer"""
        base = self.expr(n["inner"][0], env)
        idx = self.as_sz(self.expr(n["inner"][1], env), n)
        base = self.nonnull(base, n)
        off = idx.text if base.text == "0" else "%s + %s" % (base.text, idx.p())
        return base.region, off, (base.text == "0" and idx.atom)

    def local_array(self, n, env):
        """Lean name of a[literal] for a local array, or None"""
        b = strip_all(n["inner"][0])
        if b.get("kind") == "DeclRefExpr" and env.vars.get(b["referencedDecl"]["name"], {}).get("kind") == "arr":
            nm = b["referencedDecl"]["name"]
            i = strip(n["inner"][1])
            if i.get("kind") != "IntegerLiteral":
                self.fail(n, "index of the local array '%s' is not a literal" % nm)
            iv = int(i["value"])
            if not 0 <= iv < env.vars[nm]["n"]:
                self.fail(n, "index %d outside %s[%d]" % (iv, nm, env.vars[nm]["n"]))
            return "%s_%d" % (self.ln(nm), iv)
        return None

    def as_sz(self, v, node):
        if v.kind == "sz":
            return v
        if v.kind == "intlit":
            if v.lit < 0:
                self.fail(node, "negative literal used as size_t")
            return HV("sz", str(v.lit), True, lit=v.lit)
        self.fail(node, "a size_t value is needed here")

    def as_bool(self, v, node, env):
        if v.kind == "bool":
            return v
        if v.kind == "intlit":
            return HV("bool", "true" if v.lit != 0 else "false", True, lit=(v.lit != 0))
        if v.kind == "sz":
            return HV("bool", "%s != 0" % v.p())
        if v.kind == "cint" or v.kind == "char":
            return HV("bool", "%s != 0" % v.p())
        if v.kind == "ptr":
            if v.null == "some": return HV("bool", "true", True, lit=True)
            if v.null == "none": return HV("bool", "false", True, lit=False)
            return HV("bool", "%s.isSome" % v.text, True)
        self.fail(node, "a truth value is needed here")

    def not_(self, v):
        if v.lit is not None:
            return HV("bool", "false" if v.lit else "true", True, lit=not v.lit)
        if v.text.endswith(" != 0") and v.text.count("!=") == 1:
            return HV("bool", v.text[:-5] + " == 0")
        return HV("bool", "!%s" % v.p())

    def byte_lit(self, v, node):
        if v.kind in ("intlit",) and 0 <= v.lit <= 127:
            return "%d" % v.lit
        self.fail(node, "a character / integer literal in 0..127 is needed here")

    def expr(self, n, env):
        ft = self.ft
        k = n.get("kind")
        if k == "ParenExpr":
            return self.expr(n["inner"][0], env)
        if k in ("IntegerLiteral", "CharacterLiteral"):
            v = int(n["value"])
            return HV("intlit", str(v), True, lit=v)
        if k in ("ImplicitCastExpr", "CStyleCastExpr"):
            ck, sub = n.get("castKind"), n["inner"][0]
            if ck in ("LValueToRValue", "NoOp"):
                return self.expr(sub, env)
            if ck == "NullToPointer":
                return HV("ptr", "none", True, region=None, null="none")
            if ck == "BitCast" and ft.norm(n["type"]).endswith("*"):
                return self.expr(sub, env)
            if ck == "IntegralCast":
                to = ft.norm(n["type"])
                s0 = strip(sub)
                if to == "unsigned long" and s0.get("kind") == "BinaryOperator" and s0.get("opcode") == "-" and \
                   ft.norm(s0["type"]) == "long":
                    a, b = self.expr(s0["inner"][0], env), self.expr(s0["inner"][1], env)
                    a, b = self.nonnull(a, n), self.nonnull(b, n)
                    if a.region != b.region:
                        self.fail(n, "difference of pointers into different objects")
                    return HV("sz", "szsub %s %s" % (a.p(), b.p()))
                v = self.expr(sub, env)
                if to == "unsigned long":
                    return self.as_sz(v, n)
                if to == "int" and v.kind == "char":
                    return HV("cint", v.text, v.atom)
                if to == "int" and v.kind in ("intlit", "bool"):
                    return v
                if to == "char" and v.kind == "intlit":
                    return v
                self.fail(n, "conversion to %s" % n["type"]["qualType"])
            if ck == "IntegralToBoolean":
                return self.as_bool(self.expr(sub, env), n, env)
            if ck == "PointerToBoolean":
                return self.as_bool(self.expr(sub, env), n, env)
            self.fail(n, "cast %s" % ck)
        if k == "DeclRefExpr":
            rd = n["referencedDecl"]
            nm = rd.get("name")
            if rd.get("kind") not in ("ParmVarDecl", "VarDecl"):
                self.fail(n, "reference to %s %s" % (rd.get("kind"), nm))
            vi = env.vars.get(nm)
            if vi is None:
                self.fail(n, "use of '%s'" % nm)
            if vi["kind"] in ("sz", "bool"):
                if nm in env.uninit:
                    self.fail(n, "'%s' is read before it is assigned" % nm)
                return HV(vi["kind"], self.ln(nm), True)
            if vi["kind"] in ("hptr", "sptr", "srcobj"):
                return self.ptr_value(nm, n, env)
            if vi["kind"] == "buffer":
                return HV("buffer", self.ln(nm), True)
            self.fail(n, "use of '%s' as a value" % nm)
        if k == "MemberExpr":
            base = strip_all(n["inner"][0])
            if not (n.get("isArrow") and base.get("kind") == "DeclRefExpr" and base["referencedDecl"]["name"] == self.state):
                self.fail(n, "member access other than %s->field" % self.state)
            f = n["name"]
            s = self.need_state(n, env)
            if f in ft.scalar_fields:
                return HV("sz", self.fld(s, f), True)
            if f == ft.array_field:
                return HV("ptr", "0", True, region="heap", null="some")
            self.fail(n, "field '%s'" % f)
        if k == "ArraySubscriptExpr":
            la = self.local_array(n, env)
            if la:
                if la in env.uninit:
                    self.fail(n, "'%s' is read before it is assigned" % la)
                return HV("sz", la, True)
            region, off, atom = self.subscript_target(n, env)
            self.ub("decide (%s ≤ %s)" % (self.region_len(region, n, env), off))
            return HV("char", "rd %s %s" % (self.region_obj(region, n, env), off if atom else "(" + off + ")"))
        if k == "UnaryOperator":
            op = n.get("opcode")
            if op == "*":
                key = self.ptr_var_key(n)
                if key:            # content of a pointer cell
                    return self.ptr_value(key, n, env)
                inner = strip_all(n["inner"][0])
                if inner.get("kind") == "DeclRefExpr" and self.pinfo.get(inner["referencedDecl"]["name"], {}).get("role") == "cell":
                    return HV("sz", self.cell_access(inner["referencedDecl"]["name"], n, env), True)
                p = self.nonnull(self.expr(n["inner"][0], env), n)
                self.ub("decide (%s ≤ %s)" % (self.region_len(p.region, n, env), p.text))
                return HV("char", "rd %s %s" % (self.region_obj(p.region, n, env), p.p()))
            if op == "&":
                t = strip(n["inner"][0])
                if t.get("kind") == "ArraySubscriptExpr" and not self.is_local_array(t, env):
                    base = self.expr(t["inner"][0], env)
                    idx = self.as_sz(self.expr(t["inner"][1], env), n)
                    return self.ptr_add(base, idx, n, env)
                self.fail(n, "address-of")
            if op == "!":
                t = self.null_test(n)
                if t:
                    v = self.as_bool(self.ptr_value(t[0], n, env), n, env)
                    return v if t[1] else self.not_(v)
                v = self.as_bool(self.expr(n["inner"][0], env), n, env)
                r = self.not_(v)
                if ft.norm(n["type"]) == "int" and r.lit is not None:
                    return HV("intlit", str(int(r.lit)), True, lit=int(r.lit))
                return r
            self.fail(n, "unary operator '%s' inside an expression" % op)
        if k == "BinaryOperator":
            return self.binop(n, env)
        if k == "CallExpr":
            cname = self.callee(n)
            if cname == "strnlen":
                if len(n["inner"]) != 3:
                    self.fail(n, "argument count")
                p = self.nonnull(self.expr(n["inner"][1], env), n)
                m = self.as_sz(self.expr(n["inner"][2], env), n)
                call = "strnlen %s %s %s" % (self.region_obj(p.region, n, env), p.p(), m.p())
                self.ub("(%s).2" % call)
                return HV("sz", "(%s).1" % call, True)
            sig = self.ft.funcs.get(cname)
            if sig is None:
                self.fail(n, "call of '%s', which is neither translated nor a primitive" % cname)
            if sig["ret"] == "void":
                self.fail(n, "void call used as a value")
            r = self.call(n, sig, cname, env)
            return r
        self.fail(n, "expression of kind %s" % k)

    def is_local_array(self, t, env):
        b = strip_all(t["inner"][0])
        return b.get("kind") == "DeclRefExpr" and env.vars.get(b["referencedDecl"]["name"], {}).get("kind") == "arr"

    def binop(self, n, env):
        op = n["opcode"]
        t = self.null_test(n)
        if t:
            v = self.as_bool(self.ptr_value(t[0], n, env), n, env)
            return v if t[1] else self.not_(v)
        if op in ("&&", "||"):
            a = self.as_bool(self.expr(n["inner"][0], env), n, env)
            mark = len(self.pre)
            b = self.as_bool(self.expr(n["inner"][1], env), n, env)
            if len(self.pre) != mark:
                self.fail(n, "right operand of %s can be undefined or has an effect (only supported as the condition of an if)" % op)
            return HV("bool", "%s %s %s" % (a.p(), op, b.p()))
        a, b = self.expr(n["inner"][0], env), self.expr(n["inner"][1], env)
        if a.kind == "ptr" or b.kind == "ptr":
            if op in ("==", "!=") and a.kind == "ptr" and b.kind == "ptr":
                a, b = self.nonnull(a, n), self.nonnull(b, n)
                if a.region != b.region:
                    self.fail(n, "comparison of pointers into different objects")
                return HV("bool", "%s %s %s" % (a.p(), op, b.p()))
            if op == "+" and a.kind == "ptr":
                return self.ptr_add(a, self.as_sz(b, n), n, env)
            if op == "+" and b.kind == "ptr":
                return self.ptr_add(b, self.as_sz(a, n), n, env)
            self.fail(n, "pointer operation '%s'" % op)
        if op in ("==", "!=", "<", "<=", ">", ">="):
            if a.kind in ("cint", "char") or b.kind in ("cint", "char"):
                c, l = (a, b) if a.kind in ("cint", "char") else (b, a)
                if op not in ("==", "!=") or l.kind != "intlit":
                    self.fail(n, "comparison of a char with something other than a literal by == / !=")
                return HV("bool", "%s %s %s" % (c.p(), op, self.byte_lit(l, n)))
            if a.kind == "bool" and b.kind == "bool" and op in ("==", "!="):
                return HV("bool", "%s %s %s" % (a.p(), op, b.p()))
            a, b = self.as_sz(a, n), self.as_sz(b, n)
            if self.ft.norm(strip_all(n["inner"][0])["type"]) not in ("unsigned long",) and a.lit is None:
                self.fail(n, "comparison at a type other than size_t")
            if op in ("==", "!="):
                return HV("bool", "%s %s %s" % (a.p(), op, b.p()))
            return HV("bool", "decide ((%s : Nat) %s %s)" % (a.text, {"<": "<", "<=": "≤", ">": ">", ">=": "≥"}[op], b.p()))
        if op in ("+", "-"):
            if self.ft.norm(n["type"]) != "unsigned long":
                self.fail(n, "arithmetic at type %s" % n["type"]["qualType"])
            a, b = self.as_sz(a, n), self.as_sz(b, n)
            return HV("sz", "%s %s %s" % ("szadd" if op == "+" else "szsub", a.p(), b.p()))
        self.fail(n, "binary operator '%s'" % op)

    # ---- calls ----------------------------------------------------------------------------------------------------------
    def call(self, n, sig, cname, env, want_value=True):
        """hoists `let r_k := f args` and the write-backs into self.pre; returns the value of the call (or None)"""
        actual = n["inner"][1:]
        if len(actual) != len(sig["params"]):
            self.fail(n, "argument count")
        args, back = [], []
        for a, (pn, pi) in zip(actual, sig["params"]):
            r = pi["role"]
            if r == "state":
                q = strip_all(a)
                if not (q.get("kind") == "DeclRefExpr" and q["referencedDecl"]["name"] == self.state):
                    self.fail(a, "state argument is not the function's own state pointer")
                s = env.ptr[self.state]
                if pi["nullable"]:
                    txt = {"opt": self.ln(self.state), "none": "none"}.get(s) or "(some %s)" % self.pack(self.st(env))
                else:
                    txt = self.pack(self.need_state(a, env))
                args.append(txt)
                if sig["writes_state"]:
                    back.append(("state", pi["nullable"]))
            elif r in ("sz", "bool"):
                v = self.expr(a, env)
                v = self.as_sz(v, a) if r == "sz" else self.as_bool(v, a, env)
                args.append(v.p())
            elif r == "heapptr":
                v = self.expr(a, env)
                if v.kind != "ptr" or (v.null != "none" and v.region != "heap"):
                    self.fail(a, "a pointer into the heap is needed here")
                args.append({"some": "(some %s)" % v.p(), "none": "none", "opt": v.text}[v.null])
            elif r == "cell":
                args.append(self.cell_arg(a, pi, back, env))
            else:
                self.fail(a, "argument for a parameter of role %s" % r)
        rname = self.fresh("r_")
        self.pre.append("let %s := %s" % (rname, " ".join([self.ln(cname)] + args)))
        nout = sig["nout"]
        def comp(i):
            if nout == 1: return rname
            return rname + "".join(".2" for _ in range(i)) + (".1" if i < nout - 1 else "")
        i = 0
        for b in back:
            if b[0] == "state":
                sname = self.st(env)
                if b[1]:
                    self.pre.append("let %s := (%s).getD %s" % (sname, comp(i), sname))
                else:
                    self.pre.append("let %s := %s" % (sname, comp(i)))
                self.pre += self.unpack(sname)
            else:
                _, target, nullable = b
                self.pre.append("let %s := %s" % (target, "(%s).getD %s" % (comp(i), target) if nullable else comp(i)))
            i += 1
        val = None
        if sig["ret"] != "void":
            if sig["ret"] == "bool":
                val = HV("bool", comp(i), True)
            else:
                self.fail(n, "pointer-valued call inside an expression")
            i += 1
        self.pre.append("let ub := ub || %s" % comp(i))
        return val

    def cell_arg(self, a, pi, back, env):
        """argument for a cell parameter: `&local`, `&arr[lit]`, `(T **)&ptrlocal` or one of the function's own cells"""
        q = strip_all(a)
        if q.get("kind") == "UnaryOperator" and q.get("opcode") == "&":
            t = strip_all(q["inner"][0])
            target = None
            if t.get("kind") == "ArraySubscriptExpr":
                target = self.local_array(t, env)
                kind = "sz"
            elif t.get("kind") == "DeclRefExpr" and t["referencedDecl"].get("kind") == "VarDecl":
                nm = t["referencedDecl"]["name"]
                vi = env.vars.get(nm, {})
                if vi.get("kind") == "sz":
                    target, kind = self.ln(nm), "sz"
                elif vi.get("kind") == "hptr":
                    if env.ptr[nm] == "some":
                        self.fail(a, "address of a pointer local that is held as a non-NULL offset")
                    target, kind = self.ln(nm), "hptr"
            if target is None or kind != pi["pointee"]:
                self.fail(a, "address-of argument")
            key = target if kind == "sz" else t["referencedDecl"]["name"]
            if key in env.uninit and not pi.get("write_first"):
                self.fail(a, "uninitialised '%s' handed to a callee that may read the cell before writing it" % target)
            env.uninit.discard(key)
            if kind == "hptr":
                env.ptr[t["referencedDecl"]["name"]] = "opt"
            if pi["written"]:
                back.append(("cell", target, pi["nullable"]))
            return "(some %s)" % target if pi["nullable"] else target
        if q.get("kind") == "DeclRefExpr" and self.pinfo.get(q["referencedDecl"]["name"], {}).get("role") == "cell":
            self.fail(a, "passing on a cell parameter")
        self.fail(a, "cell argument")

    # ---- statements -----------------------------------------------------------------------------------------------------
    def ret_tuple(self, env, retv):
        comps = []
        if self.writes_state:
            s = env.ptr[self.state]
            comps.append({"plain": self.pack(self.ln(self.state)), "opt": self.ln(self.state), "none": "none"}.get(s) or "some %s" % self.pack(self.ln(self.state) + "_v"))
        for nm in self.params:
            pi = self.pinfo[nm]
            if pi["role"] == "cell" and pi["written"]:
                s = env.ptr[nm]
                comps.append({"plain": self.ln(nm), "opt": self.ln(nm), "none": "none"}.get(s) or "some %s_v" % self.ln(nm))
        if retv is not None:
            comps.append(retv)
        comps.append("ub")
        return comps[0] if len(comps) == 1 else "(" + ", ".join(comps) + ")"

    def flush(self, pad):
        lines = [pad + l for l in self.pre]
        self.pre = []
        return lines

    def contains_return(self, n):
        return any(x.get("kind") == "ReturnStmt" for x in walk(n))

    def assigned(self, n, env):
        """entities of env.order (plus state) that the statement may rebind"""
        st, got = False, []
        def add(e):
            if e in env.order and e not in got:
                got.append(e)
        for x in walk(n):
            k = x.get("kind")
            if (k == "BinaryOperator" and x.get("opcode") == "=") or k == "CompoundAssignOperator" or \
               (k == "UnaryOperator" and x.get("opcode") in ("++", "--")):
                lhs = strip(x["inner"][0])
                lk = lhs.get("kind")
                if lk == "MemberExpr":
                    st = True
                elif lk == "ArraySubscriptExpr":
                    if self.is_local_array(lhs, env):
                        add(("sz", self.local_array(lhs, env)))
                    else:
                        st = True
                elif lk == "UnaryOperator":
                    i = strip_all(lhs["inner"][0])
                    nm = i.get("referencedDecl", {}).get("name")
                    if self.pinfo.get(nm, {}).get("role") == "cell":
                        add(("cell", nm))
                    else:
                        st = True
                elif lk == "DeclRefExpr":
                    nm = lhs["referencedDecl"]["name"]
                    vi = env.vars.get(nm, {})
                    add(("sz", self.ln(nm)) if vi.get("kind") in ("sz", "bool") else ("ptr", nm))
            if k == "CallExpr":
                cname = self.callee(x)
                if cname in ("memcpy", "memset"):
                    st = True
                sig = self.ft.funcs.get(cname)
                if sig:
                    st = st or sig["writes_state"]
                    for a, (pn, pi) in zip(x["inner"][1:], sig["params"]):
                        if pi["role"] == "cell":
                            q = strip_all(a)
                            if q.get("kind") == "UnaryOperator":
                                t = strip_all(q["inner"][0])
                                if t.get("kind") == "ArraySubscriptExpr" and self.is_local_array(t, env):
                                    add(("sz", self.local_array(t, env)))
                                elif t.get("kind") == "DeclRefExpr":
                                    nm = t["referencedDecl"]["name"]
                                    vi = env.vars.get(nm, {})
                                    add(("sz", self.ln(nm)) if vi.get("kind") in ("sz", "bool") else ("ptr", nm))
        return st, [e for e in env.order if e in got]

    def branch_list(self, n):
        return n.get("inner", []) if n.get("kind") == "CompoundStmt" else [n]

    def stmts(self, lst, env, k, ind):
        out = []
        pad = "  " * ind
        for i, s in enumerate(lst):
            kind = s.get("kind")
            if kind == "NullStmt":
                continue
            if kind == "ReturnStmt":
                out.append(pad + "-- " + self.ft.text(s, stmt=True))
                if s.get("inner"):
                    if self.ret == "void":
                        self.fail(s, "return with a value in a void function")
                    v = self.expr(s["inner"][0], env)
                    if self.ret == "bool":
                        rv = self.as_bool(v, s, env).text
                    else:
                        if v.kind != "ptr" or (v.null != "none" and v.region != "heap"):
                            self.fail(s, "the returned pointer is not a pointer into the heap")
                        rv = {"some": "some %s" % v.p(), "none": "none", "opt": v.text}[v.null]
                    out += self.flush(pad)
                    out.append(pad + self.ret_tuple(env, rv))
                else:
                    if self.ret != "void":
                        self.fail(s, "return without a value")
                    out.append(pad + self.ret_tuple(env, None))
                if [x for x in lst[i + 1:] if x.get("kind") != "NullStmt"]:
                    out.append(pad + "-- (unreachable statements after the return are not translated)")
                return out
            if kind == "IfStmt":
                inner = s["inner"]
                if s.get("hasInit") or s.get("hasVar"):
                    self.fail(s, "if with declaration")
                cond, then = inner[0], inner[1]
                els = inner[2] if len(inner) > 2 else None
                rest = lst[i + 1:]
                # JOIN_IFS = False: an if none of whose branches returns is ALSO translated by inlining the rest of the block into
                # both branches (the join form `let j := if .. then (vars) else (vars)` makes the unfolded term of a function
                # with several such ifs grow multiplicatively under simp's zeta reduction: minutes instead of seconds)
                if self.contains_return(s) or not JOIN_IFS:
                    kk = lambda e, d, rest=rest, k=k: self.stmts(rest, e, k, d)
                    out += self.emit_if(s, cond, then, els, env, kk, ind, join=None)
                    return out
                join = self.assigned(s, env)
                env = env.copy()
                out += self.emit_if(s, cond, then, els, env, None, ind, join=join)
                for e in join[1]:
                    if e[0] == "cell" and self.pinfo[e[1]]["pointee"] == "hptr":
                        env.ptr["*" + e[1]] = "opt"
                continue
            if kind == "CompoundStmt":
                self.fail(s, "nested block that is not the branch of an if")
            if kind == "DeclStmt":
                out.append(pad + "-- " + self.ft.text(s, stmt=True))
                env = env.copy()
                for d in s["inner"]:
                    out += self.decl(d, s, env, pad)
                continue
            out.append(pad + "-- " + self.ft.text(s, stmt=True))
            env = env.copy()
            lines = self.simple(s, env)
            out += self.flush(pad) + [pad + l for l in lines]
        out += k(env, ind)
        return out

    def decl(self, d, s, env, pad):
        if d.get("kind") != "VarDecl" or d.get("storageClass"):
            self.fail(s, "declaration")
        nm = d["name"]
        if nm in env.vars or any(nm in (p + "_v", p + "_pv") for p in env.vars) or re.match(r"^(r_|j_|m_)\d*$", nm) or nm == "ub":
            self.fail(s, "local '%s' shadows another name" % nm)
        t = self.ft.norm(d["type"])
        init = [c for c in d.get("inner", []) if "Comment" not in c.get("kind", "")]
        m = re.match(r"^unsigned long \[ (\d+) \]$", t)
        if m:
            if init:
                self.fail(s, "array with initialiser")
            cnt = int(m.group(1))
            env.vars[nm] = {"kind": "arr", "n": cnt}
            lines = []
            for i in range(cnt):
                e = "%s_%d" % (self.ln(nm), i)
                env.order.append(("sz", e)); env.uninit.add(e)
                lines.append(pad + "let %s : Nat := 0" % e)
            return lines
        if t in ("unsigned long", "bool"):
            kind = "sz" if t == "unsigned long" else "bool"
            env.vars[nm] = {"kind": kind}
            env.order.append(("sz", self.ln(nm)))
            if not init:
                env.uninit.add(nm)
                return [pad + "let %s : %s := %s" % (self.ln(nm), "Nat" if kind == "sz" else "Bool", "0" if kind == "sz" else "false")]
            v = self.expr(init[0], env)
            v = self.as_sz(v, s) if kind == "sz" else self.as_bool(v, s, env)
            return self.flush(pad) + [pad + "let %s := %s" % (self.ln(nm), v.text)]
        if t == "char *":
            if not init:
                env.vars[nm] = {"kind": "hptr", "region": "heap"}
                env.ptr[nm] = "opt"
                env.order.append(("ptr", nm)); env.uninit.add(nm)
                return [pad + "let %s : Option Nat := none" % self.ln(nm)]
            v = self.expr(init[0], env)
            if v.kind != "ptr" or v.region is None:
                self.fail(s, "initialiser of a pointer local")
            env.vars[nm] = {"kind": "hptr" if v.region == "heap" else "sptr", "region": v.region}
            env.order.append(("ptr", nm))
            if v.null == "some":
                env.ptr[nm] = "some"
                return self.flush(pad) + [pad + "let %s_v := %s" % (self.ln(nm), v.text)]
            if v.region != "heap":
                self.fail(s, "nullable pointer into the source object")
            env.ptr[nm] = "opt"
            return self.flush(pad) + [pad + "let %s : Option Nat := %s" % (self.ln(nm), v.text)]
        self.fail(s, "local of type %s" % d["type"]["qualType"])

    def simple(self, s, env):
        """assignment / compound assignment / increment / call statement -> lines (self.pre holds what goes before)"""
        s0 = strip(s)
        k = s0.get("kind")
        if k == "CallExpr":
            cname = self.callee(s0)
            if cname == "memcpy":
                return self.do_memcpy(s0, env)
            if cname == "memset":
                return self.do_memset(s0, env)
            sig = self.ft.funcs.get(cname)
            if sig is None:
                self.fail(s0, "call of '%s', which is neither translated nor a primitive" % cname)
            self.call(s0, sig, cname, env)
            return []
        if k == "UnaryOperator" and s0.get("opcode") in ("++", "--"):
            lhs = strip(s0["inner"][0])
            return self.update(lhs, "+" if s0["opcode"] == "++" else "-", HV("sz", "1", True, lit=1), env, s0)
        if k == "CompoundAssignOperator":
            op = s0["opcode"]
            if op not in ("+=", "-="):
                self.fail(s0, "compound assignment '%s'" % op)
            lhs = strip(s0["inner"][0])
            rhs = self.as_sz(self.expr(s0["inner"][1], env), s0)
            return self.update(lhs, op[0], rhs, env, s0)
        if k == "BinaryOperator" and s0.get("opcode") == "=":
            lhs = strip(s0["inner"][0])
            v = self.expr(s0["inner"][1], env)
            return self.store(lhs, v, env, s0)
        self.fail(s, "statement of kind %s" % k)

    def update(self, lhs, op, rhs, env, node):
        """lhs = lhs op rhs for size_t lvalues; pointer locals: += / ++ on a non-NULL pointer"""
        key = self.ptr_var_key(lhs)
        if key and not key.startswith("*") and env.vars.get(key, {}).get("kind") in ("hptr", "sptr"):
            if op != "+":
                self.fail(node, "pointer decrement")
            cur = self.ptr_value(key, node, env)
            new = self.ptr_add(cur, rhs, node, env)
            return ["let %s := %s" % (self.val_name(key), new.text)]
        cur = self.as_sz(self.expr(lhs, env), node)
        if self.ft.norm(lhs["type"]) != "unsigned long":
            self.fail(node, "update of a non-size_t lvalue")
        v = HV("sz", "%s %s %s" % ("szadd" if op == "+" else "szsub", cur.p(), rhs.p()))
        return self.store(lhs, v, env, node)

    def store(self, lhs, v, env, node):
        k = lhs.get("kind")
        ft = self.ft
        if k == "MemberExpr":
            base = strip_all(lhs["inner"][0])
            if not (lhs.get("isArrow") and base.get("kind") == "DeclRefExpr" and base["referencedDecl"]["name"] == self.state):
                self.fail(lhs, "assignment to this member")
            s = self.need_state(lhs, env)
            f = lhs["name"]
            if f in ft.scalar_fields:
                v = self.as_sz(v, node)
                return [self.setfld(s, f, v.text)]
            if f == ft.array_field:
                if v.kind != "buffer":
                    self.fail(node, "store into %s->%s of something that is not the buffer parameter" % (self.state, f))
                return [self.setfld(s, f, v.text)]
            self.fail(lhs, "field")
        if k == "ArraySubscriptExpr":
            la = self.local_array(lhs, env)
            if la:
                env.uninit.discard(la)
                return ["let %s := %s" % (la, self.as_sz(v, node).text)]
            region, off, atom = self.subscript_target(lhs, env)
            return self.store_byte(region, off, v, env, node)
        if k == "UnaryOperator" and lhs.get("opcode") == "*":
            inner = strip_all(lhs["inner"][0])
            nm = inner.get("referencedDecl", {}).get("name") if inner.get("kind") == "DeclRefExpr" else None
            pi = self.pinfo.get(nm)
            if pi and pi["role"] == "cell":
                cellv = self.cell_access(nm, node, env)
                if pi["pointee"] == "sz":
                    return ["let %s := %s" % (cellv, self.as_sz(v, node).text)]
                if v.kind != "ptr" or (v.null != "none" and v.region != "heap"):
                    self.fail(node, "a pointer into the heap (or NULL) is needed here")
                key = "*" + nm
                if v.null == "some":
                    env.ptr[key] = "some"
                    return ["let %s := %s" % (self.val_name(key), v.text), "let %s := some %s" % (cellv, self.val_name(key))]
                env.ptr[key] = v.null
                return ["let %s : Option Nat := %s" % (cellv, v.text)]
            p = self.nonnull(self.expr(lhs["inner"][0], env), node)
            return self.store_byte(p.region, p.text, v, env, node)
        if k == "DeclRefExpr":
            nm = lhs["referencedDecl"]["name"]
            vi = env.vars.get(nm, {})
            if lhs["referencedDecl"].get("kind") == "ParmVarDecl":
                self.fail(node, "assignment to a parameter")
            if vi.get("kind") == "sz":
                env.uninit.discard(nm)
                return ["let %s := %s" % (self.ln(nm), self.as_sz(v, node).text)]
            if vi.get("kind") == "bool":
                env.uninit.discard(nm)
                return ["let %s := %s" % (self.ln(nm), self.as_bool(v, node, env).text)]
            if vi.get("kind") in ("hptr", "sptr"):
                if v.kind != "ptr" or (v.null != "none" and v.region != vi["region"]):
                    self.fail(node, "pointer assignment across objects")
                if vi["kind"] == "sptr" and v.null != "some":
                    self.fail(node, "nullable pointer into the source object")
                env.uninit.discard(nm)
                if v.null == "some":
                    env.ptr[nm] = "some"
                    return ["let %s := %s" % (self.val_name(nm), v.text)]
                env.ptr[nm] = v.null
                return ["let %s : Option Nat := %s" % (self.ln(nm), v.text)]
        self.fail(node, "assignment to this left-hand side")

    def store_byte(self, region, off, v, env, node):
        if region != "heap":
            self.fail(node, "store into the source object")
        s = self.need_state(node, env)
        b = self.byte_lit(v, node)
        f = self.ft.array_field
        self.ub("decide (%s.length ≤ %s)" % (self.fld(s, f), off))
        return [self.setfld(s, f, "%s.set (%s) %s" % (self.fld(s, f), off, b))]

    def do_memcpy(self, n, env):
        if len(n["inner"]) != 4:
            self.fail(n, "argument count")
        d = self.nonnull(self.expr(n["inner"][1], env), n)
        sp = self.nonnull(self.expr(n["inner"][2], env), n)
        cnt = self.as_sz(self.expr(n["inner"][3], env), n)
        if d.region != "heap" or not sp.region.startswith("src:"):
            self.fail(n, "memcpy other than from the source object into the heap")
        s = self.need_state(n, env)
        f = self.ft.array_field
        m = self.fresh("m_")
        self.pre.append("let %s := memcpy %s %s %s %s %s" % (m, self.fld(s, f), d.p(), self.region_obj(sp.region, n, env), sp.p(), cnt.p()))
        self.pre.append("let ub := ub || %s.2" % m)
        return [self.setfld(s, f, "%s.1" % m)]

    def do_memset(self, n, env):
        if len(n["inner"]) != 4:
            self.fail(n, "argument count")
        d = self.nonnull(self.expr(n["inner"][1], env), n)
        b = self.byte_lit(self.expr(n["inner"][2], env), n)
        cnt = self.as_sz(self.expr(n["inner"][3], env), n)
        if d.region != "heap":
            self.fail(n, "memset outside the heap")
        s = self.need_state(n, env)
        f = self.ft.array_field
        m = self.fresh("m_")
        self.pre.append("let %s := memset %s %s %s %s" % (m, self.fld(s, f), d.p(), b, cnt.p()))
        self.pre.append("let ub := ub || %s.2" % m)
        return [self.setfld(s, f, "%s.1" % m)]

    # ---- if -------------------------------------------------------------------------------------------------------------
    def needs_split(self, c, env):
        """an && / || whose operands test a nullable pointer variable, or whose right operand can set ub / has an effect"""
        c = strip(c)
        if c.get("kind") == "BinaryOperator" and c.get("opcode") in ("||", "&&"):
            if any(self.has_ptr_test(x, env) for x in c["inner"]):
                return True
            saved, savedtmp = self.pre, self.tmp
            self.pre = []
            try:
                self.expr(c["inner"][1], env.copy())
                dirty = bool(self.pre)
            except Unsupported:
                dirty = True
            self.pre, self.tmp = saved, savedtmp
            return dirty or self.needs_split(c["inner"][0], env) or self.needs_split(c["inner"][1], env)
        return False

    def has_ptr_test(self, c, env):
        c = strip(c)
        if c.get("kind") == "BinaryOperator" and c.get("opcode") in ("||", "&&"):
            return any(self.has_ptr_test(x, env) for x in c["inner"])
        t = self.cond_test(c)
        return t is not None and env.ptr.get(t[0]) == "opt"

    def emit_if(self, s, cond, then, els, env, k, ind, join):
        pad = "  " * ind
        out = []
        c0 = strip(cond)
        if c0.get("kind") == "BinaryOperator" and c0.get("opcode") in ("||", "&&") and self.needs_split(c0, env):
            a, b = c0["inner"]
            def mk(c, th, el):
                return {"kind": "IfStmt", "inner": [c, th] + ([el] if el is not None else []), "range": s["range"],
                        "_header": "(%s, split) if (%s) {" % (c0["opcode"], self.ft.text(c))}
            if c0["opcode"] == "||":
                new = mk(a, then, mk(b, then, els))
            else:
                new = mk(a, mk(b, then, els), els)
            out.append(pad + "-- " + (s.get("_header") or self.ft.text(s, upto=then) + (" {" if then.get("kind") == "CompoundStmt" else "")))
            return out + self.emit_if(new, new["inner"][0], new["inner"][1], new["inner"][2] if len(new["inner"]) > 2 else None, env, k, ind, join)
        header = s.get("_header") or self.ft.text(s, upto=then) + (" {" if then.get("kind") == "CompoundStmt" else "")
        out.append(pad + "-- " + header)
        t = self.cond_test(cond)
        post = []
        if join is not None:
            st, ents = join
            sname = self.st(env) if st else None
            if st and sname is None:
                self.fail(s, "the state is written where '%s' may be NULL" % self.state)
            def stnames(sn):
                return [self.fld(sn, f) for f in self.ft.field_order] if self.scalar() else [sn]
            nst = len(stnames(sname)) if st else 0
            def comp_names(e):
                res = stnames(sname) if st else []
                for ent in ents:
                    if ent[0] == "sz":
                        res.append(ent[1])
                    elif ent[0] == "cell":
                        res.append(self.cell_access(ent[1], s, e))
                    else:
                        if env.ptr[ent[1]] == "some":
                            if e.ptr[ent[1]] != "some":
                                self.fail(s, "pointer local '%s' may become NULL in one branch" % ent[1])
                            res.append(self.val_name(ent[1]))
                        else:
                            res.append({"some": "some %s" % self.val_name(ent[1]), "none": "none"}.get(e.ptr[ent[1]]) or self.opt_name(ent[1]))
                return res + ["ub"]
            names = []
            for nmx in comp_names(env):
                names.append(nmx.split()[-1] if nmx.startswith("some ") else nmx)
            for ent in ents:
                if ent[0] == "ptr" and env.ptr[ent[1]] != "some":
                    names[nst + ents.index(ent)] = self.opt_name(ent[1])
            j = self.fresh("j_")
            def tup(e):
                c = comp_names(e)
                return c[0] if len(c) == 1 else "(" + ", ".join(c) + ")"
            nn = len(names)
            for i, nmx in enumerate(names):
                proj = j if nn == 1 else j + "".join(".2" for _ in range(i)) + (".1" if i < nn - 1 else "")
                post.append(pad + "let %s := %s" % (nmx, proj))
            for ent in ents:
                if ent[0] == "ptr" and env.ptr[ent[1]] != "some":
                    env.ptr[ent[1]] = "opt"
                if ent[0] == "sz":
                    env.uninit.discard(ent[1])
            head_line = pad + "let %s :=" % j
            kk = lambda e, d: ["  " * d + tup(e)]
            ind2 = ind + 1
        else:
            head_line = None
            kk = k
            ind2 = ind
        pad2 = "  " * ind2
        tl, el = self.branch_list(then), (self.branch_list(els) if els is not None else [])
        if t is not None and env.ptr.get(t[0]) == "opt":
            key, pos = t
            if key.startswith("*"):
                self.cell_access(key[1:], s, env)
            e_some, e_none = env.copy(), env.copy()
            e_some.ptr[key], e_none.ptr[key] = "some", "none"
            if head_line: out.append(head_line)
            some_l = self.stmts(tl if pos else el, e_some, kk, ind2 + 1)
            if key == self.state:
                some_l = ["  " * (ind2 + 1) + l for l in self.unpack(self.val_name(key))] + some_l
            none_l = self.stmts(el if pos else tl, e_none, kk, ind2 + 1)
            arms = [("| some %s =>" % self.val_name(key), some_l, pos), ("| none =>", none_l, not pos)]
            if not pos:
                arms.reverse()
            out.append(pad2 + "match %s with" % self.opt_name(key))
            for hd, body, is_then in arms:
                if not is_then and els is not None:
                    out.append(pad2 + "-- } else {")
                out.append(pad2 + hd + " (")
                body[-1] = body[-1] + ")"
                out += body
            return out + post
        c = self.as_bool(self.expr(cond, env), cond, env)
        out += self.flush(pad)
        if head_line: out.append(head_line)
        out.append(pad2 + "if %s then" % c.text)
        out += self.stmts(tl, env.copy(), kk, ind2 + 1)
        if els is not None:
            out.append(pad2 + "-- } else {")
        out.append(pad2 + "else")
        out += self.stmts(el, env.copy(), kk, ind2 + 1)
        return out + post

    # ---- whole function -------------------------------------------------------------------------------------------------
    def run(self):
        self.analyse()
        head = self.signature()
        env = Env()
        for nm in self.params:
            pi = self.pinfo[nm]
            r = pi["role"]
            env.ptr[nm] = "opt" if pi["nullable"] else "plain"
            if r in ("sz", "bool"):
                env.vars[nm] = {"kind": r}
                del env.ptr[nm]
            elif r == "state":
                env.vars[nm] = {"kind": "state"}
            elif r == "src":
                env.vars[nm] = {"kind": "srcobj"}
            elif r == "buffer":
                if pi["nullable"]:
                    raise Unsupported("%s: NULL test of the buffer parameter" % self.name)
                env.vars[nm] = {"kind": "buffer"}
            elif r == "heapptr":
                env.vars[nm] = {"kind": "hptr", "region": "heap"}
            elif r == "cell":
                env.vars[nm] = {"kind": "cell"}
                if pi["written"]:
                    env.order.append(("cell", nm))
                if pi["pointee"] == "hptr":
                    env.ptr["*" + nm] = "opt"
        def end(e, d):
            if self.ret != "void":
                raise Unsupported("%s: control reaches the end of a non-void function" % self.name)
            return ["  " * d + self.ret_tuple(e, None)]
        entry = ["  " + l for l in self.unpack(self.ln(self.state))] if (self.state and env.ptr.get(self.state) == "plain") else []
        body = ["  let ub := false"] + entry + self.stmts(self.body.get("inner", []), env, end, 1)
        proto = self.ft.text(self.fn, upto=self.body)
        doc = ["/-- `%s`" % proto]
        res = []
        if self.writes_state: res.append("the state")
        res += ["the final `*%s`" % nm for nm in self.params if self.pinfo[nm]["role"] == "cell" and self.pinfo[nm]["written"]]
        if self.ret != "void": res.append("the C return value")
        res.append("`ub` (an access or pointer computation left its object)")
        doc.append("result: " + ", ".join(res))
        pre = list(dict.fromkeys(self.side))
        roles = ["%s: %s" % (nm, {"src": "points to the first byte of a source object disjoint from the heap buffer",
                                  "heapptr": "NULL or a pointer into heap->data (its offset)",
                                  "buffer": "the heap buffer itself"}[self.pinfo[nm]["role"]])
                 for nm in self.params if self.pinfo[nm]["role"] in ("src", "heapptr", "buffer")]
        doc.append("preconditions of the C function that are not modelled: heap->data points to an object of heap.data.length bytes; "
                   "cells, heap structure and buffers do not alias" + ("; " + "; ".join(pre) if pre else "") +
                   ("; " + "; ".join(roles) if roles else "") + " -/")
        return "\n".join(doc + [head] + body), self.sig


def translate(path=None, flags=FLAGS, wanted=HEAP_FUNCS):
    path = path or os.path.join(c2lean.REPO, "libscpi", "src", "utils.c")
    ast = c2lean.clang_ast(path, flags)
    with open(path, encoding="latin-1") as f:
        src = f.read()
    ft = HeapFile(ast, src, "scpi_error_info_heap_t", "CHeap")
    L = ["/- GENERATED by translate/c2lean_heap.py from %s (clang typed AST, %s). Do not edit. -/" % (path, " ".join(flags)),
         "set_option linter.unusedVariables false\n", "namespace %s\n" % NAMESPACE, PRELUDE,
         "/-- `struct %s`: size_t fields as `Nat` (< 2^64 is a hypothesis of the theorems), `%s` as the buffer it points to -/" % (ft.state_struct, ft.array_field),
         "structure CHeap where"]
    for f in ft.field_order:
        L.append("  %s : %s" % (f, "List UInt8" if f == ft.array_field else "Nat"))
    L.append("deriving Repr, DecidableEq\n")
    failed, done = {}, []
    def placeholder(name, why):
        failed[name] = why
        L.append("/-- `%s` is NOT TRANSLATED: %s -/" % (name, why.replace("\n", " ").replace("-/", "- /")))
        L.append("def %s : NotTranslated := ⟨%s⟩\n" % (name, json.dumps(why[:300], ensure_ascii=False)))
    decls = {fn["name"]: fn for fn in ft.function_decls() if fn["name"] in wanted}
    order = []
    def visit(name, open_=()):
        if name in order:
            return
        if name in open_:
            raise Unsupported("recursion through %s" % name)
        for x in walk(decls[name]):
            if x.get("kind") == "DeclRefExpr" and x.get("referencedDecl", {}).get("kind") == "FunctionDecl":
                c = x["referencedDecl"]["name"]
                if c in decls and c != name:
                    visit(c, open_ + (name,))
        order.append(name)
    for name in decls:
        try:
            visit(name)
        except Unsupported as e:
            failed[name] = str(e)
            if name not in order:
                order.append(name)
    for name in order:
        if name in failed:
            placeholder(name, failed[name])
            continue
        try:
            text, sig = ft.translate_function(decls[name])
        except Unsupported as e:
            placeholder(name, str(e))
            continue
        except (KeyError, IndexError, TypeError, AttributeError, ValueError) as e:
            placeholder(name, "translator error %s: %s" % (type(e).__name__, e))
            continue
        ft.funcs[name] = sig
        done.append(name)
        L.append(text + "\n")
    for w in wanted:
        if w not in done and w not in failed:
            placeholder(w, "no definition of %s in %s with %s" % (w, os.path.basename(path), " ".join(flags)))
    L.append("/-- the C functions translated in this run -/")
    L.append("def translated : List String := [%s]\n" % ", ".join('"%s"' % d for d in done))
    L.append("end %s" % NAMESPACE)
    return "\n".join(L) + "\n", failed


def generate_heap(outpath=None):
    """regenerate Gen/HeapC.lean; returns {"changed", "path", "failed": {function or 'all': reason}, "functions": [...]}"""
    outpath = outpath or os.path.join(VERIF, "lean", "ScpiVerif", "Gen", "HeapC.lean")
    failed = {}
    try:
        text, failed = translate()
    except (Unsupported, OSError, subprocess.SubprocessError, ValueError, KeyError, IndexError, TypeError, AttributeError) as e:
        failed = {"all": "%s: %s" % (type(e).__name__, e)}
        text = c2lean.stub(NAMESPACE, failed["all"]).replace("c2lean.py", "c2lean_heap.py")
    old = None
    if os.path.exists(outpath):
        with open(outpath, encoding="utf-8") as f:
            old = f.read()
    if old != text:
        os.makedirs(os.path.dirname(outpath), exist_ok=True)
        with open(outpath, "w", encoding="utf-8") as f:
            f.write(text)
    return {"changed": old != text, "path": outpath, "failed": failed,
            "functions": [f for f in HEAP_FUNCS if f not in failed and "all" not in failed]}


if __name__ == "__main__":
    if "--stdout" in sys.argv:
        t, failed = translate()
        sys.stdout.write(t)
        if failed:
            sys.stderr.write(json.dumps(failed, indent=1) + "\n")
        sys.exit(1 if failed else 0)
    r = generate_heap()
    print(json.dumps(r))
    sys.exit(1 if r["failed"] else 0)
