#!/usr/bin/env python3
"""C -> Lean translator for scalar functions with loops that write a character buffer (clang's typed AST).

    python3 translate/c2lean_intfmt.py            regenerate lean/ScpiVerif/Gen/IntFmtC.lean from $VERIF_REPO/libscpi/src/utils.c
    python3 translate/c2lean_intfmt.py --stdout   print the generated text instead

Target: the integer formatters of utils.c (UInt32ToStrBaseSign, UInt64ToStrBaseSign and their four public wrappers).  The
theorems of lean/ScpiVerif/Lemmas/IntFmtC.lean prove that the GENERATED definitions compute what the hand-written model
ScpiVerif.IntFmt.toStrBaseSign computes, for every value, length, base and signedness, so a semantic change of the C text
changes the generated file and breaks a proof.  Clang invocation, `Unsupported`, the stub writer and the AST helpers come
from translate/c2lean.py (the fifo.c translator); the statement / expression translation is new (other types, loops, switch).

Subset (anything else raises `Unsupported` for the function that contains it, with the source line - nothing is guessed):

  function ::= int-type name '(' param {',' param} ')' '{' stmt* '}'
  param    ::= int-type x | bool x | char '*' p                       (p: a buffer the function only WRITES, `p[i] = c`)
  int-type ::= [u]int8_t .. [u]int64_t, size_t, int_fast8_t, ... : every typedef of (un)signed char/short/int/long/long long
  stmt     ::= v '=' expr ';' | v op'=' expr ';' (op: + - * / %) | v '++' ';' | v '--' ';' (also prefix)
             | p '[' idx ']' '=' cexpr ';'            idx ::= expr | v '++'   (v unsigned, not mentioned in cexpr)
             | int-type v ['=' expr] ';' | 'const char' a '[' ']' '=' string-literal ';' (local or file scope, read only)
             | 'if' '(' expr ')' stmt ['else' stmt] | '{' stmt* '}'
             | 'switch' '(' expr ')' '{' { ('case' const ':' | 'default' ':')+ stmt* ['break' ';'] } '}'   (fall-through allowed)
             | 'while' '(' expr ')' stmt | 'do' stmt 'while' '(' expr ')' ';' | 'for' '(' [stmt] ';' [expr] ';' [stmt] ')' stmt
             | 'break' ';' | 'continue' ';'  (inside a loop, not inside a switch that is inside the loop)
             | 'return' expr ';' | 'return' f(args) ';' | v '=' f(args) ';' | f(args) ';'   (f translated before; not in a loop)
  expr     ::= literal | v | a '[' expr ']' | expr (+ - * / % == != < <= > >= && ||) expr | ('-' | '!' | '+') expr
             | expr '?' expr ':' expr | '(' type ')' expr | '(' expr ')'
  cexpr    ::= character literal or integer constant in 0..127 | a '[' expr ']'
  Loops may not be nested; `return` may not occur inside a loop or a switch.

C semantics, as decided here (LP64, x86-64: char 8, short 16, int 32, long / long long / size_t 64 bits; the widths are read
from the canonical type names in clang's AST, which is produced for the same target the harness compiles for):
  * a value of an unsigned type is a Lean `Nat`, of a signed type a Lean `Int`, of bool / a comparison a `Bool`; that a
    PARAMETER holds a value of its type (`val < 2^32`, `-128 <= base <= 127`, `len < 2^64`) is a precondition listed in the
    docstring of the generated function and a hypothesis of the refinement theorems.
  * unsigned arithmetic wraps (C99 6.2.5p9): every `+ - *` and unary `-` at an unsigned type is emitted as `uadd N`, `usub N`,
    `umul N`, `uneg N` (reduction modulo 2^N, never dropped by the translator); `/` and `%` need no reduction.  The proofs show
    where no wrap happens.
  * division or remainder by zero and an array read outside the array are UNDEFINED: the statement that evaluates them first
    sets the flag `ub` (`let ub := ub || (divisor == 0)`); the flag is part of every result and never reset.  Evaluation then
    goes on with Lean's total operations (`n / 0 = 0`), which is irrelevant once the flag is set.  Operands of `&& || ?:` are
    evaluated as in C (the conditions of the right operand are guarded by the left one).
  * signed arithmetic (`+ - *` at int / long after the promotions clang inserted) is Lean `Int`; signed overflow is undefined, so
    the translator does interval arithmetic on the operand types and REFUSES an expression that could overflow.  Signed `/ %`,
    shifts and bit operations are outside the subset.
  * conversions follow the casts in clang's AST: to unsigned N: `toU N` (modulo 2^N, 6.3.1.3p2) or `v % 2^N` from a wider unsigned
    type, nothing from a narrower unsigned type; to signed N: `toS N` (two's complement wrap, implementation-defined, what gcc and
    clang do) unless the source type fits; a literal that fits is emitted as it is; to bool: `!= 0`.
  * a written buffer `char * p` is modelled by its STORE LOG: `p : List (Nat × Char)`, the list of (index, character) pairs in the
    order of the stores, empty on entry; a callee's log is appended to the caller's.  The function cannot know how large the
    object is, so an index is never `ub`: the theorems show that every logged index is below `len`.  Reading `p` is outside the
    subset.  Characters: a constant in 0..127 is `Char.ofNat n`, an element of a string literal is that character (`cstr s` is the
    array including the terminating NUL; only printable ASCII literals are accepted), so plain `char` signedness never matters.
  * `a[i]` on a constant character array: `cget (cstr s) i`, with `ub` when `i` is outside `0 .. sizeof a - 1`.
  * a local without initialiser is indeterminate: the translator checks that it is assigned on every path before it is read
    (else it refuses); in the Lean text it starts as 0, which is never looked at.
  * a loop is `loopFuel step fuel s0` (prelude): `step : σ → σ × Bool` is one iteration (condition included) over the tuple of the
    variables the loop assigns plus `ub`, and says whether another iteration follows; `fuel` is the translator's guess (the
    width in bits of the widest variable the loop assigns, plus 2); RUNNING OUT OF FUEL IS REPORTED (second component `true`, or-ed
    into `ub`), never hidden; that the guess suffices is proved in Lemmas/IntFmtC.lean.
  * `switch`: the controlling expression is evaluated once; `case` sections become an if-chain in source order, `default` last;
    a section runs on into the next one up to the first `break` (stacked labels and fall-through).
  * results of a function, in this order: the store log of every buffer parameter, the C return value, `ub`.
"""
import json, os, re, subprocess, sys
sys.path.insert(0, os.path.dirname(os.path.abspath(__file__)))
import c2lean
from c2lean import Unsupported, clang_ast, loc_of, strip, walk, LEAN_KEYWORDS

HERE = os.path.dirname(os.path.abspath(__file__))
VERIF = os.path.dirname(HERE)
REPO = os.environ.get("VERIF_REPO", "/repo")
NAMESPACE = "ScpiVerif.Gen.IntFmtC"
SECTION = "intfmt_c"
FUNCS = ["UInt32ToStrBaseSign", "SCPI_Int32ToStr", "SCPI_UInt32ToStrBase", "UInt64ToStrBaseSign", "SCPI_Int64ToStr", "SCPI_UInt64ToStrBase"]

CANON = {"unsigned char": ("u", 8), "signed char": ("s", 8), "unsigned short": ("u", 16), "short": ("s", 16), "unsigned int": ("u", 32),
         "int": ("s", 32), "unsigned long": ("u", 64), "long": ("s", 64), "unsigned long long": ("u", 64), "long long": ("s", 64),
         "bool": ("b", 1), "_Bool": ("b", 1), "char": ("c", 8), "void": ("v", 0)}
RESERVED = set(LEAN_KEYWORDS) | {"ub", "toU", "toS", "uadd", "usub", "umul", "uneg", "cstr", "cget", "cinb", "loopFuel", "s"}

PRELUDE = """/-- what stands in the place of a function that could not be translated: every statement about it stops type-checking -/
structure NotTranslated where
  reason : String

/-- conversion of a signed value to an unsigned N-bit type: reduction modulo 2^N (C99 6.3.1.3p2) -/
def toU (n : Nat) (v : Int) : Nat := (v % ((2 ^ n : Nat) : Int)).toNat
/-- conversion to a signed N-bit type: two's complement wrap (implementation-defined in C99; gcc and clang) -/
def toS (n : Nat) (v : Int) : Int := (v + ((2 ^ (n - 1) : Nat) : Int)) % ((2 ^ n : Nat) : Int) - ((2 ^ (n - 1) : Nat) : Int)
/-- `a + b`, `a - b`, `a * b`, `-a` at an unsigned N-bit type: modulo 2^N -/
def uadd (n a b : Nat) : Nat := (a + b) % 2 ^ n
def usub (n a b : Nat) : Nat := (a + 2 ^ n - b % 2 ^ n) % 2 ^ n
def umul (n a b : Nat) : Nat := (a * b) % 2 ^ n
def uneg (n a : Nat) : Nat := (2 ^ n - a % 2 ^ n) % 2 ^ n
/-- the array a string literal initialises: its characters and the terminating NUL -/
def cstr (s : String) : List Char := s.toList ++ [Char.ofNat 0]
/-- `a[i]` on a constant character array; `cinb` says whether the index is inside the array (outside: undefined in C) -/
def cget (a : List Char) (i : Int) : Char := if 0 ≤ i then a.getD i.toNat (Char.ofNat 0) else Char.ofNat 0
def cinb (a : List Char) (i : Int) : Bool := decide (0 ≤ i) && decide (i < (a.length : Int))
/-- a C loop: `step` is one iteration (condition included) and says whether another one follows.  The second component of the
result is `true` when the fuel ran out before the loop ended (never silently truncated). -/
def loopFuel {σ : Type} (step : σ → σ × Bool) : Nat → σ → σ × Bool
  | 0, s => (s, true)
  | fuel + 1, s => if (step s).2 then loopFuel step fuel (step s).1 else ((step s).1, false)
"""


class V:
    """kind 'u' (Nat) | 's' (Int) | 'b' (Bool) | 'c' (Char); bits; text; atom; lit (exact value); lo, hi (signed interval);
    ubs: Lean Bool terms, each true = evaluating this expression is undefined in C"""
    def __init__(self, kind, bits, text, atom=False, lit=None, lo=None, hi=None, ubs=None):
        self.kind, self.bits, self.text, self.atom, self.lit = kind, bits, text, atom, lit
        if kind == "s" and lo is None:
            lo, hi = (lit, lit) if lit is not None else (-2 ** (bits - 1), 2 ** (bits - 1) - 1)
        self.lo, self.hi = lo, hi
        self.ubs = list(ubs or [])
        self.frombool = None

    def p(self):
        return self.text if self.atom else "(" + self.text + ")"


def proj(t, i, n):
    """i-th component (0-based) of the n-tuple t"""
    if n == 1:
        return t
    return t + ".2" * i + (".1" if i < n - 1 else "")


def tup(names):
    return names[0] if len(names) == 1 else "(" + ", ".join(names) + ")"


class Env:
    def __init__(self):
        self.vars = {}        # scalar variable -> (kind, bits)
        self.assigned = set()  # scalar variables that hold a value on every path to here
        self.arrays = {}      # constant character array -> text (without the NUL)

    def copy(self):
        e = Env()
        e.vars, e.assigned, e.arrays = dict(self.vars), set(self.assigned), dict(self.arrays)
        return e


class FileTr:
    def __init__(self, ast, src):
        self.ast, self.src = ast, src
        self.typedefs = {}
        self.globals = {}
        for n in ast.get("inner", []):
            if n.get("kind") == "TypedefDecl":
                self.typedefs[n["name"]] = n["type"].get("desugaredQualType") or n["type"].get("qualType")
            elif n.get("kind") == "VarDecl" and n.get("name"):
                self.globals[n["name"]] = n
        self.funcs = {}
        self.loopdefs = []

    def ctype(self, t):
        q = t if isinstance(t, str) else (t.get("desugaredQualType") or t.get("qualType"))
        for _ in range(20):
            toks = [x for x in q.split() if x not in ("const", "restrict", "__restrict")]
            if "volatile" in toks:
                raise Unsupported("volatile type %s" % q)
            q = " ".join(toks)
            q = {"signed int": "int", "signed": "int", "unsigned": "unsigned int", "long int": "long", "signed long": "long",
                 "unsigned long int": "unsigned long", "short int": "short", "long long int": "long long",
                 "unsigned long long int": "unsigned long long", "unsigned short int": "unsigned short"}.get(q, q)
            if q in CANON:
                return CANON[q]
            if q in self.typedefs and self.typedefs[q] != q:
                q = self.typedefs[q]
                continue
            break
        if q == "char *":
            return ("p", 0)
        raise Unsupported("type '%s'" % (t if isinstance(t, str) else t.get("qualType")))

    def text(self, node, upto=None, stmt=False):
        b, _, _ = loc_of(node["range"]["begin"])
        if upto is not None:
            e, _, _ = loc_of(upto["range"]["begin"])
            s = self.src[b:e]
        else:
            e, tl, _ = loc_of(node["range"]["end"])
            e += tl
            s = self.src[b:e]
            if stmt and re.match(r"\s*;", self.src[e:e + 8]) and not s.rstrip().endswith((";", "}")):
                s += ";"
        return " ".join(s.split()).replace("-/", "- /")

    def where(self, node):
        b, _, _ = loc_of(node["range"]["begin"])
        return "?" if b is None else "line %d" % (self.src.count("\n", 0, b) + 1)

    def function_decls(self):
        return [n for n in self.ast.get("inner", []) if n.get("kind") == "FunctionDecl" and loc_of(n["loc"])[2] and
                any(c.get("kind") == "CompoundStmt" for c in n.get("inner", []))]


def lean_type(ct):
    return {"u": "Nat", "s": "Int", "b": "Bool"}[ct[0]]


class FuncTr:
    def __init__(self, ft, fn):
        self.ft, self.fn, self.name = ft, fn, fn["name"]
        self.body = [c for c in fn["inner"] if c.get("kind") == "CompoundStmt"][0]
        self.pre = []           # preconditions for the docstring
        self.bufs = []          # written character buffers (pointer parameters), in parameter order
        self.order = []         # scalar variables in declaration order (parameters first)
        self.nloop = self.njoin = self.ncall = self.nsw = 0
        self.loopdefs = []

    def fail(self, node, msg):
        raise Unsupported("%s, %s: %s  [%s]" % (self.name, self.ft.where(node), msg, self.ft.text(node)[:80]))

    def ln(self, n):
        return n + "_c" if (n in RESERVED or n.endswith("_")) else n

    # ---- analysis helpers -------------------------------------------------------------------------------------------------
    def assigned(self, node):
        """(buffers, scalars) that the statement may assign, each in canonical order"""
        bs, vs = set(), set()
        for x in walk(node):
            k = x.get("kind")
            if (k == "BinaryOperator" and x.get("opcode") == "=") or k == "CompoundAssignOperator" or \
               (k == "UnaryOperator" and x.get("opcode") in ("++", "--")):
                lhs = strip(x["inner"][0])
                if lhs.get("kind") == "DeclRefExpr":
                    vs.add(lhs["referencedDecl"]["name"])
                elif lhs.get("kind") == "ArraySubscriptExpr":
                    b = self.buf_of(lhs["inner"][0])
                    if b:
                        bs.add(b)
            if k == "CallExpr":
                for a in x["inner"][1:]:
                    b = self.buf_of(a)
                    if b:
                        bs.add(b)
            if k == "VarDecl":
                vs.add(x["name"])
        return [b for b in self.bufs if b in bs], [v for v in self.order if v in vs]

    def may_ub(self, node):
        for x in walk(node):
            k = x.get("kind")
            if k in ("BinaryOperator", "CompoundAssignOperator") and x.get("opcode") in ("/", "%", "/=", "%="):
                return True
            if k in ("CallExpr", "WhileStmt", "DoStmt", "ForStmt"):
                return True
            if k == "ArraySubscriptExpr" and not self.buf_of(x["inner"][0]):
                return True
        return False

    def buf_of(self, n):
        while n.get("kind") in ("ParenExpr", "ImplicitCastExpr") and (n.get("kind") == "ParenExpr" or n.get("castKind") in ("LValueToRValue", "NoOp")):
            n = n["inner"][0]
        if n.get("kind") == "DeclRefExpr" and n["referencedDecl"].get("name") in self.bufs:
            return n["referencedDecl"]["name"]
        return None

    def has(self, node, kinds):
        return any(x.get("kind") in kinds for x in walk(node))

    def mentions(self, node, var):
        return any(x.get("kind") == "DeclRefExpr" and x["referencedDecl"].get("name") == var for x in walk(node))

    # ---- expressions ------------------------------------------------------------------------------------------------------
    def const_value(self, n):
        n = strip(n)
        k = n.get("kind")
        if k in ("ConstantExpr", "ImplicitCastExpr", "CStyleCastExpr"):
            if k != "ConstantExpr" and n.get("castKind") not in ("IntegralCast", "NoOp"):
                self.fail(n, "constant")
            return self.const_value(n["inner"][0])
        if k == "IntegerLiteral":
            return int(n["value"])
        if k == "CharacterLiteral":
            return int(n["value"])
        if k == "UnaryOperator" and n.get("opcode") in ("-", "+"):
            v = self.const_value(n["inner"][0])
            return -v if n["opcode"] == "-" else v
        self.fail(n, "case label that is not an integer constant")

    def lit(self, ct, v):
        if ct[0] == "u":
            return V("u", ct[1], str(v), True, lit=v)
        return V("s", ct[1], str(v) if v >= 0 else "(%d)" % v, True, lit=v)

    def as_bool(self, v, node):
        if v.kind == "b":
            return v
        if v.kind in ("u", "s"):
            if v.lit is not None:
                return V("b", 1, "true" if v.lit != 0 else "false", True, lit=(v.lit != 0), ubs=v.ubs)
            if v.frombool is not None:
                return v.frombool
            return V("b", 1, "%s != 0" % v.p(), False, ubs=v.ubs)
        self.fail(node, "a truth value is needed here")

    def as_num(self, v, node):
        if v.kind in ("u", "s"):
            return v
        if v.kind == "b":
            if v.lit is not None:
                return V("s", 32, str(int(v.lit)), True, lit=int(v.lit), ubs=v.ubs)
            r = V("s", 32, "if %s then 1 else 0" % v.text, False, lo=0, hi=1, ubs=v.ubs)
            r.frombool = v
            return r
        self.fail(node, "a number is needed here")

    def convert(self, v, to, node):
        """integral conversion of v to the C type `to` = (kind, bits)"""
        if to[0] == "b":
            return self.as_bool(v, node)
        if to[0] == "c":
            v = self.as_num(v, node)
            if v.lit is None or not (0 <= v.lit <= 127):
                self.fail(node, "conversion to plain char of something that is not a constant in 0..127")
            return V("c", 8, "Char.ofNat %d" % v.lit, False, lit=v.lit, ubs=v.ubs)
        if to[0] not in ("u", "s"):
            self.fail(node, "conversion to this type")
        v = self.as_num(v, node)
        n = to[1]
        if to[0] == "u":
            if v.lit is not None:
                return V("u", n, str(v.lit % 2 ** n), True, lit=v.lit % 2 ** n, ubs=v.ubs)
            if v.kind == "u":
                if v.bits <= n:
                    return V("u", n, v.text, v.atom, ubs=v.ubs)
                return V("u", n, "%s %% 2 ^ %d" % (v.p(), n), False, ubs=v.ubs)
            if v.lo >= 0 and v.hi < 2 ** n:
                return V("u", n, "Int.toNat %s" % v.p(), False, ubs=v.ubs)
            return V("u", n, "toU %d %s" % (n, v.p()), False, ubs=v.ubs)
        # to signed
        if v.lit is not None:
            w = (v.lit + 2 ** (n - 1)) % 2 ** n - 2 ** (n - 1)
            return V("s", n, str(w) if w >= 0 else "(%d)" % w, True, lit=w, ubs=v.ubs)
        if v.kind == "u":
            if v.bits < n:
                return V("s", n, "Int.ofNat %s" % v.p(), False, lo=0, hi=2 ** v.bits - 1, ubs=v.ubs)
            return V("s", n, "toS %d (Int.ofNat %s)" % (n, v.p()), False, ubs=v.ubs)
        if -2 ** (n - 1) <= v.lo and v.hi <= 2 ** (n - 1) - 1:
            r = V("s", n, v.text, v.atom, lo=v.lo, hi=v.hi, ubs=v.ubs)
            r.frombool = v.frombool
            return r
        return V("s", n, "toS %d %s" % (n, v.p()), False, ubs=v.ubs)

    def read_var(self, n, env):
        rd = n["referencedDecl"]
        nm = rd.get("name")
        if rd.get("kind") not in ("ParmVarDecl", "VarDecl") or nm not in env.vars:
            self.fail(n, "use of '%s' as a value" % nm)
        if nm not in env.assigned:
            self.fail(n, "'%s' may be read before it is assigned (indeterminate value)" % nm)
        ct = env.vars[nm]
        return V(ct[0], ct[1], self.ln(nm), True)

    def array_text(self, n, env):
        """the constant character array an expression names -> its text, or None"""
        while n.get("kind") in ("ParenExpr", "ImplicitCastExpr") and (n.get("kind") == "ParenExpr" or n.get("castKind") in ("ArrayToPointerDecay", "NoOp", "LValueToRValue")):
            n = n["inner"][0]
        if n.get("kind") == "StringLiteral":
            return self.string_value(n)
        if n.get("kind") != "DeclRefExpr":
            return None
        nm = n["referencedDecl"].get("name")
        if nm in env.arrays:
            return env.arrays[nm]
        g = self.ft.globals.get(nm)
        if g is not None and nm not in env.vars and nm not in self.bufs and g.get("id") == n["referencedDecl"].get("id"):
            return self.array_decl_text(g)
        return None

    def string_value(self, n):
        try:
            s = json.loads(n["value"])
        except Exception:
            self.fail(n, "string literal")
        if not isinstance(s, str) or any(not (32 <= ord(ch) < 127) for ch in s):
            self.fail(n, "string literal with characters outside printable ASCII")
        return s

    def array_decl_text(self, d):
        q = d["type"]["qualType"]
        m = re.fullmatch(r"const char\s*\[(\d+)\]", q) or re.fullmatch(r"const char\[(\d+)\]", q.replace("static ", ""))
        init = [c for c in d.get("inner", []) if c.get("kind") == "StringLiteral"]
        if not m or not init:
            return None
        s = self.string_value(init[0])
        if int(m.group(1)) != len(s) + 1:
            return None
        return s

    def lean_string(self, s):
        return '"' + s.replace("\\", "\\\\").replace('"', '\\"') + '"'

    def expr(self, n, env):
        k = n.get("kind")
        if k in ("ParenExpr", "ConstantExpr"):
            return self.expr(n["inner"][0], env)
        if k == "IntegerLiteral":
            return self.lit(self.ft.ctype(n["type"]), int(n["value"]))
        if k == "CharacterLiteral":
            return self.lit(("s", 32), int(n["value"]))
        if k in ("ImplicitCastExpr", "CStyleCastExpr"):
            ck, sub = n.get("castKind"), n["inner"][0]
            if ck in ("LValueToRValue", "NoOp"):
                return self.expr(sub, env)
            if ck == "IntegralCast":
                return self.convert(self.expr(sub, env), self.ft.ctype(n["type"]), n)
            if ck == "IntegralToBoolean":
                return self.as_bool(self.expr(sub, env), n)
            self.fail(n, "cast %s" % ck)
        if k == "DeclRefExpr":
            return self.read_var(n, env)
        if k == "ArraySubscriptExpr":
            s = self.array_text(n["inner"][0], env)
            if s is None:
                self.fail(n, "read of an array that is not a constant character array with a string literal initialiser")
            i = self.as_num(self.expr(n["inner"][1], env), n)
            it = i.text if i.kind == "s" else "Int.ofNat %s" % i.p()
            arr = "(cstr %s)" % self.lean_string(s)
            if i.lit is not None and 0 <= i.lit <= len(s):
                ub = []
            else:
                ub = ["!(cinb %s (%s))" % (arr, it)]
            return V("c", 8, "cget %s (%s)" % (arr, it), False, ubs=i.ubs + ub)
        if k == "UnaryOperator":
            op = n.get("opcode")
            if op == "!":
                v = self.as_bool(self.expr(n["inner"][0], env), n)
                if v.lit is not None:
                    return V("b", 1, "false" if v.lit else "true", True, lit=not v.lit, ubs=v.ubs)
                return V("b", 1, "!%s" % v.p(), False, ubs=v.ubs)
            if op in ("-", "+"):
                v = self.as_num(self.expr(n["inner"][0], env), n)
                ct = self.ft.ctype(n["type"])
                if op == "+":
                    return v
                if ct[0] == "u":
                    if v.kind != "u" or v.bits != ct[1]:
                        self.fail(n, "operand type of unary minus")
                    return V("u", ct[1], "uneg %d %s" % (ct[1], v.p()), False, ubs=v.ubs)
                if v.lit is not None:
                    return self.lit(ct, -v.lit)
                return self.sres(n, ct, "-%s" % v.p(), -v.hi, -v.lo, v.ubs)
            self.fail(n, "unary operator '%s' inside an expression" % op)
        if k == "BinaryOperator":
            return self.binop(n, env)
        if k == "ConditionalOperator":
            c = self.as_bool(self.expr(n["inner"][0], env), n)
            a, b = self.expr(n["inner"][1], env), self.expr(n["inner"][2], env)
            ubs = c.ubs + ["%s && %s" % (c.p(), u) for u in a.ubs] + ["!%s && %s" % (c.p(), u) for u in b.ubs]
            if a.kind != b.kind or (a.kind in ("u", "s") and a.bits != b.bits):
                self.fail(n, "operands of ?: of different types")
            r = V(a.kind, a.bits, "if %s then %s else %s" % (c.text, a.text, b.text), False, ubs=ubs)
            if a.kind == "s":
                r.lo, r.hi = min(a.lo, b.lo), max(a.hi, b.hi)
            return r
        self.fail(n, "expression of kind %s" % k)

    def sres(self, node, ct, text, lo, hi, ubs):
        if lo < -2 ** (ct[1] - 1) or hi > 2 ** (ct[1] - 1) - 1:
            self.fail(node, "possible signed overflow (interval [%d, %d] at %d bits)" % (lo, hi, ct[1]))
        return V("s", ct[1], text, False, lo=lo, hi=hi, ubs=ubs)

    def binop(self, n, env):
        op = n["opcode"]
        if op in ("&&", "||"):
            a = self.as_bool(self.expr(n["inner"][0], env), n)
            b = self.as_bool(self.expr(n["inner"][1], env), n)
            guard = a.p() if op == "&&" else "!%s" % a.p()
            return V("b", 1, "%s %s %s" % (a.p(), op, b.p()), False, ubs=a.ubs + ["%s && %s" % (guard, u) for u in b.ubs])
        if op in ("=", ",") or op.endswith("="):
            if op not in ("==", "!=", "<=", ">="):
                self.fail(n, "operator '%s' inside an expression" % op)
        a, b = self.expr(n["inner"][0], env), self.expr(n["inner"][1], env)
        ubs = a.ubs + b.ubs
        if op in ("==", "!=", "<", "<=", ">", ">="):
            if a.kind == "b" and b.kind == "b" and op in ("==", "!="):
                return V("b", 1, "%s %s %s" % (a.p(), op, b.p()), False, ubs=ubs)
            a, b = self.as_num(a, n), self.as_num(b, n)
            if a.kind != b.kind:
                self.fail(n, "comparison of a signed with an unsigned value (no conversion in the AST)")
            if op in ("==", "!="):
                return V("b", 1, "%s %s %s" % (a.p(), op, b.p()), False, ubs=ubs)
            return V("b", 1, "decide (%s %s %s)" % (a.p(), {"<": "<", "<=": "≤", ">": ">", ">=": "≥"}[op], b.p()), False, ubs=ubs)
        if op in ("+", "-", "*", "/", "%"):
            ct = self.ft.ctype(n["type"])
            return self.arith(op, self.as_num(a, n), self.as_num(b, n), ct, n)
        self.fail(n, "binary operator '%s'" % op)

    def arith(self, op, a, b, ct, n):
        ubs = a.ubs + b.ubs
        if ct[0] == "u":
            N = ct[1]
            if a.kind != "u" or b.kind != "u" or a.bits > N or b.bits > N or N < 32:
                self.fail(n, "operands of unsigned arithmetic")
            if op in ("+", "-", "*"):
                return V("u", N, "%s %d %s %s" % ({"+": "uadd", "-": "usub", "*": "umul"}[op], N, a.p(), b.p()), False, ubs=ubs)
            if b.lit is None or b.lit == 0:
                ubs = ubs + ["%s == 0" % b.p()]
            return V("u", N, "%s %s %s" % (a.p(), op, b.p()), False, ubs=ubs)
        if ct[0] != "s" or a.kind != "s" or b.kind != "s":
            self.fail(n, "operands of signed arithmetic")
        if op == "+":
            return self.sres(n, ct, "%s + %s" % (a.p(), b.p()), a.lo + b.lo, a.hi + b.hi, ubs)
        if op == "-":
            return self.sres(n, ct, "%s - %s" % (a.p(), b.p()), a.lo - b.hi, a.hi - b.lo, ubs)
        if op == "*":
            c = [a.lo * b.lo, a.lo * b.hi, a.hi * b.lo, a.hi * b.hi]
            return self.sres(n, ct, "%s * %s" % (a.p(), b.p()), min(c), max(c), ubs)
        self.fail(n, "signed '%s'" % op)

    # ---- statements -------------------------------------------------------------------------------------------------------
    def ub_lines(self, ubs, pad):
        seen = []
        for u in ubs:
            if u not in seen:
                seen.append(u)
        return [pad + "let ub := ub || (%s)" % u for u in seen]

    def state_names(self, bs, vs, ub):
        return [self.ln(b) for b in bs] + [self.ln(v) for v in vs] + (["ub"] if ub else [])

    def stmts(self, lst, env, k, ind, ctx):
        """Lean lines for the statement list followed by the continuation k(env, ind).  ctx: {'brk', 'cont'} inside a loop"""
        out = []
        pad = "  " * ind
        for i, s in enumerate(lst):
            kind = s.get("kind")
            rest = lst[i + 1:]
            if kind == "NullStmt":
                continue
            if kind == "CompoundStmt":
                if self.has(s, ("DeclStmt",)):
                    self.fail(s, "nested block with declarations")
                return out + self.stmts(s.get("inner", []) + rest, env, k, ind, ctx)
            if kind == "ReturnStmt":
                if ctx.get("noreturn"):
                    self.fail(s, "return inside a loop or a switch")
                out.append(pad + "-- " + self.ft.text(s, stmt=True))
                if not s.get("inner"):
                    self.fail(s, "return without a value")
                e = s["inner"][0]
                call = self.call_of(e)
                if call is not None:
                    lines, env, v = self.do_call(call, e, env, pad)
                    out += lines
                else:
                    v = self.expr(e, env)
                    out += self.ub_lines(v.ubs, pad)
                v = self.as_bool(v, s) if self.ret[0] == "b" else self.as_num(v, s)
                if (v.kind, v.bits) != (self.ret[0], self.ret[1]) and v.kind != "b":
                    self.fail(s, "returned value is not of the return type (no conversion in the AST)")
                out.append(pad + tup([self.ln(b) for b in self.bufs] + [v.text, "ub"]))
                return out
            if kind in ("BreakStmt", "ContinueStmt"):
                key = "brk" if kind == "BreakStmt" else "cont"
                if not ctx.get(key):
                    self.fail(s, "%s outside a loop of the subset" % kind)
                out.append(pad + "-- " + self.ft.text(s, stmt=True))
                return out + ctx[key](env, ind)
            if kind == "IfStmt":
                if s.get("hasInit") or s.get("hasVar"):
                    self.fail(s, "if with declaration")
                if self.has(s, ("ReturnStmt", "BreakStmt", "ContinueStmt")) and not self.jumps_only_in_loops(s):
                    kk = lambda e, d, rest=rest, k=k: self.stmts(rest, e, k, d, ctx)
                    return out + self.emit_if(s, env, kk, ind, ctx, join=False)
                lines, env = self.emit_if(s, env, None, ind, ctx, join=True)
                out += lines
                continue
            if kind == "SwitchStmt":
                lines, env = self.emit_switch(s, env, ind, ctx)
                out += lines
                continue
            if kind in ("WhileStmt", "DoStmt", "ForStmt"):
                lines, env = self.emit_loop(s, env, ind, ctx)
                out += lines
                continue
            if kind == "DeclStmt":
                out.append(pad + "-- " + self.ft.text(s, stmt=True))
                env = env.copy()
                for d in s["inner"]:
                    lines = self.decl(d, env, pad, s)
                    out += lines
                continue
            out.append(pad + "-- " + self.ft.text(s, stmt=True))
            lines, env = self.simple(s, env, pad, ctx)
            out += lines
        return out + k(env, ind)

    def jumps_only_in_loops(self, s):
        """the return / break / continue statements inside s all belong to loops (or switches) nested in s"""
        def rec(n, inloop, insw):
            k = n.get("kind")
            if k == "ReturnStmt":
                return False
            if k == "BreakStmt":
                return inloop or insw
            if k == "ContinueStmt":
                return inloop
            if k in ("WhileStmt", "DoStmt", "ForStmt"):
                inloop = True
            if k == "SwitchStmt":
                insw = True
            return all(rec(c, inloop, insw) for c in n.get("inner", []))
        return rec(s, False, False)

    def decl(self, d, env, pad, s):
        if d.get("kind") != "VarDecl":
            self.fail(s, "declaration")
        nm = d["name"]
        if nm in env.vars or nm in self.bufs or nm in env.arrays:
            self.fail(s, "'%s' shadows another name" % nm)
        txt = self.array_decl_text(d)
        if txt is not None:
            env.arrays[nm] = txt
            return [pad + "-- (constant array: `%s[i]` is `cget (cstr %s) i`)" % (nm, self.lean_string(txt))]
        if d.get("storageClass"):
            self.fail(s, "storage class of '%s'" % nm)
        ct = self.ft.ctype(d["type"])
        if ct[0] not in ("u", "s", "b"):
            self.fail(s, "local of type %s" % d["type"]["qualType"])
        env.vars[nm] = ct
        if nm not in self.order:
            self.order.append(nm)
        init = [c for c in d.get("inner", []) if "Comment" not in c.get("kind", "")]
        if init:
            v = self.expr(init[0], env)
            v = self.as_bool(v, s) if ct[0] == "b" else self.as_num(v, s)
            self.check_type(v, ct, s)
            env.assigned.add(nm)
            return self.ub_lines(v.ubs, pad) + [pad + "let %s : %s := %s" % (self.ln(nm), lean_type(ct), v.text)]
        return [pad + "let %s : %s := %s  -- indeterminate in C: assigned before every read (checked by the translator)" %
                (self.ln(nm), lean_type(ct), "false" if ct[0] == "b" else "0")]

    def check_type(self, v, ct, node):
        if v.kind == "b" and ct[0] == "b":
            return
        if (v.kind, v.bits) != (ct[0], ct[1]):
            self.fail(node, "value of type %s%d stored into %s%d without a conversion in the AST" % (v.kind, v.bits, ct[0], ct[1]))

    def call_of(self, e):
        while e.get("kind") in ("ParenExpr", "ImplicitCastExpr") and (e.get("kind") == "ParenExpr" or e.get("castKind") in ("NoOp",)):
            e = e["inner"][0]
        return e if e.get("kind") == "CallExpr" else None

    def do_call(self, call, node, env, pad):
        cal = call["inner"][0]
        while cal.get("kind") in ("ImplicitCastExpr", "ParenExpr"):
            cal = cal["inner"][0]
        name = cal.get("referencedDecl", {}).get("name")
        sig = self.ft.funcs.get(name)
        if cal.get("kind") != "DeclRefExpr" or sig is None:
            self.fail(call, "call of '%s', which is not a function translated before" % name)
        actual = call["inner"][1:]
        if len(actual) != len(sig["params"]):
            self.fail(call, "argument count")
        args, ubs, mybufs = [], [], []
        for a, (pn, pct) in zip(actual, sig["params"]):
            if pct[0] == "p":
                b = self.buf_of(a)
                if not b:
                    self.fail(a, "buffer argument that is not one of the function's own buffer parameters (no pointer arithmetic)")
                mybufs.append(b)
                continue
            v = self.expr(a, env)
            v = self.as_bool(v, a) if pct[0] == "b" else self.as_num(v, a)
            self.check_type(v, pct, a)
            ubs += v.ubs
            args.append(v.p())
        if len(set(mybufs)) != len(mybufs):
            self.fail(call, "the same buffer passed twice")
        self.ncall += 1
        c = "c%d_" % self.ncall
        n = len(mybufs) + 2
        lines = self.ub_lines(ubs, pad) + [pad + "let %s := %s" % (c, " ".join([self.ln(name)] + args))]
        for i, b in enumerate(mybufs):
            lines.append(pad + "let %s := %s ++ %s" % (self.ln(b), self.ln(b), proj(c, i, n)))
        lines.append(pad + "let ub := ub || %s" % proj(c, n - 1, n))
        rt = sig["ret"]
        return lines, env, V(rt[0], rt[1], proj(c, n - 2, n), True)

    def simple(self, s, env, pad, ctx):
        s0 = strip(s)
        k = s0.get("kind")
        if k == "CallExpr":
            if ctx.get("noreturn"):
                self.fail(s0, "call inside a loop or a switch")
            lines, env, _ = self.do_call(s0, s0, env, pad)
            return lines, env
        if k == "UnaryOperator" and s0.get("opcode") in ("++", "--"):
            nm, ct = self.scalar_lhs(s0["inner"][0], env)
            cur = self.read_var(strip(s0["inner"][0]), env)
            return [pad + "let %s : %s := %s" % (self.ln(nm), lean_type(ct), self.incr(cur, ct, s0["opcode"], s0))], env
        if k == "CompoundAssignOperator":
            op = s0["opcode"][:-1]
            if op not in ("+", "-", "*", "/", "%"):
                self.fail(s0, "compound assignment '%s'" % s0["opcode"])
            nm, ct = self.scalar_lhs(s0["inner"][0], env)
            cur = self.read_var(strip(s0["inner"][0]), env)
            cl, cr = self.ft.ctype(s0["computeLHSType"]), self.ft.ctype(s0["computeResultType"])
            rhs = self.as_num(self.expr(s0["inner"][1], env), s0)
            v = self.arith(op, self.convert(cur, cl, s0), rhs, cr, s0)
            v = self.convert(v, ct, s0)
            return self.ub_lines(v.ubs, pad) + [pad + "let %s : %s := %s" % (self.ln(nm), lean_type(ct), v.text)], env
        if k == "BinaryOperator" and s0.get("opcode") == "=":
            lhs, rhs = strip(s0["inner"][0]), s0["inner"][1]
            if lhs.get("kind") == "ArraySubscriptExpr":
                return self.store(lhs, rhs, env, pad, s0)
            nm, ct = self.scalar_lhs(lhs, env)
            call = self.call_of(rhs)
            if call is not None:
                if ctx.get("noreturn"):
                    self.fail(s0, "call inside a loop or a switch")
                lines, env, v = self.do_call(call, rhs, env, pad)
            else:
                v = self.expr(rhs, env)
                lines = self.ub_lines(v.ubs, pad)
            v = self.as_bool(v, s0) if ct[0] == "b" else self.as_num(v, s0)
            self.check_type(v, ct, s0)
            env = env.copy()
            env.assigned.add(nm)
            return lines + [pad + "let %s : %s := %s" % (self.ln(nm), lean_type(ct), v.text)], env
        self.fail(s, "statement of kind %s" % k)

    def scalar_lhs(self, lhs, env):
        lhs = strip(lhs)
        if lhs.get("kind") != "DeclRefExpr" or lhs["referencedDecl"].get("name") not in env.vars:
            self.fail(lhs, "assignment to something that is not a scalar variable")
        nm = lhs["referencedDecl"]["name"]
        return nm, env.vars[nm]

    def incr(self, cur, ct, op, node):
        if ct[0] == "u" and ct[1] >= 32:
            return "%s %d %s 1" % ("uadd" if op == "++" else "usub", ct[1], cur.p())
        if ct[0] in ("u", "s") and ct[1] < 32:     # computed at int after promotion, converted back
            return "%s %d (%s %s 1)" % ("toU" if ct[0] == "u" else "toS", ct[1], cur.p() if ct[0] == "s" else "Int.ofNat %s" % cur.p(), "+" if op == "++" else "-")
        self.fail(node, "'%s' on a signed variable of %d bits (overflow cannot be excluded)" % (op, ct[1]))

    def store(self, lhs, rhs, env, pad, node):
        b = self.buf_of(lhs["inner"][0])
        if not b:
            self.fail(node, "store into something that is not a buffer parameter")
        idx = strip(lhs["inner"][1])
        post = None
        if idx.get("kind") == "UnaryOperator" and idx.get("opcode") in ("++", "--"):
            if not idx.get("isPostfix") or idx["opcode"] != "++":
                self.fail(node, "index with a side effect other than postfix ++")
            nm, ct = self.scalar_lhs(idx["inner"][0], env)
            if ct[0] != "u" or self.mentions(rhs, nm):
                self.fail(node, "`p[v++] = e` needs an unsigned v that e does not mention")
            iv = self.read_var(strip(idx["inner"][0]), env)
            post = pad + "let %s : %s := %s" % (self.ln(nm), lean_type(ct), self.incr(iv, ct, "++", node))
        else:
            iv = self.as_num(self.expr(lhs["inner"][1], env), node)
            if iv.kind != "u":
                self.fail(node, "buffer index of a signed type")
        v = self.expr(rhs, env)
        if v.kind != "c":
            self.fail(node, "stored value is not a character of the subset")
        lines = self.ub_lines(iv.ubs + v.ubs, pad)
        lines.append(pad + "let %s := %s ++ [(%s, %s)]" % (self.ln(b), self.ln(b), iv.text, v.text))
        if post:
            lines.append(post)
        return lines, env

    def header(self, s, first):
        if "expansionLoc" in s["range"]["begin"]:
            return "(macro) " + self.ft.text(s) + " : " + {"IfStmt": "if (..)"}.get(s.get("kind"), s.get("kind"))
        return self.ft.text(s, upto=first) + (" {" if first.get("kind") == "CompoundStmt" else "")

    def branch(self, n):
        if n is None:
            return []
        return n.get("inner", []) if n.get("kind") == "CompoundStmt" else [n]

    def emit_if(self, s, env, k, ind, ctx, join):
        pad = "  " * ind
        inner = s["inner"]
        cond, then = inner[0], inner[1]
        els = inner[2] if len(inner) > 2 else None
        c = self.as_bool(self.expr(cond, env), cond)
        out = [pad + "-- " + self.header(s, then)] + self.ub_lines(c.ubs, pad)
        if not join:
            out.append(pad + "if %s then" % c.text)
            out += self.stmts(self.branch(then), env.copy(), k, ind + 1, ctx)
            if els is not None:
                out.append(pad + "-- } else {")
            out.append(pad + "else")
            out += self.stmts(self.branch(els), env.copy(), k, ind + 1, ctx)
            return out
        bs, vs = self.assigned(s)
        vs = [v for v in vs if v in env.vars]
        names = self.state_names(bs, vs, self.may_ub(then) or (els is not None and self.may_ub(els)))
        if not names:
            out.append(pad + "-- (no effect)")
            return out, env
        self.njoin += 1
        j = "j%d_" % self.njoin
        ends = []
        def kk(e, d):
            ends.append(e)
            return ["  " * d + tup(names)]
        out.append(pad + "let %s :=" % j)
        out.append(pad + "  if %s then" % c.text)
        out += self.stmts(self.branch(then), env.copy(), kk, ind + 2, ctx)
        if els is not None:
            out.append(pad + "  -- } else {")
        out.append(pad + "  else")
        out += self.stmts(self.branch(els), env.copy(), kk, ind + 2, ctx)
        for i, nm in enumerate(names):
            out.append(pad + "let %s := %s" % (nm, proj(j, i, len(names))))
        env = env.copy()
        env.assigned |= set.intersection(*[e.assigned for e in ends]) if ends else set()
        return out, env

    def emit_switch(self, s, env, ind, ctx):
        pad = "  " * ind
        cond, body = s["inner"][0], s["inner"][-1]
        if len(s["inner"]) != 2 or body.get("kind") != "CompoundStmt":
            self.fail(s, "switch whose body is not a block")
        flat = []
        for it in body.get("inner", []):
            while it.get("kind") in ("CaseStmt", "DefaultStmt"):
                if it["kind"] == "CaseStmt":
                    if len(it["inner"]) != 2:
                        self.fail(it, "case range")
                    flat.append(("label", self.const_value(it["inner"][0]), it))
                else:
                    flat.append(("label", "default", it))
                it = it["inner"][-1]
            flat.append(("stmt", it, it))
        if not flat or flat[0][0] != "label":
            self.fail(s, "statement before the first case label")
        for kind, x, _ in flat:
            if kind == "stmt" and x.get("kind") != "BreakStmt" and self.has(x, ("BreakStmt", "ContinueStmt", "ReturnStmt", "CaseStmt", "DefaultStmt", "DeclStmt")):
                self.fail(x, "break / continue / return / label / declaration nested inside a case section")
        def code(i):
            res = []
            for kind, x, _ in flat[i:]:
                if kind == "label":
                    continue
                if x.get("kind") == "BreakStmt":
                    break
                res.append(x)
            return res
        labels = [(x, i, node) for i, (kind, x, node) in enumerate(flat) if kind == "label"]
        vals = [x for x, _, _ in labels]
        if len(set(vals)) != len(vals):
            self.fail(s, "duplicate case label")
        v = self.as_num(self.expr(cond, env), cond)
        self.nsw += 1
        sw = "sw%d_" % self.nsw
        out = [pad + "-- " + self.header(s, body)] + self.ub_lines(v.ubs, pad) + [pad + "let %s := %s" % (sw, v.text)]
        bs, vs = self.assigned(body)
        vs = [x for x in vs if x in env.vars]
        names = self.state_names(bs, vs, self.may_ub(body))
        if not names:
            out.append(pad + "-- (no effect)")
            return out, env
        self.njoin += 1
        j = "j%d_" % self.njoin
        ends = []
        def kk(e, d):
            ends.append(e)
            return ["  " * d + tup(names)]
        sub = dict(ctx, brk=None, cont=None, noreturn=True)
        out.append(pad + "let %s :=" % j)
        cases = [(x, i) for x, i, _ in labels if x != "default"]
        dflt = [i for x, i, _ in labels if x == "default"]
        for x, i in cases:
            out.append(pad + "  -- case %d:" % x)
            lit = str(x) if x >= 0 else "(%d)" % x
            out.append(pad + "  %sif %s == %s then" % ("" if (x, i) == cases[0] else "else ", sw, lit))
            out += self.stmts(code(i), env.copy(), kk, ind + 2, sub)
        if cases:
            out.append(pad + "  -- default:" if dflt else pad + "  -- (no default)")
            out.append(pad + "  else")
            out += self.stmts(code(dflt[0]) if dflt else [], env.copy(), kk, ind + 2, sub)
        else:
            out += self.stmts(code(dflt[0]) if dflt else [], env.copy(), kk, ind + 1, sub)
        for i, nm in enumerate(names):
            out.append(pad + "let %s := %s" % (nm, proj(j, i, len(names))))
        env = env.copy()
        env.assigned |= set.intersection(*[e.assigned for e in ends]) if ends else set()
        return out, env

    def emit_loop(self, s, env, ind, ctx):
        pad = "  " * ind
        kind = s["kind"]
        if ctx.get("inloop"):
            self.fail(s, "nested loop")
        out = []
        if kind == "WhileStmt":
            cond, body = s["inner"][0], s["inner"][-1]
            if len(s["inner"]) != 2:
                self.fail(s, "while with a declaration")
            init = inc = None
            head = self.header(s, body)
        elif kind == "DoStmt":
            body, cond = s["inner"][0], s["inner"][1]
            init = inc = None
            head = "do {"
        else:
            init, cvar, cond, inc, body = s["inner"]
            if cvar.get("kind"):
                self.fail(s, "for with a condition declaration")
            cond = cond if cond.get("kind") else None
            inc = inc if inc.get("kind") else None
            head = self.header(s, body)
            if init.get("kind"):
                if init["kind"] == "DeclStmt":
                    self.fail(s, "for with a declaration")
                out.append(pad + "-- (for: initialisation) " + self.ft.text(init, stmt=True))
                lines, env = self.simple(init, env, pad, ctx)
                out += lines
        for part in (body, inc, cond):
            if part is not None and self.has(part, ("WhileStmt", "DoStmt", "ForStmt", "ReturnStmt", "CallExpr", "DeclStmt")):
                self.fail(s, "loop containing a loop, a return, a call or a declaration")
        whole = {"kind": "X", "inner": [x for x in (body, inc) if x is not None]}
        bs, vs = self.assigned(whole)
        vs = [v for v in vs if v in env.vars]
        state = self.state_names(bs, vs, True)
        stypes = ["List (Nat × Char)"] * len(bs) + [lean_type(env.vars[v]) for v in vs] + ["Bool"]
        reads = [v for v in self.order if v in env.vars and v not in vs and
                 any(self.mentions(x, v) for x in (body, inc, cond) if x is not None)]
        self.nloop += 1
        lname = "%s_loop%d_step" % (self.ln(self.name), self.nloop)
        sigma = " × ".join(stypes)
        fuel = max([env.vars[v][1] for v in vs] + [8]) + 2
        ret = lambda cont: lambda e, d: ["  " * d + "(%s, %s)" % (tup(state), cont)]
        L = ["/-- one iteration of the loop at %s of `%s` (`%s`): the state after it, and whether another iteration follows -/" %
             (self.ft.where(s), self.name, head),
             "def %s %s(s : %s) : (%s) × Bool :=" % (lname, "".join("(%s : %s) " % (self.ln(v), lean_type(env.vars[v])) for v in reads), sigma, sigma),
             "  match s with", "  | %s =>" % tup(state)]
        benv = env.copy()
        def after_body(e, d):
            lines = []
            if inc is not None:
                lines.append("  " * d + "-- (for: step) " + self.ft.text(inc))
                l2, e = self.simple(inc, e, "  " * d, lctx)
                lines += l2
            if kind == "DoStmt":
                c = self.as_bool(self.expr(cond, e), cond)
                lines.append("  " * d + "-- } while (%s);" % self.ft.text(cond))
                lines += self.ub_lines(c.ubs, "  " * d)
                lines.append("  " * d + "(%s, %s)" % (tup(state), c.text))
                return lines
            return lines + ret("true")(e, d)
        lctx = {"brk": ret("false"), "cont": after_body, "inloop": True, "noreturn": True}
        blist = self.branch(body)
        if kind != "DoStmt" and cond is not None:
            c = self.as_bool(self.expr(cond, benv), cond)
            L.append("    -- " + head)
            L += self.ub_lines(c.ubs, "    ")
            L.append("    if %s then" % c.text)
            L += self.stmts(blist, benv, after_body, 3, lctx)
            L.append("    else")
            L += ret("false")(benv, 3)
        else:
            L.append("    -- " + head)
            L += self.stmts(blist, benv, after_body, 2, lctx)
        self.loopdefs.append("\n".join(L))
        l = "l%d_" % self.nloop
        out.append(pad + "-- %s ... }   (loop %d: `%s`, fuel %d)" % (head, self.nloop, lname, fuel))
        out.append(pad + "let %s := loopFuel (%s) %d %s" % (l, " ".join([lname] + [self.ln(v) for v in reads]), fuel, tup(state)))
        n = len(state)
        for i, nm in enumerate(state[:-1]):
            out.append(pad + "let %s := %s" % (nm, proj(l + ".1", i, n)))
        out.append(pad + "let ub := %s || %s.2  -- out of fuel is reported as ub" % (proj(l + ".1", n - 1, n), l))
        return out, env

    # ---- whole function ---------------------------------------------------------------------------------------------------
    def run(self):
        ft = self.ft
        rt = self.fn["type"]["qualType"]
        self.ret = ft.ctype(rt[:rt.index("(")].strip())
        if self.ret[0] not in ("u", "s", "b"):
            raise Unsupported("%s: return type %s" % (self.name, rt))
        if self.fn.get("variadic"):
            raise Unsupported("%s: variadic" % self.name)
        env = Env()
        args, params = [], []
        for p in [c for c in self.fn["inner"] if c.get("kind") == "ParmVarDecl"]:
            if "name" not in p:
                raise Unsupported("%s: unnamed parameter" % self.name)
            ct = ft.ctype(p["type"])
            nm = p["name"]
            params.append((nm, ct))
            if ct[0] == "p":
                if "const" in p["type"]["qualType"]:
                    raise Unsupported("%s: parameter %s: pointer to const" % (self.name, nm))
                self.bufs.append(nm)
                continue
            if ct[0] not in ("u", "s", "b"):
                raise Unsupported("%s: parameter %s of type %s" % (self.name, nm, p["type"]["qualType"]))
            env.vars[nm] = ct
            env.assigned.add(nm)
            self.order.append(nm)
            args.append("(%s : %s)" % (self.ln(nm), lean_type(ct)))
            if ct[0] == "u":
                self.pre.append("%s < 2^%d" % (nm, ct[1]))
            elif ct[0] == "s":
                self.pre.append("-2^%d <= %s < 2^%d" % (ct[1] - 1, nm, ct[1] - 1))
        for x in walk(self.body):
            if x.get("kind") in ("GotoStmt", "LabelStmt", "AsmStmt", "IndirectGotoStmt"):
                self.fail(x, "statement of kind %s" % x["kind"])
        def end(e, d):
            raise Unsupported("%s: control reaches the end of the function without a return" % self.name)
        lines = ["  let ub : Bool := false"] + ["  let %s : List (Nat × Char) := []" % self.ln(b) for b in self.bufs]
        lines += self.stmts(self.body.get("inner", []), env, end, 1, {})
        rtype = " × ".join(["List (Nat × Char)"] * len(self.bufs) + [lean_type(self.ret), "Bool"])
        doc = ["/-- `%s`" % ft.text(self.fn, upto=self.body)]
        doc.append("result: " + ", ".join(["the store log of `%s` ((index, character) in the order of the stores)" % b for b in self.bufs] +
                                           ["the C return value", "ub (a division by zero, an array read out of bounds, or a loop out of fuel)"]))
        doc.append("preconditions (value ranges of the parameter types): " + ("; ".join(self.pre) if self.pre else "none") +
                   ("; " + ", ".join(self.bufs) + ": every logged index must lie inside the object the pointer designates" if self.bufs else "") + " -/")
        head = "def %s %s : %s :=" % (self.ln(self.name), " ".join(args), rtype)
        sig = {"params": params, "ret": self.ret}
        return "\n\n".join(self.loopdefs + ["\n".join(doc + [head] + lines)]), sig


def translate_file(path, wanted, flags=()):
    """(lean text, {function: reason})"""
    ast = clang_ast(path, flags)
    with open(path, encoding="latin-1") as f:
        src = f.read()
    ft = FileTr(ast, src)
    L = ["/- GENERATED by translate/c2lean_intfmt.py from %s (clang typed AST). Do not edit. -/" % path,
         "set_option linter.unusedVariables false\n", "namespace %s\n" % NAMESPACE, PRELUDE]
    failed, done = {}, []
    decls = {}
    for fn in ft.function_decls():
        decls[fn["name"]] = fn
    def placeholder(name, why):
        failed[name] = why
        L.append("/-- `%s` is NOT TRANSLATED: %s -/" % (name, why.replace("\n", " ").replace("-/", "- /")))
        L.append("def %s : NotTranslated := ⟨%s⟩\n" % (name, json.dumps(why[:300], ensure_ascii=False)))
    # callees first
    order, state = [], {}
    def visit(name):
        if state.get(name) == "done":
            return
        if state.get(name) == "open":
            raise Unsupported("recursion through %s" % name)
        state[name] = "open"
        for x in walk(decls[name]):
            if x.get("kind") == "DeclRefExpr" and x.get("referencedDecl", {}).get("kind") == "FunctionDecl":
                c = x["referencedDecl"]["name"]
                if c in decls and c in wanted and c != name:
                    visit(c)
                elif c == name:
                    raise Unsupported("recursion in %s" % name)
        state[name] = "done"
        order.append(name)
    for name in wanted:
        if name not in decls:
            continue
        try:
            visit(name)
        except Unsupported as e:
            state[name] = "done"
            if name not in order:
                order.append(name)
            failed[name] = str(e)
    for name in order:
        if name in failed:
            placeholder(name, failed[name])
            continue
        try:
            text, sig = FuncTr(ft, decls[name]).run()
        except Unsupported as e:
            placeholder(name, str(e))
            continue
        except (KeyError, IndexError, TypeError, AttributeError, ValueError) as e:
            placeholder(name, "translator error %s: %s" % (type(e).__name__, e))
            continue
        ft.funcs[name] = sig
        done.append(name)
        L.append(text + "\n")
    for w in wanted:
        if w not in done and w not in failed:
            placeholder(w, "no definition of %s in %s" % (w, os.path.basename(path)))
    L.append("/-- the C functions translated in this run -/")
    L.append("def translated : List String := [%s]\n" % ", ".join('"%s"' % d for d in done))
    L.append("end %s" % NAMESPACE)
    return "\n".join(L) + "\n", failed


def generate(outpath=None, flags=()):
    """regenerate Gen/IntFmtC.lean; returns {"changed", "path", "failed": {function or 'all': reason}, "functions": [...]}"""
    outpath = outpath or os.path.join(VERIF, "lean", "ScpiVerif", "Gen", "IntFmtC.lean")
    path = os.path.join(REPO, "libscpi", "src", "utils.c")
    failed = {}
    try:
        text, failed = translate_file(path, FUNCS, flags=flags)
    except (Unsupported, OSError, subprocess.SubprocessError, ValueError, KeyError, IndexError, TypeError, AttributeError) as e:
        failed = {"all": "%s: %s" % (type(e).__name__, e)}
        text = c2lean.stub(NAMESPACE, failed["all"]).replace("translate/c2lean.py", "translate/c2lean_intfmt.py")
    old = None
    if os.path.exists(outpath):
        with open(outpath, encoding="utf-8") as f:
            old = f.read()
    if old != text:
        os.makedirs(os.path.dirname(outpath), exist_ok=True)
        with open(outpath, "w", encoding="utf-8") as f:
            f.write(text)
    return {"changed": old != text, "path": outpath, "failed": failed, "functions": [f for f in FUNCS if f not in failed and "all" not in failed]}


# ------------------------------------------------------------------------------------------------------------------------
# constants of the formatters read off the AST (fallback of translate/extract.py when its text patterns do not match)

def _unwrap(n):
    while n.get("kind") in ("ParenExpr", "ImplicitCastExpr", "CStyleCastExpr", "ConstantExpr"):
        n = n["inner"][0]
    return n


def _const(n):
    n = _unwrap(n)
    k = n.get("kind")
    if k in ("IntegerLiteral", "CharacterLiteral"):
        return int(n["value"])
    if k == "UnaryOperator" and n.get("opcode") in ("-", "+") :
        v = _const(n["inner"][0])
        return None if v is None else (-v if n["opcode"] == "-" else v)
    return None


def _divisor_table(fn):
    """initial divisors (d2, d8, d10, d16) of a formatter: the constants assigned to one variable under `case k:` / `default:` of a
    switch on the base parameter or under `base == k` / the final else of an if-chain.  None when the shape is not recognised."""
    params = [c for c in fn["inner"] if c.get("kind") == "ParmVarDecl"]
    body = [c for c in fn["inner"] if c.get("kind") == "CompoundStmt"]
    if len(params) < 4 or not body:
        return None
    base = params[3].get("name")
    found = {}      # variable -> {guard: constant}

    def is_base(n):
        n = _unwrap(n)
        return n.get("kind") == "DeclRefExpr" and n["referencedDecl"].get("name") == base

    def record(stmt, guards):
        for x in walk(stmt):
            if x.get("kind") == "BinaryOperator" and x.get("opcode") == "=":
                lhs = _unwrap(x["inner"][0])
                v = _const(x["inner"][1])
                if lhs.get("kind") == "DeclRefExpr" and v is not None and lhs["referencedDecl"].get("name") != base:
                    for g in guards:
                        found.setdefault(lhs["referencedDecl"]["name"], {}).setdefault(g, v)

    def visit(n, guard):
        k = n.get("kind")
        if k == "IfStmt":
            c = _unwrap(n["inner"][0])
            g = None
            if c.get("kind") == "BinaryOperator" and c.get("opcode") == "==":
                a, b = c["inner"]
                if is_base(a) and _const(b) is not None: g = _const(b)
                elif is_base(b) and _const(a) is not None: g = _const(a)
            if g is not None:
                visit(n["inner"][1], g)
                if len(n["inner"]) > 2:
                    visit(n["inner"][2], "default")
                return
        if k == "SwitchStmt" and is_base(n["inner"][0]) and n["inner"][-1].get("kind") == "CompoundStmt":
            active = []
            for it in n["inner"][-1].get("inner", []):
                while it.get("kind") in ("CaseStmt", "DefaultStmt"):
                    active.append(_const(it["inner"][0]) if it["kind"] == "CaseStmt" else "default")
                    it = it["inner"][-1]
                if it.get("kind") == "BreakStmt":
                    active = []
                else:
                    record(it, [a for a in active if a is not None])
            return
        if k in ("BinaryOperator",) and n.get("opcode") == "=" and guard is not None:
            record(n, [guard])
            return
        for c in n.get("inner", []):
            if isinstance(c, dict) and c.get("kind"):
                visit(c, guard)

    visit(body[0], None)
    for var, m in found.items():
        d10 = m.get(10, m.get("default"))
        r = (m.get(2, d10), m.get(8, d10), d10, m.get(16, d10))
        if all(isinstance(x, int) and x > 0 for x in r) and (2 in m or 8 in m or 16 in m):
            return r
    return None


def _digit_alphabet(ft, fn):
    """text of the constant character array (function or file scope, string literal initialiser) that the function indexes"""
    local = {x.get("id"): x for x in walk(fn) if x.get("kind") == "VarDecl"}
    for x in walk(fn):
        if x.get("kind") != "ArraySubscriptExpr":
            continue
        b = _unwrap(x["inner"][0])
        if b.get("kind") != "DeclRefExpr":
            continue
        rd = b["referencedDecl"]
        d = local.get(rd.get("id")) or (ft.globals.get(rd.get("name")) if ft.globals.get(rd.get("name"), {}).get("id") == rd.get("id") else None)
        if d is None or not re.fullmatch(r"const char\s*\[\d+\]", d.get("type", {}).get("qualType", "")):
            continue
        init = [c for c in d.get("inner", []) if c.get("kind") == "StringLiteral"]
        if init:
            try:
                v = json.loads(init[0]["value"])
            except Exception:
                continue
            if isinstance(v, str):
                return v
    return None


def extract_tables(names=("UInt32ToStrBaseSign", "UInt64ToStrBaseSign"), flags=()):
    """{function: {"div": (d2, d8, d10, d16) | None, "digits": str | None}} from clang's AST of utils.c (raises Unsupported
    when clang cannot parse the file)"""
    path = os.path.join(REPO, "libscpi", "src", "utils.c")
    ast = clang_ast(path, flags)
    with open(path, encoding="latin-1") as f:
        ft = FileTr(ast, f.read())
    decls = {fn["name"]: fn for fn in ft.function_decls()}
    res = {}
    for nm in names:
        fn = decls.get(nm)
        res[nm] = {"div": _divisor_table(fn) if fn else None, "digits": _digit_alphabet(ft, fn) if fn else None}
    return res


if __name__ == "__main__":
    if "--stdout" in sys.argv:
        t, failed = translate_file(os.path.join(REPO, "libscpi", "src", "utils.c"), FUNCS)
        sys.stdout.write(t)
        if failed:
            sys.stderr.write(json.dumps(failed, indent=1) + "\n")
        sys.exit(1 if failed else 0)
    r = generate()
    print(json.dumps(r))
    sys.exit(1 if r["failed"] else 0)
