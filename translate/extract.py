#!/usr/bin/env python3
"""Translator: regenerates lean/ScpiVerif/Gen/Tables.lean from /repo's current sources.

Two sources of truth, both read on every run:
  * dump_tables.c, compiled against the working tree (it #includes error.c and ieee488.c, so the
    file-static tables are printed as the compiler sees them for the configuration),
  * the source text itself for constants that live inside function bodies (the switch(base)
    divisors and digit alphabet of utils.c, getBasePrefix and scratch-buffer sizes of parser.c,
    the multiplier *expressions* of units.c, kept as exact rationals).

The functions of fifo.c are translated as a whole (not only tables) by translate/c2lean.py, the integer formatters of utils.c by
translate/c2lean_intfmt.py, those of lexer.c by translate/c2lean_lexer.py (further c2lean_*.py modules likewise), all called from generate().
"""
import os, re, subprocess, sys, json
from fractions import Fraction
sys.path.insert(0, os.path.dirname(os.path.abspath(__file__)))

HERE = os.path.dirname(os.path.abspath(__file__))
VERIF = os.path.dirname(HERE)
REPO = os.environ.get("VERIF_REPO", "/repo")
SRC = os.path.join(REPO, "libscpi", "src")
INC = os.path.join(REPO, "libscpi", "inc")

CFG_FLAGS = {
    "A": [],
    "B": ["-DUSE_MEMORY_ALLOCATION_FREE=0"],
    "C": ["-DUSE_DEVICE_DEPENDENT_ERROR_INFORMATION=0"],
    "D": ["-DUSE_CUSTOM_DTOSTRE=1"],
}

def strip_comments(t):
    t = re.sub(r"/\*.*?\*/", " ", t, flags=re.S)
    return re.sub(r"//[^\n]*", " ", t)

def read(p):
    with open(p, encoding="latin-1") as f:
        return f.read()

def func_body(text, name):
    """text of the function definition `name(...) { ... }` (brace matched)"""
    m = re.search(r"\b%s\s*\([^;{]*\)\s*\{" % re.escape(name), text)
    if not m:
        raise SystemExit("translator: function %s not found" % name)
    i = m.end(); depth = 1
    while depth and i < len(text):
        c = text[i]
        if c == "{": depth += 1
        elif c == "}": depth -= 1
        i += 1
    return text[m.start():i]

def c_int(s):
    s = s.strip().rstrip("uUlL")
    return int(s, 0)

def switch_consts(body):
    """map case label -> x constant inside `switch (base)`"""
    m = re.search(r"switch\s*\(\s*base\s*\)\s*\{(.*?)\n\s*\}", body, flags=re.S)
    if not m:
        raise SystemExit("translator: switch(base) not found")
    sw = m.group(1)
    res = {}
    labels = []
    for tok in re.finditer(r"(case\s+(\d+)\s*:|default\s*:|x\s*=\s*([0-9A-Fa-fxXuUlL]+)\s*;|break\s*;)", sw):
        t = tok.group(1)
        if t.startswith("case"):
            labels.append(int(tok.group(2)))
        elif t.startswith("default"):
            labels.append("default")
        elif t.startswith("x"):
            for l in labels:
                res[l] = c_int(tok.group(3))
        else:
            labels = []
    return res

def mult_fraction(expr):
    """exact rational value of a C constant expression made of decimal literals, / and *"""
    expr = expr.strip()
    def lit(s):
        s = s.strip().rstrip("fFlL")
        m = re.fullmatch(r"([0-9]*)(?:\.([0-9]*))?(?:[eE]([+-]?[0-9]+))?", s)
        if not m or (not m.group(1) and not m.group(2)):
            raise SystemExit("translator: cannot read multiplier literal %r" % s)
        ip, fp, ex = m.group(1) or "0", m.group(2) or "", int(m.group(3) or 0)
        v = Fraction(int(ip + fp), 10 ** len(fp))
        return v * (Fraction(10) ** ex)
    parts = re.split(r"([*/])", expr)
    v = lit(parts[0])
    for op, p in zip(parts[1::2], parts[2::2]):
        v = v * lit(p) if op == "*" else v / lit(p)
    return v

def lean_str(s):
    out = '"'
    for ch in s:
        o = ord(ch)
        if ch == '"': out += '\\"'
        elif ch == "\\": out += "\\\\"
        elif 32 <= o < 127: out += ch
        else: out += "\\x%02x" % o
    return out + '"'

def unhex(h):
    if h == "-": return ""
    if h == "NULL": return None
    return bytes.fromhex(h).decode("latin-1")

def build_dumper(cfg, builddir, regs=False):
    """compile and run translate/dump_tables.c against /repo (default program, or the register-table program)"""
    os.makedirs(builddir, exist_ok=True)
    exe = os.path.join(builddir, "dump_regs" if regs else "dump_tables")
    names = ["fifo.c", "lexer.c", "minimal.c", "parser.c", "units.c", "utils.c", "expression.c", "error.c"] + ([] if regs else ["ieee488.c"])
    srcs = [os.path.join(SRC, f) for f in names]
    cmd = ["gcc", "-O0", "-w", "-I" + INC, "-I" + SRC] + CFG_FLAGS[cfg] + (["-DDUMP_REGS"] if regs else []) + \
          [os.path.join(HERE, "dump_tables.c")] + srcs + ["-lm", "-o", exe]
    r = subprocess.run(cmd, capture_output=True, text=True)
    if r.returncode != 0:
        raise RuntimeError("dumper%s does not compile for configuration %s: %s" % (" (register tables)" if regs else "", cfg, r.stderr[-600:]))
    r = subprocess.run([exe], capture_output=True, text=True, timeout=120)
    if r.returncode != 0:
        raise RuntimeError("dumper%s failed (exit %d): %s" % (" (register tables)" if regs else "", r.returncode, r.stderr[-300:]))
    return r.stdout

class Fail(Exception):
    pass

def generate(cfg="A", builddir=None, outpath=None):
    """Regenerate Gen/Tables.lean.  Every section is extracted on its own; a section that cannot be extracted (the source
    was rewritten in a way the translator does not understand) gets an empty / zero value and is reported in the result
    under "failed" - the theorems and correspondences that depend on it then stop checking, the others are unaffected."""
    builddir = builddir or os.path.join(VERIF, "build", cfg)
    outpath = outpath or os.path.join(VERIF, "lean", "ScpiVerif", "Gen", "Tables.lean")
    failed = {}
    def section(name, fn, fallback):
        try:
            return fn()
        except (Fail, RuntimeError, subprocess.SubprocessError, ValueError, KeyError, IndexError, AttributeError, OSError) as e:
            failed[name] = str(e)[:400]
            return fallback

    errclass, errdesc, regdet, reggrp, consts, strs, units, special, booldef = [], [], [], [], {}, {}, [], [], []
    fallback = ""
    dump = section("public-dump", lambda: build_dumper(cfg, builddir), "")
    dumpr = section("register-tables", lambda: build_dumper(cfg, builddir, regs=True), "")
    for line in (dump + dumpr).splitlines():
        f = line.split()
        if not f: continue
        if f[0] == "ERRCLASS": errclass.append((int(f[1]), int(f[2]), int(f[3])))
        elif f[0] == "ERRDESC": errdesc.append((int(f[1]), unhex(f[2]), unhex(f[3])))
        elif f[0] == "ERRFALLBACK": fallback = unhex(f[1])
        elif f[0] == "REGDETAIL": regdet.append((int(f[2]), int(f[3])))
        elif f[0] == "REGGROUP": reggrp.append(tuple(int(x) for x in f[2:9]))
        elif f[0] == "CONST": consts[f[1]] = int(f[2])
        elif f[0] == "STR": strs[f[1]] = unhex(f[2])
        elif f[0] == "UNIT": units.append((unhex(f[1]), int(f[2]), f[3]))
        elif f[0] == "SPECIAL": special.append((unhex(f[1]), int(f[2])))
        elif f[0] == "BOOLDEF": booldef.append((unhex(f[1]), int(f[2])))

    utils = strip_comments(read(os.path.join(SRC, "utils.c")))
    parser = strip_comments(read(os.path.join(SRC, "parser.c")))
    unitsc = strip_comments(read(os.path.join(SRC, "units.c")))

    # constants inside the two integer formatters: read from the source text where it has the shape the patterns know
    # (`switch (base)` with `x = CONST;` sections, `digits[] = "..."` inside the function), otherwise from clang's AST
    # (translate/c2lean_intfmt.py: constants assigned under `case k:` or `base == k`, the indexed constant array at function or
    # file scope).  A function where neither works fails ITS OWN sections only (zero table / empty alphabet below).
    _ast_tables = {}
    def ast_tables(fn):
        if "r" not in _ast_tables:
            try:
                import c2lean_intfmt
                _ast_tables["r"] = c2lean_intfmt.extract_tables()
            except BaseException as e:     # also SystemExit: nothing in here may abort generate()
                _ast_tables["r"] = {}
                _ast_tables["why"] = "%s: %s" % (type(e).__name__, e)
        return _ast_tables["r"].get(fn, {}), _ast_tables.get("why", "not recognised in the AST either")
    def divs(fn):
        try:
            sc = switch_consts(fbody(utils, fn))
            d10 = sc.get(10, sc.get("default"))
            r = (sc.get(2, d10), sc.get(8, d10), d10, sc.get(16, d10))
            if not any(x is None for x in r):
                return r
            why = "divisor constants of the base switch not found"
        except (SystemExit, Fail) as e:
            why = str(e)
        t, why2 = ast_tables(fn)
        if t.get("div"):
            return t["div"]
        raise Fail("%s; %s" % (why, why2))
    def digits(fn):
        try:
            m = re.search(r'digits\s*\[\s*\]\s*=\s*"([^"]*)"', fbody(utils, fn))
            if m:
                return m.group(1)
            why = "digit alphabet not found"
        except Fail as e:
            why = str(e)
        t, why2 = ast_tables(fn)
        if t.get("digits") is not None:
            return t["digits"]
        raise Fail("%s; %s" % (why, why2))
    def fbody(src, fn):
        try:
            return func_body(src, fn)
        except SystemExit as e:
            raise Fail(str(e))
    d32 = section("intfmt32-divisors", lambda: divs("UInt32ToStrBaseSign"), (0, 0, 0, 0))
    d64 = section("intfmt64-divisors", lambda: divs("UInt64ToStrBaseSign"), (0, 0, 0, 0))
    dig32 = section("intfmt32-digits", lambda: digits("UInt32ToStrBaseSign"), "")
    dig64 = section("intfmt64-digits", lambda: digits("UInt64ToStrBaseSign"), "")

    def base_prefixes():
        r = [(int(a), b) for a, b in re.findall(r'case\s+(\d+)\s*:\s*return\s*"([^"]*)"', fbody(parser, "getBasePrefix"))]
        if not r: raise Fail("getBasePrefix: no 'case N: return \"..\"' found")
        return r
    prefixes = section("base-prefixes", base_prefixes, [])

    def bufsize(fn, var):
        m = re.search(r"char\s+%s\s*\[\s*([0-9+ ]+)\s*\]" % var, fbody(parser, fn))
        if not m: raise Fail("buffer %s in %s not found" % (var, fn))
        return sum(int(x) for x in m.group(1).split("+"))
    sizes = {}
    for key, fn, var in (("bufU32", "resultUInt32BaseSign", "buffer"), ("bufU64", "resultUInt64BaseSign", "buffer"),
                         ("bufFloat", "SCPI_ResultFloat", "buffer"), ("bufDouble", "SCPI_ResultDouble", "buffer"),
                         ("bufBlockHeader", "SCPI_ResultArbitraryBlockHeader", "block_header")):
        sizes[key] = section("scratch-size-" + key, lambda fn=fn, var=var: bufsize(fn, var), 0)
    def block_header_call():
        m = re.search(r"SCPI_UInt32ToStrBase\s*\(\s*\(uint32_t\)\s*len\s*,\s*block_header\s*\+\s*(\d+)\s*,\s*(\d+)\s*,\s*(\d+)\s*\)",
                      fbody(parser, "SCPI_ResultArbitraryBlockHeader"))
        if not m: raise Fail("block header conversion call not found")
        return tuple(int(m.group(i)) for i in (1, 2, 3))
    sizes["blockHeaderOff"], sizes["blockHeaderLen"], sizes["blockHeaderBase"] = section("block-header-call", block_header_call, (0, 0, 0))
    m = re.search(r"#define\s+SCPI_DTOSTRE_BUFFER_SIZE\s+(\d+)", utils)
    sizes["dtostreBuf"] = int(m.group(1)) if m else 0

    # multiplier expressions of scpi_units_def, in table order, as exact rationals
    def unit_table():
        tbl = re.search(r"scpi_units_def\s*\[\s*\]\s*=\s*\{(.*?)SCPI_UNITS_LIST_END", unitsc, flags=re.S)
        if not tbl: raise Fail("scpi_units_def not found")
        mult_src = {}
        for nm, un, mu in re.findall(r'\{\s*"([^"]+)"\s*,\s*(\w+)\s*,\s*([^}]+?)\s*\}', tbl.group(1)):
            mult_src.setdefault(nm, (un, mult_fraction(mu)))
        rows = []
        for nm, unit, hexf in units:
            if nm not in mult_src:
                raise Fail("unit %s has no source row" % nm)
            fr = mult_src[nm][1]
            if float(fr) != float.fromhex(hexf):
                # the table keeps the multiplier AS WRITTEN (that is what the property means by "that suffix's multiplier");
                # that the compiled table holds another value is reported as a broken tie, and the judge of C04, which
                # multiplies with the written value, then finds the literals that decode wrongly
                compiled_mismatch.append("unit %s: source expression %s does not evaluate to compiled %s" % (nm, fr, hexf))
            rows.append((nm, unit, fr.numerator, fr.denominator))
        return rows
    compiled_mismatch = []
    unit_rows = section("unit-multipliers", unit_table, [])
    if compiled_mismatch:
        failed["unit-multipliers-compiled"] = "; ".join(compiled_mismatch[:3]) + (" (and %d more)" % (len(compiled_mismatch) - 3) if len(compiled_mismatch) > 3 else "")

    # character-class predicates of lexer.c (file-static) and the <ctype.h> functions the library calls: exhaustive tables over
    # all 256 byte values, one tiny program per predicate (a predicate that was renamed or removed costs only its own table)
    CHAR_PREDS = ["isws", "isbdigit", "isqdigit", "isplusmn", "isH", "isB", "isQ", "isE", "isascii7bit", "isNonzeroDigit",
                  "isProgramExpression", "isdigit", "isalpha", "isalnum", "isxdigit", "isupper", "islower", "isspace"]
    CHAR_MAPS = ["toupper", "tolower"]
    LIBC_PREDS = {"isdigit", "isalpha", "isalnum", "isxdigit", "isupper", "islower", "isspace", "toupper", "tolower"}
    def char_table(name, mapping=False):
        os.makedirs(builddir, exist_ok=True)
        exe = os.path.join(builddir, "dump_chars_" + name)
        cmd = ["gcc", "-O0", "-w", "-I" + INC, "-I" + SRC] + CFG_FLAGS[cfg] + ["-DPRED=" + name] + (["-DMAPPING"] if mapping else []) + (["-DARG_UNSIGNED"] if name in LIBC_PREDS else []) + \
              [os.path.join(HERE, "dump_chars.c"), "-lm", "-o", exe]
        r = subprocess.run(cmd, capture_output=True, text=True)
        if r.returncode != 0: raise Fail("character predicate %s: dumper does not compile: %s" % (name, r.stderr[-300:]))
        r = subprocess.run([exe], capture_output=True, text=True, timeout=30)
        if r.returncode != 0: raise Fail("character predicate %s: dumper failed" % name)
        bits, mp = None, None
        for line in r.stdout.splitlines():
            f = line.split()
            if f and f[0] == "CHARCLASS" and len(f) == 3 and len(f[2]) == 256: bits = sum(1 << i for i, ch in enumerate(f[2]) if ch == "1")
            if f and f[0] == "CHARMAP" and len(f) == 258: mp = [int(x) for x in f[2:]]
        if bits is None or (mapping and mp is None): raise Fail("character predicate %s: no table in the dumper output" % name)
        return mp if mapping else bits
    import concurrent.futures as _cf
    with _cf.ThreadPoolExecutor(max_workers=8) as _ex:
        _futs = {n: _ex.submit(lambda n=n: section("charclass-" + n, lambda: char_table(n), 0)) for n in CHAR_PREDS}
        _futm = {n: _ex.submit(lambda n=n: section("charmap-" + n, lambda: char_table(n, True), [])) for n in CHAR_MAPS}
        charclass = {n: f.result() for n, f in _futs.items()}
        charmap = {n: f.result() for n, f in _futm.items()}

    # widths of the counters and indices the model treats as unbounded numbers
    FIELDS = [("scpi_t", "output_count"), ("scpi_t", "input_count"), ("scpi_t", "arbitrary_remaining"), ("scpi_t", "buffer.length"),
              ("scpi_t", "buffer.position"), ("scpi_fifo_t", "wr"), ("scpi_fifo_t", "rd"), ("scpi_fifo_t", "count"), ("scpi_fifo_t", "size"),
              ("scpi_error_info_heap_t", "wr"), ("scpi_error_info_heap_t", "count"), ("scpi_error_info_heap_t", "size"),
              ("scpi_token_t", "len"), ("lex_state_t", "len"), ("scpi_parser_state_t", "numberOfParameters"), ("scpi_error_t", "error_code")]
    def field_width(st, fld):
        os.makedirs(builddir, exist_ok=True)
        exe = os.path.join(builddir, "dump_field_%s_%s" % (st, fld.replace(".", "_")))
        cmd = ["gcc", "-O0", "-w", "-I" + INC, "-I" + SRC] + CFG_FLAGS[cfg] + ["-DSTRUCT=" + st, "-DFIELD=" + fld, os.path.join(HERE, "dump_fields.c"), "-o", exe]
        r = subprocess.run(cmd, capture_output=True, text=True)
        if r.returncode != 0: raise Fail("field %s.%s: dumper does not compile: %s" % (st, fld, r.stderr[-300:]))
        r = subprocess.run([exe], capture_output=True, text=True, timeout=30)
        f = r.stdout.split()
        if r.returncode != 0 or len(f) != 4 or f[0] != "FIELD": raise Fail("field %s.%s: no output" % (st, fld))
        return (int(f[2]) * 8, int(f[3]))
    with _cf.ThreadPoolExecutor(max_workers=8) as _ex:
        _futf = {(s, f): _ex.submit(lambda s=s, f=f: section("field-%s.%s" % (s, f), lambda: field_width(s, f), (0, 0))) for s, f in FIELDS}
        fieldw = {k: v.result() for k, v in _futf.items()}

    L = []
    A = L.append
    A("/- GENERATED by translate/extract.py from the current source tree (configuration %s). Do not edit. -/" % cfg)
    if failed:
        A("/- sections that could not be extracted (empty / zero below): %s -/" % ", ".join(sorted(failed)))
    A("namespace ScpiVerif.Gen\n")
    A("def config : String := %s" % lean_str(cfg))
    A("/-- (highest code, lowest code, event-status bits): maximal ranges of codes by what one SCPI_ErrorPush sets, ascending -/")
    A("def errClassTable : List (Int × Int × Nat) := [%s]" %
      ", ".join("(%d, %d, %d)" % r for r in errclass))
    A("def errorList : List (Int × String) := [\n  %s]" %
      ",\n  ".join("(%d, %s)" % (c, lean_str(t)) for c, t, _ in errdesc))
    A("def errorListSource : List (Int × String) := [\n  %s]" %
      ",\n  ".join("(%d, %s)" % (c, lean_str(s)) for c, _, s in errdesc))
    A("def errFallback : String := %s" % lean_str(fallback))
    A("def regDetails : List (Nat × Nat) := [%s]" % ", ".join("(%d, %d)" % r for r in regdet))
    A("/-- (event, enable, condition, ptfilt, ntfilt, parent_reg, parent_bit) -/")
    A("def regGroups : List (Nat × Nat × Nat × Nat × Nat × Nat × Nat) := [%s]" %
      ", ".join("(%d, %d, %d, %d, %d, %d, %d)" % r for r in reggrp))
    for k, v in consts.items():
        A("def %s : Int := %d" % (k, v))
    for k, v in strs.items():
        A("def %s : String := %s" % (k, lean_str(v)))
    A("/-- (d2, d8, d10, d16): initial divisors of UInt32ToStrBaseSign -/")
    A("def div32 : Nat × Nat × Nat × Nat := (%d, %d, %d, %d)" % d32)
    A("def div64 : Nat × Nat × Nat × Nat := (%d, %d, %d, %d)" % d64)
    A("def digits32 : String := %s" % lean_str(dig32))
    A("def digits64 : String := %s" % lean_str(dig64))
    A("def basePrefixes : List (Int × String) := [%s]" % ", ".join("(%d, %s)" % (a, lean_str(b)) for a, b in prefixes))
    for k, v in sizes.items():
        A("def %s : Nat := %d" % (k, v))
    A("/-- (name, unit tag, multiplier numerator, multiplier denominator) -/")
    A("def unitsDef : List (String × Nat × Nat × Nat) := [\n  %s]" %
      ",\n  ".join("(%s, %d, %d, %d)" % (lean_str(n), u, a, b) for n, u, a, b in unit_rows))
    A("def specialNumbersDef : List (String × Int) := [%s]" % ", ".join("(%s, %d)" % (lean_str(n), t) for n, t in special))
    A("def boolDef : List (String × Int) := [%s]" % ", ".join("(%s, %d)" % (lean_str(n), t) for n, t in booldef))
    A("\n/-- character classes: bit b of the number is set iff the C function (file-static predicate of lexer.c, or the <ctype.h>")
    A("function as the library calls it) returns non-zero for the byte value b passed as a plain `char`; all 256 values -/")
    for n in CHAR_PREDS:
        A("def cc_%s : Nat := 0x%x" % (n, charclass[n]))
    for n in CHAR_MAPS:
        A("def cm_%s : List Nat := [%s]" % (n, ", ".join(str(x) for x in charmap[n])))
    A("\n/-- (width in bits, signed) of the counter and index fields of the library's structures, as compiled -/")
    for (s, f) in FIELDS:
        A("def fw_%s_%s : Nat × Bool := (%d, %s)" % ("ctx" if s == "scpi_t" else s.replace("scpi_", "").replace("_t", ""), f.replace(".", "_"), fieldw[(s, f)][0], "true" if fieldw[(s, f)][1] else "false"))
    A("\nend ScpiVerif.Gen")
    text = "\n".join(L) + "\n"
    old = read(outpath) if os.path.exists(outpath) else None
    if old != text:
        with open(outpath, "w") as f:
            f.write(text)

    # C -> Lean translation of fifo.c (Gen/FifoC.lean, next to the tables): regenerated on every run from clang's typed AST.
    # A function outside the translator's subset is left out of the generated file (the whole file is a stub without
    # definitions when nothing can be translated), so the refinement theorems of Lemmas/FifoC.lean and the c_fifo_* theorems
    # of Props/C10.lean stop building; the other sections and properties are unaffected.
    fifo_c = {"functions": [], "changed": False}
    try:
        import c2lean
        fifo_c = c2lean.generate_fifo(os.path.join(os.path.dirname(outpath), "FifoC.lean"))
        if fifo_c["failed"]:
            failed["fifo_c"] = "; ".join("%s: %s" % kv for kv in sorted(fifo_c["failed"].items()))[:400]
    except Exception as e:  # the translator itself is broken: same treatment as a section that cannot be extracted
        failed["fifo_c"] = ("c2lean: %s: %s" % (type(e).__name__, e))[:400]
        try:
            import c2lean as _c
            with open(os.path.join(os.path.dirname(outpath), "FifoC.lean"), "w") as f:
                f.write(_c.stub("ScpiVerif.Gen.FifoC", failed["fifo_c"]))
        except Exception:
            pass
    # C -> Lean translation of the integer formatters of utils.c (Gen/IntFmtC.lean): same treatment (translate/c2lean_intfmt.py)
    intfmt_c = {"functions": [], "changed": False}
    try:
        import c2lean_intfmt
        intfmt_c = c2lean_intfmt.generate(os.path.join(os.path.dirname(outpath), "IntFmtC.lean"))
        if intfmt_c["failed"]:
            # root causes first (a wrapper that only fails because its callee was refused says nothing new)
            failed["intfmt_c"] = "; ".join("%s: %s" % kv for kv in sorted(intfmt_c["failed"].items(),
                                           key=lambda kv: ("which is not a function translated before" in kv[1] and "ToStrBaseSign'" in kv[1], kv[0])))[:400]
    except Exception as e:
        failed["intfmt_c"] = ("c2lean_intfmt: %s: %s" % (type(e).__name__, e))[:400]
        try:
            import c2lean as _c
            with open(os.path.join(os.path.dirname(outpath), "IntFmtC.lean"), "w") as f:
                f.write(_c.stub("ScpiVerif.Gen.IntFmtC", failed["intfmt_c"]))
        except Exception:
            pass
    # C -> Lean translation of lexer.c (Gen/LexerC.lean): same treatment, section "lexer_c" (translate/c2lean_lexer.py).
    lexer_c = {"functions": [], "changed": False}
    try:
        import c2lean_lexer
        lexer_c = c2lean_lexer.generate_lexer(os.path.join(os.path.dirname(outpath), "LexerC.lean"))
        if lexer_c["failed"]:
            failed["lexer_c"] = "; ".join("%s: %s" % kv for kv in sorted(lexer_c["failed"].items()))[:400]
    except Exception as e:
        failed["lexer_c"] = ("c2lean_lexer: %s: %s" % (type(e).__name__, e))[:400]
        try:
            import c2lean_lexer as _cl
            with open(os.path.join(os.path.dirname(outpath), "LexerC.lean"), "w") as f:
                f.write(_cl.stub(failed["lexer_c"]))
        except Exception:
            pass
    # C -> Lean translation of the string heap of utils.c (Gen/HeapC.lean; configuration B only: -DUSE_MEMORY_ALLOCATION_FREE=0),
    # same treatment: a refused function is a `NotTranslated` constant, so the theorems of Lemmas/HeapC.lean and
    # Props/C20Gen.lean about it stop building; section name `heap_c`
    heap_c = {"functions": [], "changed": False}
    try:
        import c2lean_heap
        heap_c = c2lean_heap.generate_heap(os.path.join(os.path.dirname(outpath), "HeapC.lean"))
        if heap_c["failed"]:
            failed["heap_c"] = "; ".join("%s: %s" % kv for kv in sorted(heap_c["failed"].items()))[:400]
    except Exception as e:
        failed["heap_c"] = ("c2lean_heap: %s: %s" % (type(e).__name__, e))[:400]
        try:
            import c2lean as _c
            with open(os.path.join(os.path.dirname(outpath), "HeapC.lean"), "w") as f:
                f.write(_c.stub("ScpiVerif.Gen.HeapC", failed["heap_c"]))
        except Exception:
            pass
    # C -> Lean translation of the status-register functions of ieee488.c (Gen/RegsC.lean): same treatment, own section
    regs_c = {"functions": [], "changed": False}
    try:
        import c2lean_regs
        regs_c = c2lean_regs.generate_regs(os.path.join(os.path.dirname(outpath), "RegsC.lean"))
        if regs_c["failed"]:
            failed["regs_c"] = "; ".join("%s: %s" % kv for kv in sorted(regs_c["failed"].items()))[:400]
    except Exception as e:
        failed["regs_c"] = ("c2lean_regs: %s: %s" % (type(e).__name__, e))[:400]
        try:
            import c2lean as _c
            with open(os.path.join(os.path.dirname(outpath), "RegsC.lean"), "w") as f:
                f.write(_c.stub("ScpiVerif.Gen.RegsC", failed["regs_c"]))
        except Exception:
            pass
    # C -> Lean translation of the response framing functions and of SCPI_Input of parser.c (Gen/ResultC.lean, Gen/InputC.lean;
    # translate/c2lean_parser.py), same treatment: one section each, a refusal is recorded and never disturbs the others
    parser_c = {}
    for _sec in ("result_c", "input_c"):
        try:
            import c2lean_parser
            parser_c[_sec] = c2lean_parser.generate(_sec, os.path.dirname(outpath))
            if parser_c[_sec]["failed"]:
                failed[_sec] = "; ".join("%s: %s" % kv for kv in sorted(parser_c[_sec]["failed"].items()))[:400]
        except Exception as e:
            failed[_sec] = ("c2lean_parser: %s: %s" % (type(e).__name__, e))[:400]
            try:
                import c2lean as _c, c2lean_parser as _p
                with open(os.path.join(os.path.dirname(outpath), _p.SECTIONS[_sec]["file"]), "w") as f:
                    f.write(_c.stub(_p.SECTIONS[_sec]["namespace"], failed[_sec]))
            except Exception:
                pass
    gens = {"fifo_c": fifo_c, "regs_c": regs_c, "heap_c": heap_c, "intfmt_c": intfmt_c, "lexer_c": lexer_c}
    gens.update(parser_c)
    rows = {"errclass": len(errclass), "errdesc": len(errdesc), "units": len(unit_rows), "special": len(special)}
    for _n, _g in gens.items():
        rows[_n + "_functions"] = len(_g.get("functions", []))
    return {"changed": old != text or any(_g.get("changed", False) for _g in gens.values()), "path": outpath, "failed": failed, "rows": rows}

if __name__ == "__main__":
    cfg = sys.argv[1] if len(sys.argv) > 1 else "A"
    print(json.dumps(generate(cfg)))
