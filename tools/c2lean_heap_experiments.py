#!/usr/bin/env python3
"""Experiments for the C -> Lean tie of the string heap of utils.c (notes/EXT_GEN_HEAP_REPORT.md): behaviour-preserving rewrites
of scpiheap_* must leave Props/C20Gen building, semantic changes must break it.

    python3 tools/c2lean_heap_experiments.py [--full] [id ...]

Works in a scratch worktree of the C repository (/tmp/genheap2_scratch, removed at the end); never touches /repo.  For every
experiment: apply the textual edit to libscpi/src/utils.c, compile it (configuration B), run the translator
(VERIF_REPO=/tmp/genheap2_scratch), `lake build ScpiVerif.Props.C20Gen`, report which declarations fail; with --full also
`tools/check.py C20 --tier quick`.  The generated files are restored from the unchanged /repo at the end.
"""
import os, re, subprocess, sys, json
HERE = os.path.dirname(os.path.abspath(__file__))
VERIF = os.path.dirname(HERE)
REPO = "/repo"
SCRATCH = "/tmp/genheap2_scratch"
UTILS = os.path.join(SCRATCH, "libscpi", "src", "utils.c")

TWO_PART = """    if (len >= rem) {
        memcpy(&heap->data[heap->wr], s, rem);
        len = len - rem;
        ptrs += rem;
        heap->wr = 0;
        heap->count -= rem;
    }

    memcpy(&heap->data[heap->wr], ptrs, len);
    heap->wr += len;
    heap->count -= len;
"""
TWO_PART_IFELSE = """    if (len >= rem) {
        memcpy(&heap->data[heap->wr], s, rem);
        len = len - rem;
        ptrs += rem;
        heap->count -= rem;
        memcpy(heap->data, ptrs, len);
        heap->wr = len;
        heap->count -= len;
    } else {
        memcpy(&heap->data[heap->wr], ptrs, len);
        heap->wr += len;
        heap->count -= len;
    }
"""
FREE_HEAD = """    char * data_add;
    size_t len[2];

    if (!scpiheap_get_parts(heap, s, &len[0], (const char **)&data_add, &len[1])) return;

    if (data_add) {
        len[1]++;
        memset(data_add, 0, len[1]);
        heap->count += len[1];
    } else {
        len[0]++;
    }
    memset(s, 0, len[0]);
    heap->count += len[0];
"""
FREE_SCALARS = """    char * data_add;
    size_t la;
    size_t lb;

    if (!scpiheap_get_parts(heap, s, &la, (const char **)&data_add, &lb)) return;

    if (data_add) {
        lb++;
        memset(data_add, 0, lb);
        heap->count += lb;
    } else {
        la++;
    }
    memset(s, 0, la);
    heap->count += la;
"""
NULL_CHAIN = """    if (!heap || !s || !len1 || !s2 || !len2) {
        return FALSE;
    }
"""
NULL_SPLIT = """    if (!heap) {
        return FALSE;
    }
    if (s == NULL) return FALSE;
    if (!len1 || !s2) {
        return FALSE;
    }
    if (!len2) {
        return FALSE;
    }
"""

EXPERIMENTS = [
    # ---- behaviour-preserving rewrites
    ("R1", "rewrite", "strndup: `rem` computed as `heap->size - heap->wr`",
     [("size_t rem = heap->size - (&heap->data[heap->wr] - heap->data);", "size_t rem = heap->size - heap->wr;")]),
    ("R2", "rewrite", "strndup: the two-part copy written with an explicit if/else",
     [(TWO_PART, TWO_PART_IFELSE)]),
    ("R3", "rewrite", "free: `len[2]` replaced by two scalars",
     [(FREE_HEAD, FREE_SCALARS), ("        size_t rb = len[0] + len[1];", "        size_t rb = la + lb;")]),
    ("R4", "rewrite", "get_parts: the NULL-test chain split into separate ifs (`!p`, `p == NULL`, a shorter chain)",
     [(NULL_CHAIN, NULL_SPLIT)]),
    ("R5", "rewrite", "strndup: `head` computed after the copy as `heap->data + heap->wr` saved before",
     [("    char * head = &heap->data[heap->wr];\n", "    char * head = heap->data + heap->wr;\n")]),
    ("R6", "rewrite", "free: `data_add != NULL`, `len[0] += 1`, count updated before the memset; get_parts: `*len2` written before `*s2`",
     [("    if (data_add) {\n        len[1]++;", "    if (data_add != NULL) {\n        len[1] += 1;"),
      ("    memset(s, 0, len[0]);\n    heap->count += len[0];", "    heap->count += len[0];\n    memset(s, 0, len[0]);"),
      ("        *s2 = NULL;\n        *len2 = 0;", "        *len2 = 0;\n        *s2 = NULL;")]),
    # ---- semantic changes
    ("B1", "break", "strndup: `len >= rem` -> `len > rem` (exact fit leaves wr == size)",
     [("    if (len >= rem) {", "    if (len > rem) {")]),
    ("B2", "break", "strndup: the forced NUL dropped for heap->wr > 0",
     [("    if (heap->wr > 0) {\n        heap->data[heap->wr - 1] = '\\0';\n    } else {", "    if (heap->wr > 0) {\n    } else {")]),
    ("B3", "break", "strndup: `heap->count -= rem` dropped",
     [("        heap->wr = 0;\n        heap->count -= rem;\n", "        heap->wr = 0;\n")]),
    ("B4", "break", "free: rollback wraps on `rb >= heap->wr` instead of `rb > heap->wr`",
     [("        if (rb > heap->wr) {", "        if (rb >= heap->wr) {")]),
    ("B5", "break", "get_parts: comparison with `&heap->data[heap->size]` instead of `heap->size - 1`",
     [("    if (&s[*len1 - 1] == &heap->data[heap->size - 1]) {", "    if (&s[*len1 - 1] == &heap->data[heap->size]) {")]),
    ("B6", "break", "free: `memset(s, 0, len[0] - 1)`",
     [("    memset(s, 0, len[0]);", "    memset(s, 0, len[0] - 1);")]),
    ("B7", "break", "init: `heap->count = heap->size - 1`",
     [("    heap->count = heap->size;", "    heap->count = heap->size - 1;")]),
]


def sh(cmd, **kw):
    return subprocess.run(cmd, capture_output=True, text=True, **kw)


def decl_at(path, line):
    name = "?"
    for i, l in enumerate(open(path, encoding="utf-8"), 1):
        m = re.match(r"\s*(?:theorem|example|def|macro|inductive)\s+([\w.']+)?", l)
        if m and i <= line:
            name = (m.group(1) if m.group(1) and m.group(1) != ":" else None) or "example(line %d)" % i
    return name


def main():
    full = "--full" in sys.argv
    want = [a for a in sys.argv[1:] if not a.startswith("--")]
    sh(["git", "-C", REPO, "worktree", "remove", "--force", SCRATCH])
    r = sh(["git", "-C", REPO, "worktree", "add", "--detach", SCRATCH, "HEAD"])
    if r.returncode != 0:
        sys.exit("cannot create scratch worktree: " + r.stderr)
    env = dict(os.environ, VERIF_REPO=SCRATCH, LEAN_NUM_THREADS="6")
    rows = []
    try:
        orig = open(UTILS, encoding="latin-1").read()
        for eid, kind, desc, edits in EXPERIMENTS:
            if want and eid not in want:
                continue
            txt = orig
            for old, new in edits:
                if txt.count(old) != 1:
                    sys.exit("%s: pattern occurs %d times: %r" % (eid, txt.count(old), old[:60]))
                txt = txt.replace(old, new)
            open(UTILS, "w", encoding="latin-1").write(txt)
            cc = sh(["gcc", "-fsyntax-only", "-DUSE_MEMORY_ALLOCATION_FREE=0", "-I" + SCRATCH + "/libscpi/inc", "-I" + SCRATCH + "/libscpi/src", UTILS])
            tr = sh([sys.executable, os.path.join(VERIF, "translate", "c2lean_heap.py")], env=env)
            try:
                failed = json.loads(tr.stdout.strip().splitlines()[-1])["failed"]
            except Exception:
                failed = {"all": tr.stdout[-200:] + tr.stderr[-200:]}
            b = sh(["lake", "build", "ScpiVerif.Props.C20Gen"], cwd=os.path.join(VERIF, "lean"), env=env)
            out = b.stdout + b.stderr
            bad = []
            for m in re.finditer(r"error: (ScpiVerif/[\w/]+\.lean):(\d+):\d+: (.*)", out):
                d = "%s:%s" % (m.group(1).replace("ScpiVerif/", "").replace(".lean", ""), decl_at(os.path.join(VERIF, "lean", m.group(1)), int(m.group(2))))
                if d not in bad:
                    bad.append(d)
            row = {"id": eid, "kind": kind, "what": desc, "c_compiles": cc.returncode == 0, "translator_failed": failed,
                   "build_ok": b.returncode == 0, "broken_declarations": bad}
            if full:
                c = sh([sys.executable, os.path.join(VERIF, "tools", "check.py"), "C20", "--tier", "quick"], env=env, cwd=VERIF)
                lines = [l for l in c.stdout.splitlines() if l.startswith(("VIOLATION", "ok ", "FAIL ", "KNOWN"))]
                row["check_exit"] = c.returncode
                row["check_lines"] = [l[:260] for l in lines]
            row["as_expected"] = (kind == "rewrite") == row["build_ok"]
            rows.append(row)
            print(json.dumps(row), flush=True)
    finally:
        sh(["git", "-C", REPO, "worktree", "remove", "--force", SCRATCH])
        base = dict(os.environ)
        base.pop("VERIF_REPO", None)
        sh([sys.executable, os.path.join(VERIF, "translate", "extract.py"), "A"], env=base)
    print("\n| id | kind | change | translator | lake build Props.C20Gen | broken declarations |" + (" check.py C20 |" if full else ""))
    print("|---|---|---|---|---|---|" + ("---|" if full else ""))
    for r in rows:
        print("| %s | %s | %s | %s | %s | %s |%s" % (r["id"], r["kind"], r["what"], "ok" if not r["translator_failed"] else "REFUSED: " + "; ".join("%s" % v for v in r["translator_failed"].values())[:160],
              "ok" if r["build_ok"] else "FAILS", ", ".join(r["broken_declarations"]) or "-",
              (" exit %d: %s |" % (r["check_exit"], "; ".join(r["check_lines"])[:220]) if full else "")))


if __name__ == "__main__":
    main()
