#!/usr/bin/env python3
"""Run checks against a seeded change WITHOUT touching /repo: the patch is applied in a scratch git worktree of /repo's HEAD
and the checks are pointed at it with VERIF_REPO.  The framework used is the one this script lives in (so it can be a
git worktree of /verif, leaving /verif itself free).
usage: seedrun.py <patch.diff> <Cxx> [<Cxx> ...]     env: VERIF_SEED, VERIF_TIER
prints one line per check:  <id> exit <n> | <first VIOLATION line or -> | <first line of the replay file>"""
import subprocess, sys, os, json
HERE = os.path.dirname(os.path.abspath(__file__)); VERIF = os.path.dirname(HERE)
patch = os.path.abspath(sys.argv[1]); checks = sys.argv[2:]
wt = "/tmp/seedrun_%d" % os.getpid()
def sh(cmd, **kw): return subprocess.run(cmd, shell=True, capture_output=True, text=True, **kw)
r = sh("git -C /repo worktree add -q --detach %s HEAD" % wt)
if r.returncode: print("cannot create worktree:", r.stderr); sys.exit(2)
res = {}
try:
    r = sh("git -C %s apply %s" % (wt, patch))
    if r.returncode: print("patch does not apply:", r.stderr); sys.exit(2)
    for c in checks:
        env = dict(os.environ, VERIF_REPO=wt, VERIF_SEED=os.environ.get("VERIF_SEED", "1"))
        r = sh("python3 tools/check.py %s --tier %s" % (c, os.environ.get("VERIF_TIER", "quick")), cwd=VERIF, env=env)
        viol = [l for l in r.stdout.splitlines() if l.startswith("VIOLATION")]
        summ = [l for l in r.stdout.splitlines() if l.startswith(("ok ", "FAIL "))]
        first = ""
        if viol:
            path = viol[0].split("replay=")[1].split()[0]
            try: first = [l for l in open(path) if l.startswith("#")][0].strip()[:200]
            except Exception: pass
        res[c] = {"exit": r.returncode, "violations": viol, "summary": summ[-1] if summ else "", "first_replay_header": first}
        print(c, "exit", r.returncode, "|", (viol[0] if viol else "-"), "|", first, flush=True)
finally:
    sh("git -C /repo worktree remove --force %s" % wt)
print(json.dumps(res))
