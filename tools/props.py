"""Per-property configuration of check.py: theorem module, correspondence domains, judge clause
prefixes, claimed level, trusted base and assumptions."""

KERNEL = "Lean 4.33.0 kernel; axioms allowed in property theorems: propext, Classical.choice, Quot.sound (checked with #print axioms on every run)"
TRANSLATOR = "translate/extract.py + translate/dump_tables.c (tables and constants of the C sources regenerated as Gen/Tables.lean on every run)"
CORR = "hand-written Lean model tied to the C code by differential testing only (harness compiled from /repo's working tree with ASan+UBSan; reach = its generators)"
PLATFORM = "gcc 12 / glibc / x86-64 little-endian is the only implementation exercised"

# letter = first token of the case line; header_tokens = tokens that are not removable operations (for shrinking)
DOMAINS = {
    "intfmt": {"letter": "I", "header_tokens": 6},
    "queue": {"letter": "Q", "header_tokens": 2},
    "regs": {"letter": "R", "header_tokens": 2},
    "heap": {"letter": "H", "header_tokens": 3},
    "lexer": {"letter": "L", "header_tokens": 3},
    "match": {"letter": "M", "header_tokens": 6},
    "p01": {"letter": "P", "header_tokens": 4}, "p02": {"letter": "P", "header_tokens": 4}, "p05": {"letter": "P", "header_tokens": 4},
    "p04": {"letter": "P", "header_tokens": 4}, "roundtrip": {"letter": "Y", "header_tokens": 9}, "p17": {"letter": "P", "header_tokens": 4},
    "errstr": {"letter": "E", "header_tokens": 5}, "buffmt": {"letter": "F", "header_tokens": 9}, "expr": {"letter": "X", "header_tokens": 4},
    "p06": {"letter": "P", "header_tokens": 4}, "p08": {"letter": "P8", "header_tokens": 4}, "p09": {"letter": "P9", "header_tokens": 4}, "p09u": {"letter": "PU", "header_tokens": 4},
    "p21": {"letter": "P", "header_tokens": 4}, "pline": {"letter": "P", "header_tokens": 4},
    "p06big": {"letter": "P", "header_tokens": 4}, "p09ubig": {"letter": "PU", "header_tokens": 4},
}

PROPS = {
    "C14": {
        "module": "ScpiVerif.Props.C14",
        "domains": [{"name": "intfmt", "cfgs": ["A"]}],
        "clauses": ["C14."],
        "level": "proof",
        "trusted_base": [KERNEL, TRANSLATOR + " — initial divisors and digit alphabet of UInt32/UInt64ToStrBaseSign", CORR, PLATFORM],
        "assumptions": ["Model/IntFmt.lean transcribes UInt32ToStrBaseSign/UInt64ToStrBaseSign; checked by correspondence on boundary values x 9 base arguments x buffer lengths 0..70 and stratified random 32/64-bit values",
                        "C unsigned arithmetic modelled as Nat mod 2^w; the theorem shows no step wraps or divides by zero"],
        "rule": "cases = (width, value, signedness, base argument, buffer length); boundary values (0, 1, powers of 2 and 10 +-1, sign boundaries) x bases {2,8,10,16,0,7,-1,3,100} x lengths, plus random values stratified by bit length; non-trivial = value != 0; distinct = distinct case text",
    },
    "C10": {
        "module": "ScpiVerif.Props.C10",
        "domains": [{"name": "queue", "cfgs": ["A", "C"]}],
        "clauses": ["C10."],
        "level": "proof",
        "trusted_base": [KERNEL, CORR + "; strndup/free wrapped at link time to count live allocations and inject failures; ASan/LSan for real heap misuse", PLATFORM],
        "assumptions": ["Model/Fifo.lean transcribes fifo.c and the queue layer of error.c (configurations A and C); correspondence: all op sequences up to length 5 (quick) / 6 (thorough) over a 9-letter alphabet for capacities 1..4, random histories up to 200 ops",
                        "real malloc/free behaviour is observed (ASan, wrapped allocation counter), not proved"],
        "rule": "cases = (capacity, history of push/pop/SYST:ERR?/clear/count); exhaustive short histories + random long ones; non-trivial = at least two operations; distinct = distinct case text",
    },
    "C11": {
        "module": "ScpiVerif.Props.C11",
        "domains": [{"name": "regs", "cfgs": ["A"], "keep": "regs"}],
        "clauses": ["C11."],
        "level": "proof",
        "trusted_base": [KERNEL, TRANSLATOR + " — scpi_reg_details, scpi_reg_group_details, STB_*/ESR_* constants, register numbering", CORR, PLATFORM],
        "assumptions": ["Model/Regs.lean transcribes SCPI_RegSet and the status side of error.c / ieee488.c / minimal.c, instantiated with the generated tables",
                        "histories exclude direct writes to the status byte register itself (the property quantifies over event, condition, enable and SRE writes)",
                        "error queue capacity >= 1"],
        "rule": "cases = (queue capacity, history of register writes / error push,pop,clear / *CLS / clearing queries); every sequence up to length 2 and a 1/5 slice of length 3 (quick) or every sequence up to 4 (thorough) over ~70 operations on representative bit combinations (bit 5, 6, 9), plus random walks over full 16-bit values; every transition is compared with the model's step and judged; non-trivial = at least one operation",
    },
    "C12": {
        "module": "ScpiVerif.Props.C12",
        "domains": [{"name": "regs", "cfgs": ["A"]}],
        "clauses": ["C12."],
        "level": "proof",
        "trusted_base": [KERNEL, TRANSLATOR + " — errs[] class table of error.c, ESR_* constants, register tables", CORR, PLATFORM],
        "assumptions": ["same model and correspondence domain as C11; class table theorem is stated over the generated table",
                        "the service-request callback may also fire on later positive transitions while MSS stays set (DESIGN.md section 9)"],
        "rule": "same generator as C11 plus one push per error code (every code in thorough, class boundaries and a stride in quick); judged per transition: class bit, latch, monotonicity, SRQ only with MSS / on every rise",
    },
}

PROPS["C13"] = {
    "module": "ScpiVerif.Props.C13",
    "domains": [{"name": "lexer", "cfgs": ["A"]}],
    "clauses": ["C13."],
    "level": "proof",
    "trusted_base": [KERNEL, CORR, PLATFORM, "Spec/Tokens.lean + Spec/Unit.lean: the 488.2 section 7 token grammar as regular expressions (Brzozowski derivatives), block and string rules stated directly, with the leniencies listed in DESIGN.md section 9"],
    "assumptions": ["Model/Lexer.lean and Model/Parser.lean transcribe lexer.c and the program-data / unit layer of parser.c; `!iseos && p(pos[0])` is fused into one primitive",
                    "character classes are those of the C locale"],
    "rule": "cases = (buffer bytes, start offset); every string up to length 4 (quick) / 5 (thorough) over 24 class representatives, random strings up to 9 over a wider alphabet (0x00, 0x80, 0xFF included) at every offset, concatenations of grammar fragments, long tokens; every recogniser, the data-element parser, the data-list parser and the unit detector run on each; exact-size buffer without NUL under ASan; non-trivial = non-empty buffer",
}
PROPS["C20"] = {
    "module": "ScpiVerif.Props.C20",
    "domains": [{"name": "heap", "cfgs": ["B"]}],
    "clauses": ["C20."],
    "level": "proof",
    "trusted_base": [KERNEL, CORR + " (configuration B, exact-size heap block under ASan; internal wr/count and final heap bytes compared)", PLATFORM],
    "assumptions": ["Model/Heap.lean transcribes scpiheap_strndup/get_parts/free and the queue layer of error.c in configuration B", "pushed texts are C strings (no embedded NUL); an empty text is no text"],
    "rule": "cases = (queue capacity, heap size, history of pushes with texts / SYST:ERR? / clear / count); all histories up to length 5 (quick) / 6 (thorough) over a 9-letter alphabet on a grid of capacities and heap sizes 2..12, random histories up to 150 operations on heaps of 0..60 bytes; non-trivial = at least two operations",
}

PROPS["C03"] = {
    "module": "ScpiVerif.Props.C03",
    # p02: the matcher through the public API inside handlers (SCPI_IsCmd, SCPI_Match: token V; SCPI_CommandNumbers: token U)
    "domains": [{"name": "match", "cfgs": ["A"]}, {"name": "p02", "cfgs": ["A"], "keep": "P,H,V,U"}],
    "clauses": ["C03."],
    "level": "proof",
    "trusted_base": [KERNEL, CORR, PLATFORM, "Spec/Pattern.lean: pattern grammar, accepted language (all readings), well-formedness side condition"],
    "assumptions": ["Model/Match.lean transcribes matchCommand / matchPattern / compareStr / compareStrAndNum / the separator searches",
                    "headers over the lexer's header alphabet, numeric suffix values < 2^31 (DESIGN.md section 9)",
                    "patterns outside the property's grammar (nested brackets etc.) are only corresponded, not judged"],
    "rule": "cases = (pattern, header, caller's length, numbers capacity, default); patterns of 1..4 keywords from a 17-keyword pool with optional / numeric / query flags, common patterns, and the patterns shipped in tests and examples; headers assembled per keyword from short form, long form, near misses (one letter more / less, between short and long, other keyword, digits appended), four case styles, optional leading colon, '?', dropped / surplus mnemonics; non-trivial = non-empty header",
}

_CTX = "Model/Ctx.lean (with Model/Parser, Match, Result, Prim, Regs, Fifo) transcribes SCPI_Parameter and the typed readers, processCommand, findCommandHeader, SCPI_Parse and SCPI_Input; handlers are scripts interpreted by one generic handler against the real API in the harness and against the model API in Lean"
_PRULE = "cases = (input buffer size, queue capacity, command table with handler scripts drawn from a pool of 72 entries in random order, byte chunks fed to SCPI_Input); "
def _pprop(mod, doms, clauses, rule, extra=None):
    return {"module": mod, "domains": doms, "clauses": clauses, "level": "proof",
            "trusted_base": [KERNEL, CORR + "; guarded hooks report each message handed to SCPI_Parse and poison the stale tail of the input buffer", PLATFORM,
                             "libc number conversion (strtol family, strtod/strtof correctly rounded) as specified in Model/Prim.lean and Spec/Float.lean"] + (extra or []),
            "assumptions": [_CTX], "rule": _PRULE + rule}
PROPS["C02"] = _pprop("ScpiVerif.Props.C02", [{"name": "p02", "cfgs": ["A"], "keep": "P,H,G,E-113,V,U", "clauses": ["C03.api_"]}, {"name": "p06", "cfgs": ["A"], "keep": "P,H,G,E-113"}], ["C02."],
    "messages of 1..6 units with headers in every spelling (short / long, case, leading colon, optional keywords in or out, numeric suffixes, relative headers, undefined, common), overlapping and duplicate patterns; judged: handler sequence and effective headers recomputed from the raw message with Spec/Message.lean + Spec/Pattern.lean; non-trivial = at least one handler or error event")
PROPS["C06"] = _pprop("ScpiVerif.Props.C06", [{"name": "p06", "cfgs": ["A"], "keep": "P,H,W,F"}, {"name": "p02", "cfgs": ["A"], "keep": "P,H,W,F"}], ["C06."],
    "messages of 1..6 units mixing commands and queries whose scripts emit 0..4 items of every result type and succeed or fail, one or two messages per context; judged: bytes written and flush count per SCPI_Input call against frame() over independently encoded items")
PROPS["C08"] = _pprop("ScpiVerif.Props.C08", [{"name": "p08", "cfgs": ["A"]}], ["C08."],
    "streams of 1..4 messages (well-formed, with malformed fragments, blocks with embedded terminators, quoted strings, empty units) fed all at once / in two pieces / in random pieces of up to 9 bytes, each compared with byte-at-a-time feeding of the same stream on a second context")
PROPS["C09"] = _pprop("ScpiVerif.Props.C09", [{"name": "p09", "cfgs": ["A"]}, {"name": "p09u", "cfgs": ["A"]}], ["C09."],
    "1..3 messages A (including failing ones, unfinished blocks, unterminated tails) then a message B; B on the used context is compared with B on a fresh context that was given the same registers and error queue")
PROPS["C05"] = _pprop("ScpiVerif.Props.C05", [{"name": "p05", "cfgs": ["A"], "keep": "P,H,I,L,B,C,N,Y,X,A,E"}], ["C05."],
    "units pairing every typed reader (mandatory / optional, one to three readers, arrays, stop-on-failure) with parameter lists of 0..4 items of every data type, with white space around commas and malformed fragments")
PROPS["C04"] = _pprop("ScpiVerif.Props.C04", [
    # a valid numeric literal that its reader refuses does not 'decode to the value it denotes' either: on the numeric domain that clause of the parameter judge counts for C04
    {"name": "p04", "cfgs": ["A"], "keep": "P,H,I,L,B,C,N", "clauses": ["C05.reader_rejected_valid_item"]},
    {"name": "p05", "cfgs": ["A"], "keep": "P,H,I,L,B,C,N"}], ["C04."],
    "decimal literals of every shape (1..25 digits, sign, point, exponent, white space before the exponent and after its E), #H/#Q/#B literals up to the type width, integer width boundaries, through the six numeric readers and SCPI_ParamNumber; every row of the unit table in four casings and three separations; every special mnemonic in short and long form and three casings; judged bit-exactly against Spec/Float.lean (correctly rounded value of the literal) and the generated unit table",
    ["translate/extract.py — scpi_units_def with multipliers as exact rationals, scpi_special_numbers_def"])
PROPS["C17"] = _pprop("ScpiVerif.Props.C17", [{"name": "p17", "cfgs": ["A"], "keep": "P,H,W,F,E",
                                                # 'the block counts as one result item once it is complete': on the block domain the separators around it are C17's business too
                                                "clauses": ["C06.item_separator", "C06.unit_separator", "C06.terminator"]}, {"name": "p06", "cfgs": ["A"], "keep": "P,H,W,F,E"}], ["C17."],
    "one query whose script emits 1..3 blocks / binary arrays / integers: whole blocks of 0..300 random bytes, arrays of every element size (1, 2, 4, 8) in both byte orders with 0..37 elements, streamed header + data calls (exact, short, over-length chunk, zero-length chunks), header-only calls for every power of ten up to 10^8; judged by an independent streaming encoder (bytes, completed items, refused chunks)")
PROPS["C18"] = {"module": "ScpiVerif.Props.C18", "domains": [{"name": "errstr", "cfgs": ["A", "B", "C"]}], "clauses": ["C18."], "level": "proof",
    "trusted_base": [KERNEL, TRANSLATOR + " — LIST_OF_ERRORS descriptions, fallback text, 255-character limit", CORR, PLATFORM],
    "assumptions": ["Model/Result.lean resultError transcribes SCPI_ResultError; texts are C strings"],
    "rule": "cases = (heap size, rotation, code, text); every code -1000..1000 (stride 3 in quick), 14 codes x text lengths 0..300 x 40 quote placements around the 255-character cut, random texts up to 420 characters; in the static-heap build the text is made to wrap around the heap end; judged by an independent reader of the response string and Spec/ErrorString.lean; non-trivial = a text is present"}
PROPS["C19"] = {"module": "ScpiVerif.Props.C19", "domains": [{"name": "expr", "cfgs": ["A"]}], "clauses": ["C19."], "level": "proof",
    "trusted_base": [KERNEL, CORR, PLATFORM, "Spec/ExprList.lean: list grammar over the decimal token specification"],
    "assumptions": ["Model/Expr.lean transcribes expression.c; integer values are strtol of the token text (Model/Prim.lean)",
                    "double values (SCPI_ExprNumericListEntryDouble): the text handed to strtod is Expr.tokDoubleText (Prim.strtodLen, the syntax of strtod); that strtod rounds it correctly is trusted and compared bit-exactly with Spec/Float.lean on every case"],
    "rule": "cases = (expression body, index, capacity); every body up to length 5 (quick) / 6 (thorough) over {1,7,-,.,:,',',!,@,space,a}, grammar-generated lists of up to 8 entries and 5 dimensions with occasional damage, indices 0..9, capacities 0..4, canaries after the value arrays; non-trivial = non-empty body"}
PROPS["C15"] = {"module": "ScpiVerif.Props.C15", "domains": [{"name": "buffmt", "cfgs": ["A", "D"]}, {"name": "intfmt", "cfgs": ["A"]}], "clauses": ["C15.", "C14.write_beyond_buffer", "C14.nul_terminator", "C14.return_value"], "level": "proof",
    "trusted_base": [KERNEL, CORR + " (exact-size heap buffers under ASan)", PLATFORM, "snprintf / strncpy / strncat / strnlen by their C specifications"],
    "assumptions": ["Model/BufFmt.lean transcribes SCPI_NumberToStr, SCPI_FloatToStr/DoubleToStr, SCPI_dtostre's final copy and SCPI_ParamCopyText as bounded writers"],
    "rule": "cases = (function, value, buffer length); buffer lengths 0..40 and lengths within +-3 of the text length, doubles of every kind (integers, powers of ten, random bit patterns, rounding boundaries, subnormals, non-finite), every unit of the table and every special-number tag, precisions 1..15; exact-size heap buffers; non-trivial = every case"}
PROPS["C16"] = {"module": "ScpiVerif.Props.C16", "domains": [{"name": "buffmt", "cfgs": ["A", "D"]}], "clauses": ["C16."], "level": "proof",
    "trusted_base": [KERNEL, CORR, PLATFORM, "printf build: snprintf(%g / %.15lg) of glibc is correctly rounded (trusted); own formatter: digit generation uses C double arithmetic (trusted IEEE-754)"],
    "assumptions": ["Model/Dtostre.lean transcribes the string assembly of SCPI_dtostre; digit generation (scpi_ecvt) is corresponded, not proved"],
    "rule": "cases as C15; judged against the exact rational value of the bit pattern: within half a unit (printf build) / one unit (own formatter) of the last requested significant digit"}
PROPS["C07"] = {"module": "ScpiVerif.Props.C07", "domains": [{"name": "roundtrip", "cfgs": ["A"]}], "clauses": ["C07."], "level": "proof",
    "trusted_base": [KERNEL, CORR, PLATFORM, "libc number conversion as specified in Model/Prim.lean; float closeness rests on printf/strtod of the C library (trusted, compared on every run)"],
    "assumptions": ["writer side from C14 / C17 / C18, lexer side from C13, reader side from the context model"],
    "rule": "cases = a result script and the response it produced re-submitted as the parameter of the matching reader: all 2^8 and 2^16 values, boundary and random 32/64-bit values in bases 2, 8, 10, 16, strings over an alphabet with both quotes, blocks of 0..1100 random bytes, random and boundary floats / doubles; non-trivial = every case"}
PROPS["C01"] = _pprop("ScpiVerif.Props.C01", [{"name": "p01", "cfgs": ["A", "B", "C", "D"], "keep": "P,R,M,X,A,Y"}, {"name": "lexer", "cfgs": ["A"]},
    # complete NUL-terminated lines handed straight to SCPI_Parse (second sentence of the property)
    {"name": "pline", "cfgs": ["A", "B", "C", "D"], "keep": "P,R,M,X,A,Y,T"},
    # the domains of the formatting / queue / heap / expression properties, for memory safety only: sanitizer faults and the
    # 'wrote outside the buffer' clauses count for C01, model differences and the other clauses are their own property's business
    {"name": "buffmt", "cfgs": ["A", "D"], "faults_only": True}, {"name": "intfmt", "cfgs": ["A"], "faults_only": True},
    {"name": "expr", "cfgs": ["A"], "faults_only": True}, {"name": "errstr", "cfgs": ["A", "B"], "faults_only": True},
    {"name": "heap", "cfgs": ["B"], "faults_only": True}, {"name": "queue", "cfgs": ["A", "C"], "faults_only": True},
    {"name": "match", "cfgs": ["A"], "faults_only": True}],
    ["C01.", "C15.write_beyond_buffer", "C14.write_beyond_buffer", "C15.nul_terminator", "C14.nul_terminator"],
    "mutated messages (byte flips, deletions, insertions, syntax characters, truncation), input buffers of 2..200 bytes, queue capacities 1..4, random segmentation with over-long chunks and zero-length calls, and sequences of NUL-terminated lines (well-formed, mutated, binary noise) handed straight to SCPI_Parse in exact-size objects, in all four build configurations under ASan+UBSan with the buffer-tail poisoning hook")

PROPS["C04"]["tables"] = ["unit-multipliers"]      # a compiled value that differs from the source text breaks C04's tie

# theorem modules about Lean text GENERATED from C functions: obligations whenever the translator accepts the current source
PROPS["C10"]["generated"] = [{"module": "ScpiVerif.Props.C10Gen", "section": "fifo_c"}]
PROPS["C14"]["generated"] = [{"module": "ScpiVerif.Props.C14Gen", "section": "intfmt_c"}]
PROPS["C13"]["generated"] = [{"module": "ScpiVerif.Props.C13Gen", "section": "lexer_c"}]
PROPS["C01"]["generated"] = [{"module": "ScpiVerif.Props.C01Gen", "section": "lexer_c"}]
PROPS["C20"]["generated"] = [{"module": "ScpiVerif.Props.C20Gen", "section": "heap_c"}]
PROPS["C11"]["generated"] = [{"module": "ScpiVerif.Props.C11Gen", "section": "regs_c"}]
PROPS["C12"]["generated"] = [{"module": "ScpiVerif.Props.C12Gen", "section": "regs_c"}]
PROPS["C06"]["generated"] = [{"module": "ScpiVerif.Props.C06Gen", "section": "result_c"}]
PROPS["C01"]["generated"] = PROPS["C01"]["generated"] + [{"module": "ScpiVerif.Props.C01InputGen", "section": "input_c"}]
PROPS["C08"]["generated"] = [{"module": "ScpiVerif.Props.C01InputGen", "section": "input_c"}]
PROPS["C09"]["generated"] = [{"module": "ScpiVerif.Props.C09InputGen", "section": "input_c"}]

NOT_CLAIMED = {}

_T = {
    "C14": ("Theorems toStr32_spec / toStr64_spec: for every value < 2^w, every base argument, signedness and buffer length the model of UInt{32,64}ToStrBaseSign stores exactly the leading `len` characters of the canonical text, returns their number, writes the NUL iff a byte remains, and no step divides by zero, wraps or indexes outside the digit table; canon_value: the canonical text has no leading zero, only digits of the base and denotes the value. Stated over the divisor constants regenerated from utils.c. The model is tied to the C code by differential testing AND, on every run, by translation: UInt32ToStrBaseSign, UInt64ToStrBaseSign and the four public wrappers (SCPI_Int32ToStr, SCPI_UInt32ToStrBase, SCPI_Int64ToStr, SCPI_UInt64ToStrBase) are TRANSLATED from the C text (translate/c2lean_intfmt.py, clang AST -> Gen/IntFmtC.lean: unsigned arithmetic modulo 2^N, loops with visible fuel, switch, the buffer as its store log, an ub flag for division by zero / digit index / fuel) and proved equal to the hand model for every value, base argument, signedness and buffer length below 2^64 (c_toStr32_refines / c_toStr64_refines), so c_toStr32_spec / c_toStr64_spec / c_*ToStr* state C14 of the C text as it is now: exactly the leading len characters of the canonical text at indices 0.., the NUL iff a byte remains, nothing at or beyond len, nothing undefined.",
            "Lean kernel + axioms propext/Classical.choice/Quot.sound; translator for the switch(base) constants and digit alphabet; clang-14 typed AST + translate/c2lean_intfmt.py (Nat/Int model of the C integer types on LP64, store log for the buffer) + refinement proofs; the compiled code is tied by testing (boundary and stratified values x bases x buffer lengths 0..70 under ASan)",
            "Lean 4 theorem (induction on the digit loop) over generated constants + C-to-Lean translation of the formatters with machine-checked equivalence to the model + differential correspondence"),
    "C10": ("Theorems queue_refines / queue_owns_texts: for every capacity >= 1 and every history of pushes (any code, text, declared length, allocation failure), pops, SYST:ERR?, clears and counts, the model of fifo.c + error.c produces exactly the observations of an abstract bounded FIFO with -350 overflow marker, every live allocation is referenced by exactly one entry, nothing is freed twice, and an empty queue holds no allocation. Ring invariant and abstraction lemmas per fifo operation. Real malloc/free is observed by ASan and a link-time allocation counter, not proved. The ring-buffer functions of fifo.c are additionally TRANSLATED from the C text on every run (translate/c2lean.py, clang AST -> Gen/FifoC.lean) and proved to refine the hand model on every well-formed state (c_fifo_* theorems; well-formedness holds after fifo_init and is kept by every function), so the queue theorems hold of the C text as it is now, not only of the hand model.",
            "Lean kernel + standard axioms; fifo.c: clang-14 typed AST + translate/c2lean.py (Int model of int16 arithmetic with wrap on store, C99 remainder) + refinement proofs; error.c: hand-written model tied by exhaustive short histories (capacities 1..4), random long ones and capacities 100..1000 in configurations A and C with injected strndup failures",
            "Lean 4 refinement proof (ring buffer -> list) with ghost allocator; C-to-Lean translation of fifo.c with machine-checked equivalence to the model; differential correspondence"),
    "C11": ("Theorem coherent_reachable: every state reachable from initialisation by any history of event/condition/enable/SRE writes (all 16-bit values), error push/pop/clear, *CLS and clearing queries satisfies the five status-byte equivalences; proved as an inductive invariant of the table-driven model of SCPI_RegSet instantiated with the register tables regenerated from ieee488.c. SCPI_RegGet, writeControl, SCPI_RegSet, SCPI_RegSetBits and SCPI_RegClearBits are additionally TRANSLATED from the C text on every run (translate/c2lean_regs.py, clang AST -> Gen/RegsC.lean: switch, the do-while as recursion on fuel, uint16_t as BitVec 16, the control callback as a log) and proved to compute what the hand model computes for every context with the callback installed, every register name and every 16-bit value (c_regGet, c_regSet, c_regSetBits, c_regClearBits; the fuel never runs out: c_regSet_fuel), so coherent_step / coherent_reachable / stb_after_set hold of the C text as it is now (c_coherent_step, c_coherent_reachable, c_stb_after_set).",
            "Lean kernel + standard axioms; translator for register/group tables and bit constants; ieee488.c register functions: clang-14 typed AST + translate/c2lean_regs.py (low-16-bit model of promoted & | ^ ~, enum values as Nat, callback assumed not to touch the registers, context pointer non-NULL) + refinement proofs; correspondence = lock-step comparison of every transition of exhaustive short and random long histories",
            "Lean 4 inductive invariant over BitVec 16 state machine with generated tables; C-to-Lean translation of the register functions with machine-checked equivalence to the model; differential correspondence"),
    "C12": ("Theorems class_bit (over the generated errs[] table, all 65536 codes by range reasoning), push_sets_exactly_class_bit, cond_latches_*, event_monotone, srq_regset, srq_step on the same model as C11. Latching, monotonicity and the service-request clauses are restated for the Lean text translated from SCPI_RegSet / SCPI_RegGet on every run (c_cond_latches_*, c_event_monotone, c_srq_regset, c_srq_step; tie as in C11).",
            "Lean kernel + standard axioms; translator for errs[] and register tables; generated tie of the register functions as C11; correspondence as C11 plus one push per error code",
            "Lean 4 theorems over generated class table and register model + differential correspondence"),
}
_T["C13"] = ("Theorems per recogniser: the model of each scpiLex_* function consumes exactly the longest prefix in the token language of Spec/Tokens.lean (or nothing, restoring the cursor, except the documented incomplete-block swallow), stays inside its input, and reports type/extent/length of what it consumed; detectUnit accepts exactly the well-formed units of Spec/Unit.lean.",
            "Lean kernel + standard axioms; the token grammar in Spec/ is a transcription of IEEE 488.2 section 7 with the documented leniencies; model tied to lexer.c/parser.c by exhaustive short strings and directed long ones under ASan",
            "Lean 4 theorems (recogniser = longest match of a regular-expression spec) + differential correspondence")
_T["C20"] = ("Theorems text_intact_or_absent / empty_means_reusable / fits_means_stored over the model of the circular string heap and the queue on top of it, for every heap size, capacity and history. The four heap functions of utils.c are additionally TRANSLATED from the C text on every run (translate/c2lean_heap.py, clang AST -> Gen/HeapC.lean: pointers as offsets, size_t modulo 2^64, memcpy/memset/strnlen with an out-of-bounds flag); the state structure is scalar-replaced (one Lean variable per field inside a function); all four - scpiheap_init, scpiheap_strndup, scpiheap_get_parts, scpiheap_free - are proved to refine the hand model on every well-formed state with the flag false (c_heap_* theorems; strndup under SrcOK: the source has a NUL within n bytes or n+1 readable bytes; heap invariant transferred through the generated free and the generated strndup).",
            "Lean kernel + standard axioms; model tied to utils.c/error.c (configuration B) by exhaustive short and random long histories comparing internal heap state; string heap: clang-14 typed AST + translate/c2lean_heap.py (pointer = offset into one object, role table of the char * parameters, 64-bit size_t, list semantics of memcpy/memset/strnlen) + refinement proofs",
            "Lean 4 invariant proof (circular heap) + differential correspondence")
_T["C03"] = ("Theorems: for every pattern of the property's grammar that satisfies the side condition and every header over the header alphabet, the model of matchCommand accepts iff the header is in the pattern's short/long-form language, and reports the numeric suffixes in keyword order with the caller's default for omitted ones.",
            "Lean kernel + standard axioms; model tied to utils.c by pattern-directed differential testing; Spec/Pattern.lean is the reading of the property",
            "Lean 4 theorem (greedy walker = declarative language under the side condition) + differential correspondence")
for _k in ("C02", "C06", "C08", "C09", "C05", "C01", "C04", "C17", "C18", "C19", "C15", "C16", "C07"):
    _T[_k] = ("(theorems in progress)", "Lean kernel + standard axioms; context model tied to parser.c by scripted differential testing", "Lean 4 theorems over the context model + differential correspondence")
_T["C18"] = ("Theorems resultError_one_part / resultError_two_parts: for every 16-bit code, every description and every NUL-free text of any length and content, in the one-part (malloc) and two-part (static heap, wrapped) layouts, the model of SCPI_ResultError writes exactly response(code, description, text) of Spec/ErrorString.lean; response_shape: that response is the code, a comma and one 488.2 string whose unescaped content is the longest prefix of description;text that fits 255 escaped characters; escape_injective; description_total over the generated error list.",
            "Lean kernel + standard axioms; translator for LIST_OF_ERRORS and the 255 limit; model tied to parser.c/error.c by differential testing in three configurations (texts wrapped around the heap end included) and an independent reader of the response",
            "Lean 4 theorem (loop invariant on the remaining budget) + differential correspondence")
_T["C19"] = ("Theorems numeric_entry / channel_entry: for every well-formed numeric list (a,b:c,...) or channel list (@a!b:c!d,...) of Spec/ExprList.lean and every index, the model of the entry walkers returns OK with exactly the written number or range (token text and 32-bit integer value), the dimension count and the values up to the caller's capacity, and NO_MORE at or beyond the number of entries; for ANY content: stores_bounded (never more values than the capacity), numeric_ok_implies_prefix_wf, channel_error_pushes (-170 exactly on ERROR). Double-valued variant: numeric_entry_double - for every entry of a well-formed numeric list the text handed to strtod is exactly the written number whenever it has no inner white space (the hexadecimal-constant side condition of C04 is discharged by numeric_list_bytes), and the number has a value in Spec/Float.lean; numeric_entry_double_counterexample: '1 e2' converts as '1' - C04's defect inside a list, recorded as known finding C19.whitespace_in_literal (the judge names that clause exactly when everything but the double of a number containing white space is as written); numeric_entry_double_malformed_hexfloat: for the malformed content '0x1' entry 0 is OK with token '0' and strtod sees a hexadecimal constant.",
            "Lean kernel + standard axioms; list grammar over the decimal token specification of C13; integer values are strtol of the token text, double values strtod of the text Prim.strtodLen delimits (Model/Prim.lean, libc specification; correct rounding trusted and compared bit-exactly); model tied to expression.c by exhaustive short bodies and generated lists",
            "Lean 4 theorems (entry walkers = list grammar) + differential correspondence")
_T["C06"] = ("Theorem framing: for every context (any table, any scripts, any state left by earlier messages) and every message, the bytes written while SCPI_Parse runs are exactly frame(items of its units): response units separated by single ';', items by single ',', one line terminator and one flush iff at least one unit responded, nothing otherwise (silent_message); the item record is tied to the writers by item_of_int / item_of_text / item_of_block. Hypothesis gPartial = false excludes misuse of the streaming block API (unfinished block, item started inside a block, data without header).",
            "Lean kernel + standard axioms; ghost item bookkeeping in the model (proved not to influence the real fields); context model tied to parser.c by scripted differential testing, output judged byte-exactly against frame() over independently encoded items",
            "Lean 4 invariant proof over the output state machine + differential correspondence")
_T["C17"] = ("Theorems header_spec (every length below 10^9: '#', digit count 1..9, decimal length; fits the 12-byte scratch), block_spec, block_stream (every split of the data into chunks summing to the announced length: data unchanged, counted as one item at completion and not before), over_length_refused (-310, nothing written, remaining length unchanged), array_binary for every element size and BOTH host byte orders (elements big-endian for NORMAL, little-endian for SWAPPED; an empty array still counts as one item), array_bad_size.",
            "Lean kernel + standard axioms; translator for the block-header scratch size and conversion call; model tied to parser.c/utils.c by scripted differential testing with an independent streaming encoder as judge; the host of the harness is little-endian (the big-endian case is covered by the theorem only)",
            "Lean 4 theorems over the result-writer model + differential correspondence")
_T["C02"] = ("Theorem dispatch_correct: for every context, every command table whose patterns belong to the grammar and satisfy C03's side condition (overlapping and duplicate patterns included), every script assignment and every well-formed message in the input buffer, the handler invocations and -113 errors produced by SCPI_Parse are, in message order and one per unit that has a header, the handler of the FIRST entry whose pattern language contains the unit's effective header (entered with exactly that header), or else one -113 whose text contains the header as written; the effective header follows the statement's rule (effective_rule), with the in-place composition proved to denote it. Builds on C13 (unit_spec) and C03 (match_iff_language). handler_sees_tag / handler_pattern_test / api_match: inside the handler SCPI_CmdTag delivers the tag of the matched entry and SCPI_IsCmd / SCPI_Match answer membership of a header text in the pattern language.",
            "Lean kernel + standard axioms; context model tied to parser.c/utils.c by scripted differential testing; handler traces judged against Spec/Message.lean recomputed from the raw message (hook reports each message)",
            "Lean 4 theorem (induction over units with a buffer-geometry invariant) + differential correspondence")
_T["C05"] = ("Theorems: missing_parameter (-109 for a mandatory, silence and absence for an optional one), reader_failure_has_error (no typed reader fails without queuing an error unless optional and absent), reader_success_is_silent, reader_by_token (the outcome of every reader on the token SCPI_Parameter delivers is the property's table: -104 / -138 / -131 / -224), parameter_delivers_next_item (comma discipline -103, next element of the data specification delivered whole with its extent, -151 otherwise), unit_accounting (-200 iff the handler failed without an error of its own, -108 iff unread data remains and nothing was queued). Hypotheses: choice names contain no NUL / '#'; the -350 overflow marker is not counted as an error of the unit.",
            "Lean kernel + standard axioms; Spec/Params.lean is the property's table; libc strto* as specified in Model/Prim.lean; context model tied to parser.c/units.c by scripted differential testing with every reader x every data type",
            "Lean 4 theorems (readers = specification table) + differential correspondence")
_T["C09"] = ("Theorems input_noninterference / stream_noninterference: two contexts that agree on what is meant to persist (command table, buffer size and pending input bytes, status registers, error queue as an abstract FIFO) and differ arbitrarily in everything else (output_count, first_output, arbitrary_remaining, cmd_error, input_count, parameter cursor, matched entry, cmd_raw, stale buffer bytes, ring positions, history) produce identical observations (handler invocations, parameters, errors, output bytes, flushes, return values) on ANY stream of chunks and remain related; unit_reset: processCommand overwrites the per-unit fields before use.",
            "Lean kernel + standard axioms; context model tied to parser.c by scripted differential testing, including the experiment 'B after A versus B on a fresh context given A's registers and queue'",
            "Lean 4 non-interference proof (simulation relation over the whole context model) + differential correspondence")
_T["C01"] = ("PARTIAL BY NATURE. Theorems (Props/C01.lean): every recogniser keeps its cursor and token extent inside its input (from the C13 theorems, block recogniser included); the unit detector always makes progress and never leaves its input, so the unit loop of SCPI_Parse and the scan loop of SCPI_Input terminate; SCPI_Parse never exhausts its step budget, never composes a header before the start of the buffer and modifies no byte outside the message, also when a complete NUL-terminated line in an object of its own is handed straight to it (parse_line_inside: object size kept, terminating NUL untouched, input buffer of the context untouched); SCPI_Input keeps position < buffer length for every chunk history; an over-long chunk copies nothing; SCPI_ParamCopyText and the array readers never store beyond the caller's capacity. These are statements about the algorithm as modelled: a C-level out-of-bounds read caused by a broken check-then-read pair, signed overflow or libc reading past a token cannot be exhibited by the model; for those the evidence is testing: every correspondence domain runs under ASan+UBSan with exact-size heap objects, canaries, a watchdog and the guarded buffer-tail poisoning hook, in four build configurations.",
            "Lean kernel + standard axioms for the bounds/termination theorems; memory safety and undefined arithmetic of the C code itself are observed by sanitizers under the generators (testing)",
            "Lean 4 bounds and termination theorems over the model + sanitizer-instrumented differential correspondence")
_T["C15"] = ("Theorems doubleToStr_bounded / dtostreCopy_bounded / numberToStr_bounded: for every buffer length (0 and 1 included), every NUL-free text the number formatter can hand over, every unit of the generated table and every special-number tag, the model of SCPI_FloatToStr / SCPI_DoubleToStr, the final copy of SCPI_dtostre and SCPI_NumberToStr (snprintf, strncpy, strncat by their C specifications, with the repaired bounds) writes only inside the caller's buffer, leaves it NUL-terminated whenever its length is at least 1, and returns the length of the stored text; table_names_are_c_strings for the generated unit / special-number tables. SCPI_ParamCopyText is covered by C05/C01 theorems (copy bounded by the capacity).",
            "Lean kernel + standard axioms; translator for the unit and special-number tables; snprintf / strncpy / strncat / strnlen are modelled by their C specifications (trusted); model tied to utils.c / units.c by differential testing with exact-size heap buffers under ASan",
            "Lean 4 theorems over a bounded-writer model + sanitizer-instrumented differential correspondence")
_T["C16"] = ("PARTIAL: the value-closeness of the printf build rests on the C library (trusted, compared on every run against the exact rational value of the bit pattern by the judge Spec/Float.lean); for the library's own formatter the theorems assemble_value / assemble_zero / assemble_fits show that for every precision 1..15, every digit string and decimal exponent, the string assembly of SCPI_dtostre (fixed and exponent notation, stripping of trailing zeros, sign) denotes exactly 0.d1...dprec x 10^decpt and fits its scratch buffer; the digit generation (scpi_ecvt, C double arithmetic) is corresponded and judged, not proved, and its accumulated error beyond one unit in the last place is recorded as a known finding.",
            "Lean kernel + standard axioms; digit generation of both builds is outside the model (IEEE-754 double arithmetic / glibc printf) and is judged on every run against exact rational arithmetic",
            "Lean 4 theorems over the string-assembly model + exact-rational judge on the implementation's output")
_T["C07"] = ("Theorems unsigned_roundtrip / signed_roundtrip / narrow_roundtrip (every value of 8..64 bits, bases 2, 8, 10, 16: the emitted text lexes as one token of the right kind and the matching reader returns the value), text_roundtrip (any 7-bit content with both quote characters: one string token, SCPI_ParamCopyText returns the content), block_roundtrip (any bytes, any length below 10^9), bool_roundtrip, float_text_accepted (every text of the %g output language is accepted whole as one decimal token that strtod converts entirely). Closeness of float / double values rests on printf/strtod of the C library and is compared on every run (float: exact; double: relative 1e-14, as %.15lg cannot carry 17 digits).",
            "Lean kernel + standard axioms; writer models from C14/C17/C18, lexer model from C13, reader models from the context model; libc strto* as specified in Model/Prim.lean; tied to the code by feeding each produced response back through the real parser",
            "Lean 4 round-trip theorems (writer . lexer . reader = id) + differential correspondence on the real round trip")
_T["C04"] = ("PARTIAL with a recorded finding. Proved: literal_has_value, integer_exact_signed / integer_exact_unsigned (every in-range decimal integer literal decodes exactly in all four widths), nondecimal_exact (#H/#Q/#B up to the type width), conversion_sees_literal_partial (a decimal literal WITHOUT inner white space, not the single digit 0 followed by x/X, is converted whole by strtod whatever follows it), unit_names_distinct, unit_names_lex_whole, translateUnit_finds, unit_prefix_rule (every row of the generated unit table has multiplier 1, is explained by an SI prefix of table 7-2, or is one of nine listed rows), special_mnemonics. Disproved and kept visible: conversion_counterexample ('1 E3' lexes as one literal of value 1000 but converts as 1) - genuine defect, recorded as known finding C04.whitespace_in_literal; hexfloat_counterexample ('0x1': unobservable, the suffix is always rejected, unit_names_no_x). Correct rounding of strtod is trusted (C library) and judged on every run against exact rational arithmetic.",
            "Lean kernel + standard axioms; translator for the unit table (multipliers as exact rationals) and special numbers; strtod's rounding is trusted libc and judged per run with Spec/Float.lean; context model tied to parser.c/units.c/utils.c by scripted differential testing",
            "Lean 4 theorems over reader models and generated unit table + exact-rational judge + differential correspondence")
_T["C08"] = ("PARTIAL with a recorded finding. Proved for every context and every stream (pending bytes included) IN WHICH NO QUOTED STRING CONTAINS A LINE TERMINATOR (QuotesLineLocal: no word of the string language of the token specification that starts directly after a blank or a comma contains LF or CR; decidable, quotesLineLocal_iff; implied by the absence of quote characters, quotesLineLocal_of_noQuotes; rejects the stream of the counterexample, counterexample_not_quotesLineLocal; a line-by-line pairing of quotes would not be sound, pairing_is_not_enough): chunking_invariant_quotes / chunking_bytewise_quotes / input_split_quotes (UserObservable, any partition, cuts inside a string or directly after a CR included), input_split_cr_quotes / chunking_invariant_cr_quotes (Observable, no cut directly after a CR), input_split_nocr_quotes / chunking_invariant_nocr_quotes / chunking_bytewise_nocr_quotes (Observable, streams without CR), scan_prefix_stable_quotes, each instantiated on the stream TXT \"a;b\",'c'<LF> cut inside the string (quotes_example, ..._example). The quote-free theorems are special cases: chunking_invariant_noquote / chunking_bytewise_noquote / input_split_noquote - any two partitions into non-empty chunks (cuts directly after a CR included), and feeding byte by byte, give the same handler invocations, parameters, errors, output bytes, flushes, registers, error queue and unconsumed remainder (UserObservable); the stronger Observable, which also records the message boundaries seen by the verification hook, is equal for streams without CR (input_split_partial, chunking_invariant_partial, chunking_invariant_noquote_nocr, chunking_bytewise_partial) and for partitions that do not cut directly after a CR (input_split_cr_partial, chunking_invariant_cr_partial); scan_prefix_stable (the terminator scan of SCPI_Input decides on bytes already present); flush_executes_pending (a zero-length call executes the pending bytes as one message and empties the buffer). Definite-length blocks with arbitrary data are covered. All rest on the proved model lemma parseLocalCR (SCPI_Parse of a message ending in LF or CR never depends on buffer bytes behind it). Disproved and kept visible: chunking_counterexample (a line terminator inside a quoted string ends the message when the stream arrives in pieces and not when it arrives whole) - genuine defect, known finding C08.terminator_inside_quotes; chunking_crlf_difference (a cut between CR and LF makes the LF an empty message of its own: same handlers, parameters and output; only the hook's message record differs).",
            "Lean kernel + standard axioms; context model tied to parser.c by scripted differential testing of every case in two segmentations (P8 mode, a quarter of them with an exact-fit input buffer) plus directed streams with numeric tails and flush calls, under ASan with the buffer-tail poisoning hook",
            "Lean 4 theorems (scan / parse / move decomposition of SCPI_Input, prefix stability of the scan on the specification side incl. string tokens, locality of SCPI_Parse, CR LF case analysis) + differential correspondence of two segmentations")
# generated tie of lexer.c (translate/c2lean_lexer.py -> Gen/LexerC.lean, Props/C13Gen.lean, Props/C01Gen.lean)
_T["C13"] = (_T["C13"][0] + " Generated tie (Props/C13Gen.lean): the Lean text translated from lexer.c on every run (clang typed AST, every read through a primitive that flags an out-of-bounds offset, short-circuit && ||, loops with fuel) is proved equal to the hand model for all buffers and cursors, with clean flags, for the primitives and for ALL recognisers: scpiLex_WhiteSpace, Comma, Semicolon, Colon, SpecificCharacter, NewLine, CharacterProgramData, DecimalNumericProgramData, NondecimalNumericData, SuffixProgramData, ProgramHeader (with the incomplete-header token types), StringProgramData, ProgramExpression, ArbitraryBlockProgramData (c_lex_*); the recogniser theorems transfer to that text. Every one of the 49 functions of lexer.c is covered.",
              _T["C13"][1] + "; lexer.c: clang-14 typed AST + translate/c2lean_lexer.py (pointer = offset, signed plain char, Int model of int arithmetic, ctype tables as linked) + refinement proofs for the functions listed", _T["C13"][2] + "; C-to-Lean translation of lexer.c with machine-checked equivalence to the model (all functions of lexer.c)")
_T["C01"] = (_T["C01"][0] + " Generated tie (Props/C01Gen.lean, c_lex_no_oob / c_skip_no_oob): for ALL functions of lexer.c (translated from the C text, all 13 recognisers and their helpers proved, see C13) 'every character read is preceded by an end-of-input check' IS a theorem about the current source - the generated text keeps !iseos(state) and state->pos[0] apart and every read outside [0, len) raises a flag that the theorems show clear (assumption listed: the block recogniser forms, compares and never dereferences a pointer beyond one-past-the-end); everything outside lexer.c stays with the sanitizers.",
              _T["C01"][1], _T["C01"][2])
for _k, (_a, _b, _c) in _T.items():
    PROPS[_k]["level_text"], PROPS[_k]["level_note"], PROPS[_k]["technique"] = _a, _b, _c
# generated ties of parser.c (translate/c2lean_parser.py): mentioned in the level text of the properties they serve
PROPS["C06"]["level_text"] += " The response framing functions of parser.c (writeData, flushData, writeDelimiter, writeNewLine, writeSemicolon, SCPI_ResultCharacters) are additionally TRANSLATED from the C text on every run (translate/c2lean_parser.py -> Gen/ResultC.lean) and proved to refine the hand model on its non-ghost projection (Props/C06Gen.lean: c_writeDelimiter_cases - ',' iff output_count > 0, ';' and reset iff < 0, nothing iff = 0; c_writeNewLine_cases - line ending and exactly one flush iff first_output is false; c_resultCharacters), so the per-call facts the framing theorem rests on hold of the C text as it is now."
PROPS["C01"]["level_text"] += " SCPI_Input is additionally TRANSLATED from the C text on every run (translate/c2lean_parser.py -> Gen/InputC.lean, its three library calls as parameters instantiated with the hand model): Props/C01InputGen.lean proves that the generated function equals the hand model's Ctx.input for every well-formed context whose buffer length fits an int and every chunk whose length fits an int - zero-length (flush) and over-long chunks included - with every array access, memcpy and memmove of the generated code in bounds, no signed overflow, no wrapping conversion and sufficient fuel (c_input_refines; pieces: c_input_loop, c_overrun_copies_nothing), hence position < length after every call and along every history of calls (c_input_wf, c_inputs_wf)."
PROPS["C08"]["level_text"] += " SCPI_Input, which these theorems are about, is additionally tied to the C text by translation (Props/C01InputGen.lean, c_input_refines: generated SCPI_Input = Ctx.input for every chunk; c_flush_executes_pending: the zero-length call of the generated function hands exactly the pending bytes to SCPI_Parse and empties the buffer; c_inputs_refine: a sequence of calls is the hand model's fold)."
PROPS["C09"]["level_text"] += " Generated tie (Props/C09InputGen.lean): for the Lean text translated from SCPI_Input of parser.c on every run (library calls instantiated with the hand model) c_input_noninterference / c_stream_noninterference state the same for one call and for any stream of chunks, through c_input_refines (Props/C01InputGen.lean)."

# properties whose theorem module is not complete yet are not claimed
for _k in ():  # unclaimed
    PROPS[_k]["unclaimed"] = True

# whole-instrument corollaries (Props/Instrument.lean: the library's own handlers as program messages) and the instrument
# domain p21 are part of the checks of the properties they speak about
_INSTR = "ScpiVerif.Props.Instrument"
PROPS["C11"]["extra"] = [(_INSTR, ["status_invariant", "coherent_reachable_messages", "builtin_preserves_status", "stb_query"])]
PROPS["C11"]["domains"] = PROPS["C11"]["domains"] + [{"name": "p21", "cfgs": ["A"], "keep": "P,H,Q,g"}]
PROPS["C12"]["extra"] = [(_INSTR, ["cls_message", "esr_query_clears", "oper_event_query_clears", "ques_event_query_clears", "opc_sets_bit0",
                                   "enable_roundtrip", "ese_roundtrip", "sre_roundtrip", "ques_enab_roundtrip", "oper_enab_roundtrip",
                                   "enable_out_of_range", "enable_missing_parameter"])]
PROPS["C12"]["domains"] = PROPS["C12"]["domains"] + [{"name": "p21", "cfgs": ["A"], "keep": "P,H,S,Q,E,Z,s,g"}]
PROPS["C18"]["extra"] = [(_INSTR, ["syst_err_next", "syst_err_next_empty", "syst_err_count"])]
PROPS["C18"]["domains"] = PROPS["C18"]["domains"] + [{"name": "p21", "cfgs": ["A"], "keep": "P,H,W"}]
PROPS["C06"]["extra"] = [(_INSTR, ["idn_fields", "opcq_answers_1", "tst_answers_0"])]
PROPS["C06"]["domains"] = PROPS["C06"]["domains"] + [{"name": "p21", "cfgs": ["A"], "keep": "P,H,W,F"}]

# C15 also speaks about SCPI_ParamCopyText: the parameter domain runs it with exact-size heap buffers of 0, 1, 3, 16 bytes
# (a copy length beyond the capacity is reported as X...:OVER<n> and differs from the model; a write beyond it is an ASan fault)
PROPS["C15"]["domains"] = PROPS["C15"]["domains"] + [{"name": "p05", "cfgs": ["A"], "keep": "P,H,X"}]
# C18 in the static-heap build: the texts the error query answers with come out of the circular heap; the heap histories
# (overflow roll-backs, wrapped texts, heap sizes that are not powers of two) are part of its check, with the clause that
# says "the text is not the one pushed with this error"
PROPS["C18"]["domains"] = PROPS["C18"]["domains"] + [{"name": "heap", "cfgs": ["B"]}]
PROPS["C18"]["clauses"] = PROPS["C18"]["clauses"] + ["C20.text_not_intact"]

# Compiler-dialect configurations (harness/build.sh): E = library sources as strict ISO C99 (cc.h selects the library's own
# OUR_strncasecmp / BSD_strnlen / OUR_strndup instead of libc), F = GNU C89 (no <stdbool.h>: scpi_bool_t is `unsigned char`,
# so a conversion to scpi_bool_t keeps the low byte instead of testing for non-zero).  Behaviour must be the same as in
# configuration A; the model and the judges are those of A.
PROPS["C03"]["domains"] = PROPS["C03"]["domains"] + [{"name": "match", "cfgs": ["E"]}]
PROPS["C02"]["domains"] = PROPS["C02"]["domains"] + [{"name": "p02", "cfgs": ["E"], "keep": "P,H,G,E-113,V,U", "clauses": ["C03.api_"]}]
PROPS["C04"]["domains"] = PROPS["C04"]["domains"] + [{"name": "p04", "cfgs": ["E"], "keep": "P,H,I,L,B,C,N", "clauses": ["C05.reader_rejected_valid_item"]}]
# (no queue/E: the live-allocation counter of the queue domain wraps strndup at link time and does not see OUR_strndup)
# C10 in the static-heap build: "text comes back unmodified with the error it was pushed with" is then a statement about the
# circular heap; its histories are part of C10's check with the clause that says the text is not the one pushed (as for C18)
PROPS["C10"]["domains"] = PROPS["C10"]["domains"] + [{"name": "heap", "cfgs": ["B"]}]
PROPS["C10"]["clauses"] = PROPS["C10"]["clauses"] + ["C20.text_not_intact"]
# C02 in the static-heap build: the -113 text goes through the heap (sanitizer faults, handler sequence, error codes)
PROPS["C02"]["domains"] = PROPS["C02"]["domains"] + [{"name": "p02", "cfgs": ["B"], "keep": "P,H,G,E-113,V,U", "clauses": ["C03.api_"]}]
PROPS["C11"]["domains"] = PROPS["C11"]["domains"] + [{"name": "regs", "cfgs": ["F"], "keep": "regs"}]
PROPS["C12"]["domains"] = PROPS["C12"]["domains"] + [{"name": "regs", "cfgs": ["F"]}]
for _k in ("C02", "C03", "C04", "C11", "C12"):
    PROPS[_k]["assumptions"] = PROPS[_k]["assumptions"] + ["compiler-dialect configurations E (strict ISO C99: own strncasecmp / strnlen / strndup fall-backs) and F (GNU C89: scpi_bool_t = unsigned char) are exercised by the correspondence domains named <domain>/E, <domain>/F; they must behave like configuration A"]

# units answering 2^15 result items and more (an item counter of 16 bits wraps): small domains of their own, because one such
# case costs the model minutes (its output list grows by appending); quick tier: the 2^15 case only
PROPS["C06"]["domains"] = PROPS["C06"]["domains"] + [{"name": "p06big", "cfgs": ["A"], "keep": "P,H,W,F"}]
PROPS["C09"]["domains"] = PROPS["C09"]["domains"] + [{"name": "p09ubig", "cfgs": ["A"]}]
