#!/bin/sh
# run every quick check on /repo's working tree, one after the other; summary lines to stdout
cd "$(dirname "$0")/.." || exit 2
rc=0
for p in ${VERIF_PROPS:-C01 C02 C03 C04 C05 C06 C07 C08 C09 C10 C11 C12 C13 C14 C15 C16 C17 C18 C19 C20}; do
  python3 tools/check.py $p --tier "${VERIF_TIER:-quick}" | grep -E '^(ok|FAIL|VIOLATION|KNOWN-FINDING)' || rc=1
done
exit $rc
