#!/usr/bin/env python3
"""Regression of the detector: apply every confirmed seeded change in seeded/*/ to /repo in turn, run the quick check of the
property it breaks, undo it.  Prints one line per seed; exit 1 if a seed is no longer detected.
usage: python3 tools/seedall.py [seed-id ...]"""
import subprocess, sys, os, json, glob
os.chdir("/verif")
ids = sys.argv[1:] or sorted(os.path.basename(d) for d in glob.glob("seeded/C*-*"))
def sh(cmd): return subprocess.run(cmd, shell=True, capture_output=True, text=True)
assert sh("git -C /repo status --porcelain").stdout.strip() == "", "/repo not clean"
bad = 0
for i in ids:
    meta = json.load(open("seeded/%s/meta.json" % i)); prop = meta.get("breaks_property", i.split("-")[0])
    if sh("git -C /repo apply /verif/seeded/%s/patch.diff" % i).returncode: print(i, "PATCH DOES NOT APPLY"); bad += 1; continue
    try:
        r = sh("python3 tools/check.py %s --tier quick" % prop)
    finally:
        sh("git -C /repo checkout -- .")
    viol = [l for l in r.stdout.splitlines() if l.startswith("VIOLATION")]
    concrete = [v for v in viol if "no-failing-input-found" not in v]
    status = "detected (concrete replay)" if concrete else "detected (no-failing-input-found)" if viol else "MISSED"
    if not viol: bad += 1
    print(i, prop, "exit", r.returncode, status, flush=True)
sys.exit(1 if bad else 0)
