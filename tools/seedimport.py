#!/usr/bin/env python3
"""Import seeded changes delivered by sub-agents in scratch worktrees into seeded/<id>/ (next free number per property),
confirm each with seedverify.py and run the quick check of its property against it with seedrun.py (scratch worktree,
/repo untouched).  usage: seedimport.py <dir with rN_Cxx worktrees> <prefix e.g. r7_> [framework dir for seedrun] [Cxx ...]"""
import sys, os, glob, json, shutil, subprocess, re
HERE = os.path.dirname(os.path.abspath(__file__)); VERIF = os.path.dirname(HERE)
src, prefix = sys.argv[1], sys.argv[2]
fw = sys.argv[3] if len(sys.argv) > 3 else VERIF
only = sys.argv[4:]
def sh(cmd, **kw): return subprocess.run(cmd, shell=True, capture_output=True, text=True, **kw)
for wt in sorted(glob.glob(os.path.join(src, prefix + "C*"))):
    prop = os.path.basename(wt)[len(prefix):]
    if only and prop not in only: continue
    if not os.path.exists(os.path.join(wt, "patch.diff")) or not os.path.exists(os.path.join(wt, "demo.c")): print(prop, "not delivered yet"); continue
    # already imported?
    done = [d for d in glob.glob(os.path.join(VERIF, "seeded", prop + "-*")) if os.path.exists(os.path.join(d, "meta.json")) and json.load(open(os.path.join(d, "meta.json"))).get("source_worktree") == wt]
    if done: sid = os.path.basename(done[0])
    else:
        n = 1
        while os.path.exists(os.path.join(VERIF, "seeded", "%s-%d" % (prop, n))): n += 1
        sid = "%s-%d" % (prop, n)
    d = os.path.join(VERIF, "seeded", sid); os.makedirs(d, exist_ok=True)
    # the patch as the worktree has it now (library sources only)
    p = sh("git -C %s diff -- libscpi" % wt).stdout
    open(os.path.join(d, "patch.diff"), "w").write(p if p.strip() else open(os.path.join(wt, "patch.diff")).read())
    for f in ("demo.c", "NOTES.md"):
        if os.path.exists(os.path.join(wt, f)): shutil.copy(os.path.join(wt, f), d)
    notes = open(os.path.join(d, "NOTES.md")).read() if os.path.exists(os.path.join(d, "NOTES.md")) else ""
    demo = open(os.path.join(d, "demo.c")).read()
    flags = " ".join(sorted(set(re.findall(r"-DUSE_[A-Z_]+=\d|-std=(?:c|gnu)(?:89|90|99)", notes + demo))))
    mp = os.path.join(d, "meta.json"); meta = json.load(open(mp)) if os.path.exists(mp) else {}
    meta.update({"breaks_property": prop, "source_worktree": wt, "demo_flags": flags,
                 "produced_by": "independent sub-agent given only the property text and its own scratch worktree of /repo"})
    json.dump(meta, open(mp, "w"), indent=1)
    r = sh("python3 %s/seedverify.py %s %s" % (HERE, d, flags)); print(r.stdout.strip()[:400], flush=True)
    r = sh("python3 %s/tools/seedrun.py %s/patch.diff %s" % (fw, d, prop)); line = r.stdout.strip().splitlines()
    print(sid, "CHECK:", line[0][:400] if line else r.stderr[:300], flush=True)
    meta = json.load(open(mp)); meta["check_first_run"] = line[0] if line else ""; json.dump(meta, open(mp, "w"), indent=1)
