#!/usr/bin/env python3
"""Experiments for the C -> Lean tie of the integer formatters of utils.c (notes/EXT_GEN_INTFMT_REPORT.md): behaviour-preserving
rewrites of UInt32ToStrBaseSign / UInt64ToStrBaseSign must leave the refinement proofs intact, semantic changes must break one.

    python3 tools/c2lean_intfmt_experiments.py [--full] [id ...]

Works in a scratch worktree of the C repository (/tmp/genintfmt_scratch, `git -C /repo worktree add --detach`, removed at the
end); never touches /repo's files.  For every experiment: apply the textual edits to libscpi/src/utils.c, run the translator
(VERIF_REPO=scratch), `lake build ScpiVerif.Props.C14Gen`, report which declarations fail; with --full also
`tools/check.py C14 --tier quick` (harness + differential search for a concrete failing input).  The generated files are
restored from the unchanged /repo at the end.
"""
import os, re, subprocess, sys, json
HERE = os.path.dirname(os.path.abspath(__file__))
VERIF = os.path.dirname(HERE)
REPO = "/repo"
SCRATCH = "/tmp/genintfmt_scratch"
UTILS = os.path.join(SCRATCH, "libscpi", "src", "utils.c")
SPLIT = "size_t UInt64ToStrBaseSign(uint64_t val"      # edits marked "32" apply before this line, "64" after it

DO32 = """        do {
            digit = (uint8_t) (uval / x);
            ADD_CHAR(digits[digit]);
            uval -= digit * x;
            x /= base;
        } while (x && (pos < len));"""
FOR32 = """        for (;;) {
            digit = (uint8_t) (uval / x);
            ADD_CHAR(digits[digit]);
            uval -= digit * x;
            x /= base;
            if (!(x && (pos < len))) break;
        }"""
SW32 = """        switch (base) {
            case 2:
                x = 0x80000000L;
                break;
            case 8:
                x = 0x40000000L;
                break;
            default:
            case 10:
                base = 10;
                x = 1000000000L;
                break;
            case 16:
                x = 0x10000000L;
                break;
        }"""
IF32 = """        if (base == 2) {
            x = 0x80000000L;
        } else if (base == 8) {
            x = 0x40000000L;
        } else if (base == 16) {
            x = 0x10000000L;
        } else {
            base = 10;
            x = 1000000000L;
        }"""

EXPERIMENTS = [
    # ---- behaviour-preserving rewrites: the proofs must survive
    ("R1", "rewrite", "both functions: `for (;;) { ... if (!(x && (pos < len))) break; }` instead of do-while", [("both", DO32, FOR32)]),
    ("R2", "rewrite", "32 bit: `switch (base)` rewritten as an if-chain", [("32", SW32, IF32)]),
    ("R3", "rewrite", "both functions: `uval = 0 - val;` instead of `uval = -val;`", [("both", "uval = -val;", "uval = 0 - val;")]),
    ("R4", "rewrite", "32 bit: ADD_CHAR macro replaced by explicit ifs (`str[pos] = c; pos++;` / `pos = pos + 1;`)",
     [("32", "ADD_CHAR('0');", "if (pos < len) { str[pos] = '0'; pos++; }"),
      ("32", "ADD_CHAR('-');", "if (pos < len) { str[pos] = '-'; pos += 1; }"),
      ("32", "ADD_CHAR(digits[digit]);", "if (pos < len) { str[pos] = digits[digit]; pos = pos + 1; }")]),
    ("R5", "rewrite", "32 bit: digits taken from a file-scope `static const char` array",
     [("32", "size_t UInt32ToStrBaseSign(uint32_t val, char * str, size_t len, int8_t base, scpi_bool_t sign) {\n    const char digits[] = \"0123456789ABCDEF\";\n",
       "static const char digits32[] = \"0123456789ABCDEF\";\nsize_t UInt32ToStrBaseSign(uint32_t val, char * str, size_t len, int8_t base, scpi_bool_t sign) {\n"),
      ("32", "ADD_CHAR(digits[digit]);", "ADD_CHAR(digits32[digit]);")]),
    ("R6", "rewrite", "64 bit: `while` loop respelled (`uval / x < 1`, `x = x / base`), digit loop with `uval = uval - digit * x`",
     [("64", "while ((uval / x) == 0) {\n            x /= base;", "while (uval / x < 1) {\n            x = x / base;"),
      ("64", "uval -= digit * x;", "uval = uval - digit * x;")]),
    ("R7", "rewrite", "32 bit: sign test `(int32_t) val <= 0` (equivalent here: val != 0 in this branch; the first version of the proofs broke on it, the harness found no failing input)",
     [("32", "((int32_t) val < 0)", "((int32_t) val <= 0)")]),
    # ---- an independent behaviour-preserving rewrite with constructs outside the subset (static helpers taking a `char`, called
    # inside the loops; `>>`, `~`, `%=`; other loop variables): must be REFUSED, the tie degrades, the check stays green
    ("U1", "outside-subset", "tools/c2lean_intfmt_r3.diff: if-chain, `(val >> 31) != 0`, `~val + 1`, `uval < x`, `uval %= x`, for(;;) / while, ADD_CHAR as static helper functions, `ubase` local",
     "DIFF:" + os.path.join(HERE, "c2lean_intfmt_r3.diff")),
    # ---- semantic changes: a proof must break
    ("B1", "break", "32 bit: the digit of zero stored without the `pos < len` test", [("32", "ADD_CHAR('0');", "str[pos++] = '0';")]),
    ("B3", "break", "32 bit: initial divisor for base 8 is 0x20000000", [("32", "x = 0x40000000L;", "x = 0x20000000L;")]),
    ("B4", "break", "32 bit: `while (x)` instead of `while (x && (pos < len))` (the FUNCTION is unchanged - ADD_CHAR guards every store - but one ITERATION is not: the one-iteration lemma breaks and the harness finds no failing input)", [("32", "} while (x && (pos < len));", "} while (x);")]),
    ("B5", "break", "32 bit: NUL stored when `pos <= len`", [("32", "if (pos < len) str[pos] = 0;", "if (pos <= len) str[pos] = 0;")]),
    ("B6", "break", "64 bit: values below 2^32 delegated to the 32 bit function with the sign flag forwarded",
     [("64", "    uint64_t uval = val;\n", "    uint64_t uval = val;\n\n    if (val <= 0xFFFFFFFFULL) {\n        return UInt32ToStrBaseSign((uint32_t) val, str, len, base, sign);\n    }\n")]),
    ("B7", "break", "64 bit: digit alphabet in lower case", [("64", "\"0123456789ABCDEF\"", "\"0123456789abcdef\"")]),
]


def sh(cmd, **kw):
    return subprocess.run(cmd, capture_output=True, text=True, **kw)


def decl_at(path, line):
    name = "?"
    for i, l in enumerate(open(path, encoding="utf-8"), 1):
        m = re.match(r"\s*(?:theorem|example|def|macro|inductive)\s+([\w.']+)?", l)
        if m and i <= line:
            name = m.group(1) if (m.group(1) and not l.lstrip().startswith("example")) else "example(line %d)" % i
    return name


def apply(txt, edits, eid):
    i = txt.index(SPLIT)
    # the doc comment of the 64 bit function stays with the first half: irrelevant for the edits
    parts = {"32": txt[:i], "64": txt[i:]}
    for which, old, new in edits:
        for half in (("32", "64") if which == "both" else (which,)):
            o, n = old, new
            if which == "both" and half == "64":
                o, n = o.replace("int32_t", "int64_t"), n.replace("int32_t", "int64_t")
            if parts[half].count(o) != 1:
                sys.exit("%s: pattern occurs %d times in the %s bit half: %r" % (eid, parts[half].count(o), half, o[:60]))
            parts[half] = parts[half].replace(o, n)
    return parts["32"] + parts["64"]


def main():
    full = "--full" in sys.argv
    want = [a for a in sys.argv[1:] if not a.startswith("--")]
    sh(["git", "-C", REPO, "worktree", "remove", "--force", SCRATCH])
    r = sh(["git", "-C", REPO, "worktree", "add", "--detach", SCRATCH, "HEAD"])
    if r.returncode != 0:
        sys.exit("cannot create scratch worktree: " + r.stderr)
    env = dict(os.environ, VERIF_REPO=SCRATCH, LEAN_NUM_THREADS="6")
    rows = []
    try:
        orig = open(UTILS, encoding="latin-1").read()
        for eid, kind, desc, edits in EXPERIMENTS:
            if want and eid not in want:
                continue
            open(UTILS, "w", encoding="latin-1").write(orig)
            sh(["git", "-C", SCRATCH, "checkout", "--", "."])
            if isinstance(edits, str):
                a = sh(["git", "-C", SCRATCH, "apply", edits[5:]])
                if a.returncode != 0:
                    sys.exit("%s: %s" % (eid, a.stderr))
            else:
                open(UTILS, "w", encoding="latin-1").write(apply(orig, edits, eid))
            cc = sh(["gcc", "-fsyntax-only", "-I" + SCRATCH + "/libscpi/inc", "-I" + SCRATCH + "/libscpi/src", UTILS])
            tr = sh([sys.executable, os.path.join(VERIF, "translate", "c2lean_intfmt.py")], env=env)
            try:
                failed = json.loads(tr.stdout.strip().splitlines()[-1])["failed"]
            except Exception:
                failed = {"all": tr.stdout[-200:] + tr.stderr[-200:]}
            sh([sys.executable, os.path.join(VERIF, "translate", "extract.py"), "A"], env=env)   # Gen/Tables.lean of the changed source
            b = sh(["lake", "build", "ScpiVerif.Props.C14" if failed else "ScpiVerif.Props.C14Gen"], cwd=os.path.join(VERIF, "lean"), env=env)
            out = b.stdout + b.stderr
            bad = []
            for m in re.finditer(r"error: (ScpiVerif/[\w/]+\.lean):(\d+):\d+: (.*)", out):
                d = "%s:%s" % (m.group(1).replace("ScpiVerif/", "").replace(".lean", ""), decl_at(os.path.join(VERIF, "lean", m.group(1)), int(m.group(2))))
                if d not in bad:
                    bad.append(d)
            row = {"id": eid, "kind": kind, "what": desc, "c_compiles": cc.returncode == 0, "translator_failed": failed,
                   "build_ok": b.returncode == 0, "broken_declarations": bad}
            if b.returncode != 0:   # is it the refinement itself (Lemmas/IntFmtC) or only something else Props/C14Gen imports?
                row["refinement_ok"] = sh(["lake", "build", "ScpiVerif.Lemmas.IntFmtC"], cwd=os.path.join(VERIF, "lean"), env=env).returncode == 0
            if full:
                c = sh([sys.executable, os.path.join(VERIF, "tools", "check.py"), "C14", "--tier", "quick"], env=env, cwd=VERIF)
                lines = [l for l in c.stdout.splitlines() if l.startswith(("VIOLATION", "ok ", "FAIL ", "KNOWN"))]
                row["check_exit"] = c.returncode
                row["check_lines"] = [l[:400] for l in lines]
            if kind == "outside-subset":   # refused; nothing to build; with --full the check must stay green (degraded tie)
                row["as_expected"] = bool(failed) and (not full or row.get("check_exit") == 0)
            else:
                row["as_expected"] = (kind == "rewrite") == row["build_ok"] and not failed
            rows.append(row)
            print(json.dumps(row), flush=True)
    finally:
        sh(["git", "-C", REPO, "worktree", "remove", "--force", SCRATCH])
        base = dict(os.environ)
        base.pop("VERIF_REPO", None)
        sh([sys.executable, os.path.join(VERIF, "translate", "extract.py"), "A"], env=base)   # generated files from /repo again
    print("\n| id | kind | change | translator | lake build Props.C14Gen | broken declarations |" + (" check.py C14 |" if full else ""))
    print("|---|---|---|---|---|---|" + ("---|" if full else ""))
    for r in rows:
        print("| %s | %s | %s | %s | %s | %s |%s" % (r["id"], r["kind"], r["what"], "ok" if not r["translator_failed"] else "REFUSED: " + "; ".join("%s" % v for v in r["translator_failed"].values())[:160],
              "ok" if r["build_ok"] else "FAILS", ", ".join(r["broken_declarations"]) or "-",
              (" exit %d: %s |" % (r["check_exit"], "; ".join(r["check_lines"])[:260]) if full else "")))


if __name__ == "__main__":
    main()
