#!/usr/bin/env python3
"""Confirm a seeded change in a fresh scratch worktree of /repo: suite passes with it, demo fails with it, demo passes without it.
usage: seedverify.py <seeded/<id> dir> [extra gcc flags]   -> writes confirmation into <dir>/meta.json (merging)"""
import subprocess, sys, os, json, shutil, re
d = os.path.abspath(sys.argv[1]); flags = " ".join(sys.argv[2:])
wt = "/tmp/seedverify_%d" % os.getpid()
def sh(cmd, **kw): return subprocess.run(cmd, shell=True, capture_output=True, text=True, **kw)
sh("git -C /repo worktree add -q %s HEAD" % wt)
out = {}
try:
    r = sh("git -C %s apply %s/patch.diff" % (wt, d)); out["patch_applies"] = r.returncode == 0
    r = sh("make -C %s test 2>&1" % wt)
    tests = re.findall(r"^\s+tests\s+(\d+)\s+(\d+)\s+(\d+)\s+(\d+)", r.stdout, flags=re.M)
    out["suite_with_change"] = {"passed": sum(int(t[2]) for t in tests), "failed": sum(int(t[3]) for t in tests), "make_exit": r.returncode}
    gcc = "gcc %s -I%s/libscpi/inc -I%s/libscpi/src %s/demo.c %s/libscpi/src/*.c -lm -o %s/demo_bin 2>&1" % (flags, wt, wt, d, wt, wt)
    r = sh(gcc); out["demo_compiles"] = r.returncode == 0
    r = sh("%s/demo_bin" % wt); out["demo_exit_with_change"] = r.returncode; out["demo_tail_with_change"] = r.stdout.strip().splitlines()[-1:] 
    sh("git -C %s checkout -- ." % wt)
    sh(gcc); r = sh("%s/demo_bin" % wt); out["demo_exit_without_change"] = r.returncode
    out["confirmed"] = bool(out["patch_applies"] and out["suite_with_change"]["passed"] == 71 and out["suite_with_change"]["failed"] == 0
                            and out["demo_compiles"] and out["demo_exit_with_change"] != 0 and out["demo_exit_without_change"] == 0)
finally:
    sh("git -C /repo worktree remove --force %s" % wt)
mp = os.path.join(d, "meta.json")
meta = json.load(open(mp)) if os.path.exists(mp) else {}
meta["confirmation"] = out
json.dump(meta, open(mp, "w"), indent=1)
print(os.path.basename(d), json.dumps(out))
