#!/usr/bin/env python3
"""Writes MANIFEST.json from tools/props.py (claimed checks) and the list of properties not yet claimed."""
import json, os, sys
HERE = os.path.dirname(os.path.abspath(__file__))
VERIF = os.path.dirname(HERE)
sys.path.insert(0, HERE)
from props import PROPS, NOT_CLAIMED  # noqa

ids = [json.loads(l)["id"] for l in open(os.path.join(VERIF, "properties.jsonl"))]
checks = []
for pid in ids:
    if pid not in PROPS or PROPS[pid].get("unclaimed"):
        continue
    P = PROPS[pid]
    checks.append({
        "property_id": pid,
        "quick_cmd": "python3 tools/check.py %s --tier quick" % pid,
        "thorough_cmd": "python3 tools/check.py %s --tier thorough" % pid,
        "evidence_file": "/verif/evidence/%s.json" % pid,
        "replay_cmd_template": "python3 tools/check.py %s --replay {path}" % pid,
        "engine": "lean4-proof+correspondence",
        "level_claimed": {"category": P["level"], "text": P["level_text"], "design_ref": P.get("design_ref", "DESIGN.md section 7/" + pid)},
        "level_note": P["level_note"],
        "technique": P["technique"],
    })
na = [{"property_id": pid, "reason": NOT_CLAIMED.get(pid, "check not built yet in this revision of /verif (planned, see DESIGN.md section 7); not claimed")}
      for pid in ids if pid not in [c["property_id"] for c in checks]]
m = {
    "version": 1,
    "setup_cmd": "python3 tools/check.py --setup",
    "hooks": {
        "guard": "SCPI_PARSER_VERIF",
        "enable": "harness/build.sh compiles /repo/libscpi/src/*.c with -DSCPI_PARSER_VERIF (plus -fsanitize=address,undefined)",
        "baseline_off_cmd": "make -C /repo clean >/dev/null; make -C /repo test",
        "source_commits": json.load(open(os.path.join(VERIF, "hooks.json")))["source_commits"] if os.path.exists(os.path.join(VERIF, "hooks.json")) else [],
        "add_only": True,
    },
    "engines": [{
        "name": "lean4-proof+correspondence",
        "path": "tools/check.py",
        "serves_properties": [c["property_id"] for c in checks],
        "kind_free_text": "Lean 4 theorems about an executable model (lake build + #print axioms audit on every run); tables regenerated from the C sources by a translator; model tied to the implementation by a differential harness (ASan/UBSan build of /repo's working tree) whose observations are also judged by the specification compiled into the Lean driver",
    }],
    "checks": checks,
    "not_applicable": na,
    "notes": "All commands run from /verif, honour VERIF_SEED / VERIF_TIER, rebuild the harness and regenerate the tables from /repo's working tree, and rewrite evidence/<id>.json. known_findings.json lists recorded and fixed findings.",
}
json.dump(m, open(os.path.join(VERIF, "MANIFEST.json"), "w"), indent=1)
print("MANIFEST.json: %d checks, %d not claimed" % (len(checks), len(na)))
