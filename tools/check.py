#!/usr/bin/env python3
"""Single entry point of every MANIFEST command.

  python3 tools/check.py <Cxx> [--tier quick|thorough]      decide one property on /repo's working tree
  python3 tools/check.py --setup                             build the framework after a fresh restore
  python3 tools/check.py <Cxx> --replay <file>               re-run the cases of a replay file

Steps (see DESIGN.md section 5): translator -> lake build of the property's theorem module and of
the driver -> audit (#print axioms, forbidden tokens) -> harness built from /repo's working tree ->
corpus + generators through the driver (model correspondence and judge) -> decision -> evidence.
"""
import sys, os, json, subprocess, time, re, fcntl, hashlib, shutil, argparse, glob

HERE = os.path.dirname(os.path.abspath(__file__))
VERIF = os.path.dirname(HERE)
sys.path.insert(0, HERE)
sys.path.insert(0, os.path.join(VERIF, "translate"))
import extract  # noqa: E402
from props import PROPS, DOMAINS  # noqa: E402

REPO = os.environ.get("VERIF_REPO", "/repo")
LEAN = os.path.join(VERIF, "lean")
BUILD = os.path.join(VERIF, "build")
EVID = os.path.join(VERIF, "evidence")
REPLAY = os.path.join(EVID, "replay")
DRIVER = os.path.join(LEAN, ".lake", "build", "bin", "driver")
NCPU = min(16, os.cpu_count() or 4)
ALLOWED_AXIOMS = {"propext", "Classical.choice", "Quot.sound"}
FORBIDDEN = [r"\bsorry\b", r"\badmit\b", r"^\s*axiom\s", r"\bnative_decide\b", r"\bbv_decide\b", r"\bimplemented_by\b",
             r"\bunsafe\s", r"maxHeartbeats\s+0\b"]


def log(*a):
    print(*a, flush=True)


class Lock:
    def __init__(self, name):
        os.makedirs(BUILD, exist_ok=True)
        self.path = os.path.join(BUILD, name)

    def __enter__(self):
        self.f = open(self.path, "w")
        fcntl.flock(self.f, fcntl.LOCK_EX)
        return self

    def __exit__(self, *a):
        fcntl.flock(self.f, fcntl.LOCK_UN)
        self.f.close()


def run(cmd, **kw):
    return subprocess.run(cmd, capture_output=True, text=True, **kw)


# ---------------------------------------------------------------------------------------------
# Lean side

def strip_lean_comments(t):
    t = re.sub(r"/-.*?-/", " ", t, flags=re.S)
    return re.sub(r"--[^\n]*", " ", t)


def lean_files():
    fs = glob.glob(os.path.join(LEAN, "ScpiVerif", "**", "*.lean"), recursive=True)
    return sorted(fs + [os.path.join(LEAN, "Driver.lean"), os.path.join(LEAN, "ScpiVerif.lean")])


def audit_tokens(files):
    hits = []
    for f in files:
        txt = strip_lean_comments(open(f, encoding="utf-8").read())
        for pat in FORBIDDEN:
            for m in re.finditer(pat, txt, flags=re.M):
                hits.append("%s: %s" % (os.path.relpath(f, VERIF), m.group(0).strip()))
    return hits


def module_deps(mod, seen=None):
    """transitive ScpiVerif.* imports of a module (by reading the source)"""
    seen = seen if seen is not None else set()
    if mod in seen:
        return seen
    seen.add(mod)
    path = os.path.join(LEAN, *mod.split(".")) + ".lean"
    if not os.path.exists(path):
        return seen
    for m in re.finditer(r"^import\s+(ScpiVerif[\w.]*)", open(path, encoding="utf-8").read(), flags=re.M):
        module_deps(m.group(1), seen)
    return seen


def theorems_of(mod):
    path = os.path.join(LEAN, *mod.split(".")) + ".lean"
    txt = strip_lean_comments(open(path, encoding="utf-8").read())
    ns = re.search(r"^namespace\s+([\w.]+)", txt, flags=re.M)
    ns = ns.group(1) + "." if ns else ""
    return [ns + m.group(1) for m in re.finditer(r"^\s*theorem\s+([\w.']+)", txt, flags=re.M)]


def lake_build(targets):
    r = run(["lake", "build"] + targets, cwd=LEAN)
    out = r.stdout + r.stderr
    errs = [l for l in out.splitlines() if l.startswith("error:") or "error:" in l]
    return r.returncode == 0, out, errs


def print_axioms(mod, thms):
    """returns {theorem: [axioms]} or None when the module does not load"""
    tmp = os.path.join(BUILD, "axioms_%s_%d.lean" % (mod.replace(".", "_"), os.getpid()))
    with open(tmp, "w") as f:
        f.write("import %s\n" % mod)
        for t in thms:
            f.write("#print axioms %s\n" % t)
    r = run(["lake", "env", "lean", tmp], cwd=LEAN)
    os.unlink(tmp)
    res = {}
    out = r.stdout + r.stderr
    for m in re.finditer(r"'([^']+)' depends on axioms: \[([^\]]*)\]", out, flags=re.S):
        res[m.group(1)] = [a.strip() for a in m.group(2).replace("\n", " ").split(",") if a.strip()]
    for m in re.finditer(r"'([^']+)' does not depend on any axioms", out):
        res[m.group(1)] = []
    return res, out


# ---------------------------------------------------------------------------------------------
# Harness side

def build_harness(cfg):
    out = os.path.join(BUILD, cfg)
    tmp = os.path.join(BUILD, cfg + ".tmp%d" % os.getpid())
    env = dict(os.environ, VERIF_REPO=REPO)
    r = run(["sh", os.path.join(VERIF, "harness", "build.sh"), cfg, tmp], env=env)
    if r.returncode != 0:
        shutil.rmtree(tmp, ignore_errors=True)
        return None, r.stdout + r.stderr
    os.makedirs(out, exist_ok=True)
    exe = os.path.join(out, "h.%d" % os.getpid())
    shutil.move(os.path.join(tmp, "h"), exe)
    shutil.rmtree(tmp, ignore_errors=True)
    return exe, ""


SAN_ENV = {"ASAN_OPTIONS": "detect_leaks=1:abort_on_error=1:handle_abort=0:allocator_may_return_null=1:detect_stack_use_after_return=0",
           "UBSAN_OPTIONS": "halt_on_error=1:abort_on_error=1:print_stacktrace=0"}


def shipped_patterns():
    """command patterns shipped in the repository's tests and examples (one per line), for domain M"""
    out = os.path.join(BUILD, "patterns.txt")
    pats = set()
    for f in glob.glob(os.path.join(REPO, "libscpi", "test", "*.c")) + glob.glob(os.path.join(REPO, "examples", "common", "*.c")):
        try:
            txt = open(f, encoding="latin-1").read()
        except OSError:
            continue
        for m in re.finditer(r'"([*:\[]?[A-Z][\]\[A-Za-z0-9:#_]*\??)"', txt):
            pats.add(m.group(1))
    with open(out, "w") as fh:
        fh.write("\n".join(sorted(pats)) + "\n")
    return out


def run_pipeline(exe, cfg, args, seed, stdin_lines=None, keep=""):
    """harness | driver ; returns parsed driver output.  keep: which observation tokens the model/implementation comparison
    looks at for this property (comma-separated token prefixes; empty = everything)"""
    env = dict(os.environ, VERIF_SEED=str(seed), VERIF_CFG=cfg, VERIF_KEEP=keep, VERIF_PATTERNS=os.path.join(BUILD, "patterns.txt"), **SAN_ENV)
    errf = open(os.path.join(BUILD, "stderr.%d.%s" % (os.getpid(), hashlib.md5(" ".join(args).encode()).hexdigest()[:8])), "w+")
    h = subprocess.Popen([exe] + args, stdin=subprocess.PIPE if stdin_lines is not None else subprocess.DEVNULL,
                         stdout=subprocess.PIPE, stderr=errf, env=env)
    d = subprocess.Popen([DRIVER], stdin=h.stdout, stdout=subprocess.PIPE, stderr=subprocess.PIPE, env=env, text=True)
    h.stdout.close()
    if stdin_lines is not None:
        try:
            h.stdin.write(("\n".join(stdin_lines) + "\n").encode())
            h.stdin.close()
        except BrokenPipeError:
            pass
    out, derr = d.communicate()
    hrc = h.wait()
    errf.seek(0)
    herr = errf.read()
    errf.close()
    os.unlink(errf.name)
    res = {"diff": [], "reject": [], "fault": [], "unparsed": [], "summary": None, "harness_rc": hrc, "harness_err": herr[-4000:],
           "driver_rc": d.returncode, "driver_err": derr[-2000:]}
    for line in out.splitlines():
        f = line.split("\t")
        if f[0] == "DIFF" and len(f) >= 4:
            res["diff"].append({"case": f[1], "impl": f[2], "model": f[3]})
        elif f[0] == "REJECT" and len(f) >= 4:
            res["reject"].append({"clauses": f[1].split(","), "case": f[2], "impl": f[3]})
        elif f[0] == "FAULT":
            res["fault"].append({"line": f[1] if len(f) > 1 else line, "stderr": herr[-3000:]})
        elif f[0] == "UNPARSED":
            res["unparsed"].append(line)
        elif f[0] == "SUMMARY":
            try:
                res["summary"] = json.loads(f[1])
            except Exception:
                res["summary"] = None
    # a sanitizer abort that did not come through the signal handler
    if hrc not in (0,) and not res["fault"]:
        res["fault"].append({"line": "X FAULT exit-status-%d (no case recorded)" % hrc, "stderr": herr[-3000:]})
    return res


def run_domain(exe, cfg, dom, tier, seed, shards=NCPU, keep=""):
    import concurrent.futures as cf
    with cf.ThreadPoolExecutor(max_workers=shards) as ex:
        futs = [ex.submit(run_pipeline, exe, cfg, [dom, tier, str(i), str(shards)], seed, None, keep) for i in range(shards)]
        parts = [f.result() for f in futs]
    agg = {"diff": [], "reject": [], "fault": [], "unparsed": [], "cases": 0, "nontrivial": 0, "tags": {}, "samples": [],
           "errors": []}
    for p in parts:
        for k in ("diff", "reject", "fault", "unparsed"):
            agg[k] += p[k]
        s = p["summary"]
        if s:
            agg["cases"] += s["cases"]
            agg["nontrivial"] += s["nontrivial"]
            for t, n in s["tags"].items():
                agg["tags"][t] = agg["tags"].get(t, 0) + n
            agg["samples"] += s["samples"][:1]
        else:
            agg["errors"].append("driver produced no summary (rc=%s): %s" % (p["driver_rc"], p["driver_err"][-300:]))
    return agg


def replay_cases(exe, cfg, cases, seed=1, keep=""):
    return run_pipeline(exe, cfg, ["replay"], seed, stdin_lines=cases, keep=keep)


# ---------------------------------------------------------------------------------------------
# shrinking

def shrink(exe, cfg, case, clauses, header_tokens):
    """greedy removal of operation tokens while the same clause is still rejected"""
    want = set(clauses)

    def still_fails(c):
        r = replay_cases(exe, cfg, [c])
        if r["fault"] and any(x.startswith("FAULT") for x in want):
            return True
        for rj in r["reject"]:
            if want & set(rj["clauses"]):
                return True
        return False

    toks = case.split(" ")
    head, ops = toks[:header_tokens], toks[header_tokens:]
    if len(ops) <= 1:
        return case
    changed = True
    rounds = 0
    while changed and rounds < 6 and len(ops) > 1:
        changed = False
        rounds += 1
        i = 0
        while i < len(ops) and len(ops) > 1:
            cand = ops[:i] + ops[i + 1:]
            c = " ".join(head + cand)
            if still_fails(c):
                ops = cand
                changed = True
            else:
                i += 1
    return " ".join(head + ops)


# ---------------------------------------------------------------------------------------------

def load_known():
    p = os.path.join(VERIF, "known_findings.json")
    if not os.path.exists(p):
        return {"findings": [], "fixed": []}
    return json.load(open(p))


def write_replay(pid, n, header, cases):
    os.makedirs(REPLAY, exist_ok=True)
    path = os.path.join(REPLAY, "%s-%d.txt" % (pid, n))
    with open(path, "w") as f:
        for h in header:
            f.write("# %s\n" % h)
        for c in cases:
            f.write(c + "\n")
    return path


def check_property(pid, tier, seed, replay=None):
    t0 = time.time()
    P = PROPS[pid]
    mod = P["module"]
    os.makedirs(BUILD, exist_ok=True)
    os.makedirs(EVID, exist_ok=True)
    evidence_path = os.path.join(EVID, pid + ".json")
    if os.path.exists(evidence_path):
        os.unlink(evidence_path)
    # a replay file is read before the replay files of earlier runs are cleared (it may be one of them)
    replay_lines = [l.rstrip("\n") for l in open(replay) if l.strip() and not l.startswith("#")] if replay else None
    for old in glob.glob(os.path.join(REPLAY, pid + "-*.txt")):
        if not (replay and os.path.abspath(old) == os.path.abspath(replay)):
            os.unlink(old)
    proof_problems = []      # broken obligations
    notes = []
    cfgs = sorted({c for d in P["domains"] for c in d["cfgs"]})
    exes = {}
    with Lock("build.lock"):
        # 1. translator
        try:
            gen = extract.generate("A")
            notes.append("translator: %s" % json.dumps(gen["rows"]))
            for sec, why in sorted(gen.get("failed", {}).items()):
                # the section is generated empty / zero: whatever depends on it stops checking below (proof or correspondence)
                notes.append("translator: section '%s' could not be extracted from the current source (%s)" % (sec, why[:200]))
                # a value the compiler sees differs from what the source text says: the generated table (source text) no longer
                # describes the compiled code - a broken tie for the properties that use the table
                if sec.endswith("-compiled") and sec.split("-compiled")[0] in P.get("tables", []):
                    proof_problems.append("translator: %s: %s" % (sec, why[:300]))
        except (SystemExit, Exception) as e:
            proof_problems.append("translator failed: %s" % e)
            gen = None
        # 2. lake build
        thms = theorems_of(mod)
        ok, out, errs = lake_build([mod])
        if not ok:
            proof_problems.append("lake build %s failed: %s" % (mod, "; ".join(errs[:6])[:1500]))
        okd, outd, errsd = lake_build(["driver"])
        if not okd:
            proof_problems.append("lake build driver failed: %s" % "; ".join(errsd[:6])[:1500])
        # 2b. further theorem modules this property draws on (e.g. the whole-instrument corollaries): built and audited alike
        extra_thms = {}
        for emod, names in P.get("extra", []):
            oke, oute, errse = lake_build([emod])
            if not oke:
                proof_problems.append("lake build %s failed: %s" % (emod, "; ".join(errse[:6])[:1500]))
                ok = False
            allt = theorems_of(emod)
            pick = [t for t in allt if t.split(".")[-1] in names]
            missing = sorted(set(names) - {t.split(".")[-1] for t in pick})
            if missing:
                proof_problems.append("theorems %s not found in %s" % (missing, emod))
            extra_thms[emod] = pick
        # 2c. generated ties: theorem modules about Lean text translated from C functions on this run.  They are obligations
        # whenever the translator accepted the current source; when it refused (a construct outside its subset) the tie
        # degrades to the differential correspondence of the hand-written model and the module is not built
        generated_tie = {}
        for g in P.get("generated", []):
            why = (gen or {}).get("failed", {}).get(g["section"]) if gen else "translator did not run"
            if why:
                generated_tie[g["module"]] = "degraded to the hand model + correspondence: the translator refused the current source (%s)" % why[:300]
                notes.append("generated tie %s: %s" % (g["module"], generated_tie[g["module"]]))
                continue
            okg, outg, errsg = lake_build([g["module"]])
            if not okg:
                proof_problems.append("lake build %s failed (the Lean text generated from the C source no longer refines the model): %s" % (g["module"], "; ".join(errsg[:6])[:1500]))
                ok = False
                generated_tie[g["module"]] = "BROKEN: does not build"
            else:
                generated_tie[g["module"]] = "checked"
                extra_thms[g["module"]] = theorems_of(g["module"])
        # 3. audit
        deps = sorted(set(module_deps(mod)).union(*[module_deps(m) for m in extra_thms] or [set()]))
        files = [os.path.join(LEAN, *m.split(".")) + ".lean" for m in deps]
        tok_hits = audit_tokens([f for f in files if os.path.exists(f)] + [os.path.join(LEAN, "Driver.lean")])
        for h in tok_hits:
            proof_problems.append("forbidden construct: " + h)
        axioms = {}
        discharged = 0
        if ok:
            axioms, axout = print_axioms(mod, thms)
            for emod, pick in extra_thms.items():
                ax2, _ = print_axioms(emod, pick)
                axioms.update(ax2)
                thms = thms + pick
            for t in thms:
                if t not in axioms:
                    proof_problems.append("theorem %s: axioms could not be printed" % t)
                elif not set(axioms[t]) <= ALLOWED_AXIOMS:
                    proof_problems.append("theorem %s depends on axioms %s" % (t, sorted(set(axioms[t]) - ALLOWED_AXIOMS)))
                else:
                    discharged += 1
            if tier == "thorough" and not proof_problems:
                r = run(["lake", "env", "leanchecker", mod], cwd=LEAN)
                if r.returncode != 0:
                    proof_problems.append("leanchecker rejected %s: %s" % (mod, (r.stdout + r.stderr)[-500:]))
                else:
                    notes.append("leanchecker %s: ok" % mod)
        # 4. harness
        shipped_patterns()
        for c in cfgs:
            exe, err = build_harness(c)
            if exe is None:
                proof_problems.append("harness does not compile for configuration %s: %s" % (c, err[-800:]))
            else:
                exes[c] = exe

    prefixes = tuple(P["clauses"])
    known = [k for k in load_known().get("findings", []) if k["property"] == pid]
    known_clauses = {k["clause"] for k in known}

    # a domain may name further clauses that count for this property on ITS cases only (e.g. the framing clauses on the block domain)
    dom_prefixes = {d["name"]: tuple(d.get("clauses", [])) for d in P["domains"]}

    def relevant(rj):
        extra = dom_prefixes.get(rj.get("domain", "").split(".")[0], ())
        return [c for c in rj["clauses"] if c.startswith(prefixes + extra)]

    diffs, rejects, faults, unparsed, errors = [], [], [], [], []
    cases = nontrivial = 0
    tags, samples = {}, []
    per_domain = {}

    def absorb(name, cfg, agg, faults_only=False):
        nonlocal cases, nontrivial
        if faults_only:
            agg["diff"] = []
        for d in agg["diff"]:
            d["cfg"] = cfg
            d["domain"] = name
        for r in agg["reject"]:
            r["cfg"] = cfg
            r["domain"] = name
        for f in agg["fault"]:
            f["cfg"] = cfg
            f["domain"] = name
        diffs.extend(agg["diff"])
        rejects.extend(r for r in agg["reject"] if relevant(r))
        faults.extend(agg["fault"])
        unparsed.extend(agg["unparsed"])
        errors.extend(agg.get("errors", []))
        cases += agg.get("cases", 0)
        nontrivial += agg.get("nontrivial", 0)
        for t, n in agg.get("tags", {}).items():
            tags["%s.%s" % (name, t)] = tags.get("%s.%s" % (name, t), 0) + n
        samples.extend(agg.get("samples", [])[:2])
        per_domain["%s/%s" % (name, cfg)] = {"cases": agg.get("cases", 0), "diff": len(agg["diff"]),
                                              "reject": len([r for r in agg["reject"] if relevant(r)]), "fault": len(agg["fault"])}

    if replay:
        lines = replay_lines
        for d in P["domains"]:
            for c in d["cfgs"]:
                if c in exes:
                    mine = [l for l in lines if l.split(" ")[0] == DOMAINS[d["name"]]["letter"]]
                    if mine:
                        r = replay_cases(exes[c], c, mine, keep=d.get("keep", ""))
                        s = r["summary"] or {"cases": 0, "nontrivial": 0, "tags": {}, "samples": []}
                        r.update(cases=s["cases"], nontrivial=s["nontrivial"], tags=s["tags"], samples=s["samples"])
                        absorb(d["name"], c, r, d.get("faults_only", False))
    else:
        for d in P["domains"]:
            for c in d["cfgs"]:
                if c not in exes:
                    continue
                # corpus first
                corp = os.path.join(VERIF, "corpus", d["name"] + ".txt")
                if os.path.exists(corp):
                    lines = [l.rstrip("\n") for l in open(corp) if l.strip() and not l.startswith("#")]
                    if lines:
                        r = replay_cases(exes[c], c, lines, keep=d.get("keep", ""))
                        s = r["summary"] or {"cases": 0, "nontrivial": 0, "tags": {}, "samples": []}
                        r.update(cases=s["cases"], nontrivial=s["nontrivial"], tags=s["tags"], samples=s["samples"])
                        absorb(d["name"] + ".corpus", c, r, d.get("faults_only", False))
                # domains borrowed from other properties for sanitizer faults only keep their quick budget in the thorough tier
                # (their own property explores them in depth; intfmt thorough alone is an exhaustive 2^32 sweep)
                dtier = "quick" if (d.get("faults_only", False) and tier == "thorough") else tier
                absorb(d["name"], c, run_domain(exes[c], c, d["name"], dtier, seed, keep=d.get("keep", "")), d.get("faults_only", False))
        # widened search: something no longer checks but no concrete failing input yet
        new_rejects = [r for r in rejects if not set(relevant(r)) <= known_clauses]
        if (proof_problems or diffs) and not new_rejects and not faults and tier != "thorough":
            notes.append("widened search: proof obligation or correspondence broken, re-running generators at the thorough budget")
            for d in P["domains"]:
                for c in d["cfgs"]:
                    if c in exes:
                        absorb(d["name"] + ".widened", c, run_domain(exes[c], c, d["name"], "widened", seed + 1, keep=d.get("keep", "")), d.get("faults_only", False))

    # ---- decision
    new_rejects = [r for r in rejects if not set(relevant(r)) <= known_clauses]
    known_hits = {}
    for r in rejects:
        for c in relevant(r):
            if c in known_clauses:
                known_hits.setdefault(c, r)
    violations = 0
    out_lines = []
    nrep = 0
    if faults:
        violations += 1
        nrep += 1
        f0 = faults[0]
        path = write_replay(pid, nrep, ["property %s: the implementation faulted (sanitizer abort, watchdog or crash) on this case" % pid,
                                        "configuration %s, domain %s" % (f0["cfg"], f0["domain"]),
                                        "sanitizer output (tail): " + f0["stderr"].replace("\n", " | ")[-1500:]],
                            [f["line"].replace("X FAULT ", "", 1).split(" ", 1)[-1] for f in faults[:20]])
        out_lines.append("VIOLATION property=%s replay=%s" % (pid, path))
    if new_rejects:
        violations += 1
        # group by clause, shrink one exemplar per clause
        by_clause = {}
        for r in new_rejects:
            for c in relevant(r):
                if c not in known_clauses:
                    by_clause.setdefault(c, []).append(r)
        for clause, rs in sorted(by_clause.items()):
            nrep += 1
            rs.sort(key=lambda r: len(r["case"]))
            ex = rs[0]
            dom = ex["domain"].split(".")[0]
            small = ex["case"]
            try:
                small = shrink(exes[ex["cfg"]], ex["cfg"], ex["case"], [clause], DOMAINS[dom]["header_tokens"])
            except Exception as e:  # shrinking is best effort
                notes.append("shrink failed: %s" % e)
            path = write_replay(pid, nrep, ["property %s violated: judge clause %s rejects what the implementation produced" % (pid, clause),
                                            "configuration %s, domain %s; %d rejected case(s) for this clause in this run" % (ex["cfg"], dom, len(rs)),
                                            "minimised case first, then up to 9 more as generated",
                                            "replay: python3 tools/check.py %s --replay <this file>" % pid],
                                [small] + [r["case"] for r in rs[:9]])
            out_lines.append("VIOLATION property=%s replay=%s" % (pid, path))
    if (proof_problems or diffs or unparsed or errors) and not new_rejects and not faults:
        violations += 1
        nrep += 1
        hdr = ["property %s is no longer shown to hold: a proof obligation or the model/implementation correspondence does not check," % pid,
               "and the search (generators at the thorough budget) found no input on which the property's judge fails."]
        hdr += ["broken obligation: " + p for p in proof_problems[:10]]
        if diffs:
            hdr.append("correspondence: %d case(s) where implementation and model differ; first ones below (case => implementation || model)" % len(diffs))
        if unparsed:
            hdr.append("driver could not read %d harness line(s)" % len(unparsed))
        hdr += ["error: " + e for e in errors[:5]]
        body = ["%s => %s" % (d["case"], d["impl"]) for d in diffs[:20]]
        hdr += ["model says: %s => %s" % (d["case"], d["model"]) for d in diffs[:5]]
        path = write_replay(pid, nrep, hdr, body)
        out_lines.append("VIOLATION property=%s replay=%s no-failing-input-found" % (pid, path))
    elif proof_problems and (new_rejects or faults):
        notes.append("broken obligations alongside the concrete failing input: " + "; ".join(proof_problems[:5]))

    for k in known:
        if k["clause"] in known_hits:
            log("KNOWN-FINDING: property=%s %s" % (pid, k["what"]))
    for l in out_lines:
        log(l)

    # ---- evidence
    obligations = len(thms) + 1       # every property theorem + the forbidden-construct audit
    disch = discharged + (1 if not tok_hits else 0)
    ev = {
        "property_id": pid, "tier": tier, "seed": seed, "level": P["level"],
        "coverage": {
            "obligations": obligations, "discharged": disch if not [p for p in proof_problems if "lake build" in p] else min(disch, obligations - 1),
            "checker_cmd": "cd lean && lake build %s && lake env lean <#print axioms of every theorem>%s" % (mod, " && lake env leanchecker " + mod if tier == "thorough" else ""),
            "trusted_base": P["trusted_base"],
            "theorems": thms, "axioms": {t: axioms.get(t) for t in thms},
            "evaluations": max(cases, 1), "distinct_nontrivial": nontrivial,
            "rule": P["rule"],
            "samples": samples[:6] if samples else ["(no case executed)"],
            "per_domain": per_domain, "input_distribution": dict(sorted(tags.items())),
            "comparison_projection": {d["name"]: (d.get("keep") or "all observation tokens") for d in P["domains"]},
            "correspondence_differences": len(diffs), "judge_rejections": len(rejects), "faults": len(faults),
            "known_findings_reproduced": sorted(known_hits), "broken_obligations": proof_problems, "notes": notes,
            "generated_tie": generated_tie,
            "exhaustive": False,
            "configurations": cfgs,
        },
        "assumptions": P["assumptions"],
        "wall_s": round(time.time() - t0, 2),
        "violations": violations,
    }
    with open(evidence_path, "w") as f:
        json.dump(ev, f, indent=1)
    for e in exes.values():
        try:
            os.unlink(e)
        except OSError:
            pass
    log("%s %s tier=%s seed=%d: theorems %d/%d, cases %d (distinct non-trivial %d), diffs %d, rejects %d (known %d), faults %d, %.1fs"
        % ("FAIL" if violations else "ok", pid, tier, seed, discharged, len(thms), cases, nontrivial, len(diffs), len(rejects),
           len(rejects) - len(new_rejects), len(faults), time.time() - t0))
    return 1 if violations else 0


def setup():
    os.makedirs(BUILD, exist_ok=True)
    with Lock("build.lock"):
        extract.generate("A")
        r = subprocess.run(["lake", "build"], cwd=LEAN)
        if r.returncode != 0:
            # a proof that fails on the current tree is reported by the property's own check; the driver must exist
            r2 = subprocess.run(["lake", "build", "driver"], cwd=LEAN)
            return r2.returncode
    return 0


def main():
    ap = argparse.ArgumentParser()
    ap.add_argument("prop", nargs="?")
    ap.add_argument("--tier", default=os.environ.get("VERIF_TIER", "quick"))
    ap.add_argument("--setup", action="store_true")
    ap.add_argument("--replay")
    a = ap.parse_args()
    if a.setup:
        sys.exit(setup())
    if a.prop not in PROPS:
        log("unknown property %s" % a.prop)
        sys.exit(2)
    tier = a.tier if a.tier in ("quick", "thorough") else "quick"
    seed = int(os.environ.get("VERIF_SEED", "1") or 1)
    sys.exit(check_property(a.prop, tier, seed, a.replay))


if __name__ == "__main__":
    main()
