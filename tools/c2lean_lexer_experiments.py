#!/usr/bin/env python3
"""Experiments for the C -> Lean tie of lexer.c (notes/EXT_GEN_LEXER_REPORT.md): behaviour-preserving rewrites of lexer.c should leave
the refinement proofs intact, semantic changes must break one.

    python3 tools/c2lean_lexer_experiments.py [--full] [id ...]

Works in a scratch worktree of the C repository (/tmp/genlexer_scratch, `git -C /repo worktree add --detach`, removed at the end);
never touches /repo.  For every experiment: apply the textual edit to libscpi/src/lexer.c, run the translator
(VERIF_REPO=/tmp/genlexer_scratch), `lake build ScpiVerif.Props.C13Gen ScpiVerif.Props.C01Gen`, report which declarations fail; with
--full also `tools/check.py C13 --tier quick` for the semantic changes (does the differential harness alone find a concrete input?).
The generated files are restored from the unchanged /repo at the end.
"""
import os, re, subprocess, sys, json
HERE = os.path.dirname(os.path.abspath(__file__))
VERIF = os.path.dirname(HERE)
REPO = "/repo"
SCRATCH = "/tmp/genlexer_scratch"
LEXER = os.path.join(SCRATCH, "libscpi", "src", "lexer.c")

SKIPWS = """    int someSpace = 0;
    while (!iseos(state) && isws(state->pos[0])) {
        state->pos++;
        someSpace++;
    }

    return someSpace;"""

EXPERIMENTS = [
    # ---- behaviour-preserving rewrites: the proofs should survive
    ("R1", "rewrite", "skipWs: `while (c) {..}` rewritten as `for (;;) { if (!c) break; .. }`",
     [(SKIPWS, """    int someSpace = 0;
    for (;;) {
        if (iseos(state) || !isws(state->pos[0])) {
            break;
        }
        state->pos++;
        someSpace++;
    }

    return someSpace;""")]),
    ("R2", "rewrite", "iseos written as `state->pos >= state->buffer + state->len`, returning the comparison",
     [("""    if ((state->buffer + state->len) <= (state->pos)) {
        return 1;
    } else {
        return 0;
    }""", "    return state->pos >= state->buffer + state->len;")]),
    ("R3", "rewrite", "isws and isplusmn written with a switch; isE with if/else",
     [("""    if ((c == ' ') || (c == '\\t')) {
        return 1;
    }
    return 0;""", """    switch (c) {
        case ' ':
        case '\\t':
            return 1;
        default:
            return 0;
    }"""),
      ("    return c == '+' || c == '-';", """    switch (c) {
        case '+': return 1;
        case '-': return 1;
    }
    return 0;"""),
      ("    return c == 'e' || c == 'E';", "    if (c == 'E') { return 1; } else if (c == 'e') { return 1; } else { return 0; }")]),
    ("R4", "rewrite", "the predicate isws inlined into skipWs (two reads of pos[0] behind one end-of-input test)",
     [("    while (!iseos(state) && isws(state->pos[0])) {\n        state->pos++;\n        someSpace++;",
       "    while (!iseos(state) && (state->pos[0] == ' ' || state->pos[0] == '\\t')) {\n        state->pos++;\n        someSpace++;")]),
    ("R4b", "rewrite", "the helper skipPlusmn inlined into skipExponent",
     [("        skipWs(state);\n\n        skipPlusmn(state);\n\n        someNumbers = skipNumbers(state);",
       "        skipWs(state);\n\n        if (!iseos(state) && isplusmn(state->pos[0])) {\n            state->pos++;\n        }\n\n        someNumbers = skipNumbers(state);")]),
    ("R5", "rewrite", "skipWs: the counter `someSpace++` replaced by the pointer difference `state->pos - start`",
     [(SKIPWS, """    const char * start = state->pos;
    while (!iseos(state) && isws(state->pos[0])) {
        state->pos++;
    }

    return state->pos - start;""")]),
    ("R6", "rewrite", "skipDigit: early return on the negated condition (`iseos || !isdigit`) instead of if/else",
     [("""    if (!iseos(state) && isdigit((uint8_t)(state->pos[0]))) {
        state->pos++;
        return SKIP_OK;
    } else {
        return SKIP_NONE;
    }
}

/**
 * Skip multiple decimal digits""", """    if (iseos(state) || !isdigit((uint8_t)(state->pos[0]))) {
        return SKIP_NONE;
    }
    state->pos++;
    return SKIP_OK;
}

/**
 * Skip multiple decimal digits""")]),
    # ---- semantic changes: a proof must break
    ("B1", "break", "skipWs: `!iseos(state) &&` dropped (reads one byte past the end of every buffer that ends in white space)",
     [("    while (!iseos(state) && isws(state->pos[0])) {\n        state->pos++;\n        someSpace++;",
       "    while (isws(state->pos[0])) {\n        state->pos++;\n        someSpace++;")]),
    ("B2", "break", "skipDigit: operands of && swapped (`isdigit(pos[0]) && !iseos`: same value, but the read comes first)",
     [("    if (!iseos(state) && isdigit((uint8_t)(state->pos[0]))) {\n        state->pos++;\n        return SKIP_OK;",
       "    if (isdigit((uint8_t)(state->pos[0])) && !iseos(state)) {\n        state->pos++;\n        return SKIP_OK;")]),
    ("B3", "break", "isqdigit accepts '8'",
     [("(c == '6') || (c == '7'))", "(c == '6') || (c == '7') || (c == '8'))")]),
    ("B4", "break", "skipExponent: skipPlusmn before skipWs (`1E +3` no longer a number, `1E+ 3` becomes one)",
     [("        skipWs(state);\n\n        skipPlusmn(state);\n\n        someNumbers = skipNumbers(state);",
       "        skipPlusmn(state);\n\n        skipWs(state);\n\n        someNumbers = skipNumbers(state);")]),
    ("B5", "break", "decimal recogniser: rollback dropped when the exponent fails (`1 V` swallows the space, `1E` the E)",
     [("        if (!skipExponent(state)) {\n            state->pos = rollback;\n        }", "        skipExponent(state);")]),
    ("B6", "break", "isws accepts '\\n'",
     [("    if ((c == ' ') || (c == '\\t')) {", "    if ((c == ' ') || (c == '\\t') || (c == '\\n')) {")]),
    ("B7", "break", "non-decimal recogniser: `token->ptr += 1` instead of 2 (token extent includes the radix letter)",
     [("        token->ptr += 2; /* ignore number prefix */", "        token->ptr += 1; /* ignore number prefix */")]),
    # ---- round 2 (Lemmas/LexerCTok2.lean: suffix, headers, strings, expression, block)
    ("R7", "rewrite", "suffix: `while (skipSlashDot(state)) {..}` rewritten as `for (;;) { if (!skipSlashDot(state)) break; .. }`",
     [("        while (skipSlashDot(state)) {\n            skipAlpha(state);",
       "        for (;;) {\n            if (!skipSlashDot(state)) break;\n            skipAlpha(state);")]),
    ("R8", "rewrite", "block: `for (; i > 0; i--) { if (c) {..} else break; }` rewritten as `while (i > 0) { if (!c) break; ..; i--; }`",
     [("""            for (; i > 0; i--) {
                if (!iseos(state) && isdigit((uint8_t)(state->pos[0]))) {
                    arbitraryBlockLength *= 10;
                    arbitraryBlockLength += (state->pos[0] - '0');
                    state->pos++;
                } else {
                    break;
                }
            }""", """            while (i > 0) {
                if (iseos(state) || !isdigit((uint8_t)(state->pos[0]))) {
                    break;
                }
                arbitraryBlockLength *= 10;
                arbitraryBlockLength += (state->pos[0] - '0');
                state->pos++;
                i--;
            }""")]),
    ("B8", "break", "skipQuoteProgramData: `!iseos(state) &&` dropped in the look-ahead for a doubled quote (reads past a string that ends the buffer)",
     [("            if (!iseos(state) && ischr(state, quote)) {", "            if (ischr(state, quote)) {")]),
    ("B9", "break", "string recogniser: `!iseos(state) &&` dropped in the test for the closing double quote (`\"abc` reads offset 4)",
     [("            if (!iseos(state) && ischr(state, '\"')) {", "            if (ischr(state, '\"')) {")]),
    ("B10", "break", "block recogniser: `!iseos(state) &&` dropped in the length-digit loop (`#2` reads offset 2)",
     [("                if (!iseos(state) && isdigit((uint8_t)(state->pos[0]))) {\n                    arbitraryBlockLength *= 10;",
       "                if (isdigit((uint8_t)(state->pos[0]))) {\n                    arbitraryBlockLength *= 10;")]),
    ("B11", "break", "suffix loop: `skipChr(state, '-')` dropped inside the loop (`V/S-1` no longer one suffix)",
     [("            skipAlpha(state);\n            skipChr(state, '-');\n            skipDigit(state);\n        }",
       "            skipAlpha(state);\n            skipDigit(state);\n        }")]),
    ("B12", "break", "block recogniser: `>=` replaced by `>` in the end-of-buffer comparison (a block that ends the buffer is incomplete)",
     [("                if ((state->buffer + state->len) >= (state->pos)) {", "                if ((state->buffer + state->len) > (state->pos)) {")]),
    ("B13", "break", "program mnemonic: SKIP_INCOMPLETE and SKIP_OK swapped (a mnemonic that ends the buffer counts as complete)",
     [("        return (state->pos - startPos) * SKIP_INCOMPLETE;\n    } else {\n        return (state->pos - startPos) * SKIP_OK;",
       "        return (state->pos - startPos) * SKIP_OK;\n    } else {\n        return (state->pos - startPos) * SKIP_INCOMPLETE;")]),
]


def sh(cmd, **kw):
    return subprocess.run(cmd, capture_output=True, text=True, **kw)


def decl_at(path, line):
    name = "?"
    for i, l in enumerate(open(path, encoding="utf-8"), 1):
        m = re.match(r"\s*(?:@\[[^\]]*\]\s*)?(?:theorem|example|def|macro|inductive)\s+([\w.']+)?", l)
        if m and i <= line:
            name = m.group(1) or "example(line %d)" % i
    return name


def main():
    full = "--full" in sys.argv
    want = [a for a in sys.argv[1:] if not a.startswith("--")]
    sh(["git", "-C", REPO, "worktree", "remove", "--force", SCRATCH])
    r = sh(["git", "-C", REPO, "worktree", "add", "--detach", SCRATCH, "HEAD"])
    if r.returncode != 0:
        sys.exit("cannot create scratch worktree: " + r.stderr)
    env = dict(os.environ, VERIF_REPO=SCRATCH, LEAN_NUM_THREADS="6")
    rows = []
    try:
        orig = open(LEXER, encoding="latin-1").read()
        for eid, kind, desc, edits in EXPERIMENTS:
            if want and eid not in want:
                continue
            txt = orig
            for old, new in edits:
                if txt.count(old) != 1:
                    sys.exit("%s: pattern occurs %d times: %r" % (eid, txt.count(old), old[:60]))
                txt = txt.replace(old, new)
            open(LEXER, "w", encoding="latin-1").write(txt)
            cc = sh(["gcc", "-fsyntax-only", "-I" + SCRATCH + "/libscpi/inc", "-I" + SCRATCH + "/libscpi/src", LEXER])
            # the table sections too (check.py of the previous experiment regenerated them from the previous edit)
            sh([sys.executable, os.path.join(VERIF, "translate", "extract.py"), "A"], env=env)
            tr = sh([sys.executable, os.path.join(VERIF, "translate", "c2lean_lexer.py")], env=env)
            try:
                failed = json.loads(tr.stdout.strip().splitlines()[-1])["failed"]
            except Exception:
                failed = {"all": tr.stdout[-200:] + tr.stderr[-200:]}
            b = sh(["lake", "build", "ScpiVerif.Props.C13Gen", "ScpiVerif.Props.C01Gen"], cwd=os.path.join(VERIF, "lean"), env=env)
            out = b.stdout + b.stderr
            bad = []
            for m in re.finditer(r"error: (ScpiVerif/[\w/]+\.lean):(\d+):\d+: (.*)", out):
                d = "%s:%s" % (m.group(1).replace("ScpiVerif/", "").replace(".lean", ""), decl_at(os.path.join(VERIF, "lean", m.group(1)), int(m.group(2))))
                if d not in bad:
                    bad.append(d)
            row = {"id": eid, "kind": kind, "what": desc, "c_compiles": cc.returncode == 0, "translator_failed": failed,
                   "build_ok": b.returncode == 0, "broken_declarations": bad}
            if full and kind == "break":
                c = sh([sys.executable, os.path.join(VERIF, "tools", "check.py"), "C13", "--tier", "quick"], env=env, cwd=VERIF)
                lines = [l for l in c.stdout.splitlines() if l.startswith(("VIOLATION", "ok ", "FAIL ", "KNOWN"))]
                row["check_exit"] = c.returncode
                row["check_lines"] = [l[:400] for l in lines]
                row["harness_alone"] = any(("rejects" in l and not re.search(r"rejects 0\b", l)) or "fault" in l.lower() and not re.search(r"faults 0\b", l) or "replay=" in l for l in lines)
            row["as_expected"] = (kind == "rewrite") == row["build_ok"]
            rows.append(row)
            print(json.dumps(row), flush=True)
    finally:
        sh(["git", "-C", REPO, "worktree", "remove", "--force", SCRATCH])
        base_env = dict(os.environ)
        base_env.pop("VERIF_REPO", None)
        sh([sys.executable, os.path.join(VERIF, "translate", "extract.py"), "A"], env=base_env)   # Gen/*.lean from /repo again
    print("\n| id | kind | change | translator | lake build C13Gen C01Gen | broken declarations |" + (" check.py C13 (harness) |" if full else ""))
    print("|---|---|---|---|---|---|" + ("---|" if full else ""))
    for r in rows:
        print("| %s | %s | %s | %s | %s | %s |%s" % (r["id"], r["kind"], r["what"], "ok" if not r["translator_failed"] else "REFUSED: " + "; ".join("%s" % v for v in r["translator_failed"].values())[:160],
              "ok" if r["build_ok"] else "FAILS", ", ".join(r["broken_declarations"]) or "-",
              (" exit %d: %s |" % (r["check_exit"], "; ".join(r["check_lines"])[:260]) if "check_exit" in r else (" - |" if full else ""))))


if __name__ == "__main__":
    main()
