#!/usr/bin/env python3
"""Self-test of translate/c2lean.py: constructs outside the subset must be REFUSED (never guessed), constructs inside it must
translate to text that Lean accepts.  Each case is a C file of its own (it includes fifo_private.h of $VERIF_REPO) with one
function `t(scpi_fifo_t * fifo, ...)`.

    python3 tools/c2lean_selftest.py          exit 0 when every case behaves as listed
"""
import os, sys, subprocess, tempfile
HERE = os.path.dirname(os.path.abspath(__file__))
VERIF = os.path.dirname(HERE)
sys.path.insert(0, os.path.join(VERIF, "translate"))
import c2lean  # noqa: E402

# (name, parameters after `fifo`, return type, body, expected: None = translates, or a fragment of the refusal message)
CASES = [
    ("ok_plain", "", "void", "fifo->wr = 1; fifo->rd = fifo->wr + 2;", None),
    ("ok_ternary", "", "void", "fifo->wr = fifo->wr == 0 ? fifo->size - 1 : fifo->wr - 1;", None),
    ("ok_local", "", "scpi_bool_t", "int16_t n = fifo->wr + 1; if (n >= fifo->size) { n = 0; } else { n += 1; } fifo->wr = n; return n != 0;", None),
    ("ok_null_guard", ", scpi_error_t * v", "scpi_bool_t", "if (v == NULL || fifo->count == 0) { return FALSE; } *v = fifo->data[fifo->rd]; return TRUE;", None),
    ("ok_and_guard", ", scpi_error_t * v", "void", "if (v && fifo->count != 0) { *v = fifo->data[0]; }", None),
    ("ok_cast", "", "void", "fifo->wr = (int16_t) (fifo->wr + 30000);", None),
    ("ok_mask", "", "void", "fifo->wr = (fifo->wr + 1) & (fifo->size - 1);", None),
    ("ok_required_ptr", ", int16_t * n", "void", "*n = fifo->count; *n += 1;", None),
    ("no_while", "", "void", "while (fifo->wr != 0) { fifo->wr -= 1; }", "WhileStmt"),
    ("no_for", "", "void", "int16_t i; for (i = 0; i < 3; i++) { fifo->wr += 1; }", "without an initialiser"),
    ("no_for2", "", "void", "for (;;) { fifo->wr += 1; }", "ForStmt"),
    ("no_switch", "", "void", "switch (fifo->wr) { case 0: fifo->rd = 1; break; default: break; }", "SwitchStmt"),
    ("no_goto", "", "void", "again: fifo->wr += 1; if (fifo->wr < 3) goto again;", "LabelStmt"),
    ("no_deref_unguarded", ", scpi_error_t * v", "void", "if (fifo->count != 0) { *v = fifo->data[0]; } if (v) { fifo->wr = 0; }", "may be NULL"),
    ("no_deref_null", ", scpi_error_t * v", "void", "if (!v) { *v = fifo->data[0]; }", "is NULL"),
    ("no_overflow", ", int n", "void", "fifo->wr = (int16_t) (n + 1);", "signed overflow"),
    ("no_mul", "", "void", "fifo->wr = fifo->wr * 2;", "binary operator '*'"),
    ("no_div", "", "void", "fifo->wr = fifo->wr / 2;", "binary operator '/'"),
    ("no_shift", "", "void", "fifo->wr = fifo->wr << 1;", "binary operator '<<'"),
    ("no_unsigned", ", unsigned n", "void", "fifo->wr = 0;", "type 'unsigned"),
    ("no_unsigned_lit", "", "void", "fifo->wr = 1u;", "unsigned int"),
    ("no_assign_in_expr", "", "void", "fifo->wr = fifo->rd = 0;", "binary operator '='"),
    ("no_inc_in_expr", "", "void", "fifo->wr = fifo->rd++;", "unary operator '++'"),
    ("no_comma", "", "void", "fifo->wr = (fifo->rd, 1);", "binary operator ','"),
    ("no_ptr_arith", "", "void", "fifo->data = fifo->data + 1;", "array field"),
    ("no_elem_member", ", scpi_error_t * v", "void", "if (v) { v->error_code = 0; }", "assignment to this member"),
    ("no_param_assign", ", int16_t n", "void", "n = 3; fifo->wr = n;", "left-hand side"),
    ("no_ptr_assign", ", scpi_error_t * v", "void", "v = NULL; fifo->wr = 0;", "left-hand side"),
    ("no_struct_copy", ", scpi_fifo_t * g", "void", "*fifo = *g;", "two state pointers"),
    ("no_unknown_call", "", "void", "fifo->wr = (int16_t) strlen(\"ab\");", "not a function translated before"),
    ("no_uninit", "", "void", "int16_t n; fifo->wr = n;", "without an initialiser"),
    ("no_missing_return", "", "scpi_bool_t", "if (fifo->wr == 0) { return TRUE; }", "reaches the end"),
    ("ok_narrowing_store", ", int16_t * n", "void", "*n = fifo->count + 1;", None),   # IntegralCast in the AST: wrap16
    ("no_static_local", "", "void", "static int16_t k = 0; fifo->wr = k;", "declaration"),
    ("no_sizeof", "", "void", "fifo->wr = (int16_t) sizeof(int);", "UnaryExprOrTypeTraitExpr"),
    ("no_bitnot", "", "void", "fifo->wr = ~fifo->wr;", "unary operator '~'"),
    ("no_addr_of", ", int16_t * n", "void", "int16_t k = 0; n = &k; fifo->wr = 0;", "unary operator '&'"),
]


def main():
    tmp = tempfile.mkdtemp(prefix="c2l_selftest_")
    bad = 0
    good_texts = []
    for name, params, ret, body, expect in CASES:
        path = os.path.join(tmp, name + ".c")
        with open(path, "w") as f:
            f.write('#include <string.h>\n#include "fifo_private.h"\n%s t(scpi_fifo_t * fifo%s) { %s }\n' % (ret, params, body))
        try:
            text, failed = c2lean.translate_file(path, wanted=["t"], namespace="SelfTest." + name)
        except c2lean.Unsupported as e:
            text, failed = "", {"t": str(e)}
        why = failed.get("t")
        if expect is None:
            if why:
                print("FAIL %-28s should translate, refused: %s" % (name, why)); bad += 1
            else:
                good_texts.append((name, text))
                print("ok   %-28s translated" % name)
        else:
            if not why:
                print("FAIL %-28s should be refused (%s) but was translated" % (name, expect)); bad += 1
            elif expect not in why:
                print("FAIL %-28s refused for another reason: %s (expected: %s)" % (name, why, expect)); bad += 1
            else:
                print("ok   %-28s refused: %s" % (name, why[:110]))
    # the accepted ones must be accepted by Lean too
    lean = os.path.join(tmp, "All.lean")
    with open(lean, "w") as f:
        for name, text in good_texts:
            f.write(text.replace("set_option linter.unusedVariables false\n", "") + "\n")
    r = subprocess.run(["lake", "env", "lean", lean], cwd=os.path.join(VERIF, "lean"), capture_output=True, text=True)
    errs = [l for l in (r.stdout + r.stderr).splitlines() if "error" in l]
    if r.returncode != 0 or errs:
        print("FAIL Lean rejects the generated text of the accepted cases:\n" + "\n".join(errs[:10])); bad += 1
    else:
        print("ok   Lean accepts the generated text of the %d accepted cases" % len(good_texts))
    print("%d problem(s)" % bad)
    sys.exit(1 if bad else 0)


if __name__ == "__main__":
    main()
