#!/usr/bin/env python3
"""Experiments for the C -> Lean tie of the stateful core of parser.c (notes/EXT_GEN_INPUT_REPORT.md): behaviour-preserving
rewrites of the response framing functions / SCPI_Input should leave the refinement proofs intact, semantic changes must break one.

    python3 tools/c2lean_parser_experiments.py [id ...]

Works in a scratch worktree of the C repository (/tmp/geninput_scratch), never touches /repo.  For every experiment: apply the
textual edit to libscpi/src/parser.c, run the translator (VERIF_REPO=scratch), `lake build` the two property modules, report the
declarations that fail.  The generated files are restored from the unchanged /repo at the end.
"""
import os, re, subprocess, sys, json
HERE = os.path.dirname(os.path.abspath(__file__))
VERIF = os.path.dirname(HERE)
REPO = "/repo"
SCRATCH = os.environ.get("GENINPUT_SCRATCH", "/tmp/geninput_scratch")
SRC = os.path.join(SCRATCH, "libscpi", "src", "parser.c")
MODS = {"result_c": "ScpiVerif.Props.C06Gen", "input_c": "ScpiVerif.Props.C01InputGen"}
EXTRA_MODS = ["ScpiVerif.Props.C09InputGen"]      # further modules that rest on the generated SCPI_Input

BREAKS2 = ("                if (context->parser_state.programHeader.type == SCPI_TOKEN_UNKNOWN\n"
           "                        && context->parser_state.termination == SCPI_MESSAGE_TERMINATION_NONE) break;\n"
           "                if (totcmdlen >= context->buffer.position) break;\n")
DELIM = ("    if (context->output_count > 0) {\n        return writeData(context, \",\", 1);\n    } else if (context->output_count < 0) {\n"
         "        /* first result of this unit and some previous unit has already responded */\n        context->output_count = 0;\n"
         "        return writeData(context, \";\", 1);\n    } else {\n        return 0;\n    }\n")

EXPERIMENTS = [
    ("R1", "rewrite", "input_c", "SCPI_Input: `while (1)` written as `for (;;)`",
     [("        while (1) {\n            cmdlen = scpiParser", "        for (;;) {\n            cmdlen = scpiParser")]),
    ("R2", "rewrite", "input_c", "SCPI_Input: the two break conditions merged into one `if (a || b) break;`",
     [(BREAKS2, "                if ((context->parser_state.programHeader.type == SCPI_TOKEN_UNKNOWN\n"
                "                        && context->parser_state.termination == SCPI_MESSAGE_TERMINATION_NONE)\n"
                "                        || totcmdlen >= context->buffer.position) break;\n")]),
    ("R3", "rewrite", "input_c", "SCPI_Input: `buffer_free` eliminated (`(size_t) len >= length - position`)",
     [("        int buffer_free;\n\n        buffer_free = context->buffer.length - context->buffer.position;\n        if (len > (buffer_free - 1)) {",
       "        if ((size_t) len >= context->buffer.length - context->buffer.position) {")]),
    ("R4", "rewrite", "result_c", "writeDelimiter: if-chain reordered (`< 0` case first)",
     [(DELIM, "    if (context->output_count < 0) {\n        context->output_count = 0;\n        return writeData(context, \";\", 1);\n"
              "    } else if (context->output_count > 0) {\n        return writeData(context, \",\", 1);\n    }\n    return 0;\n")]),
    ("R5", "rewrite", "input_c", "SCPI_Input: a local `char * buf = context->buffer.data` used for the NUL store of the overrun path",
     [("            context->buffer.position = 0;\n            context->buffer.data[context->buffer.position] = 0;\n",
       "            char * buf = context->buffer.data;\n            context->buffer.position = 0;\n            buf[context->buffer.position] = 0;\n")]),
    ("R6", "rewrite", "result_c", "writeNewLine: early return (`if (context->first_output) return 0;`), length as sizeof - 1, no local",
     [("    if (!context->first_output) {\n        size_t len;\n", "    if (context->first_output) return 0;\n    {\n        size_t len;\n"),
      ("        len = writeData(context, SCPI_LINE_ENDING, strlen(SCPI_LINE_ENDING));\n        flushData(context);\n        return len;\n    } else {\n        return 0;\n    }\n",
       "        len = writeData(context, SCPI_LINE_ENDING, sizeof(SCPI_LINE_ENDING) - 1);\n        flushData(context);\n        return len;\n    }\n")]),
    ("B1", "break", "result_c", "writeDelimiter: `output_count > 0` -> `>= 0`",
     [("    if (context->output_count > 0) {\n        return writeData(context, \",\", 1);\n    } else if", "    if (context->output_count >= 0) {\n        return writeData(context, \",\", 1);\n    } else if")]),
    ("B2", "break", "result_c", "writeDelimiter: the reset `output_count = 0` of the ';' branch dropped",
     [("        context->output_count = 0;\n        return writeData(context, \";\", 1);", "        return writeData(context, \";\", 1);")]),
    ("B3", "break", "result_c", "writeNewLine: flushes unconditionally (also when nothing was written)",
     [("        flushData(context);\n        return len;\n    } else {\n        return 0;", "        flushData(context);\n        return len;\n    } else {\n        flushData(context);\n        return 0;")]),
    ("B4", "break", "input_c", "SCPI_Input: overrun test `len > (buffer_free - 1)` -> `len > buffer_free` (the NUL no longer fits)",
     [("        if (len > (buffer_free - 1)) {", "        if (len > buffer_free) {")]),
    ("B5", "break", "input_c", "SCPI_Input: the NUL store of the zero-length path removed",
     [("    if (len == 0) {\n        context->buffer.data[context->buffer.position] = 0;\n", "    if (len == 0) {\n")]),
    ("B6", "break", "input_c", "SCPI_Input: memmove length `position - cmdlen` instead of `position - totcmdlen`",
     [("memmove(context->buffer.data, context->buffer.data + totcmdlen, context->buffer.position - totcmdlen);",
       "memmove(context->buffer.data, context->buffer.data + totcmdlen, context->buffer.position - cmdlen);")]),
    ("B7", "break", "input_c", "SCPI_Input: `totcmdlen = 0` after a parsed message dropped",
     [("                context->buffer.position -= totcmdlen;\n                totcmdlen = 0;\n", "                context->buffer.position -= totcmdlen;\n")]),
    ("B8", "break", "input_c", "SCPI_Input: `result = result && SCPI_Parse(...)` in the loop (a failed message suppresses the following ones)",
     [("                result = SCPI_Parse(context, context->buffer.data, totcmdlen);", "                result = result && SCPI_Parse(context, context->buffer.data, totcmdlen);")]),
]


def sh(cmd, **kw):
    return subprocess.run(cmd, capture_output=True, text=True, **kw)


def decl_at(path, line):
    name = "?"
    for i, l in enumerate(open(path, encoding="utf-8"), 1):
        m = re.match(r"\s*(?:theorem|example|def|macro|inductive|structure)\s+([\w.']+)?", l)
        if m and i <= line:
            name = m.group(1) or "example(line %d)" % i
    return name


def main():
    want = [a for a in sys.argv[1:] if not a.startswith("--")]
    sh(["git", "-C", REPO, "worktree", "remove", "--force", SCRATCH])
    r = sh(["git", "-C", REPO, "worktree", "add", "--detach", SCRATCH, "HEAD"])
    if r.returncode != 0:
        sys.exit("cannot create scratch worktree: " + r.stderr)
    env = dict(os.environ, VERIF_REPO=SCRATCH, LEAN_NUM_THREADS="6")
    rows = []
    try:
        orig = open(SRC, encoding="latin-1").read()
        for eid, kind, sec, desc, edits in EXPERIMENTS:
            if want and eid not in want:
                continue
            txt = orig
            for old, new in edits:
                if txt.count(old) != 1:
                    sys.exit("%s: pattern occurs %d times: %r" % (eid, txt.count(old), old[:60]))
                txt = txt.replace(old, new)
            open(SRC, "w", encoding="latin-1").write(txt)
            cc = sh(["gcc", "-fsyntax-only", "-I" + SCRATCH + "/libscpi/inc", "-I" + SCRATCH + "/libscpi/src", SRC])
            tr = sh([sys.executable, os.path.join(VERIF, "translate", "c2lean_parser.py")], env=env)
            try:
                res = json.loads(tr.stdout.strip().splitlines()[-1])
                failed = {k: v["failed"] for k, v in res.items() if v["failed"]}
            except Exception:
                failed = {"all": tr.stdout[-200:] + tr.stderr[-200:]}
            b = sh(["lake", "build"] + sorted(set(MODS.values())) + EXTRA_MODS, cwd=os.path.join(VERIF, "lean"), env=env)
            out = b.stdout + b.stderr
            bad = []
            for m in re.finditer(r"error: (ScpiVerif/[\w/]+\.lean):(\d+):\d+: (.*)", out):
                d = "%s:%s" % (m.group(1).replace("ScpiVerif/", "").replace(".lean", ""), decl_at(os.path.join(VERIF, "lean", m.group(1)), int(m.group(2))))
                if d not in bad:
                    bad.append(d)
            row = {"id": eid, "kind": kind, "section": sec, "what": desc, "c_compiles": cc.returncode == 0, "translator_failed": failed,
                   "build_ok": b.returncode == 0, "broken_declarations": bad}
            row["as_expected"] = (kind == "rewrite") == row["build_ok"]
            rows.append(row)
            print(json.dumps(row), flush=True)
    finally:
        sh(["git", "-C", REPO, "worktree", "remove", "--force", SCRATCH])
        base = dict(os.environ)
        base.pop("VERIF_REPO", None)
        sh([sys.executable, os.path.join(VERIF, "translate", "c2lean_parser.py")], env=base)
    print("\n| id | kind | change | C compiles | translator | lake build | broken declarations |")
    print("|---|---|---|---|---|---|---|")
    for r in rows:
        print("| %s | %s | %s | %s | %s | %s | %s |" % (r["id"], r["kind"], r["what"], "yes" if r["c_compiles"] else "NO",
              "ok" if not r["translator_failed"] else "REFUSED: " + json.dumps(r["translator_failed"])[:200],
              "ok" if r["build_ok"] else "FAILS", ", ".join(r["broken_declarations"]) or "-"))


if __name__ == "__main__":
    main()
