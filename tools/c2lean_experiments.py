#!/usr/bin/env python3
"""Experiments for the C -> Lean tie of fifo.c (notes/EXT_C2LEAN_REPORT.md): behaviour-preserving rewrites of fifo.c must leave
the refinement proofs intact, semantic changes must break one.

    python3 tools/c2lean_experiments.py [--full] [id ...]

Works in a scratch worktree of the C repository (/tmp/c2l_scratch, created with `git -C /repo worktree add --detach`, removed at
the end); never touches /repo's files.  For every experiment: apply the textual edit to libscpi/src/fifo.c, run the translator
(VERIF_REPO=/tmp/c2l_scratch), `lake build ScpiVerif.Props.C10`, report which declarations fail; with --full also
`tools/check.py C10 --tier quick` (harness + differential search for a concrete failing input).  The generated files are restored
from the unchanged /repo at the end (with --full, run `tools/check.py C10` once more afterwards to rewrite evidence/C10.json).
"""
import os, re, subprocess, sys, json
HERE = os.path.dirname(os.path.abspath(__file__))
VERIF = os.path.dirname(HERE)
REPO = "/repo"
SCRATCH = "/tmp/c2l_scratch"
FIFO = os.path.join(SCRATCH, "libscpi", "src", "fifo.c")

ADD_WR = "fifo->wr = (fifo->wr + 1) % (fifo->size);"
RM_RD = "fifo->rd = (fifo->rd + 1) % (fifo->size);"
RL_WR = "fifo->wr = (fifo->wr + fifo->size - 1) % (fifo->size);"

EXPERIMENTS = [
    # ---- behaviour-preserving rewrites: the proofs must survive
    ("R1", "rewrite", "remove_last: modulo replaced by `fifo->wr == 0 ? fifo->size - 1 : fifo->wr - 1`",
     [(RL_WR, "fifo->wr = fifo->wr == 0 ? fifo->size - 1 : fifo->wr - 1;")]),
    ("R2", "rewrite", "add / remove: independent assignments reordered (count first)",
     [("    fifo->data[fifo->wr] = *value;\n    " + ADD_WR + "\n    fifo->count += 1;",
       "    fifo->count += 1;\n    fifo->data[fifo->wr] = *value;\n    " + ADD_WR),
      ("    " + RM_RD + "\n    fifo->count -= 1;", "    fifo->count -= 1;\n    " + RM_RD)]),
    ("R3", "rewrite", "add: local temporary and an if instead of the modulo; remove: `--` and `x = x - 1` forms",
     [(ADD_WR, "{0}")  # placeholder, replaced below
      ]),
    ("R4", "rewrite", "tests respelled: `fifo->count >= fifo->size`, `value == NULL`, `fifo->count <= 0`, if/else instead of early return",
     [("    if (fifo_is_full(fifo)) {\n        return FALSE;\n    }\n    if (!value) {", "    if (fifo->count >= fifo->size) {\n        return FALSE;\n    }\n    if (value == NULL) {"),
      ("scpi_bool_t fifo_is_empty(scpi_fifo_t * fifo) {\n    return fifo->count == 0;", "scpi_bool_t fifo_is_empty(scpi_fifo_t * fifo) {\n    return fifo->count <= 0;")]),
    ("R5", "rewrite", "init calls clear (a function defined later in the file); remove_last computes the index into a local, reads the element, then stores the index",
     [("    fifo->wr = 0;\n    fifo->rd = 0;\n    fifo->count = 0;\n    fifo->data = data;", "    fifo_clear(fifo);\n    fifo->data = data;"),
      ("    " + RL_WR + "\n\n    if (value) {\n        *value = fifo->data[fifo->wr];\n    }",
       "    int16_t last = (fifo->wr + fifo->size - 1) % fifo->size;\n    if (value != NULL) {\n        *value = fifo->data[last];\n    }\n    fifo->wr = last;")]),
    ("R6", "rewrite", "add: both refusals merged into one condition `fifo_is_full(fifo) || !value`",
     [("    if (fifo_is_full(fifo)) {\n        return FALSE;\n    }\n    if (!value) {", "    if (fifo_is_full(fifo) || !value) {")]),
    ("U1", "outside-subset", "clear rewritten with a loop (outside the subset): only what depends on fifo_clear may stop building",
     [("void fifo_clear(scpi_fifo_t * fifo) {\n    fifo->wr = 0;", "void fifo_clear(scpi_fifo_t * fifo) {\n    while (fifo->wr != 0) { fifo->wr -= 1; }")]),
    # ---- semantic changes: a proof must break
    ("B1", "break", "add: `% size` replaced by `& (size - 1)` (right only for powers of two)",
     [(ADD_WR, "fifo->wr = (fifo->wr + 1) & (fifo->size - 1);")]),
    ("B2", "break", "clear no longer rewinds rd",
     [("void fifo_clear(scpi_fifo_t * fifo) {\n    fifo->wr = 0;\n    fifo->rd = 0;", "void fifo_clear(scpi_fifo_t * fifo) {\n    fifo->wr = 0;")]),
    ("B3", "break", "remove_last: `count -= 1` dropped",
     [("        *value = fifo->data[fifo->wr];\n    }\n    fifo->count -= 1;", "        *value = fifo->data[fifo->wr];\n    }")]),
    ("B4", "break", "remove_last: `(wr - 1) % size` (C remainder of a negative number is negative: index -1)",
     [(RL_WR, "fifo->wr = (fifo->wr - 1) % (fifo->size);")]),
    ("B5", "break", "add: element stored after the index moved (writes the wrong slot)",
     [("    fifo->data[fifo->wr] = *value;\n    " + ADD_WR, "    " + ADD_WR + "\n    fifo->data[fifo->wr] = *value;")]),
    ("B6", "break", "remove: NULL out pointer no longer advances the queue (rd/count updated only inside `if (value)`)",
     [("        *value = fifo->data[fifo->rd];\n    }\n\n    " + RM_RD + "\n    fifo->count -= 1;\n",
       "        *value = fifo->data[fifo->rd];\n        " + RM_RD + "\n        fifo->count -= 1;\n    }\n")]),
]
# R3 needs a multi-line replacement
EXPERIMENTS[2] = ("R3", "rewrite", "add: local temporary and an if instead of the modulo; remove: `count--`; remove_last: `count = count - 1`",
    [("    " + ADD_WR, "    int16_t next = fifo->wr + 1;\n    if (next == fifo->size) {\n        next = 0;\n    }\n    fifo->wr = next;"),
     ("    " + RM_RD + "\n    fifo->count -= 1;", "    " + RM_RD + "\n    fifo->count--;"),
     ("        *value = fifo->data[fifo->wr];\n    }\n    fifo->count -= 1;", "        *value = fifo->data[fifo->wr];\n    }\n    fifo->count = fifo->count - 1;")])


def sh(cmd, **kw):
    return subprocess.run(cmd, capture_output=True, text=True, **kw)


def decl_at(path, line):
    name = "?"
    for i, l in enumerate(open(path, encoding="utf-8"), 1):
        m = re.match(r"\s*(?:theorem|example|def|macro|inductive)\s+([\w.']+)?", l)
        if m and i <= line:
            name = m.group(1) or "example(line %d)" % i
    return name


def main():
    full = "--full" in sys.argv
    want = [a for a in sys.argv[1:] if not a.startswith("--")]
    sh(["git", "-C", REPO, "worktree", "remove", "--force", SCRATCH])
    r = sh(["git", "-C", REPO, "worktree", "add", "--detach", SCRATCH, "HEAD"])
    if r.returncode != 0:
        sys.exit("cannot create scratch worktree: " + r.stderr)
    env = dict(os.environ, VERIF_REPO=SCRATCH, LEAN_NUM_THREADS="8")
    rows = []
    try:
        orig = open(FIFO, encoding="latin-1").read()
        for eid, kind, desc, edits in EXPERIMENTS:
            if want and eid not in want:
                continue
            txt = orig
            for old, new in edits:
                if txt.count(old) != 1:
                    sys.exit("%s: pattern occurs %d times: %r" % (eid, txt.count(old), old[:60]))
                txt = txt.replace(old, new)
            open(FIFO, "w", encoding="latin-1").write(txt)
            cc = sh(["gcc", "-fsyntax-only", "-I" + SCRATCH + "/libscpi/inc", "-I" + SCRATCH + "/libscpi/src", FIFO])
            tr = sh([sys.executable, os.path.join(VERIF, "translate", "c2lean.py")], env=env)
            try:
                failed = json.loads(tr.stdout.strip().splitlines()[-1])["failed"]
            except Exception:
                failed = {"all": tr.stdout[-200:] + tr.stderr[-200:]}
            b = sh(["lake", "build", "ScpiVerif.Props.C10"], cwd=os.path.join(VERIF, "lean"), env=env)
            out = b.stdout + b.stderr
            bad = []
            for m in re.finditer(r"error: (ScpiVerif/[\w/]+\.lean):(\d+):\d+: (.*)", out):
                d = "%s:%s" % (m.group(1).replace("ScpiVerif/", "").replace(".lean", ""), decl_at(os.path.join(VERIF, "lean", m.group(1)), int(m.group(2))))
                if d not in bad:
                    bad.append(d)
            row = {"id": eid, "kind": kind, "what": desc, "c_compiles": cc.returncode == 0, "translator_failed": failed,
                   "build_ok": b.returncode == 0, "broken_declarations": bad}
            if full:
                c = sh([sys.executable, os.path.join(VERIF, "tools", "check.py"), "C10", "--tier", "quick"], env=env, cwd=VERIF)
                lines = [l for l in c.stdout.splitlines() if l.startswith(("VIOLATION", "ok ", "FAIL ", "KNOWN"))]
                row["check_exit"] = c.returncode
                row["check_lines"] = lines
                for l in lines:
                    m = re.search(r"replay=(\S+)", l)
                    if m and os.path.exists(m.group(1)):
                        row.setdefault("replay_head", []).append([x.rstrip("\n")[:300] for x in open(m.group(1))][:8])
            expected = (kind == "rewrite") == row["build_ok"] if kind != "outside-subset" else (bool(failed) and not row["build_ok"])
            row["as_expected"] = expected
            rows.append(row)
            print(json.dumps(row), flush=True)
    finally:
        sh(["git", "-C", REPO, "worktree", "remove", "--force", SCRATCH])
        base = dict(os.environ)
        base.pop("VERIF_REPO", None)
        sh([sys.executable, os.path.join(VERIF, "translate", "extract.py"), "A"], env=base)   # Gen/Tables.lean and Gen/FifoC.lean from /repo again
    print("\n| id | kind | change | translator | lake build Props.C10 | broken declarations |" + (" check.py C10 |" if full else ""))
    print("|---|---|---|---|---|---|" + ("---|" if full else ""))
    for r in rows:
        print("| %s | %s | %s | %s | %s | %s |%s" % (r["id"], r["kind"], r["what"], "ok" if not r["translator_failed"] else "REFUSED: " + "; ".join("%s" % v for v in r["translator_failed"].values())[:160],
              "ok" if r["build_ok"] else "FAILS", ", ".join(r["broken_declarations"]) or "-",
              (" exit %d: %s |" % (r["check_exit"], "; ".join(r["check_lines"])[:200]) if full else "")))


if __name__ == "__main__":
    main()
