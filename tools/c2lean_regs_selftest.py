#!/usr/bin/env python3
"""Self-test of translate/c2lean_regs.py: constructs outside the subset must be REFUSED (never guessed), constructs inside
it must translate to text that Lean accepts.  Each case is a C file of its own: ieee488.c of $VERIF_REPO with one function
`t(scpi_t * context, scpi_reg_name_t name, scpi_reg_val_t val)` appended.

    python3 tools/c2lean_regs_selftest.py          exit 0 when every case behaves as listed
"""
import os, sys, subprocess, tempfile
HERE = os.path.dirname(os.path.abspath(__file__))
VERIF = os.path.dirname(HERE)
sys.path.insert(0, os.path.join(VERIF, "translate"))
import c2lean_regs as T  # noqa: E402
from c2lean import Unsupported  # noqa: E402

G = "scpi_reg_group_info_t g = scpi_reg_group_details[scpi_reg_details[name].group]; "
# (name, return type, body, expected: None = translates, or a fragment of the refusal message)
CASES = [
    ("ok_bits", "scpi_reg_val_t", "scpi_reg_val_t x = (val ^ 0x00FF) | (val & ~STB_SRQ); x &= ~val; x |= 1; x ^= val; return x;", None),
    ("ok_store", "void", "if (name < SCPI_REG_COUNT) { context->registers[name] = val | context->registers[SCPI_REG_STB]; }", None),
    ("ok_bool", "scpi_bool_t", "scpi_bool_t b = val & 0x20; if (!b || (val == 3 && name != SCPI_REG_NONE)) { return TRUE; } return b ? FALSE : TRUE;", None),
    ("ok_struct", "scpi_reg_val_t", G + "return g.parent_reg == SCPI_REG_NONE ? 0 : g.parent_bit;", None),
    ("ok_switch_default", "scpi_reg_val_t", "switch (scpi_reg_details[name].type) { case SCPI_REG_CLASS_STB: val |= 1; case SCPI_REG_CLASS_SRE: val |= 2; break; default: val = 0; break; case SCPI_REG_CLASS_COND: return 7; } return val;", None),
    ("ok_while", "void", "while (name != SCPI_REG_NONE) { " + G + "SCPI_RegSet(context, name, val); if (g.parent_reg == name) { break; } name = g.parent_reg; }", None),
    ("ok_for_continue", "void", "for (; name < SCPI_REG_COUNT; name = scpi_reg_group_details[0].enable) { if (val == 0) { val = 1; continue; } context->registers[name] = val; return; }", None),
    ("ok_callback", "size_t", "if (context->interface && context->interface->control) { return context->interface->control(context, SCPI_CTRL_SRQ, val); } return 0;", None),
    ("ok_call_value", "scpi_reg_val_t", "size_t n = writeControl(context, SCPI_CTRL_SRQ, val); if (n != 0) { return 1; } return SCPI_RegGet(context, name);", None),
    ("no_truth_after_not", "void", "if (~val) { context->registers[0] = 1; }", "upper bits"),
    ("no_compare_after_not", "scpi_bool_t", "return (~val) == 0xFFFF;", "upper bits"),
    ("no_compare_after_not2", "scpi_bool_t", "return (val | ~val) == val;", "upper bits"),
    ("no_bool_after_not", "scpi_bool_t", "scpi_bool_t b = ~val; return b;", "upper bits"),
    ("no_plus", "scpi_reg_val_t", "return val + 1;", "binary operator +"),
    ("no_shift", "scpi_reg_val_t", "return val << 1;", "binary operator <<"),
    ("no_shift_r", "scpi_reg_val_t", "return val >> 1;", "binary operator >>"),
    ("no_minus", "scpi_reg_val_t", "return -val;", "unary operator -"),
    ("no_incr", "void", "val++; context->registers[0] = val;", "UnaryOperator"),
    ("no_plus_assign", "void", "val += 2; context->registers[0] = val;", "compound assignment +="),
    ("no_enum_arith", "void", "name = name + 1; context->registers[0] = val;", "binary operator +"),
    ("no_enum_as_value", "scpi_reg_val_t", "return (scpi_reg_val_t) name;", "uint16_t"),
    ("no_value_as_enum", "void", "SCPI_RegSet(context, val, val);", "unsigned int / enum"),
    ("no_order_compare", "scpi_bool_t", "return val < 3;", "ordering comparison"),
    ("no_nested_loop", "void", "while (name != SCPI_REG_NONE) { while (val != 0) { val &= 1; } name = SCPI_REG_NONE; }", "nested loop"),
    ("no_goto", "void", "again: val &= 1; if (val != 0) goto again;", "LabelStmt"),
    ("no_uninit", "scpi_reg_val_t", "scpi_reg_val_t x; if (val != 0) { x = 1; } return x;", "not assigned on every path"),
    ("no_uninit_loop", "void", "scpi_reg_val_t x; do { if (val == 0) { context->registers[0] = x; } x = 1; val = 0; } while (name != SCPI_REG_NONE);", "not assigned on every path"),
    ("no_callback_in_expr", "void", "if (context->interface->control(context, SCPI_CTRL_SRQ, val) == SCPI_RES_OK) { context->registers[0] = 1; }", "callback inside an expression"),
    ("no_writer_in_expr", "void", "if (writeControl(context, SCPI_CTRL_SRQ, val) != 0) { context->registers[0] = 1; }", "inside an expression"),
    ("no_const_index", "void", "context->registers[SCPI_REG_NONE] = val;", "constant index 11 outside"),
    ("no_table_store", "void", "scpi_reg_info_t d = scpi_reg_details[name]; d.type = SCPI_REG_CLASS_STB; context->registers[0] = val;", "left-hand side"),
    ("no_static_local", "void", "static scpi_reg_val_t k = 0; context->registers[0] = k;", "static local"),
    ("no_shadow", "void", "scpi_reg_val_t x = 1; { scpi_reg_val_t x = 2; context->registers[0] = x; }", "shadows"),
    ("no_assign_in_expr", "void", "scpi_reg_val_t x; context->registers[0] = x = val;", "inside an expression"),
    ("no_comma", "scpi_reg_val_t", "return (val, 1);", "inside an expression"),
    ("no_unknown_call", "void", "SCPI_ErrorClear(context);", "not translated"),
    ("no_other_member", "void", "context->output_count = 0;", "int_fast16_t"),
    ("no_missing_return", "scpi_reg_val_t", "if (val == 0) { return 1; }", "reaches the end"),
    ("no_bool_as_number", "scpi_reg_val_t", "scpi_bool_t b = val & 1; return val | b;", "bool value"),
    ("no_case_decl", "void", "switch (name) { case SCPI_REG_STB: ; scpi_reg_val_t x = 1; context->registers[0] = x; break; default: break; }", "declaration directly inside a switch"),
]


def main():
    tmp = tempfile.mkdtemp(prefix="c2lregs_selftest_")
    base = open(os.path.join(T.repo(), "libscpi", "src", "ieee488.c"), encoding="latin-1").read()
    bad, good_texts = 0, []
    for name, ret, body, expect in CASES:
        path = os.path.join(tmp, name + ".c")
        with open(path, "w", encoding="latin-1") as f:
            f.write(base + "\n%s t(scpi_t * context, scpi_reg_name_t name, scpi_reg_val_t val) { %s }\n" % (ret, body))
        try:
            text, failed = T.translate_file(path, wanted=["t"])
        except Unsupported as e:
            text, failed = "", {"t": str(e)}
        why = failed.get("t")
        if expect is None:
            if why:
                print("FAIL %-24s should translate, refused: %s" % (name, why)); bad += 1
            else:
                good_texts.append((name, text))
                print("ok   %-24s translated" % name)
        else:
            if not why:
                print("FAIL %-24s should be refused (%s) but was translated" % (name, expect)); bad += 1
            elif expect not in why:
                print("FAIL %-24s refused for another reason: %s (expected: %s)" % (name, why, expect)); bad += 1
            else:
                print("ok   %-24s refused: %s" % (name, why[:120]))
    for name, text in good_texts:           # the accepted ones must be accepted by Lean too (one file each: same namespace)
        lean = os.path.join(tmp, name + ".lean")
        with open(lean, "w", encoding="utf-8") as f:
            f.write(text)
        r = subprocess.run(["lake", "env", "lean", lean], cwd=os.path.join(VERIF, "lean"), capture_output=True, text=True)
        errs = [l for l in (r.stdout + r.stderr).splitlines() if "error" in l]
        if r.returncode != 0 or errs:
            print("FAIL %-24s Lean rejects the generated text: %s" % (name, "; ".join(errs[:3]))); bad += 1
        else:
            print("ok   %-24s Lean accepts the generated text" % name)
    print("%d problem(s)" % bad)
    sys.exit(1 if bad else 0)


if __name__ == "__main__":
    main()
