#!/usr/bin/env python3
"""Experiments for the C -> Lean tie of the status-register functions of ieee488.c (notes/EXT_GEN_REGS_REPORT.md):
behaviour-preserving rewrites of SCPI_RegSet must leave the refinement proofs intact, semantic changes must break one.

    python3 tools/c2lean_regs_experiments.py [--full] [id ...]

Works in a scratch worktree of the C repository (/tmp/genregs_scratch, `git -C /repo worktree add --detach`, removed at the
end); never touches /repo's files.  For every experiment: apply the textual edits to libscpi/src/ieee488.c, check that gcc
still accepts it, run the translator (VERIF_REPO=/tmp/genregs_scratch), `lake build ScpiVerif.Props.C11Gen
ScpiVerif.Props.C12Gen`, report which declarations fail; with --full also `tools/check.py C11 --tier quick` (harness +
differential search for a concrete failing input).  The generated files are restored from the unchanged /repo at the end
(with --full, run `tools/check.py C11` and `C12` once more afterwards to rewrite the evidence).
"""
import os, re, subprocess, sys, json
HERE = os.path.dirname(os.path.abspath(__file__))
VERIF = os.path.dirname(HERE)
REPO = "/repo"
SCRATCH = "/tmp/genregs_scratch"
SRC = os.path.join(SCRATCH, "libscpi", "src", "ieee488.c")

SUMMARY_IF = """                val = SCPI_RegGet(context, register_group.parent_reg);
                if (summary) {
                    val |= register_group.parent_bit;
                } else {
                    val &= ~(register_group.parent_bit);
                }
"""
EARLY = """        if (old_val == val) {
            return;
        } else {
            context->registers[name] = val;
        }
"""
HELPER = """static scpi_reg_val_t parentValue(scpi_t * context, scpi_reg_group_info_t group, scpi_bool_t summary) {
    scpi_reg_val_t val = SCPI_RegGet(context, group.parent_reg);
    if (summary) {
        val |= group.parent_bit;
    } else {
        val &= ~(group.parent_bit);
    }
    return val;
}

"""
REGSET_HEAD = "/**\n * Set register value\n"

# (id, kind, description, [(old, new[, count])])
EXPERIMENTS = [
    # ---- behaviour-preserving rewrites: the proofs must survive
    ("R1", "rewrite", "`for (;;) { ... if (parent_reg == SCPI_REG_NONE) break; }` instead of `do { ... } while (parent_reg != SCPI_REG_NONE)`",
     [("    do {\n", "    for (;;) {\n"),
      ("    } while(register_group.parent_reg != SCPI_REG_NONE);\n", "        if (register_group.parent_reg == SCPI_REG_NONE) {\n            break;\n        }\n    }\n")]),
    ("R2", "rewrite", "the switch written as an if / else-if chain",
     [("        switch (register_type) {\n            case SCPI_REG_CLASS_STB:\n            case SCPI_REG_CLASS_SRE:\n            {\n",
       "        if (register_type == SCPI_REG_CLASS_STB || register_type == SCPI_REG_CLASS_SRE) {\n            {\n"),
      ("                break;\n            }\n            case SCPI_REG_CLASS_EVEN:\n            {\n", "            }\n        } else if (register_type == SCPI_REG_CLASS_EVEN) {\n            {\n"),
      ("                break;\n            }\n            case SCPI_REG_CLASS_COND:\n            {\n", "            }\n        } else if (register_type == SCPI_REG_CLASS_COND) {\n            {\n"),
      ("                break;\n            }\n            case SCPI_REG_CLASS_ENAB:\n            {\n", "            }\n        } else if (register_type == SCPI_REG_CLASS_ENAB) {\n            {\n"),
      ("                break;\n            }\n            case SCPI_REG_CLASS_NTR:\n            case SCPI_REG_CLASS_PTR:\n                return;\n        }\n",
       "            }\n        } else if (register_type == SCPI_REG_CLASS_NTR || register_type == SCPI_REG_CLASS_PTR) {\n            return;\n        }\n")]),
    ("R3", "rewrite", "the two computations of the parent value factored into a static helper function (struct passed by value)",
     [(SUMMARY_IF, "                val = parentValue(context, register_group, summary);\n", 2),
      (REGSET_HEAD, HELPER + REGSET_HEAD)]),
    ("R4", "rewrite", "SCPI_RegGet(context, register_group.enable / .ptfilt / .ntfilt) replaced by direct reads context->registers[...] (inside their != SCPI_REG_NONE guards)",
     [("enable = SCPI_RegGet(context, register_group.enable);", "enable = context->registers[register_group.enable];"),
      ("ptfilt = SCPI_RegGet(context, register_group.ptfilt);", "ptfilt = context->registers[register_group.ptfilt];"),
      ("ntfilt = SCPI_RegGet(context, register_group.ntfilt);", "ntfilt = context->registers[register_group.ntfilt];")]),
    ("R5", "rewrite", "`val = summary ? (val | bit) : (val & ~bit)` instead of the if / else with `|=` and `&=`",
     [(SUMMARY_IF, "                val = SCPI_RegGet(context, register_group.parent_reg);\n                val = summary ? (val | register_group.parent_bit) : (val & ~(register_group.parent_bit));\n", 2)]),
    ("R6", "rewrite", "`scpi_bool_t summary = val & enable;` (conversion to bool) instead of `(val & enable) != 0`, both places (the text before a40c861)",
     [("scpi_bool_t summary = (val & enable) != 0;", "scpi_bool_t summary = val & enable;"),
      ("scpi_bool_t summary = (SCPI_RegGet(context, register_group.event) & val) != 0;", "scpi_bool_t summary = SCPI_RegGet(context, register_group.event) & val;")]),
    ("R7", "rewrite", "`if (ptrans & val)` -> `if (ptrans)` (equivalent: ptrans = (old ^ val) & val already)",
     [("                    if (ptrans & val) {", "                    if (ptrans) {")]),
    ("R8", "rewrite", "guard respelled `!(name < SCPI_REG_COUNT && context != NULL)`, SetBits / ClearBits through a local",
     [("    if ((name >= SCPI_REG_COUNT) || (context == NULL)) {\n        return;\n    }\n\n    scpi_reg_group_info_t register_group;",
       "    if (!(name < SCPI_REG_COUNT && context != NULL)) {\n        return;\n    }\n\n    scpi_reg_group_info_t register_group;"),
      ("    SCPI_RegSet(context, name, SCPI_RegGet(context, name) | bits);", "    scpi_reg_val_t cur = SCPI_RegGet(context, name);\n    SCPI_RegSet(context, name, cur | bits);")]),
    ("R9", "rewrite", "STB_SRQ masked out of the status byte only, not out of SRE as well (equivalent: `(x & ~m) & (y & ~m) = (x & ~m) & y`)",
     [("scpi_reg_val_t sre = context->registers[SCPI_REG_SRE] & ~STB_SRQ;", "scpi_reg_val_t sre = context->registers[SCPI_REG_SRE];")]),
    ("U1", "outside-subset", "`val += register_group.parent_bit` (arithmetic on a promoted 16-bit value: refused, never guessed)",
     [("                    val |= register_group.parent_bit;\n", "                    val += register_group.parent_bit;\n", 2)]),
    # ---- semantic changes: a proof must break
    ("B1", "break", "an enable write no longer recomputes the summary bit of the parent (the ENAB case returns)",
     [("                if (register_group.parent_reg == SCPI_REG_NONE) {\n                    return;\n                }\n", "                return;\n")]),
    ("B2", "break", "condition -> event latch without `& val`: falling edges latch too (`(old_val ^ val) | event`)",
     [("val = ((old_val ^ val) & val) | SCPI_RegGet(context, register_group.event);", "val = (old_val ^ val) | SCPI_RegGet(context, register_group.event);")]),
    ("B3", "break", "the SRQ callback is given `val` instead of the status byte",
     [("writeControl(context, SCPI_CTRL_SRQ, context->registers[SCPI_REG_STB]);", "writeControl(context, SCPI_CTRL_SRQ, val);")]),
    ("B4", "break", "`old_val` read once before the loop",
     [("        /* store old register value */\n        scpi_reg_val_t old_val = context->registers[name];\n", ""),
      ("    scpi_reg_group_info_t register_group;\n", "    scpi_reg_group_info_t register_group;\n    scpi_reg_val_t old_val = context->registers[name];\n")]),
    ("B5", "break", "condition -> event latch level-triggered (`val | event`)",
     [("val = ((old_val ^ val) & val) | SCPI_RegGet(context, register_group.event);", "val = val | SCPI_RegGet(context, register_group.event);")]),
    ("B6", "break", "early `return` on `old_val == val` removed (the walk always goes to the top)",
     [(EARLY, "        context->registers[name] = val;\n")]),
    ("B7", "break", "MSS computed without masking STB_SRQ out of the status byte and SRE (bit 6 enables itself)",
     [("scpi_reg_val_t sre = context->registers[SCPI_REG_SRE] & ~STB_SRQ;", "scpi_reg_val_t sre = context->registers[SCPI_REG_SRE];"),
      ("scpi_reg_val_t stb = context->registers[SCPI_REG_STB] & ~STB_SRQ;", "scpi_reg_val_t stb = context->registers[SCPI_REG_STB];")]),
    ("B8", "break", "SCPI_RegGet accepts name == SCPI_REG_COUNT (`<=`: reads one past the array)",
     [("    if ((name < SCPI_REG_COUNT) && context) {", "    if ((name <= SCPI_REG_COUNT) && context) {")]),
    ("B9", "break", "SCPI_RegClearBits without the complement (`& bits`)",
     [("SCPI_RegGet(context, name) & ~bits", "SCPI_RegGet(context, name) & bits")]),
]


def sh(cmd, **kw):
    return subprocess.run(cmd, capture_output=True, text=True, **kw)


def decl_at(path, line):
    name = "?"
    for i, l in enumerate(open(path, encoding="utf-8"), 1):
        m = re.match(r"\s*(?:theorem|example|def|macro|inductive)\s+([\w.']+)?", l)
        if m and i <= line:
            name = m.group(1) or "example(line %d)" % i
    return name


def main():
    full = "--full" in sys.argv
    want = [a for a in sys.argv[1:] if not a.startswith("--")]
    sh(["git", "-C", REPO, "worktree", "remove", "--force", SCRATCH])
    r = sh(["git", "-C", REPO, "worktree", "add", "--detach", SCRATCH, "HEAD"])
    if r.returncode != 0:
        sys.exit("cannot create scratch worktree: " + r.stderr)
    env = dict(os.environ, VERIF_REPO=SCRATCH, LEAN_NUM_THREADS="6")
    rows = []
    try:
        orig = open(SRC, encoding="latin-1").read()
        for eid, kind, desc, edits in EXPERIMENTS:
            if want and eid not in want:
                continue
            txt = orig
            for ed in edits:
                old, new, cnt = ed[0], ed[1], (ed[2] if len(ed) > 2 else 1)
                if txt.count(old) != cnt:
                    sys.exit("%s: pattern occurs %d times (expected %d): %r" % (eid, txt.count(old), cnt, old[:60]))
                txt = txt.replace(old, new)
            open(SRC, "w", encoding="latin-1").write(txt)
            cc = sh(["gcc", "-fsyntax-only", "-I" + SCRATCH + "/libscpi/inc", "-I" + SCRATCH + "/libscpi/src", SRC])
            tr = sh([sys.executable, os.path.join(VERIF, "translate", "c2lean_regs.py")], env=env)
            try:
                failed = json.loads(tr.stdout.strip().splitlines()[-1])["failed"]
            except Exception:
                failed = {"all": tr.stdout[-200:] + tr.stderr[-200:]}
            b = sh(["lake", "build", "ScpiVerif.Props.C11Gen", "ScpiVerif.Props.C12Gen"], cwd=os.path.join(VERIF, "lean"), env=env)
            out = b.stdout + b.stderr
            bad = []
            for m in re.finditer(r"error: (ScpiVerif/[\w/]+\.lean):(\d+):\d+: (.*)", out):
                d = "%s:%s" % (m.group(1).replace("ScpiVerif/", "").replace(".lean", ""), decl_at(os.path.join(VERIF, "lean", m.group(1)), int(m.group(2))))
                if d not in bad:
                    bad.append(d)
            row = {"id": eid, "kind": kind, "what": desc, "c_compiles": cc.returncode == 0, "translator_failed": failed,
                   "build_ok": b.returncode == 0, "broken_declarations": bad}
            if full:
                c = sh([sys.executable, os.path.join(VERIF, "tools", "check.py"), "C11", "--tier", "quick"], env=env, cwd=VERIF)
                lines = [l for l in c.stdout.splitlines() if l.startswith(("VIOLATION", "ok ", "FAIL ", "KNOWN"))]
                row["check_exit"] = c.returncode
                row["check_lines"] = [l[:400] for l in lines]
            expected = (kind == "rewrite") == row["build_ok"] if kind != "outside-subset" else bool(failed)
            row["as_expected"] = expected
            rows.append(row)
            print(json.dumps(row), flush=True)
    finally:
        sh(["git", "-C", REPO, "worktree", "remove", "--force", SCRATCH])
        base = dict(os.environ)
        base.pop("VERIF_REPO", None)
        sh([sys.executable, os.path.join(VERIF, "translate", "extract.py"), "A"], env=base)   # generated files from /repo again
    print("\n| id | kind | change | translator | lake build C11Gen C12Gen | broken declarations |" + (" check.py C11 |" if full else ""))
    print("|---|---|---|---|---|---|" + ("---|" if full else ""))
    for r in rows:
        print("| %s | %s | %s | %s | %s | %s |%s" % (r["id"], r["kind"], r["what"], "ok" if not r["translator_failed"] else "REFUSED: " + "; ".join("%s" % v for v in r["translator_failed"].values())[:200],
              "ok" if r["build_ok"] else "FAILS", ", ".join(r["broken_declarations"]) or "-",
              (" exit %d: %s |" % (r["check_exit"], "; ".join(r["check_lines"])[:300]) if full else "")))


if __name__ == "__main__":
    main()
