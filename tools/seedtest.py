#!/usr/bin/env python3
"""Apply a seeded change to /repo, run the given checks (quick tier), undo the change.
usage: seedtest.py <patch.diff> <Cxx> [<Cxx> ...]   -> prints one line per check: id exit-status first VIOLATION line"""
import subprocess, sys, os, json
patch = os.path.abspath(sys.argv[1]); checks = sys.argv[2:]
def sh(cmd, **kw): return subprocess.run(cmd, shell=True, capture_output=True, text=True, **kw)
assert sh("git -C /repo status --porcelain").stdout.strip() == "", "/repo not clean"
r = sh("git -C /repo apply %s" % patch)
if r.returncode: print("patch does not apply:", r.stderr); sys.exit(2)
res = {}
try:
    for c in checks:
        r = sh("python3 tools/check.py %s --tier quick" % c, cwd="/verif", env=dict(os.environ, VERIF_SEED=os.environ.get("VERIF_SEED", "1")))
        viol = [l for l in r.stdout.splitlines() if l.startswith("VIOLATION")]
        summ = [l for l in r.stdout.splitlines() if l.startswith(("ok ", "FAIL "))]
        first = ""
        if viol:
            path = viol[0].split("replay=")[1].split()[0]
            try: first = [l for l in open(path) if l.startswith("#")][0].strip()[:160]
            except Exception: pass
        res[c] = {"exit": r.returncode, "violations": viol, "summary": summ[-1] if summ else "", "first_replay_header": first}
        print(c, "exit", r.returncode, "|", (viol[0] if viol else "-"), "|", first)
finally:
    sh("git -C /repo checkout -- .")
    # leave evidence of the unchanged tree behind
print(json.dumps(res))
