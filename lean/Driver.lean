/-
Correspondence / judge driver (lean_exe).  Reads harness lines `<case> => <observation>` on stdin,
runs the model on the case, compares with the observation, runs the judge (the specification as a
decidable check) on the implementation's observation.  Prints only deviations plus a summary:
  DIFF\t<case>\t<impl obs>\t<model obs>
  REJECT\t<clause,clause>\t<case>\t<impl obs>
  FAULT\t<line>
  SUMMARY\t<json>
-/
import Std.Data.HashMap
import Std.Data.HashSet
import ScpiVerif.Drv.Util
import ScpiVerif.Drv.IntFmt
import ScpiVerif.Drv.Queue
import ScpiVerif.Drv.Regs
import ScpiVerif.Drv.Heap
import ScpiVerif.Drv.Lexer
import ScpiVerif.Drv.Match
import ScpiVerif.Drv.ParseRun
import ScpiVerif.Drv.ErrStr
import ScpiVerif.Drv.Expr
import ScpiVerif.Drv.BufFmt
import ScpiVerif.Drv.RoundTrip
open ScpiVerif.Drv

def dispatch (cfg : String) (inp : List String) (obs : List String) : Option Verdict :=
  match inp.head? with
  | some "I" => runIntFmt inp obs
  | some "IFULL" => runIntFull inp obs
  | some "Q" => runQueue cfg inp obs
  | some "R" => runRegs inp obs
  | some "H" => runHeap inp obs
  | some "L" => runLexer inp obs
  | some "M" => runMatch inp obs
  | some "P" => runParse cfg inp obs
  | some "P8" => runParse cfg inp obs
  | some "P9" => runParse cfg inp obs
  | some "PU" => runParse cfg inp obs
  | some "E" => runErrStr cfg inp obs
  | some "X" => runExpr inp obs
  | some "F" => runBufFmt cfg inp obs
  | some "Y" => runRoundTrip cfg inp obs
  | _ => none

/-- projection of an observation to the tokens a property's correspondence looks at.
`keep` = comma-separated token prefixes ("" = everything); "||" separators always stay.
For the register domain, "regs" keeps the registers and the queue count of every step (drops callback values). -/
def project (keep : String) (dom : Option String) (toks : List String) : List String :=
  if keep.isEmpty then toks else
  let pre := keep.splitOn ","
  if dom == some "R" then
    if pre.contains "regs" then toks.map (fun t => ",".intercalate ((t.splitOn ",").take 2)) else toks
  else if dom == some "P" || dom == some "P8" || dom == some "P9" || dom == some "PU" then
    toks.filter (fun t => t == "||" || pre.any (fun p => t.startsWith p))
  else toks

structure Stats where
  cases : Nat := 0
  nontrivial : Nat := 0
  diffs : Nat := 0
  rejects : Nat := 0
  faults : Nat := 0
  unparsed : Nat := 0
  tags : Std.HashMap String Nat := {}
  samples : List String := []
  seen : Std.HashSet UInt64 := {}
  pending : Option String := none     -- an unreadable line, reported unless a FAULT line follows (partial line cut by a crash)

def flushPending (st : Stats) : IO Stats := do
  match st.pending with
  | some l =>
    IO.println s!"UNPARSED\t{l}"
    pure { st with unparsed := st.unparsed + 1, pending := none }
  | none => pure st

partial def loop (cfg keep : String) (h : IO.FS.Stream) (st : Stats) : IO Stats := do
  let line ← h.getLine
  if line.isEmpty then return (← flushPending st)
  let line := (line.dropEndWhile (fun c => c == '\n' || c == '\r')).toString
  if line.isEmpty then loop cfg keep h st else
  if line.startsWith "X FAULT" then
    IO.println s!"FAULT\t{line}"
    loop cfg keep h { st with faults := st.faults + 1, pending := none }
  else
    let (c, o) := splitCase line
    match dispatch cfg (words c) (words o) with
    | none =>
      let st ← flushPending st
      loop cfg keep h { st with pending := some line }
    | some v =>
      let st ← flushPending st
      let hsh := hash c
      let fresh := v.nontrivial && !st.seen.contains hsh
      let mut st := { st with cases := st.cases + 1, nontrivial := st.nontrivial + (if fresh then 1 else 0),
                              seen := if fresh then st.seen.insert hsh else st.seen }
      let dom := (words c).head?
      let implToks := project keep dom (words (v.implObs.getD o))
      let modelToks := project keep dom (words v.modelObs)
      if modelToks != implToks then
        IO.println s!"DIFF\t{c}\t{o}\t{v.modelObs}"
        st := { st with diffs := st.diffs + 1 }
      if !v.rejects.isEmpty then
        IO.println s!"REJECT\t{",".intercalate v.rejects}\t{c}\t{o}"
        st := { st with rejects := st.rejects + 1 }
      let tags := v.tags.foldl (fun m t => m.insert t (m.getD t 0 + 1)) st.tags
      let samples := if st.samples.length < 3 ∧ v.nontrivial ∧ st.cases % 997 == 1 then st.samples ++ [line] else st.samples
      loop cfg keep h { st with tags := tags, samples := samples }

def jsonStr (s : String) : String :=
  "\"" ++ String.join (s.toList.map (fun c => if c == '"' then "\\\"" else if c == '\\' then "\\\\" else if c.toNat < 32 then " " else c.toString)) ++ "\""

def main : IO Unit := do
  let cfg := (← IO.getEnv "VERIF_CFG").getD "A"
  let keep := (← IO.getEnv "VERIF_KEEP").getD ""
  let st ← loop cfg keep (← IO.getStdin) {}
  let tags := ",".intercalate (st.tags.toList.map (fun (k, v) => s!"{jsonStr k}:{v}"))
  let samples := ",".intercalate (st.samples.map jsonStr)
  IO.println s!"SUMMARY\t\{\"cases\":{st.cases},\"nontrivial\":{st.nontrivial},\"diffs\":{st.diffs},\"rejects\":{st.rejects},\"faults\":{st.faults},\"unparsed\":{st.unparsed},\"tags\":\{{tags}},\"samples\":[{samples}]}"
