/-
Model of libscpi/src/fifo.c (ring buffer of scpi_error_t) and of the error-queue layer of
libscpi/src/error.c (SCPI_ErrorPushEx / SCPI_ErrorAddInternal / SCPI_ErrorPop / SCPI_ErrorClear /
SCPI_ErrorCount) in the malloc configuration (A) and the no-info configuration (C).

C fields -> model: wr, rd, count, size : int16_t -> Nat (size ≤ 32767 is a hypothesis of the
theorems); data[size] -> List of entries of length size.  The device-dependent info pointer is
modelled as `Option (allocation id × text)`; the allocator is a ghost state (set of live ids,
flags for double free / use after free) so that ownership can be stated.
-/
namespace ScpiVerif.Fifo

structure Fifo (α : Type) where
  wr : Nat
  rd : Nat
  count : Nat
  size : Nat
  data : List α
deriving Repr, DecidableEq

variable {α : Type}

/-- fifo_init -/
def init (size : Nat) (dflt : α) : Fifo α :=
  { wr := 0, rd := 0, count := 0, size := size, data := List.replicate size dflt }

/-- fifo_clear -/
def clear (f : Fifo α) : Fifo α := { f with wr := 0, rd := 0, count := 0 }

def isEmpty (f : Fifo α) : Bool := f.count == 0
def isFull (f : Fifo α) : Bool := f.count == f.size

/-- fifo_add: FALSE when full -/
def add (f : Fifo α) (v : α) : Fifo α × Bool :=
  if isFull f then (f, false)
  else ({ f with data := f.data.set f.wr v, wr := (f.wr + 1) % f.size, count := f.count + 1 }, true)

/-- fifo_remove: FALSE when empty, value untouched -/
def remove (f : Fifo α) : Fifo α × Option α :=
  if isEmpty f then (f, none)
  else ({ f with rd := (f.rd + 1) % f.size, count := f.count - 1 }, f.data[f.rd]?)

/-- fifo_remove_last -/
def removeLast (f : Fifo α) : Fifo α × Option α :=
  if isEmpty f then (f, none)
  else
    let wr' := (f.wr + f.size - 1) % f.size
    ({ f with wr := wr', count := f.count - 1 }, f.data[wr']?)

/-- fifo_count -/
def cnt (f : Fifo α) : Nat := f.count

/-! ### Specification: the abstract queue -/

/-- the entries from `rd`, `count` of them, wrapping -/
def abs (f : Fifo α) : List α :=
  (List.range f.count).filterMap (fun i => f.data[(f.rd + i) % f.size]?)

def Inv (f : Fifo α) : Prop :=
  1 ≤ f.size ∧ f.data.length = f.size ∧ f.rd < f.size ∧ f.wr < f.size ∧
  f.count ≤ f.size ∧ f.wr = (f.rd + f.count) % f.size

/-! ### Error queue layer (configuration A: malloc/strndup; configuration C: no info) -/

abbrev Bytes := List UInt8

/-- device_dependent_info: allocation id and the stored text -/
abbrev Info := Option (Nat × Bytes)

structure Entry where
  code : Int
  info : Info
deriving Repr, DecidableEq

/-- ghost allocator state -/
structure Alloc where
  next : Nat := 0
  live : List Nat := []
  doubleFree : Bool := false
deriving Repr, DecidableEq

def Alloc.malloc (a : Alloc) : Alloc × Nat := ({ a with next := a.next + 1, live := a.next :: a.live }, a.next)

def Alloc.free (a : Alloc) (i : Info) : Alloc :=
  match i with
  | none => a                                    -- free(NULL)
  | some (id, _) =>
    if a.live.contains id then { a with live := a.live.erase id } else { a with doubleFree := true }

structure EQ where
  fifo : Fifo Entry
  alloc : Alloc
deriving Repr, DecidableEq

def overflowCode : Int := -350

def EQ.init (size : Nat) : EQ := { fifo := Fifo.init size ⟨0, none⟩, alloc := {} }

/-- strnlen(info, n) on a C string given as bytes without NUL -/
def strnlen (s : Bytes) (n : Nat) : Nat := min (s.takeWhile (· ≠ 0)).length n

/-- SCPI_ErrorPushEx restricted to the queue: `info = none` is a NULL pointer; `infoLen = 0` means
"measure it" (strnlen up to 255); `withInfo = false` models configuration C (strndup is NULL);
`allocOK = false` injects an allocation failure.  Returns the new queue and the list of codes
reported to the error callback (err, then -350 on overflow). -/
def EQ.push (q : EQ) (withInfo : Bool) (code : Int) (info : Option Bytes) (infoLen : Nat) (allocOK : Bool) :
    EQ × List Int :=
  let cstr := fun (s : Bytes) => s.takeWhile (· ≠ 0)
  let infoLen := match info with
    | some s => if infoLen = 0 then strnlen s 255 else infoLen
    | none => infoLen
  let (alloc, ptr) : Alloc × Info :=
    match info with
    | some s =>
      if withInfo && allocOK then
        let (a, id) := q.alloc.malloc
        (a, some (id, (cstr s).take infoLen))          -- strndup(info, info_len)
      else (q.alloc, none)
    | none => (q.alloc, none)
  let (f1, ok) := add q.fifo ⟨code, ptr⟩
  if ok then ({ fifo := f1, alloc := alloc }, [code])
  else
    let alloc := alloc.free ptr                          -- free(error_value.device_dependent_info)
    let (f2, last) := removeLast q.fifo
    let alloc := alloc.free (match last with | some e => e.info | none => ptr)
                                                         -- (empty fifo: error_value keeps the freed ptr)
    let (f3, _) := add f2 ⟨overflowCode, none⟩
    ({ fifo := f3, alloc := alloc }, [code, overflowCode])

/-- SCPI_ErrorPop: (0, NULL) when empty. Ownership of the text passes to the caller. -/
def EQ.pop (q : EQ) : EQ × Entry :=
  let (f, e) := remove q.fifo
  ({ q with fifo := f }, e.getD ⟨0, none⟩)

/-- the `while (fifo_remove) free(info)` loop of SCPI_ErrorClear; fuel = count -/
def EQ.clearLoop : Nat → Fifo Entry → Alloc → Fifo Entry × Alloc
  | 0, f, a => (f, a)
  | n+1, f, a =>
    match remove f with
    | (f', some e) => EQ.clearLoop n f' (a.free e.info)
    | (f', none) => (f', a)

/-- SCPI_ErrorClear -/
def EQ.clear (q : EQ) : EQ :=
  let (f, a) := EQ.clearLoop q.fifo.count q.fifo q.alloc
  { fifo := Fifo.clear f, alloc := a }

/-- SCPI_ErrorCount -/
def EQ.count (q : EQ) : Nat := q.fifo.count

/-- SYSTem:ERRor[:NEXT]? at queue level: pop, report, free the text -/
def EQ.sysErrNext (q : EQ) : EQ × Entry :=
  let (q1, e) := q.pop
  ({ q1 with alloc := q1.alloc.free e.info }, e)

/-! ### Specification -/

/-- abstract bounded FIFO with overflow marker: entries are (code, text?) -/
abbrev SpecQ := List (Int × Option Bytes)

def specPush (n : Nat) (q : SpecQ) (e : Int × Option Bytes) : SpecQ :=
  if q.length < n then q ++ [e] else q.dropLast ++ [(overflowCode, none)]

def specPop (q : SpecQ) : SpecQ × (Int × Option Bytes) :=
  (q.tail, q.head?.getD (0, none))

def EQ.abs (q : EQ) : SpecQ := (Fifo.abs q.fifo).map (fun e => (e.code, e.info.map (·.2)))

/-- every live allocation is referenced by exactly one queue entry and vice versa -/
def EQ.Owned (q : EQ) : Prop :=
  let ids := (Fifo.abs q.fifo).filterMap (fun e => e.info.map (·.1))
  ids.Nodup ∧ (∀ id, id ∈ ids ↔ id ∈ q.alloc.live) ∧ q.alloc.live.Nodup ∧ q.alloc.doubleFree = false ∧
  (∀ id ∈ q.alloc.live, id < q.alloc.next)

/-- operations of the history -/
inductive Op where
  | push (code : Int) (info : Option Bytes) (infoLen : Nat) (allocOK : Bool)
  | pop
  | clear
  | count
  | sysErr
deriving Repr, DecidableEq

/-- observable result of one operation -/
inductive Obs where
  | pushed (callbacks : List Int)
  | popped (code : Int) (text : Option Bytes)
  | cleared
  | counted (n : Nat)
deriving Repr, DecidableEq

/-- `pop` hands the text to the caller, who owns it afterwards; the history-level model frees it
at once (this is what the harness does) -/
def EQ.step (withInfo : Bool) (q : EQ) : Op → EQ × Obs
  | .push c i l ok => let (q', cb) := q.push withInfo c i l ok; (q', .pushed cb)
  | .pop => let (q', e) := q.sysErrNext; (q', .popped e.code (e.info.map (·.2)))
  | .sysErr => let (q', e) := q.sysErrNext; (q', .popped e.code (e.info.map (·.2)))
  | .clear => (q.clear, .cleared)
  | .count => (q, .counted q.count)

/-- text that the spec stores for a push -/
def specText (withInfo : Bool) (info : Option Bytes) (infoLen : Nat) (allocOK : Bool) : Option Bytes :=
  match info with
  | some s =>
    if withInfo && allocOK then
      let l := if infoLen = 0 then strnlen s 255 else infoLen
      some ((s.takeWhile (· ≠ 0)).take l)
    else none
  | none => none

def specStep (n : Nat) (withInfo : Bool) (q : SpecQ) : Op → SpecQ × Obs
  | .push c i l ok =>
    let q' := specPush n q (c, specText withInfo i l ok)
    (q', .pushed (if q.length < n then [c] else [c, overflowCode]))
  | .pop => let (q', e) := specPop q; (q', .popped e.1 e.2)
  | .sysErr => let (q', e) := specPop q; (q', .popped e.1 e.2)
  | .clear => ([], .cleared)
  | .count => (q, .counted q.length)

/-- run a history, collecting observations -/
def run {σ : Type} (step : σ → Op → σ × Obs) : σ → List Op → σ × List Obs
  | s, [] => (s, [])
  | s, op :: ops =>
    let (s1, o) := step s op
    let (s2, os) := run step s1 ops
    (s2, o :: os)

end ScpiVerif.Fifo
