/-
The typed parameter readers of Model/Ctx.lean behind one dispatcher, so that theorems can quantify
over "every typed reader".
-/
import ScpiVerif.Model.Ctx
import ScpiVerif.Spec.Params

namespace ScpiVerif.Ctx
open ScpiVerif.Lexer (Bytes Token TokType)
open ScpiVerif.Spec.Params (Reader)

/-- run the reader `r` (mandatory or optional) on the context: new context and its boolean result -/
def runReader (c : Ctx) (r : Reader) (mand : Bool) : Ctx × Bool :=
  match r with
  | .int w s => let (c, ok, _) := paramInt c w s mand; (c, ok)
  | .float d => let (c, ok, _) := paramFloat c d mand; (c, ok)
  | .bool => let (c, ok, _) := paramBool c mand; (c, ok)
  | .choice opts => let (c, ok, _) := paramChoice c mand opts; (c, ok)
  | .number => let (c, e) := paramNumber c mand; (c, match e with | .pNumber ok .. => ok | _ => false)
  | .chars => let (c, ok, _, _) := paramChars c mand; (c, ok)
  | .block => let (c, ok, _, _) := paramBlock c mand; (c, ok)
  | .text => let (c, ok, _, _) := paramText c mand 16; (c, ok)

/-- the error code an event counts for in `errorsSince`: the code of an error event, except the
-350 overflow marker -/
def countedCode : Ev → Option Int
  | .error code _ => if code = Fifo.overflowCode then none else some code
  | _ => none

/-- error codes pushed between two contexts (the event log only grows).
The -350 overflow marker that accompanies a push onto a full queue is not counted: `pushError`
reports a second error event with code `Fifo.overflowCode` when the queue is full, and a full queue
is reachable, so the property's "exactly this code" is read modulo that marker (any event with
code -350 is left out, also one pushed on purpose). -/
def errorsSince (c c' : Ctx) : List Int := (c'.events.drop c.events.length).filterMap countedCode

/-- the parameter cursor is at the end of the program data -/
def atEnd (c : Ctx) : Prop := c.ppos ≥ c.pbase + c.plen

end ScpiVerif.Ctx
