/-
Model of the status-register machinery: SCPI_RegGet / SCPI_RegSet / SCPI_RegSetBits /
SCPI_RegClearBits (libscpi/src/ieee488.c), the status side of the error queue
(SCPI_ErrorEmit / SCPI_ErrorEmitEmpty / class bits in SCPI_ErrorPushEx, libscpi/src/error.c) and
the register commands (*CLS *ESR? *ESE *SRE STAT:…, ieee488.c / minimal.c).

The model is table driven: register classes, groups, parent bits and the error-class ranges
are the GENERATED tables (Gen/Tables.lean), exactly as SCPI_RegSet reads scpi_reg_details /
scpi_reg_group_details.  Registers are `BitVec 16` (scpi_reg_val_t = uint16_t).
The error queue appears only through its element count `qn` and capacity `cap`.
-/
import ScpiVerif.Gen.Tables

namespace ScpiVerif.Regs
open ScpiVerif

abbrev Reg := BitVec 16

structure St where
  regs : List Reg          -- registers[SCPI_REG_COUNT]
  qn : Nat                 -- SCPI_ErrorCount
  cap : Nat                -- error queue capacity
  srq : List Reg           -- values passed to control(SCPI_CTRL_SRQ, …), oldest first
  errcb : List Int         -- codes passed to the error callback
deriving Repr, DecidableEq

def regCount : Nat := Gen.SCPI_REG_COUNT.toNat
def regNone : Nat := Gen.SCPI_REG_NONE.toNat

def St.init (cap : Nat) : St :=
  { regs := List.replicate regCount 0, qn := 0, cap := cap, srq := [], errcb := [] }

/-- SCPI_RegGet: 0 for names out of range -/
def get (s : St) (name : Nat) : Reg := if name < regCount then s.regs.getD name 0 else 0

def put (s : St) (name : Nat) (v : Reg) : St := { s with regs := s.regs.set name v }

def bv (n : Int) : Reg := BitVec.ofInt 16 n

def STB : Nat := Gen.SCPI_REG_STB.toNat
def SRE : Nat := Gen.SCPI_REG_SRE.toNat
def ESR : Nat := Gen.SCPI_REG_ESR.toNat
def ESE : Nat := Gen.SCPI_REG_ESE.toNat
def OPER : Nat := Gen.SCPI_REG_OPER.toNat
def OPERE : Nat := Gen.SCPI_REG_OPERE.toNat
def OPERC : Nat := Gen.SCPI_REG_OPERC.toNat
def QUES : Nat := Gen.SCPI_REG_QUES.toNat
def QUESE : Nat := Gen.SCPI_REG_QUESE.toNat
def QUESC : Nat := Gen.SCPI_REG_QUESC.toNat

def stbSRQ : Reg := bv Gen.STB_SRQ
def stbQMA : Reg := bv Gen.STB_QMA

structure Group where
  event : Nat
  enable : Nat
  condition : Nat
  ptfilt : Nat
  ntfilt : Nat
  parentReg : Nat
  parentBit : Reg
deriving Repr, DecidableEq

def groupOf (g : Nat) : Group :=
  match Gen.regGroups[g]? with
  | some (a, b, c, d, e, f, h) => ⟨a, b, c, d, e, f, BitVec.ofNat 16 h⟩
  | none => ⟨regNone, regNone, regNone, regNone, regNone, regNone, 0⟩

def detailOf (name : Nat) : Nat × Nat := Gen.regDetails.getD name (0, 0)

def clsSTB : Nat := Gen.SCPI_REG_CLASS_STB.toNat
def clsSRE : Nat := Gen.SCPI_REG_CLASS_SRE.toNat
def clsEVEN : Nat := Gen.SCPI_REG_CLASS_EVEN.toNat
def clsENAB : Nat := Gen.SCPI_REG_CLASS_ENAB.toNat
def clsCOND : Nat := Gen.SCPI_REG_CLASS_COND.toNat

/-- SCPI_RegSet: the `do { … } while (register_group.parent_reg != SCPI_REG_NONE)` loop.
`fuel` bounds the number of iterations (COND → EVEN → STB is the longest chain). -/
def regSetLoop : Nat → St → Nat → Reg → St
  | 0, s, _, _ => s
  | fuel+1, s, name, val =>
    let (cls, grp) := detailOf name
    let g := groupOf grp
    let old := s.regs.getD name 0
    if old = val then s else
    let s := put s name val
    if cls = clsSTB ∨ cls = clsSRE then
      let stb := get s STB &&& ~~~stbSRQ
      let sre := get s SRE &&& ~~~stbSRQ
      let s :=
        if stb &&& sre ≠ 0 then
          let ptrans := (old ^^^ val) &&& val
          let s := put s STB (get s STB ||| stbSRQ)
          if ptrans &&& val ≠ 0 then { s with srq := s.srq ++ [get s STB] } else s
        else put s STB (get s STB &&& ~~~stbSRQ)
      if g.parentReg ≠ regNone then regSetLoop fuel s name val else s
    else if cls = clsEVEN then
      let enable := if g.enable ≠ regNone then get s g.enable else 0xFFFF
      let summary := val &&& enable ≠ 0
      let pv := get s g.parentReg
      let val' := if summary then pv ||| g.parentBit else pv &&& ~~~g.parentBit
      if g.parentReg ≠ regNone then regSetLoop fuel s g.parentReg val' else s
    else if cls = clsCOND then
      let ev := get s g.event
      let val' :=
        if g.ptfilt = regNone ∧ g.ntfilt = regNone then ((old ^^^ val) &&& val) ||| ev
        else
          let ptf := if g.ptfilt ≠ regNone then get s g.ptfilt else 0
          let ntf := if g.ntfilt ≠ regNone then get s g.ntfilt else 0
          let tr := old ^^^ val
          let ptrans := tr &&& val
          let ntrans := tr &&& ~~~ptrans
          ((ptrans &&& ptf) ||| (ntrans &&& ntf)) ||| ev
      if g.parentReg ≠ regNone then regSetLoop fuel s g.event val' else s
    else if cls = clsENAB then
      -- enable changed: recompute the summary bit of the group in the parent register
      let summary := get s g.event &&& val ≠ 0
      if g.parentReg = regNone then s else
      let pv := get s g.parentReg
      let val' := if summary then pv ||| g.parentBit else pv &&& ~~~g.parentBit
      regSetLoop fuel s g.parentReg val'
    else s        -- NTR / PTR: return

/-- SCPI_RegSet -/
def regSet (s : St) (name : Nat) (val : Reg) : St :=
  if name ≥ regCount then s else regSetLoop 8 s name val

def regSetBits (s : St) (name : Nat) (bits : Reg) : St := regSet s name (get s name ||| bits)
def regClearBits (s : St) (name : Nat) (bits : Reg) : St := regSet s name (get s name &&& ~~~bits)

/-- the class bit(s) of an error code: the `for` loop over errs[] in SCPI_ErrorPushEx, which ORs
the bit of every row with `err <= from && err >= to` -/
def classBits (tbl : List (Int × Int × Nat)) (code : Int) : Reg :=
  tbl.foldl (fun acc (r : Int × Int × Nat) => if code ≤ r.1 ∧ code ≥ r.2.1 then acc ||| BitVec.ofNat 16 r.2.2 else acc) 0

/-- SCPI_ErrorEmitEmpty -/
def emitEmpty (s : St) : St :=
  if s.qn = 0 ∧ (get s STB &&& stbQMA) ≠ 0 then
    let s := regClearBits s STB stbQMA
    { s with errcb := s.errcb ++ [0] }
  else s

/-- SCPI_ErrorEmit -/
def emit (s : St) (err : Int) : St :=
  let s := regSetBits s STB stbQMA
  { s with errcb := s.errcb ++ [err] }

/-- SCPI_ErrorPushEx, status side. `code` is an int16_t. -/
def errPush (s : St) (code : Int) : St :=
  let overflow := decide (s.qn ≥ s.cap)
  let s := if overflow then s else { s with qn := s.qn + 1 }
  -- one SCPI_RegSetBits per matching row, in table order
  let s := Gen.errClassTable.foldl (fun s (r : Int × Int × Nat) =>
      if code ≤ r.1 ∧ code ≥ r.2.1 then regSetBits s ESR (BitVec.ofNat 16 r.2.2) else s) s
  let s := emit s code
  if overflow then emit s (-350) else s

def errPop (s : St) : St := emitEmpty { s with qn := s.qn - 1 }
def errClear (s : St) : St := emitEmpty { s with qn := 0 }

/-- SCPI_CoreCls -/
def cls (s : St) : St :=
  let s := errClear s
  (List.range Gen.SCPI_REG_GROUP_COUNT.toNat).foldl (fun s i =>
    let ev := (groupOf i).event
    if ev ≠ STB then regSet s ev 0 else s) s

inductive Op where
  | set (name : Nat) (val : Reg)       -- SCPI_RegSet, any register except a direct STB write
  | setBits (name : Nat) (val : Reg)
  | clearBits (name : Nat) (val : Reg)
  | errPush (code : Int)
  | errPop
  | errClear
  | cls
  | esrQ | operQ | quesQ               -- event queries: read then clear
  | preset                              -- STATus:PRESet
deriving Repr, DecidableEq

def step (s : St) : Op → St
  | .set n v => regSet s n v
  | .setBits n v => regSetBits s n v
  | .clearBits n v => regClearBits s n v
  | .errPush c => errPush s c
  | .errPop => errPop s
  | .errClear => errClear s
  | .cls => cls s
  | .esrQ => regSet s ESR 0
  | .operQ => regSet s OPER 0
  | .quesQ => regSet s QUES 0
  | .preset => regSet s QUES 0

/-- operations of the property's histories: writes go to any register but the status byte itself -/
def Op.ok : Op → Bool
  | .set n _ => n != STB
  | .setBits n _ => n != STB
  | .clearBits n _ => n != STB
  | _ => true

/-! ### Specification (C11) -/

def bit (n : Int) : Reg := bv n

/-- the five equivalences of the property -/
def Coherent (s : St) : Prop :=
  let stb := get s STB
  ((stb &&& bit Gen.STB_ESR ≠ 0) ↔ (get s ESR &&& get s ESE ≠ 0)) ∧
  ((stb &&& bit Gen.STB_OPS ≠ 0) ↔ (get s OPER &&& get s OPERE ≠ 0)) ∧
  ((stb &&& bit Gen.STB_QES ≠ 0) ↔ (get s QUES &&& get s QUESE ≠ 0)) ∧
  ((stb &&& bit Gen.STB_QMA ≠ 0) ↔ s.qn ≠ 0) ∧
  ((stb &&& bit Gen.STB_SRQ ≠ 0) ↔ ((stb &&& ~~~bit Gen.STB_SRQ) &&& (get s SRE &&& ~~~bit Gen.STB_SRQ) ≠ 0))

instance (s : St) : Decidable (Coherent s) := by unfold Coherent; infer_instance

/-! ### Specification (C12) -/

/-- standard-event bit of an error code by class -/
def specClassBit (code : Int) : Reg :=
  if -199 ≤ code ∧ code ≤ -100 then bit Gen.ESR_CER
  else if -299 ≤ code ∧ code ≤ -200 then bit Gen.ESR_EER
  else if (-399 ≤ code ∧ code ≤ -300) ∨ (1 ≤ code ∧ code ≤ 32767) then bit Gen.ESR_DER
  else if -499 ≤ code ∧ code ≤ -400 then bit Gen.ESR_QER
  else if -599 ≤ code ∧ code ≤ -500 then bit Gen.ESR_PON
  else if -699 ≤ code ∧ code ≤ -600 then bit Gen.ESR_URQ
  else if -799 ≤ code ∧ code ≤ -700 then bit Gen.ESR_REQ
  else if -899 ≤ code ∧ code ≤ -800 then bit Gen.ESR_OPC
  else 0

def mss (s : St) : Bool := get s STB &&& stbSRQ ≠ 0

/-- well-formed state: the register file has SCPI_REG_COUNT entries, queue of capacity ≥ 1 -/
def WF (s : St) : Prop := s.regs.length = regCount ∧ 1 ≤ s.cap ∧ s.qn ≤ s.cap

end ScpiVerif.Regs
