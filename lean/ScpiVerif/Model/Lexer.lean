/-
Model of libscpi/src/lexer.c.  lex_state_t {buffer, pos, len} becomes (buf : Bytes, pos : Nat)
with len = buf.length: the model can only look at bytes inside [0, len), which is what the C
idiom `!iseos(state) && p(state->pos[0])` guarantees when written correctly (fused here as `peekP`;
a broken check-then-read pair is the sanitizer's business, see DESIGN.md C01).
Tokens are (type, ptr offset, len : Int).  Every recogniser returns (new pos, token, return value).
-/
namespace ScpiVerif.Lexer

abbrev Bytes := List UInt8

inductive TokType where
  | comma | semicolon | colon | specificCharacter | question | nl | hexnum | octnum | binnum
  | programMnemonic | decimal | decimalWithSuffix | suffix | block | singleQuote | doubleQuote
  | expression | compoundHeader | incompleteCompoundHeader | commonHeader | incompleteCommonHeader
  | compoundQueryHeader | commonQueryHeader | ws | allProgramData | invalid | unknown
deriving Repr, DecidableEq, Inhabited

/-- numeric value of the C enum scpi_token_type_t -/
def TokType.code : TokType → Nat
  | .comma => 0 | .semicolon => 1 | .colon => 2 | .specificCharacter => 3 | .question => 4 | .nl => 5
  | .hexnum => 6 | .octnum => 7 | .binnum => 8 | .programMnemonic => 9 | .decimal => 10
  | .decimalWithSuffix => 11 | .suffix => 12 | .block => 13 | .singleQuote => 14 | .doubleQuote => 15
  | .expression => 16 | .compoundHeader => 17 | .incompleteCompoundHeader => 18 | .commonHeader => 19
  | .incompleteCommonHeader => 20 | .compoundQueryHeader => 21 | .commonQueryHeader => 22 | .ws => 23
  | .allProgramData => 24 | .invalid => 25 | .unknown => 26

structure Token where
  type : TokType
  ptr : Nat
  len : Int
deriving Repr, DecidableEq, Inhabited

structure LexState where
  buf : Bytes
  pos : Nat
deriving Repr, DecidableEq

/-! ### character classes ("C" locale) -/
def c (ch : Char) : UInt8 := UInt8.ofNat ch.toNat
def isWs (b : UInt8) : Bool := b == 32 || b == 9
def isDigit (b : UInt8) : Bool := 48 ≤ b && b ≤ 57
def isUpper (b : UInt8) : Bool := 65 ≤ b && b ≤ 90
def isLower (b : UInt8) : Bool := 97 ≤ b && b ≤ 122
def isAlpha (b : UInt8) : Bool := isUpper b || isLower b
def isAlnum (b : UInt8) : Bool := isAlpha b || isDigit b
def isXDigit (b : UInt8) : Bool := isDigit b || (65 ≤ b && b ≤ 70) || (97 ≤ b && b ≤ 102)
def isQDigit (b : UInt8) : Bool := 48 ≤ b && b ≤ 55
def isBDigit (b : UInt8) : Bool := b == 48 || b == 49
def isPlusMn (b : UInt8) : Bool := b == 43 || b == 45
def isE (b : UInt8) : Bool := b == 101 || b == 69
def isAscii7 (b : UInt8) : Bool := b ≤ 127
def isProgramExpression (b : UInt8) : Bool :=
  32 ≤ b && b ≤ 126 && b != 34 && b != 35 && b != 39 && b != 40 && b != 41 && b != 59

/-- `!iseos(state) && p(state->pos[0])` -/
def peekP (buf : Bytes) (pos : Nat) (p : UInt8 → Bool) : Bool :=
  match buf[pos]? with
  | some b => p b
  | none => false

def iseos (buf : Bytes) (pos : Nat) : Bool := buf.length ≤ pos

/-- `while (!iseos && p(pos[0])) pos++` — structural on the remaining length -/
def skipWhile (buf : Bytes) (p : UInt8 → Bool) : Nat → Nat → Nat
  | 0, pos => pos
  | fuel+1, pos => if peekP buf pos p then skipWhile buf p fuel (pos + 1) else pos

def skipMany (buf : Bytes) (pos : Nat) (p : UInt8 → Bool) : Nat := skipWhile buf p (buf.length - pos) pos

/-- skip one character satisfying p, or nothing -/
def skipOne (buf : Bytes) (pos : Nat) (p : UInt8 → Bool) : Nat := if peekP buf pos p then pos + 1 else pos

def skipChr (buf : Bytes) (pos : Nat) (ch : UInt8) : Nat := skipOne buf pos (· == ch)

def skipWs (buf : Bytes) (pos : Nat) : Nat := skipMany buf pos isWs
def skipNumbers (buf : Bytes) (pos : Nat) : Nat := skipMany buf pos isDigit
def skipAlpha (buf : Bytes) (pos : Nat) : Nat := skipMany buf pos isAlpha

def mkTok (t : TokType) (ptr : Nat) (len : Int) : Token := ⟨t, ptr, len⟩

/-- scpiLex_WhiteSpace -/
def lexWhiteSpace (buf : Bytes) (pos : Nat) : Nat × Token × Int :=
  let p := skipWs buf pos
  let len : Int := p - pos
  (p, mkTok (if len > 0 then .ws else .unknown) pos len, len)

/-- skipProgramMnemonic: returns (pos, result) with result > 0 OK, < 0 INCOMPLETE (ended at eos), 0 none -/
def skipProgramMnemonic (buf : Bytes) (pos : Nat) : Nat × Int :=
  let p := if peekP buf pos isAlpha then skipMany buf (pos + 1) (fun b => isAlnum b || b == 95) else pos
  if iseos buf p then (p, -((p : Int) - pos)) else (p, (p : Int) - pos)

/-- skipCommonProgramHeader: 1 OK, -1 INCOMPLETE, 0 NONE -/
def skipCommonProgramHeader (buf : Bytes) (pos : Nat) : Nat × Int :=
  if peekP buf pos (· == 42) then
    let (p, res) := skipProgramMnemonic buf (pos + 1)
    if res == 0 && iseos buf p then (p, -1)
    else if res ≤ -1 then (p, 1)
    else if res ≥ 1 then (p, 1)
    else (p, -1)
  else (pos, 0)

/-- the `while (skipColon(state))` loop of skipCompoundProgramHeader -/
def compoundLoop (buf : Bytes) : Nat → Nat → Nat × Int
  | 0, pos => (pos, 1)
  | fuel+1, pos =>
    if peekP buf pos (· == 58) then
      let (p, res) := skipProgramMnemonic buf (pos + 1)
      if res ≤ -1 then (p, 1)
      else if res == 0 then (p, -1)
      else compoundLoop buf fuel p
    else (pos, 1)

/-- skipCompoundProgramHeader -/
def skipCompoundProgramHeader (buf : Bytes) (pos : Nat) : Nat × Int :=
  let p0 := skipChr buf pos 58
  let firstColon := p0 != pos
  let (p, res) := skipProgramMnemonic buf p0
  if res ≥ 1 then compoundLoop buf (buf.length - p + 1) p
  else if res ≤ -1 then (p, 1)
  else if firstColon then (p, -1)
  else (p, 0)

/-- scpiLex_ProgramHeader -/
def lexProgramHeader (buf : Bytes) (pos : Nat) : Nat × Token × Int :=
  let (p1, res) := skipCommonProgramHeader buf pos
  let (p, ty) : Nat × TokType :=
    if res ≥ 1 then
      let p2 := skipChr buf p1 63
      (p2, if p2 != p1 then .commonQueryHeader else .commonHeader)
    else if res ≤ -1 then (p1, .incompleteCommonHeader)
    else
      let (p2, res2) := skipCompoundProgramHeader buf p1
      if res2 ≥ 1 then
        let p3 := skipChr buf p2 63
        (p3, if p3 != p2 then .compoundQueryHeader else .compoundHeader)
      else if res2 ≤ -1 then (p2, .incompleteCompoundHeader)
      else (p2, .unknown)
  if ty != .unknown then (p, mkTok ty pos ((p : Int) - pos), (p : Int) - pos)
  else (pos, mkTok .unknown pos 0, 0)

/-- scpiLex_CharacterProgramData -/
def lexCharacterProgramData (buf : Bytes) (pos : Nat) : Nat × Token × Int :=
  let p := if peekP buf pos isAlpha then skipMany buf (pos + 1) (fun b => isAlnum b || b == 95) else pos
  let len : Int := (p : Int) - pos
  (p, mkTok (if len > 0 then .programMnemonic else .unknown) pos len, len)

/-- skipMantisa: (pos, someNumbers) -/
def skipMantisa (buf : Bytes) (pos : Nat) : Nat × Nat :=
  let p0 := skipOne buf pos isPlusMn
  let p1 := skipNumbers buf p0
  let n1 := p1 - p0
  if peekP buf p1 (· == 46) then
    let p2 := skipNumbers buf (p1 + 1)
    (p2, n1 + (p2 - (p1 + 1)))
  else (p1, n1)

/-- skipExponent: (pos, someNumbers) -/
def skipExponent (buf : Bytes) (pos : Nat) : Nat × Nat :=
  if peekP buf pos isE then
    let p1 := skipWs buf (pos + 1)
    let p2 := skipOne buf p1 isPlusMn
    let p3 := skipNumbers buf p2
    (p3, p3 - p2)
  else (pos, 0)

/-- scpiLex_DecimalNumericProgramData -/
def lexDecimal (buf : Bytes) (pos : Nat) : Nat × Token × Int :=
  let (pm, n) := skipMantisa buf pos
  let p :=
    if n != 0 then
      let rollback := pm
      let pw := skipWs buf pm
      let (pe, ne) := skipExponent buf pw
      if ne == 0 then rollback else pe
    else pos
  let len : Int := (p : Int) - pos
  (p, mkTok (if len > 0 then .decimal else .unknown) pos len, len)

/-- the `while (skipSlashDot)` loop of scpiLex_SuffixProgramData -/
def suffixLoop (buf : Bytes) : Nat → Nat → Nat
  | 0, pos => pos
  | fuel+1, pos =>
    if peekP buf pos (fun b => b == 47 || b == 46) then
      let p1 := skipAlpha buf (pos + 1)
      let p2 := skipChr buf p1 45
      let p3 := skipOne buf p2 isDigit
      suffixLoop buf fuel p3
    else pos

/-- scpiLex_SuffixProgramData -/
def lexSuffix (buf : Bytes) (pos : Nat) : Nat × Token × Int :=
  let p0 := skipChr buf pos 47
  let p1 := skipAlpha buf p0
  let p :=
    if p1 != p0 then
      let p2 := skipChr buf p1 45
      let p3 := skipOne buf p2 isDigit
      suffixLoop buf (buf.length - p3 + 1) p3
    else p1
  let len : Int := (p : Int) - pos
  if len > 0 then (p, mkTok .suffix pos len, len) else (pos, mkTok .unknown pos 0, 0)

/-- scpiLex_NondecimalNumericData: token ptr/len describe the digits, the return value the whole -/
def lexNondecimal (buf : Bytes) (pos : Nat) : Nat × Token × Int :=
  if peekP buf pos (· == 35) then
    let p1 := pos + 1
    let r : Option (Nat × TokType) :=
      if peekP buf p1 (fun b => b == 104 || b == 72) then some (skipMany buf (p1 + 1) isXDigit, .hexnum)
      else if peekP buf p1 (fun b => b == 113 || b == 81) then some (skipMany buf (p1 + 1) isQDigit, .octnum)
      else if peekP buf p1 (fun b => b == 98 || b == 66) then some (skipMany buf (p1 + 1) isBDigit, .binnum)
      else none
    match r with
    | some (p, ty) =>
      if p > p1 + 1 then
        let len : Int := (p : Int) - (pos + 2)
        (p, mkTok ty (pos + 2) len, len + 2)
      else (pos, mkTok .unknown pos 0, 0)
    | none => (pos, mkTok .unknown pos 0, 0)
  else (pos, mkTok .unknown pos 0, 0)

/-- skipQuoteProgramData: stops at a lone quote, at a non-7-bit byte or at eos -/
def skipQuote (buf : Bytes) (q : UInt8) : Nat → Nat → Nat
  | 0, pos => pos
  | fuel+1, pos =>
    match buf[pos]? with
    | none => pos
    | some b =>
      if isAscii7 b && b != q then skipQuote buf q fuel (pos + 1)
      else if b == q then
        if peekP buf (pos + 1) (· == q) then skipQuote buf q fuel (pos + 2) else pos
      else pos

/-- scpiLex_StringProgramData -/
def lexString (buf : Bytes) (pos : Nat) : Nat × Token × Int :=
  let go := fun (q : UInt8) (ty : TokType) =>
    let p1 := skipQuote buf q (buf.length - pos) (pos + 1)
    if peekP buf p1 (· == q) then
      let p := p1 + 1
      (p, mkTok ty pos ((p : Int) - pos), (p : Int) - pos)
    else (pos, mkTok .unknown pos 0, (0 : Int))
  if peekP buf pos (· == 34) then go 34 .doubleQuote
  else if peekP buf pos (· == 39) then go 39 .singleQuote
  else (pos, mkTok .unknown pos 0, 0)

/-- the length-digit loop of scpiLex_ArbitraryBlockProgramData: (pos, remaining i, length) -/
def blockDigits (buf : Bytes) : Nat → Nat → Nat → Nat × Nat × Nat
  | 0, pos, acc => (pos, 0, acc)
  | i+1, pos, acc =>
    match buf[pos]? with
    | some b => if isDigit b then blockDigits buf i (pos + 1) (acc * 10 + (b.toNat - 48)) else (pos, i + 1, acc)
    | none => (pos, i + 1, acc)

/-- scpiLex_ArbitraryBlockProgramData.  validData: 1 valid, 0 incomplete (swallows the rest), -1 invalid.
The C cursor may run past the end in `state->pos += arbitraryBlockLength`; it is compared, never
dereferenced, and the model keeps the same (possibly out-of-range) value in `pEnd`. -/
def lexBlock (buf : Bytes) (pos : Nat) : Nat × Token × Int :=
  let len := buf.length
  if peekP buf pos (· == 35) then
    let p1 := pos + 1
    match buf[p1]? with
    | some d =>
      if isDigit d && d != 48 then
        let (p2, irem, blen) := blockDigits buf (d.toNat - 48) (p1 + 1) 0
        if irem == 0 then
          let pEnd := p2 + blen
          if len ≥ pEnd then (pEnd, mkTok .block p2 blen, (blen : Int) + ((p2 : Int) - pos))
          else (len, mkTok .unknown pos 0, 0)             -- incomplete: swallow
        else if iseos buf p2 then (len, mkTok .unknown pos 0, 0)
        else (pos, mkTok .unknown pos 0, 0)
      else (pos, mkTok .unknown pos 0, 0)
    | none => (len, mkTok .unknown pos 0, 0)                -- "#" at end of input: incomplete
  else (pos, mkTok .unknown pos 0, 0)

/-- scpiLex_ProgramExpression (token->len initialised to 0 on entry) -/
def lexExpression (buf : Bytes) (pos : Nat) : Nat × Token × Int :=
  if peekP buf pos (· == 40) then
    let p1 := skipMany buf (pos + 1) isProgramExpression
    if peekP buf p1 (· == 41) then
      let p := p1 + 1
      (p, mkTok .expression pos ((p : Int) - pos), (p : Int) - pos)
    else (pos, mkTok .unknown pos 0, 0)
  else (pos, mkTok .unknown pos 0, 0)

def lexOneChar (buf : Bytes) (pos : Nat) (ch : UInt8) (ty : TokType) : Nat × Token × Int :=
  if peekP buf pos (· == ch) then (pos + 1, mkTok ty pos 1, 1) else (pos, mkTok .unknown pos 0, 0)

def lexComma (buf : Bytes) (pos : Nat) := lexOneChar buf pos 44 .comma
def lexSemicolon (buf : Bytes) (pos : Nat) := lexOneChar buf pos 59 .semicolon
def lexColon (buf : Bytes) (pos : Nat) := lexOneChar buf pos 58 .colon
def lexSpecific (buf : Bytes) (pos : Nat) (ch : UInt8) := lexOneChar buf pos ch .specificCharacter

/-- scpiLex_NewLine: CR? LF? with at least one of them -/
def lexNewLine (buf : Bytes) (pos : Nat) : Nat × Token × Int :=
  let p1 := skipChr buf pos 13
  let p := skipChr buf p1 10
  let len : Int := (p : Int) - pos
  if len > 0 then (p, mkTok .nl pos len, len) else (pos, mkTok .unknown pos 0, 0)

end ScpiVerif.Lexer
