/-
Model of the allocation-free device-dependent-info heap (libscpi/src/utils.c: scpiheap_init,
scpiheap_strndup, scpiheap_get_parts, scpiheap_free) and of the error queue on top of it
(error.c in configuration B: USE_DEVICE_DEPENDENT_ERROR_INFORMATION && !USE_MEMORY_ALLOCATION_FREE).

C fields -> model: data[size] -> List UInt8 of length size; wr, count, size -> Nat; a `char *` into
the heap -> its offset.  `oob` records any store or load whose index is >= size (List.set / getD
would hide it): the theorems show it stays false.
-/
import ScpiVerif.Model.Fifo

namespace ScpiVerif.Heap
open ScpiVerif.Fifo (Bytes Fifo)

structure Heap where
  wr : Nat
  count : Nat
  size : Nat
  data : List UInt8
  oob : Bool := false
deriving Repr, DecidableEq

/-- scpiheap_init -/
def init (size : Nat) : Heap := { wr := 0, count := size, size := size, data := List.replicate size 0 }

def store (h : Heap) (i : Nat) (b : UInt8) : Heap :=
  if i < h.size then { h with data := h.data.set i b } else { h with oob := true }

/-- memcpy(&data[at], src, src.length) -/
def storeAll (h : Heap) (at_ : Nat) (src : List UInt8) : Heap :=
  (src.zipIdx).foldl (fun h (b, i) => store h (at_ + i) b) h

/-- memset(&data[at], 0, n) -/
def zero (h : Heap) (at_ n : Nat) : Heap := storeAll h at_ (List.replicate n 0)

def cstr (s : Bytes) : Bytes := s.takeWhile (· ≠ 0)

/-- scpiheap_strndup(heap, s, n): `s` is the caller's NUL-terminated text (bytes before the NUL).
Returns the new heap and the offset of the copy, or none (NULL). -/
def strndup (h : Heap) (s : Bytes) (n : Nat) : Heap × Option Nat :=
  if h.size = 0 then (h, none)
  else if h.data.getD h.wr 0 ≠ 0 then (h, none)
  else if (cstr s).isEmpty then (h, none)
  else
    let text := (cstr s).take n
    let src := text ++ [0]            -- the bytes memcpy reads; the last one is overwritten by the forced NUL
    let len := text.length + 1
    if len > h.count then (h, none)
    else
      let head := h.wr
      let rem := h.size - h.wr
      let (h, src, len) :=
        if len ≥ rem then
          let h := storeAll h h.wr (src.take rem)
          ({ h with wr := 0, count := h.count - rem }, src.drop rem, len - rem)
        else (h, src, len)
      let h := storeAll h h.wr src
      let h := { h with wr := h.wr + len, count := h.count - len }
      let h := if h.wr > 0 then store h (h.wr - 1) 0 else store h (h.size - 1) 0
      (h, some head)

/-- strnlen(&data[from], max) -/
def strnlenAt (h : Heap) (from_ max : Nat) : Nat := ((h.data.drop from_).take max).takeWhile (· ≠ 0) |>.length

/-- scpiheap_get_parts: none = FALSE; otherwise (len1, second part present, len2) -/
def getParts (h : Heap) (s : Nat) : Option (Nat × Bool × Nat) :=
  if h.data.getD s 0 = 0 then none
  else
    let rem := h.size - s
    let len1 := strnlenAt h s rem
    if s + len1 = h.size then some (len1, true, strnlenAt h 0 h.size)      -- &s[len1-1] == &data[size-1]
    else some (len1, false, 0)

/-- the text a stored pointer denotes (what SCPI_ResultError emits) -/
def textAt (h : Heap) (s : Nat) : Option Bytes :=
  match getParts h s with
  | none => none
  | some (l1, two, l2) => some (((h.data.drop s).take l1) ++ (if two then h.data.take l2 else []))

/-- scpiheap_free(heap, s, rollback); `none` is a NULL pointer -/
def free (h : Heap) (s : Option Nat) (rollback : Bool) : Heap :=
  match s with
  | none => h
  | some s =>
    match getParts h s with
    | none => h
    | some (l0, two, l1) =>
      let (h, l0, l1) :=
        if two then
          let l1 := l1 + 1
          let h := zero h 0 l1
          ({ h with count := h.count + l1 }, l0, l1)
        else (h, l0 + 1, l1)
      let h := zero h s l0
      let h := { h with count := h.count + l0 }
      if h.count = h.size then { h with wr := 0 }
      else if rollback then
        let rb := l0 + l1
        let wr := if rb > h.wr then h.wr + h.size else h.wr
        { h with wr := wr - rb }
      else h

/-! ### Error queue over the heap (configuration B) -/

structure Entry where
  code : Int
  info : Option Nat        -- offset into the heap or NULL
deriving Repr, DecidableEq

structure EQH where
  fifo : Fifo Entry
  heap : Heap
deriving Repr, DecidableEq

def EQH.init (cap heapSize : Nat) : EQH := { fifo := Fifo.init cap ⟨0, none⟩, heap := Heap.init heapSize }

/-- SCPI_ErrorPushEx, queue side: returns callbacks like Fifo.EQ.push -/
def EQH.push (q : EQH) (code : Int) (info : Option Bytes) (infoLen : Nat) : EQH × List Int :=
  let infoLen := match info with
    | some s => if infoLen = 0 then Fifo.strnlen s 255 else infoLen
    | none => infoLen
  let (heap, ptr) : Heap × Option Nat :=
    match info with
    | some s => strndup q.heap s infoLen
    | none => (q.heap, none)
  let (f1, ok) := Fifo.add q.fifo ⟨code, ptr⟩
  if ok then ({ fifo := f1, heap := heap }, [code])
  else
    let heap := free heap ptr true
    let (f2, last) := Fifo.removeLast q.fifo
    let heap := free heap (match last with | some e => e.info | none => ptr) true
    let (f3, _) := Fifo.add f2 ⟨Fifo.overflowCode, none⟩
    ({ fifo := f3, heap := heap }, [code, Fifo.overflowCode])

/-- SYSTem:ERRor[:NEXT]?: pop, read the text through get_parts, free without rollback -/
def EQH.sysErrNext (q : EQH) : EQH × Int × Option Bytes :=
  let (f, e) := Fifo.remove q.fifo
  let e := e.getD ⟨0, none⟩
  let text := match e.info with | some s => textAt q.heap s | none => none
  ({ fifo := f, heap := free q.heap e.info false }, e.code, text)

def EQH.clearLoop : Nat → Fifo Entry → Heap → Fifo Entry × Heap
  | 0, f, h => (f, h)
  | n+1, f, h =>
    match Fifo.remove f with
    | (f', some e) => EQH.clearLoop n f' (free h e.info false)
    | (f', none) => (f', h)

/-- SCPI_ErrorClear -/
def EQH.clear (q : EQH) : EQH :=
  let (f, h) := EQH.clearLoop q.fifo.count q.fifo q.heap
  { fifo := Fifo.clear f, heap := h }

def EQH.count (q : EQH) : Nat := q.fifo.count

inductive Op where
  | push (code : Int) (info : Option Bytes) (infoLen : Nat)
  | sysErr
  | clear
  | count
deriving Repr, DecidableEq

inductive Obs where
  | pushed (callbacks : List Int)
  | popped (code : Int) (text : Option Bytes)
  | cleared
  | counted (n : Nat)
deriving Repr, DecidableEq

def EQH.step (q : EQH) : Op → EQH × Obs
  | .push c i l => let (q', cb) := q.push c i l; (q', .pushed cb)
  | .sysErr => let (q', c, t) := q.sysErrNext; (q', .popped c t)
  | .clear => (q.clear, .cleared)
  | .count => (q, .counted q.count)

/-- run a history, collecting observations -/
def run {σ : Type} (step : σ → Op → σ × Obs) : σ → List Op → σ × List Obs
  | s, [] => (s, [])
  | s, op :: ops =>
    let (s1, o) := step s op
    let (s2, os) := run step s1 ops
    (s2, o :: os)

/-! ### Specification -/

/-- the abstract queue remembers the full text of every push -/
def specStep (cap : Nat) (q : Fifo.SpecQ) : Op → Fifo.SpecQ × Obs
  | .push c i l =>
    let q' := Fifo.specPush cap q (c, Fifo.specText true i l true)
    (q', .pushed (if q.length < cap then [c] else [c, Fifo.overflowCode]))
  | .sysErr => let (q', e) := Fifo.specPop q; (q', .popped e.1 e.2)
  | .clear => ([], .cleared)
  | .count => (q, .counted q.length)

/-- "intact or not at all": the implementation's observation equals the specification's, except
that a reported text may be absent; an empty text is "no text" (C strings) -/
def obsOK : Obs → Obs → Bool
  | .popped c t, .popped c' t' => c == c' && (t == t' || t == none)
  | a, b => a == b

/-- texts of the histories: C strings, i.e. no embedded NUL -/
def Op.wf : Op → Bool
  | .push _ (some s) _ => s.all (· ≠ 0)
  | _ => true

end ScpiVerif.Heap
