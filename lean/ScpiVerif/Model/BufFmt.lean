/-
Model of the functions that fill a caller-supplied buffer (C15): SCPI_FloatToStr / SCPI_DoubleToStr,
the final copy of SCPI_dtostre, SCPI_NumberToStr — over a buffer object whose cells record whether
they were ever written, with flags for a store outside the object (`oob`) and a read of a cell that
was never written (`uninit`).  snprintf / strncpy / strncat / strlen / strnlen are modelled by their
C specifications.  The text a value formats to is a parameter (`text`): in the printf build it is
what snprintf("%g" / "%.15lg") produces, in the other build what SCPI_dtostre assembles.
-/
import ScpiVerif.Gen.Tables
import ScpiVerif.Model.Lexer

namespace ScpiVerif.BufFmt
open ScpiVerif.Lexer (Bytes)

structure Buf where
  len : Nat                         -- size of the caller's object
  cells : List (Option UInt8)       -- `len` cells, none = never written
  oob : Bool := false
  uninit : Bool := false
deriving Repr, DecidableEq

def Buf.fresh (len : Nat) : Buf := { len, cells := List.replicate len none }

def Buf.store (b : Buf) (i : Nat) (v : UInt8) : Buf :=
  if i < b.len then { b with cells := b.cells.set i (some v) } else { b with oob := true }

def Buf.storeAll (b : Buf) (at_ : Nat) (d : Bytes) : Buf := (d.zipIdx).foldl (fun b (x, k) => b.store (at_ + k) x) b

/-- strlen(str): index of the first NUL; reading past the object or an unwritten cell is flagged -/
def Buf.strlen (b : Buf) : Buf × Nat :=
  let rec go : Nat → Nat → Buf × Nat
    | 0, i => ({ b with oob := true }, i)
    | f+1, i =>
      match b.cells[i]? with
      | none => ({ b with oob := true }, i)                    -- ran off the end of the object
      | some none => ({ b with uninit := true }, i)            -- unwritten memory
      | some (some v) => if v == 0 then (b, i) else go f (i + 1)
  go (b.len + 1) 0

/-- strnlen(str, n) -/
def Buf.strnlen (b : Buf) (n : Nat) : Buf × Nat :=
  let rec go : Nat → Nat → Buf × Nat
    | 0, i => (b, i)
    | f+1, i =>
      if i ≥ n then (b, i) else
      match b.cells[i]? with
      | none => ({ b with oob := true }, i)
      | some none => ({ b with uninit := true }, i)
      | some (some v) => if v == 0 then (b, i) else go f (i + 1)
  go (n + 1) 0

/-- snprintf(str, len, fmt, …) producing `text`: at most len-1 characters and a NUL; nothing for len = 0 -/
def snprintf (b : Buf) (len : Nat) (text : Bytes) : Buf :=
  if len == 0 then b else (b.storeAll 0 (text.take (len - 1))).store (min text.length (len - 1)) 0

/-- strncpy(dst, src, n): exactly n bytes are written: the string, then NUL padding -/
def strncpy (b : Buf) (src : Bytes) (n : Nat) : Buf :=
  let s := src.takeWhile (· ≠ 0)
  b.storeAll 0 ((s.take n) ++ List.replicate (n - s.length) 0)

/-- strncat(dst, src, n): at most n characters of src appended at strlen(dst), then a NUL -/
def strncat (b : Buf) (src : Bytes) (n : Nat) : Buf :=
  let (b, l) := b.strlen
  let s := (src.takeWhile (· ≠ 0)).take n
  (b.storeAll l s).store (l + s.length) 0

/-- SCPI_FloatToStr / SCPI_DoubleToStr in the printf build: (buffer, return value) -/
def doubleToStr (b : Buf) (len : Nat) (text : Bytes) : Buf × Nat :=
  if len == 0 then (b, 0) else
  let b := snprintf b len text
  b.strlen

/-- the final `strncpy(__s, buffer, __ssize); __s[__ssize - 1] = 0` of SCPI_dtostre (also its nan / inf exit) -/
def dtostreCopy (b : Buf) (ssize : Nat) (text : Bytes) : Buf :=
  if ssize == 0 then b else (strncpy b text ssize).store (ssize - 1) 0

/-- translateUnitInverse over the generated table: first row with this unit and multiplier 1 -/
def unitName (unit : Nat) : Option Bytes :=
  (Gen.unitsDef.find? (fun u => u.2.1 == unit ∧ u.2.2.1 == 1 ∧ u.2.2.2 == 1)).map (fun u => u.1.toUTF8.toList)

/-- SCPI_ChoiceToName over the generated special-number table -/
def specialName (tag : Int) : Option Bytes :=
  (Gen.specialNumbersDef.find? (fun p => p.2 == tag)).map (fun p => p.1.toUTF8.toList)

/-- SCPI_NumberToStr: `numText` is what SCPI_DoubleToStr produces for the value with ample room -/
def numberToStr (b : Buf) (len : Nat) (special : Bool) (tag : Int) (numText : Bytes) (unit : Nat) : Buf × Nat :=
  if len == 0 then (b, 0)
  else if special then
    match specialName tag with
    | some name =>
      let b := strncpy b name len
      let (b, r) := b.strnlen (len - 1)
      (b.store r 0, r)
    | none => (b.store 0 0, 0)
  else
    let (b, result) := doubleToStr b len numText
    if result + 1 < len then
      match unitName unit with
      | some u =>
        let b := strncat b [32] (len - result)
        let b := if result + 2 < len then strncat b u (len - result - 2) else b
        b.strlen
      | none => (b, result)
    else (b, result)

/-- the C string currently in the buffer (bytes before the first NUL), if it is terminated inside the object -/
def Buf.cstring (b : Buf) : Option Bytes :=
  let bytes := b.cells.map (fun c => c.getD 170)
  if bytes.contains 0 then some (bytes.takeWhile (· ≠ 0)) else none

end ScpiVerif.BufFmt
