/-
The command handlers the library ships itself: the IEEE 488.2 common commands (libscpi/src/ieee488.c,
SCPI_Core*) and the minimal SCPI command set (libscpi/src/minimal.c, SCPI_Stub*, SCPI_System*,
SCPI_Status*).  One constructor per C function.  Their semantics on the context model is
`Ctx.runBuiltin` (Model/Ctx.lean: it needs the context, `paramInt` and `pushError`, and `runOp` needs it).

`idnQ` carries the four identification strings of `context->idn[]` (NULL = `none`): they are static
configuration given to SCPI_Init, like the command table, so the model keeps them in the table entry
that binds `*IDN?`.  The harness initialises every context with `harnessIdn`.
-/
namespace ScpiVerif

inductive Builtin where
  | cls                                      -- SCPI_CoreCls
  | ese                                      -- SCPI_CoreEse
  | eseQ                                     -- SCPI_CoreEseQ
  | esrQ                                     -- SCPI_CoreEsrQ
  | idnQ (fields : List (Option (List UInt8))) -- SCPI_CoreIdnQ with context->idn[0..3]
  | opc                                      -- SCPI_CoreOpc
  | opcQ                                     -- SCPI_CoreOpcQ
  | rst                                      -- SCPI_CoreRst
  | sre                                      -- SCPI_CoreSre
  | sreQ                                     -- SCPI_CoreSreQ
  | stbQ                                     -- SCPI_CoreStbQ
  | tstQ                                     -- SCPI_CoreTstQ
  | wai                                      -- SCPI_CoreWai
  | stub                                     -- SCPI_Stub
  | stubQ                                    -- SCPI_StubQ
  | versQ                                    -- SCPI_SystemVersionQ
  | errNextQ                                 -- SCPI_SystemErrorNextQ
  | errCountQ                                -- SCPI_SystemErrorCountQ
  | quesCondQ                                -- SCPI_StatusQuestionableConditionQ
  | quesEvenQ                                -- SCPI_StatusQuestionableEventQ
  | quesEnabQ                                -- SCPI_StatusQuestionableEnableQ
  | quesEnab                                 -- SCPI_StatusQuestionableEnable
  | operCondQ                                -- SCPI_StatusOperationConditionQ
  | operEvenQ                                -- SCPI_StatusOperationEventQ
  | operEnabQ                                -- SCPI_StatusOperationEnableQ
  | operEnab                                 -- SCPI_StatusOperationEnable
  | pres                                     -- SCPI_StatusPreset
deriving Repr, DecidableEq

namespace Builtin

/-- what harness/h_env.c passes to SCPI_Init: "MANU", "MODEL", NULL, "01-02" -/
def harnessIdn : List (Option (List UInt8)) :=
  [some "MANU".toUTF8.toList, some "MODEL".toUTF8.toList, none, some "01-02".toUTF8.toList]

/-- script-operation names of the line protocol (`bI,<name>`) -/
def ofName : String → Option Builtin
  | "CLS" => some cls | "ESE" => some ese | "ESEQ" => some eseQ | "ESRQ" => some esrQ
  | "IDNQ" => some (idnQ harnessIdn) | "OPC" => some opc | "OPCQ" => some opcQ | "RST" => some rst
  | "SRE" => some sre | "SREQ" => some sreQ | "STBQ" => some stbQ | "TSTQ" => some tstQ | "WAI" => some wai
  | "STUB" => some stub | "STUBQ" => some stubQ | "VERSQ" => some versQ
  | "ERRNEXTQ" => some errNextQ | "ERRCOUNTQ" => some errCountQ
  | "QCONDQ" => some quesCondQ | "QEVENQ" => some quesEvenQ | "QENABQ" => some quesEnabQ | "QENAB" => some quesEnab
  | "OCONDQ" => some operCondQ | "OEVENQ" => some operEvenQ | "OENABQ" => some operEnabQ | "OENAB" => some operEnab
  | "PRES" => some pres
  | _ => none

end Builtin
end ScpiVerif
