/-
Model of the context-level behaviour of libscpi/src/parser.c: SCPI_Parameter and the typed
parameter readers, processCommand, findCommandHeader, SCPI_Parse (unit loop with in-place
compound-header composition), SCPI_Input (buffering, message scan, remainder).
Handlers are data: a command-table entry carries a script (list of API operations) that one
generic handler interprets — in the harness against the real API, here against the model API.
-/
import ScpiVerif.Model.Parser
import ScpiVerif.Model.Match
import ScpiVerif.Model.Result
import ScpiVerif.Model.Prim
import ScpiVerif.Model.Regs
import ScpiVerif.Model.Fifo
import ScpiVerif.Model.Builtin

namespace ScpiVerif.Ctx
open ScpiVerif.Lexer (Bytes Token TokType)
open ScpiVerif

/-- one operation of a handler script -/
inductive SOp where
  | pInt (w : Nat) (signed : Bool) (mand : Bool)            -- SCPI_ParamInt32/UInt32/Int64/UInt64
  | pFloat (dbl : Bool) (mand : Bool)                        -- SCPI_ParamFloat / SCPI_ParamDouble
  | pBool (mand : Bool)
  | pChoice (mand : Bool) (list : Nat)
  | pNumber (mand : Bool)
  | pChars (mand : Bool)
  | pBlock (mand : Bool)
  | pText (mand : Bool) (cap : Nat)                          -- SCPI_ParamCopyText into a cap-byte buffer
  | pArrInt (w : Nat) (signed : Bool) (cap : Nat) (mand : Bool)
  | rInt (w : Nat) (signed : Bool) (val : Nat) (base : Int) -- SCPI_ResultInt8..64 / UInt8..64Base (val = pattern in its own width n)
  | rIntN (n : Nat) (signed : Bool) (val : Nat) (base : Int)
  | rFloatText (text : Bytes)                                -- SCPI_ResultFloat/Double; text = what the C formatter gives
  | rBool (b : Bool)
  | rText (d : Bytes)
  | rChars (d : Bytes)
  | rBlock (d : Bytes)
  | rBlockHeader (n : Nat)
  | rBlockData (d : Bytes)
  | rArrBin (itemSize : Nat) (elems : List Bytes) (sameOrder : Bool)
  | ePush (code : Int) (info : Option Bytes)
  | iTag
  | iNums (n : Nat) (dflt : Int)
  | iIsCmd (s : Bytes)                                        -- SCPI_IsCmd(context, s): does the header text `s` belong to the matched entry's pattern?
  | iMatch (pat s : Bytes)                                    -- SCPI_Match(pat, s, len)
  | onFail (stop : Bool)                                      -- a failed reader makes the handler return ERR at once
  | ret (ok : Bool)
  | builtin (b : Builtin)                                     -- one of the library's own handlers (SCPI_Core*, SCPI_System*, SCPI_Status*)
deriving Repr, DecidableEq

structure Cmd where
  pattern : Bytes
  tag : Int
  script : List SOp
deriving Repr, DecidableEq

/-- observable events, in order -/
inductive Ev where
  | handler (tag : Int) (effHdr : Bytes)                       -- handler entered: matched entry, effective header (cmd_raw)
  | pInt (ok : Bool) (v : Int)
  | pLit (ok : Bool) (lit : Bytes)                             -- float reader: the text handed to strtod/strtof and converted
  | pBool (ok : Bool) (v : Bool)
  | pChoice (ok : Bool) (tag : Int)
  | pNumber (ok : Bool) (special : Bool) (tag : Int) (lit : Bytes) (unit : Nat) (multNum multDen : Nat) (base : Nat)
  | pBytes (ok : Bool) (off : Nat) (d : Bytes)                 -- chars / block: offset inside the message and bytes
  | pText (ok : Bool) (copied : Bytes) (nul : Bool)
  | pArr (ok : Bool) (vals : List Int)
  | tag (t : Int)
  | nums (ok : Bool) (l : List Int)
  | test (ok : Bool)                                           -- result of SCPI_IsCmd / SCPI_Match
  | error (code : Int) (info : Option Bytes)                   -- error pushed (code, device-dependent text handed in)
  | input (result : Bool)                                      -- return value of one SCPI_Input call
  | parseMsg (msg : Bytes)                                     -- SCPI_Parse entered with this message (verification hook)
  | noError                                                    -- error callback with code 0 (SCPI_ErrorEmitEmpty: the queue became empty)
  | reset                                                      -- interface->reset called (*RST)
deriving Repr, DecidableEq

structure Ctx where
  cmds : List Cmd
  choices : List (List (Bytes × Int))       -- choice lists available to pChoice
  bufLen : Nat                               -- context->buffer.length
  buf : Bytes                                -- context->buffer.data (always bufLen bytes)
  position : Nat
  regs : Regs.St
  eq : Fifo.EQ
  withInfo : Bool                            -- device-dependent info configured
  out : Result.Out := {}
  cmdError : Bool := false
  inputCount : Nat := 0
  -- param_list
  pbase : Nat := 0                           -- lex_state.buffer (offset in buf)
  plen : Nat := 0                            -- lex_state.len
  ppos : Nat := 0                            -- lex_state.pos (offset in buf)
  cur : Option Cmd := none                   -- param_list.cmd
  rawOff : Nat := 0                          -- cmd_raw.data
  rawLen : Nat := 0                          -- cmd_raw.length
  events : List Ev := []
  oob : Bool := false                        -- a modelled access outside its object
deriving Repr

def Ctx.init (cmds : List Cmd) (choices : List (List (Bytes × Int))) (bufLen queueCap : Nat) (withInfo : Bool) : Ctx :=
  { cmds, choices, bufLen, buf := List.replicate bufLen 0, position := 0,
    regs := Regs.St.init queueCap, eq := Fifo.EQ.init queueCap, withInfo }

def emit (c : Ctx) (e : Ev) : Ctx := { c with events := c.events ++ [e] }

/-- SCPI_ErrorPushEx -/
def pushError (c : Ctx) (code : Int) (info : Option Bytes) (infoLen : Nat := 0) : Ctx :=
  let (eq, cbs) := c.eq.push c.withInfo code info infoLen true
  let regs := Regs.errPush c.regs code
  let c := emit { c with eq, regs, cmdError := true } (.error code (info.map (fun s => if infoLen = 0 then s.takeWhile (· ≠ 0) else (s.takeWhile (· ≠ 0)).take infoLen)))
  -- queue overflow: the error callback is invoked a second time with -350
  if cbs.length > 1 then emit c (.error Fifo.overflowCode none) else c

/-! ### parameters -/

/-- the bytes the lexer may look at: lex_state {buffer = pbase, len = plen} -/
def pwin (c : Ctx) : Bytes := (c.buf.drop c.pbase).take c.plen

/-- SCPI_Parameter: returns the token with offsets relative to `buf` (absolute) -/
def parameter (c : Ctx) (mand : Bool) : Ctx × Bool × Token :=
  let inval : Token := ⟨.unknown, 0, 0⟩
  if c.ppos ≥ c.pbase + c.plen then
    if mand then (pushError c (-109) none, false, inval)
    else (c, false, { inval with type := .programMnemonic })      -- "absent" marker
  else
    let win := pwin c
    let rel := c.ppos - c.pbase
    let go := fun (c : Ctx) (rel : Nat) =>
      let c := { c with inputCount := c.inputCount + 1 }
      let (p, tok, _) := Parser.parseProgramData win rel
      let c := { c with ppos := c.pbase + p }
      match tok.type with
      | .hexnum | .octnum | .binnum | .programMnemonic | .decimal | .decimalWithSuffix | .block
      | .singleQuote | .doubleQuote | .expression => (c, true, { tok with ptr := c.pbase + tok.ptr })
      | _ => (pushError c (-151) none, false, inval)
    if c.inputCount != 0 then
      let (p, t, _) := Lexer.lexComma win rel
      if t.type != .comma then (pushError { c with ppos := c.pbase + p } (-103) none, false, inval)
      else go { c with ppos := c.pbase + p } p
    else go c rel

def isNumber (t : Token) (suffixAllowed : Bool) : Bool :=
  match t.type with
  | .hexnum | .octnum | .binnum | .decimal => true
  | .decimalWithSuffix => suffixAllowed
  | _ => false

/-- ParamSignToUInt32 / ParamSignToUInt64: (converted?, value as Int in the destination's reading) -/
def paramToInt (c : Ctx) (t : Token) (w : Nat) (signed : Bool) : Bool × Int :=
  -- the destination is the same w-bit object whether it is declared signed or unsigned: the signed readers see the bit pattern
  let u := fun (base : Nat) => let (n, v) := Prim.strtoulTo w c.buf t.ptr base; (n > 0, if signed then Prim.wrapSigned w (v : Int) else (v : Int))
  match t.type with
  | .hexnum => u 16
  | .octnum => u 8
  | .binnum => u 2
  | .decimal | .decimalWithSuffix =>
    if signed then let (n, v) := Prim.strtolTo w c.buf t.ptr 10; (n > 0, v) else u 10
  | _ => (false, 0)

/-- the typed integer readers: (ctx, ok, value) -/
def paramInt (c : Ctx) (w : Nat) (signed mand : Bool) : Ctx × Bool × Int :=
  let (c, ok, t) := parameter c mand
  if !ok then (c, false, 0)
  else if isNumber t false then
    let (r, v) := paramToInt c t w signed
    -- nothing could be converted (e.g. ".5"): not an integer
    if r then (c, true, v) else (pushError c (-104) none, false, 0)
  else if isNumber t true then (pushError c (-138) none, false, 0)
  else (pushError c (-104) none, false, 0)

/-- SCPI_ParamFloat / SCPI_ParamDouble: the value is what strtof/strtod make of `lit`; for #H/#Q/#B
the integer is converted (32 bit for float, 64 bit for double) and `lit` is its decimal text -/
def paramFloat (c : Ctx) (dbl mand : Bool) : Ctx × Bool × Bytes :=
  let (c, ok, t) := parameter c mand
  if !ok then (c, false, [])
  else if isNumber t false then
    match t.type with
    | .decimal =>
      let n := Prim.strtodLen c.buf t.ptr
      (c, true, (c.buf.drop t.ptr).take n)          -- the readers ignore the conversion result
    | _ =>
      let (_, v) := paramToInt c t (if dbl then 64 else 32) false
      (c, true, Result.charsToBytes (IntFmt.specDigits 10 v.toNat))
  else if isNumber t true then (pushError c (-138) none, false, [])
  else (pushError c (-104) none, false, [])

def matchName (name : Bytes) (s : Bytes) : Bool := (Match.matchPattern name 0 name.length s 0 s.length false).1

/-- SCPI_ParamToChoice -/
def paramToChoice (c : Ctx) (t : Token) (opts : List (Bytes × Int)) : Ctx × Bool × Int :=
  if t.type == .programMnemonic then
    let s := (c.buf.drop t.ptr).take t.len.toNat
    match opts.find? (fun o => matchName o.1 s) with
    | some o => (c, true, o.2)
    | none => (pushError c (-224) none, false, 0)
  else (pushError c (-104) none, false, 0)

def boolDef : List (Bytes × Int) := Gen.boolDef.map (fun p => (Result.bytesOf p.1, p.2))
def specialDef : List (Bytes × Int) := Gen.specialNumbersDef.map (fun p => (Result.bytesOf p.1, p.2))

/-- SCPI_ParamBool -/
def paramBool (c : Ctx) (mand : Bool) : Ctx × Bool × Bool :=
  let (c, ok, t) := parameter c mand
  if !ok then (c, false, false)
  else if t.type == .decimal then
    let (_, v) := paramToInt c t 32 true
    (c, true, v != 0)
  else
    let (c, r, v) := paramToChoice c t boolDef
    (c, r, v != 0)

/-- SCPI_ParamChoice -/
def paramChoice (c : Ctx) (mand : Bool) (opts : List (Bytes × Int)) : Ctx × Bool × Int :=
  let (c, ok, t) := parameter c mand
  if !ok then (c, false, 0) else paramToChoice c t opts

/-- SCPI_ParamCharacters: (ok, offset, bytes) -/
def paramChars (c : Ctx) (mand : Bool) : Ctx × Bool × Nat × Bytes :=
  let (c, ok, t) := parameter c mand
  if !ok then (c, false, 0, [])
  else match t.type with
    | .singleQuote | .doubleQuote => (c, true, t.ptr + 1, (c.buf.drop (t.ptr + 1)).take (t.len.toNat - 2))
    | _ => (c, true, t.ptr, (c.buf.drop t.ptr).take t.len.toNat)

/-- SCPI_ParamArbitraryBlock -/
def paramBlock (c : Ctx) (mand : Bool) : Ctx × Bool × Nat × Bytes :=
  let (c, ok, t) := parameter c mand
  if !ok then (c, false, 0, [])
  else if t.type == .block then (c, true, t.ptr, (c.buf.drop t.ptr).take t.len.toNat)
  else (pushError c (-104) none, false, 0, [])

/-- the copy loop of SCPI_ParamCopyText: (copied bytes, NUL written) -/
def copyText (tok : Bytes) (quote : UInt8) (cap : Nat) : Bytes × Bool :=
  let rec go : Nat → Nat → Bytes → Bytes
    | 0, _, acc => acc
    | fuel+1, iFrom, acc =>
      if iFrom + 1 < tok.length then
        if iFrom ≥ cap then acc
        else
          let b := tok.getD iFrom 0
          go fuel (if b == quote then iFrom + 2 else iFrom + 1) (acc ++ [b])
      else acc
  let r := go (tok.length + 1) 1 []
  (r, decide (r.length < cap))

/-- SCPI_ParamCopyText -/
def paramText (c : Ctx) (mand : Bool) (cap : Nat) : Ctx × Bool × Bytes × Bool :=
  let (c, ok, t) := parameter c mand
  if !ok then (c, false, [], false)
  else match t.type with
    | .singleQuote => let (r, n) := copyText ((c.buf.drop t.ptr).take t.len.toNat) 39 cap; (c, true, r, n)
    | .doubleQuote => let (r, n) := copyText ((c.buf.drop t.ptr).take t.len.toNat) 34 cap; (c, true, r, n)
    | _ => (pushError c (-104) none, false, [], false)

/-- PARAM_ARRAY_TEMPLATE over the integer readers -/
def paramArrInt (c : Ctx) (w : Nat) (signed : Bool) (cap : Nat) (mand : Bool) : Ctx × Bool × List Int :=
  let rec go : Nat → Ctx → Bool → List Int → Ctx × Bool × List Int
    | 0, c, m, acc => (c, !m, acc)
    | n+1, c, m, acc =>
      let (c, ok, v) := paramInt c w signed m
      if ok then go n c false (acc ++ [v]) else (c, !m, acc)
  go cap c mand []

/-- translateUnit over the generated units table: first entry whose name equals the text ignoring case -/
def translateUnit (s : Bytes) : Option (Nat × Nat × Nat) :=
  let rec go : List (String × Nat × Nat × Nat) → Option (Nat × Nat × Nat)
    | [] => none
    | (n, u, a, b) :: rest =>
      let nb := Result.bytesOf n
      if Match.compareStr s 0 s.length nb 0 nb.length then some (u, a, b) else go rest
  go Gen.unitsDef

/-- SCPI_ParamNumber with scpi_special_numbers_def -/
def paramNumber (c : Ctx) (mand : Bool) : Ctx × Ev :=
  let (c, ok, t) := parameter c mand
  let fail := Ev.pNumber false false 0 [] 0 1 1 10
  if !ok then (c, fail)
  else
    let tokBytes := (c.buf.drop t.ptr).take t.len.toNat
    match t.type with
    | .decimal =>
      let n := Prim.strtodLen c.buf t.ptr
      (c, .pNumber true false 0 ((c.buf.drop t.ptr).take n) 0 1 1 10)
    | .hexnum | .octnum | .binnum =>
      let (_, v) := paramToInt c t 64 false
      (c, .pNumber true false 0 (Result.charsToBytes (IntFmt.specDigits 10 v.toNat)) 0 1 1
          (match t.type with | .hexnum => 16 | .octnum => 8 | _ => 2))
    | .decimalWithSuffix =>
      -- re-lex inside the token: number, white space, suffix
      let (p1, _, _) := Lexer.lexDecimal tokBytes 0
      let (p2, _, _) := Lexer.lexWhiteSpace tokBytes p1
      let (_, st, _) := Lexer.lexSuffix tokBytes p2
      let n := Prim.strtodLen c.buf t.ptr
      let lit := (c.buf.drop t.ptr).take n
      let unitText := (tokBytes.drop st.ptr).take st.len.toNat
      let s := (unitText.takeWhile (fun b => Prim.isSpace b)).length      -- skipWhitespace
      if s == unitText.length then (c, .pNumber true false 0 lit 0 1 1 10)
      else match translateUnit (unitText.drop s) with
        | some (u, a, b) => (c, .pNumber true false 0 lit u a b 10)
        | none => (pushError c (-131) none, fail)
    | .programMnemonic =>
      let (p1, _, _) := Lexer.lexWhiteSpace tokBytes 0
      let (_, ct, _) := Lexer.lexCharacterProgramData tokBytes p1
      let (c, r, tag) := paramToChoice c { ct with ptr := t.ptr + ct.ptr } specialDef
      (c, .pNumber r true tag [] 0 1 1 10)
    | _ => (pushError c (-104) none, fail)

/-! ### the library's own handlers (ieee488.c, minimal.c) -/

/-- install the new status state; `interface->error(context, 0)` of SCPI_ErrorEmitEmpty is an event (the
status-side model logs the callback in `errcb`) -/
def noErrorCb (c : Ctx) (regs : Regs.St) : Ctx :=
  let fired := regs.errcb.length > c.regs.errcb.length
  let c := { c with regs := regs }
  if fired then emit c .noError else c

/-- SCPI_ResultInt32 of a non-negative value -/
def resultNat32 (c : Ctx) (n : Nat) : Ctx := { c with out := Result.resultIntBaseSign c.out 32 n 10 true }

/-- SCPI_ResultInt32(context, SCPI_RegGet(context, reg)) -/
def resultReg (c : Ctx) (reg : Nat) : Ctx := resultNat32 c (Regs.get c.regs reg).toNat

/-- one status-register operation of Model/Regs.lean on the context -/
def regStep (c : Ctx) (op : Regs.Op) : Ctx := { c with regs := Regs.step c.regs op }

/-- `if (SCPI_ParamInt32(context, &v, TRUE)) SCPI_RegSet(context, reg, (scpi_reg_val_t) v);` — the cast
keeps the low 16 bits; returns the reader's result -/
def regFromParam (c : Ctx) (reg : Nat) : Ctx × Bool :=
  let (c, ok, v) := paramInt c 32 true true
  if ok then (regStep c (.set reg (Regs.bv v)), true) else (c, false)

/-- the string SCPI_CoreIdnQ hands to SCPI_ResultMnemonic for field `i` -/
def idnField (fields : List (Option Bytes)) (i : Nat) : Bytes :=
  match fields.getD i none with
  | some s => s.takeWhile (· ≠ 0)
  | none => [48]

/-- the handlers of ieee488.c / minimal.c: new context and the handler's result (true = SCPI_RES_OK) -/
def runBuiltin (c : Ctx) : Builtin → Ctx × Bool
  | .cls => (noErrorCb { c with eq := c.eq.clear } (Regs.step c.regs .cls), true)
  | .ese => regFromParam c Regs.ESE
  | .eseQ => (resultReg c Regs.ESE, true)
  | .esrQ => (regStep (resultReg c Regs.ESR) .esrQ, true)
  | .idnQ fields =>
    ({ c with out := (List.range 4).foldl (fun o i => Result.resultCharacters o (idnField fields i)) c.out }, true)
  | .opc => (regStep c (.setBits Regs.ESR (Regs.bv Gen.ESR_OPC)), true)
  | .opcQ => (resultNat32 c 1, true)
  | .rst => (emit c .reset, true)                   -- the harness's reset callback returns SCPI_RES_OK
  | .sre => regFromParam c Regs.SRE
  | .sreQ => (resultReg c Regs.SRE, true)
  | .stbQ => (resultReg c Regs.STB, true)
  | .tstQ => (resultNat32 c 0, true)
  | .wai => (c, true)
  | .stub => (c, true)
  | .stubQ => (resultNat32 c 0, true)
  | .versQ => ({ c with out := Result.resultCharacters c.out (Result.bytesOf Gen.STD_VERSION) }, true)
  | .errNextQ =>
    -- SCPI_ErrorPop (fifo_remove, SCPI_ErrorEmitEmpty), SCPI_ResultError, free of the text
    let (eq, e) := c.eq.sysErrNext
    let c := noErrorCb { c with eq := eq } (Regs.step c.regs .errPop)
    ({ c with out := Result.resultError c.out e.code (Result.errorTranslate e.code) [e.info.map (·.2)] }, true)
  | .errCountQ => (resultNat32 c c.eq.count, true)
  | .quesCondQ => (resultReg c Regs.QUESC, true)
  | .quesEvenQ => (regStep (resultReg c Regs.QUES) .quesQ, true)
  | .quesEnabQ => (resultReg c Regs.QUESE, true)
  | .quesEnab => ((regFromParam c Regs.QUESE).1, true)          -- returns SCPI_RES_OK whatever the reader said
  | .operCondQ => (resultReg c Regs.OPERC, true)
  | .operEvenQ => (regStep (resultReg c Regs.OPER) .operQ, true)
  | .operEnabQ => (resultReg c Regs.OPERE, true)
  | .operEnab => ((regFromParam c Regs.OPERE).1, true)
  | .pres => (regStep c .preset, true)

/-! ### handler scripts -/

structure HState where
  c : Ctx
  stopOnFail : Bool := false
  result : Bool := true        -- SCPI_RES_OK
  done : Bool := false

def runOp (h : HState) (op : SOp) : HState :=
  if h.done then h else
  let fin := fun (c : Ctx) (ok : Bool) (e : Ev) =>
    let c := emit c e
    if !ok ∧ h.stopOnFail then { h with c := c, result := false, done := true } else { h with c := c }
  let c := h.c
  match op with
  | .pInt w s m => let (c, ok, v) := paramInt c w s m; fin c ok (.pInt ok v)
  | .pFloat d m => let (c, ok, l) := paramFloat c d m; fin c ok (.pLit ok l)
  | .pBool m => let (c, ok, v) := paramBool c m; fin c ok (.pBool ok v)
  | .pChoice m k => let (c, ok, v) := paramChoice c m (c.choices.getD k []); fin c ok (.pChoice ok v)
  | .pNumber m => let (c, e) := paramNumber c m
                  fin c (match e with | .pNumber ok .. => ok | _ => false) e
  | .pChars m => let (c, ok, o, d) := paramChars c m; fin c ok (.pBytes ok o d)
  | .pBlock m => let (c, ok, o, d) := paramBlock c m; fin c ok (.pBytes ok o d)
  | .pText m cap => let (c, ok, d, n) := paramText c m cap; fin c ok (.pText ok d n)
  | .pArrInt w s cap m => let (c, ok, vs) := paramArrInt c w s cap m; fin c ok (.pArr ok vs)
  | .rInt w s v b => { h with c := { c with out := Result.resultIntBaseSign c.out w v b s } }
  | .rIntN n s v b =>
    -- SCPI_ResultInt8/16 promote to int32_t (sign extension), the unsigned ones to uint32_t
    let v32 := if s then Result.signExtend n 32 v else v
    { h with c := { c with out := Result.resultIntBaseSign c.out 32 v32 b s } }
  | .rFloatText t => { h with c := { c with out := Result.resultFloatText c.out t } }
  | .rBool b => { h with c := { c with out := Result.resultBool c.out b } }
  | .rText d => { h with c := { c with out := Result.resultText c.out d } }
  | .rChars d => { h with c := { c with out := Result.resultCharacters c.out d } }
  | .rBlock d => { h with c := { c with out := Result.resultBlock c.out d } }
  | .rBlockHeader n => { h with c := { c with out := Result.resultBlockHeader c.out n } }
  | .rBlockData d =>
    let out := Result.resultBlockData c.out d
    -- a refused chunk pushes -310 through the context
    let newErr := out.pushed.length > c.out.pushed.length
    let c := { c with out := out }
    { h with c := if newErr then pushError c (-310) none else c }
  | .rArrBin sz es same =>
    let out := Result.resultArrayBinary c.out es sz same
    let newErr := out.pushed.length > c.out.pushed.length
    let c := { c with out := out }
    { h with c := if newErr then pushError c (-310) none else c }
  | .ePush code info => { h with c := pushError c code info }
  | .iTag => { h with c := emit c (.tag (match c.cur with | some cmd => cmd.tag | none => 0)) }
  | .iNums n d =>
    match c.cur with
    | some cmd =>
      let (r, l, _) := Match.matchCommand cmd.pattern (c.buf.drop c.rawOff) c.rawLen (some (List.replicate n (-777))) d
      { h with c := emit c (.nums r l) }
    | none => h
  | .iIsCmd s =>
    -- SCPI_IsCmd: FALSE without a matched entry, else matchCommand(pattern, s, strlen(s), NULL, 0, 0)
    let s := s.takeWhile (· ≠ 0)
    { h with c := emit c (.test (match c.cur with | some cmd => (Match.matchCommand cmd.pattern s s.length none 0).1 | none => false)) }
  | .iMatch pat s => { h with c := emit c (.test (Match.matchCommand pat s s.length none 0).1) }
  | .onFail s => { h with stopOnFail := s }
  | .ret ok => { h with result := ok, done := true }
  | .builtin b =>
    -- a handler of the library: its return value is the script's result when it is SCPI_RES_ERR
    let (c, ok) := runBuiltin c b
    if ok then { h with c := c } else { h with c := c, result := false, done := true }

def runScript (c : Ctx) (s : List SOp) : Ctx × Bool :=
  let h := s.foldl runOp { c := c }
  (h.c, h.result)

/-- processCommand -/
def processCommand (c : Ctx) : Ctx × Bool :=
  let c := { c with cmdError := false, inputCount := 0,
                    out := { c.out with outputCount := if c.out.firstOutput then 0 else -1, arbRemaining := 0 } }
  let (c, result) :=
    match c.cur with
    | some cmd =>
      let c := emit c (.handler cmd.tag ((c.buf.drop c.rawOff).take c.rawLen))
      let (c, ok) := runScript c cmd.script
      if !ok then ((if !c.cmdError then pushError c (-200) none else c), false)
      else (c, !c.cmdError)
    | none => (c, true)
  -- this unit has responded: following units are separated by ';'
  let c := if c.out.outputCount > 0 then { c with out := { c.out with firstOutput := false } } else c
  let c := { c with out := Result.endUnit c.out }        -- ghost bookkeeping only
  -- the handler did not read all parameters
  if c.ppos < c.pbase + c.plen ∧ !c.cmdError then (pushError c (-108) none, false) else (c, result)

/-- findCommandHeader -/
def findCommand (c : Ctx) (off len : Nat) : Option Cmd :=
  c.cmds.find? (fun cmd => (Match.matchCommand cmd.pattern (c.buf.drop off) len none 0).1)

/-- the `while (1)` loop of SCPI_Parse over the bytes buf[base, base+len); prev = cmd_prev (absolute) -/
def parseLoop : Nat → Ctx → Nat → Nat → Option (Nat × Nat) → Bool → Ctx × Bool
  | 0, c, _, _, _, res => ({ c with oob := true }, res)
  | fuel+1, c, base, len, prev, res =>
    let u := Parser.detectUnit ((c.buf.drop base).take len)
    let r := u.consumed
    let (c, prev, res) : Ctx × Option (Nat × Nat) × Bool :=
      if u.header.type == .invalid then (pushError c (-101) none, prev, false)
      else if u.header.len > 0 ∧ u.nParams < 0 then (pushError c (-103) none, prev, false)
      else if u.header.len > 0 then
        let cur := (base + u.header.ptr, u.header.len.toNat)
        let (buf, cur, okc) := Match.composeCompound c.buf prev cur
        -- composeCompoundCommand moving the header before the start of the buffer would be an out-of-bounds write
        let c := { c with buf := buf, oob := c.oob || !okc }
        let prev := some cur
        match findCommand c cur.1 cur.2 with
        | some cmd =>
          let c := { c with pbase := base + u.data.ptr, ppos := base + u.data.ptr, plen := u.data.len.toNat,
                            cur := some cmd, rawOff := cur.1, rawLen := cur.2 }
          let (c, ok) := processCommand c
          (c, prev, res && ok)
        | none =>
          -- undefined header: the unit's text without trailing CR / LF
          let txt := (c.buf.drop base).take r
          let r2 := (txt.reverse.dropWhile (fun b => b == 13 || b == 10)).length
          (pushError c (-113) (some (txt.take r2)) r2, prev, false)
      else (c, prev, res)
    if r < len then parseLoop fuel c (base + r) (len - r) prev res else (c, res)

/-- SCPI_Parse(context, buffer + base, len), in place -/
def parse (c : Ctx) (base len : Nat) : Ctx × Bool :=
  let c := { c with out := { c.out with outputCount := 0, firstOutput := true, gCur := [], gItems := [], gUnits := [], gPartial := false } }
  let c := emit c (.parseMsg ((c.buf.drop base).take len))
  let (c, res) := parseLoop (len + 2) c base len none true
  ({ c with out := Result.writeNewLine c.out }, res)

/-- SCPI_Parse(context, line, strlen(line)) on a complete NUL-terminated line that lives in an object of its own
(`line ++ [0]`); the input buffer of the context is not involved.  Returns the context (input buffer as before), the
line object afterwards (compound headers are composed in place) and the result. -/
def parseLine (c : Ctx) (line : Bytes) : Ctx × Bytes × Bool :=
  let c1 := { c with buf := line ++ [0], bufLen := line.length + 1, position := 0 }
  let (c2, r) := parse c1 0 line.length
  ({ c2 with buf := c.buf, bufLen := c.bufLen, position := c.position }, c2.buf, r)

/-- store `data` at buf[at..] -/
def poke (buf : Bytes) (at_ : Nat) (data : Bytes) : Bytes :=
  (data.zipIdx).foldl (fun b (x, k) => b.set (at_ + k) x) buf

/-- the scan loop of SCPI_Input -/
def inputLoop : Nat → Ctx → Nat → Bool → Ctx × Bool
  | 0, c, _, res => (c, res)
  | fuel+1, c, tot, res =>
    let u := Parser.detectUnit ((c.buf.drop tot).take (c.position - tot))
    let tot := tot + u.consumed
    if u.term == .nl then
      let (c, r) := parse c 0 tot
      -- memmove the remainder to the front
      let rest := (c.buf.drop tot).take (c.position - tot)
      let c := { c with buf := poke c.buf 0 rest, position := c.position - tot }
      inputLoop fuel c 0 r
    else if u.header.type == .unknown ∧ u.term == .none then (c, res)
    else if tot ≥ c.position then (c, res)
    else inputLoop fuel c tot res

/-- SCPI_Input(context, data, len) -/
def input (c : Ctx) (data : Bytes) : Ctx :=
  if data.length == 0 then
    let c := { c with buf := c.buf.set c.position 0 }
    let (c, r) := parse c 0 c.position
    emit { c with position := 0 } (.input r)
  else
    let free := c.bufLen - c.position
    if data.length + 1 > free then
      let c := { c with position := 0, buf := c.buf.set 0 0 }
      emit (pushError c (-363) none) (.input false)
    else
      let c := { c with buf := (poke c.buf c.position data).set (c.position + data.length) 0, position := c.position + data.length }
      let (c, r) := inputLoop (c.position + 2) c 0 true
      emit c (.input r)

/-- well-formed context: the buffer object has its declared length and the write position is inside -/
def WF (c : Ctx) : Prop := c.buf.length = c.bufLen ∧ c.position < c.bufLen ∧ c.oob = false

end ScpiVerif.Ctx
