/-
Model of the string assembly of SCPI_dtostre (libscpi/src/utils.c): given the sign, the digit
string produced by scpi_ecvt (exactly `prec` decimal digits) and its decimal exponent `decpt`
(value = 0.d1d2…dprec × 10^decpt), place the decimal point, drop trailing zeros, append the
exponent with at least two digits.  The digit generator itself (floating-point arithmetic) is not
modelled; the harness exposes its output so that the assembly can be corresponded.
-/
import ScpiVerif.Model.IntFmt
import ScpiVerif.Model.Lexer

namespace ScpiVerif.Dtostre
open ScpiVerif.Lexer (Bytes)

def flagUppercase : Nat := 1
def flagAlwaysSign : Nat := 2
def flagPlusSign : Nat := 4

/-- trailing-zero trimming from index `last` downwards: `while (s[0] == '0') { s[0] = 0; s--; } if (s[0] == '.') {…}` -/
def trim (s : Bytes) : Bytes :=
  let t := (s.reverse.dropWhile (· == 48)).reverse
  if t.getLast? == some 46 then t.dropLast else t

/-- exponent suffix: 'e', sign, at least two digits -/
def expSuffix (e : Int) : Bytes :=
  if e == 0 then [] else
  let ds := (IntFmt.specDigits 10 e.natAbs).map (fun c => UInt8.ofNat c.toNat)
  [101] ++ (if e > 0 then [43] else [45]) ++ (if ds.length == 1 then [48] ++ ds else ds)

/-- body of the number (without sign): digits with the point placed, trimmed, exponent appended -/
def assemble (prec : Nat) (ds : Bytes) (decpt : Int) : Bytes :=
  if decpt > 1 ∧ decpt ≤ prec then
    trim (ds.take decpt.toNat ++ [46] ++ ds.drop decpt.toNat)
  else if decpt > -4 ∧ decpt ≤ 0 then
    trim ([48, 46] ++ List.replicate (-decpt).toNat 48 ++ ds)
  else
    trim (ds.take 1 ++ [46] ++ ds.drop 1) ++ expSuffix (decpt - 1)

/-- sign prefix written before the digits -/
def signPrefix (neg : Bool) (isNan : Bool) (flags : Nat) : Bytes :=
  if neg then [45]
  else if isNan then []
  else if flags / 4 % 2 == 1 then [43] else if flags / 2 % 2 == 1 then [32] else []

/-- the decimal value of the assembled text is digitsValue × 10^(decpt − prec) -/
def digitsValue (ds : Bytes) : Nat := ds.foldl (fun a b => a * 10 + (b.toNat - 48)) 0

end ScpiVerif.Dtostre
