/-
Model of libscpi/src/expression.c: numericRange, SCPI_ExprNumericListEntry(+Int),
channelSpec, channelRange, SCPI_ExprChannelListEntry.
The expression parameter is the token `(…)` at [ptr, ptr+len) of `mem`; the walkers lex inside
[ptr+1, ptr+len-1).  Integer values are what SCPI_ParamToInt32 (strtol on the token start) yields.
-/
import ScpiVerif.Model.Lexer
import ScpiVerif.Model.Prim

namespace ScpiVerif.Expr
open ScpiVerif.Lexer

inductive Res where | ok | error | noMore
deriving Repr, DecidableEq

def Res.code : Res → Nat | .ok => 0 | .error => 1 | .noMore => 2

/-- numericRange on the window `win` at `pos`: (pos, result, isRange written?, from token, to token) -/
def numericRange (win : Bytes) (pos : Nat) : Nat × Res × Option Bool × Token × Token :=
  let (p1, from_, r1) := lexDecimal win pos
  if r1 != 0 then
    let (p2, ctok, r2) := lexColon win p1
    if r2 != 0 then
      let (p3, to_, r3) := lexDecimal win p2
      if r3 != 0 then (p3, .ok, some true, from_, to_) else (p3, .error, some true, from_, to_)
    else (p2, .ok, some false, from_, ctok)
  else (p1, .noMore, none, from_, ⟨.unknown, 0, 0⟩)

structure NumEntry where
  res : Res
  isRange : Option Bool        -- none: never written
  from_ : Token
  to_ : Token
  pushed : List Int
deriving Repr, DecidableEq

/-- the `for (i = 0; i <= index; i++)` loop of SCPI_ExprNumericListEntry -/
def numLoop (win : Bytes) (index : Nat) : Nat → Nat → Nat → Option Bool → Token → Token → Res × Option Bool × Token × Token
  | 0, _, _, rng, f, t => (.ok, rng, f, t)
  | fuel+1, i, pos, rng, f, t =>
    let (p, res, rng', f', t') := numericRange win pos
    let rng := match rng' with | some b => some b | none => rng
    -- valueFrom is always rewritten by the decimal recogniser; valueTo by the colon / decimal recognisers when reached
    let f := f'
    let t := if rng'.isSome then t' else t
    if res != .ok then (res, rng, f, t)
    else if i != index then
      let (p2, ctok, rc) := lexComma win p
      if rc == 0 then ((if iseos win p2 then .noMore else .error), rng, ctok, t)
      else numLoop win index fuel (i + 1) p2 rng ctok t
    else (res, rng, f, t)

/-- SCPI_ExprNumericListEntry on the expression body `win` (text between the parentheses) -/
def numericListEntry (win : Bytes) (index : Nat) : NumEntry :=
  let (res, rng, f, t) := numLoop win index (index + 2) 0 0 none ⟨.unknown, 0, 0⟩ ⟨.unknown, 0, 0⟩
  ⟨res, rng, f, t, if res == .error then [-170] else []⟩

/-- SCPI_ParamToInt32 of a decimal token inside `win` (strtol reads on past the token, within the
expression, up to the first byte that cannot continue an integer) -/
def tokInt32 (win : Bytes) (t : Token) : Int := (Prim.strtolTo 32 win t.ptr 10).2

/-- the text SCPI_ParamToDouble hands to strtod for a decimal token inside `win` (SCPI_ExprNumericListEntryDouble):
the conversion starts at the first byte of the token and reads on as long as the text looks like a number
(`Prim.strtodLen`), whatever length the recogniser gave the token.  The correspondence check compares the double the
implementation delivers bit-exactly with the correctly rounded value of this text (Drv/Expr.lean, `tokDouble`). -/
def tokDoubleText (win : Bytes) (t : Token) : Bytes := (win.drop t.ptr).take (Prim.strtodLen win t.ptr)

/-- channelSpec: (pos, result, values stored (at most `cap`), dimensions written?) -/
def channelSpec (win : Bytes) (cap : Nat) : Nat → Nat → Nat → List Int → Nat × Res × List Int × Option Nat
  | 0, pos, _, vals => (pos, .error, vals, none)
  | fuel+1, pos, i, vals =>
    let (p1, tok, r) := lexDecimal win pos
    if r != 0 then
      let vals := if i < cap then vals ++ [tokInt32 win tok] else vals
      let (p2, _, rb) := lexSpecific win p1 33
      if rb != 0 then channelSpec win cap fuel p2 (i + 1) vals
      else (p2, .ok, vals, some (i + 1))
    else if i == 0 then (p1, .noMore, vals, none) else (p1, .error, vals, none)

structure ChanEntry where
  res : Res
  isRange : Option Bool
  from_ : List Int          -- values stored into valuesFrom[0..]
  to_ : List Int
  dims : Option Nat         -- *dimensions (none: never written)
  pushed : List Int
deriving Repr, DecidableEq

/-- channelRange: (pos, result, isRange?, from values, to values, dimensions?) -/
def channelRange (win : Bytes) (pos cap : Nat) : Nat × Res × Option Bool × List Int × List Int × Option Nat :=
  let (p1, r1, vf, d1) := channelSpec win cap (win.length + 2) pos 0 []
  if r1 == .ok then
    let (p2, _, rc) := lexColon win p1
    if rc != 0 then
      let (p3, r2, vt, d2) := channelSpec win cap (win.length + 2) p2 0 []
      if r2 != .ok then (p3, .error, some true, vf, vt, none)
      else if d1 != d2 then (p3, .error, some true, vf, vt, none)
      else (p3, .ok, some true, vf, vt, d1)
    else (p2, .ok, some false, vf, [], d1)
  else if r1 == .noMore then (p1, .error, none, vf, [], none)
  else (p1, r1, none, vf, [], none)

/-- the entry loop of SCPI_ExprChannelListEntry; values of earlier entries are parsed with length 0 -/
def chanLoop (win : Bytes) (index cap : Nat) : Nat → Nat → Nat → Option Bool → Option Nat → Nat × Res × Option Bool × List Int × List Int × Option Nat
  | 0, _, pos, rng, dims => (pos, .ok, rng, [], [], dims)
  | fuel+1, i, pos, rng, dims =>
    let (p, res, rng', vf, vt, d) := channelRange win pos (if i == index then cap else 0)
    let rng := match rng' with | some b => some b | none => rng
    let dims := match d with | some n => some n | none => dims
    if res != .ok then (p, res, rng, vf, vt, dims)
    else if i != index then
      let (p2, _, rc) := lexComma win p
      if rc == 0 then (p2, (if iseos win p2 then .noMore else .error), rng, vf, vt, dims)
      else chanLoop win index cap fuel (i + 1) p2 rng dims
    else (p, res, rng, vf, vt, dims)

/-- SCPI_ExprChannelListEntry on the expression body `win` -/
def channelListEntry (win : Bytes) (index cap : Nat) : ChanEntry :=
  let (p0, _, r0) := lexSpecific win 0 64
  if r0 == 0 then ⟨.error, none, [], [], none, [-170]⟩
  else
    let (p, res, rng, vf, vt, dims) := chanLoop win index cap (index + 2) 0 p0 none none
    if res == .error then ⟨.error, rng, vf, vt, dims, [-170]⟩
    else if res == .noMore then
      if !iseos win p then ⟨.error, rng, vf, vt, dims, [-170]⟩ else ⟨.noMore, rng, vf, vt, dims, []⟩
    else ⟨res, rng, vf, vt, dims, []⟩

end ScpiVerif.Expr
