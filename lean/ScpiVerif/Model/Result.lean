/-
Model of the result writers of libscpi/src/parser.c: writeData, writeDelimiter, writeNewLine,
writeSemicolon, SCPI_ResultCharacters/Mnemonic, the integer results (through the model of
UInt32/UInt64ToStrBaseSign and the generated base prefixes and scratch sizes), SCPI_ResultBool,
SCPI_ResultText, SCPI_ResultError, SCPI_ResultArbitraryBlockHeader/Data/Block, the binary array
results (produceResultArrayBinary with SCPI_Swap16/32/64), float/double results with the text
produced by the C library's formatter passed in as a parameter.

Output state: output_count is a C `int`; a negative value means "a response unit separator is
pending" (set by processCommand when an earlier unit of the message has responded).
-/
import ScpiVerif.Gen.Tables
import ScpiVerif.Model.IntFmt
import ScpiVerif.Model.Lexer

namespace ScpiVerif.Result
open ScpiVerif.Lexer (Bytes)

structure Out where
  outputCount : Int := 0
  firstOutput : Bool := true
  arbRemaining : Nat := 0
  written : Bytes := []          -- every byte handed to interface->write, in order
  flushes : Nat := 0
  pushed : List Int := []        -- error codes pushed by the writers themselves (-310, -311 …)
  -- ghost state (never read by the model's control flow; used to state the framing property):
  gCur : Bytes := []             -- payload bytes of the result item under construction
  gItems : List Bytes := []      -- completed result items of the current unit
  gUnits : List (List Bytes) := []   -- items of the units finished so far in this message
  gPartial : Bool := false       -- the result API was used outside its item protocol: some unit ended with an
                                 -- unfinished item (a block whose data never completed), a new item was started
                                 -- inside an unfinished one, or block data arrived with no block under construction
deriving Repr, DecidableEq

def bytesOf (s : String) : Bytes := s.toUTF8.toList
def charsToBytes (cs : List Char) : Bytes := cs.map (fun c => UInt8.ofNat c.toNat)

/-- writeData of payload bytes: nothing for len = 0 -/
def writeData (o : Out) (d : Bytes) : Out := { o with written := o.written ++ d, gCur := o.gCur ++ d }

/-- writeData of a separator / terminator (not part of any item) -/
def writeSep (o : Out) (d : Bytes) : Out := { o with written := o.written ++ d }

/-- writeDelimiter (ghost: a delimiter while an item is still under construction is recorded in gPartial) -/
def writeDelimiter (o : Out) : Out :=
  let o := { o with gPartial := o.gPartial || !o.gCur.isEmpty }
  if o.outputCount > 0 then writeSep o [44]
  else if o.outputCount < 0 then writeSep { o with outputCount := 0 } [59]
  else o

/-- context->output_count++ : the item under construction is complete -/
def bump (o : Out) : Out := { o with outputCount := o.outputCount + 1, gItems := o.gItems ++ [o.gCur], gCur := [] }

/-- ghost: a unit ends (processCommand returns) -/
def endUnit (o : Out) : Out :=
  { o with gUnits := o.gUnits ++ [o.gItems], gItems := [], gCur := [], gPartial := o.gPartial || !o.gCur.isEmpty }

/-- SCPI_ResultCharacters / SCPI_ResultMnemonic -/
def resultCharacters (o : Out) (d : Bytes) : Out := bump (writeData (writeDelimiter o) d)

def tbl32 : IntFmt.DivTable := ⟨Gen.div32.1, Gen.div32.2.1, Gen.div32.2.2.1, Gen.div32.2.2.2⟩
def tbl64 : IntFmt.DivTable := ⟨Gen.div64.1, Gen.div64.2.1, Gen.div64.2.2.1, Gen.div64.2.2.2⟩

/-- getBasePrefix from the generated table -/
def basePrefix (base : Int) : Bytes :=
  match Gen.basePrefixes.find? (fun p => p.1 == base) with
  | some (_, s) => bytesOf s
  | none => []

/-- resultUInt32BaseSign / resultUInt64BaseSign: `val` is the w-bit two's complement pattern -/
def resultIntBaseSign (o : Out) (w : Nat) (val : Nat) (base : Int) (sign : Bool) : Out :=
  let (r, _) := IntFmt.toStrBaseSign w (if w == 32 then tbl32 else tbl64) val (if w == 32 then Gen.bufU32 else Gen.bufU64) base sign
  let o := writeDelimiter o
  let o := writeData o (basePrefix base)
  bump (writeData o (charsToBytes r.chars))

/-- sign extension of an n-bit pattern to w bits (the implicit C conversion of intN_t to int32_t) -/
def signExtend (n w : Nat) (v : Nat) : Nat := if v ≥ 2^(n-1) then v + (2^w - 2^n) else v

/-- SCPI_ResultBool -/
def resultBool (o : Out) (b : Bool) : Out := resultIntBaseSign o 32 (if b then 1 else 0) 10 false

/-- float / double results: `text` is what SCPI_FloatToStr / SCPI_DoubleToStr produced -/
def resultFloatText (o : Out) (text : Bytes) : Out := bump (writeData (writeDelimiter o) text)

/-- the body of SCPI_ResultText between the outer quotes: every '"' doubled -/
def escapeQuotes (d : Bytes) : Bytes := d.flatMap (fun b => if b == 34 then [34, 34] else [b])

/-- SCPI_ResultText (data is a C string: stops at NUL) -/
def resultText (o : Out) (d : Bytes) : Out :=
  let d := d.takeWhile (· ≠ 0)
  let o := writeData (writeDelimiter o) [34]
  -- the while loop writes each segment up to and including a quote, then one more quote
  bump (writeData (writeData o (escapeQuotes d)) [34])

/-! ### SCPI_ResultError -/

/-- index of the first '"' in d[0, len) (strnpbrk stops at NUL) -/
def quotePos (d : Bytes) (len : Nat) : Option Nat :=
  let s := (d.take len).takeWhile (· ≠ 0)
  let i := (s.takeWhile (· ≠ 34)).length
  if i < s.length then some i else none

/-- the inner `while ((quote = strnpbrk(…)))` loop for one part:
returns (output, remaining data, remaining len, outputlimit) -/
def errPartLoop : Nat → Out → Bytes → Nat → Nat → Out × Bytes × Nat × Nat
  | 0, o, d, len, lim => (o, d, len, lim)
  | fuel+1, o, d, len, lim =>
    match quotePos d len with
    | none => (o, d, len, lim)
    | some q =>
      let step := q + 1
      if step ≥ lim then (o, d, len - 1, lim - 1)
      else
        let o := writeData (writeData o (d.take step)) [34]
        let len := len - step
        let lim := lim - (step + 1)
        let d := d.drop step
        let len := if len > lim then lim else len
        errPartLoop fuel o d len lim

/-- the `for (i = 0; i < PARTS && data[i] && outputlimit; i++)` loop -/
def errParts : Nat → List (Option Bytes) → Out → Nat → Out
  | _, [], o, _ => o
  | i, p :: ps, o, lim =>
    match p with
    | none => o                                    -- data[i] == NULL ends the loop
    | some d =>
      if lim = 0 then o else
      let (o, lim) := if i == 1 then ((if o.outputCount > 0 then writeData o [59] else o), lim - 1) else (o, lim)   -- writeSemicolon: part of the string
      let len := d.length
      let len := if len > lim then lim else len
      let (o, d, len, lim) := errPartLoop (d.length + 1) o d len lim
      let o := writeData o (d.take len)
      errParts (i + 1) ps o (lim - len)

/-- SCPI_ResultError(context, error): `desc` = SCPI_ErrorTranslate(code), `parts` = data[1..] as the
configuration provides them (malloc: one part or NULL; static heap: up to two parts) -/
def resultError (o : Out) (code : Int) (desc : Bytes) (parts : List (Option Bytes)) : Out :=
  let code32 := if code < 0 then (2^32 - code.natAbs) else code.toNat
  let o := resultIntBaseSign o 32 code32 10 true
  let o := writeDelimiter o
  let o := writeData o [34]
  let o := errParts 0 (some desc :: parts) o Gen.SCPI_STD_ERROR_DESC_MAX_STRING_LENGTH.toNat
  let o := writeData o [34]
  -- ghost: the string is a result item of its own although output_count is not incremented for it
  { o with gItems := o.gItems ++ [o.gCur], gCur := [] }

/-- SCPI_ErrorTranslate over the generated list -/
def errorTranslate (code : Int) : Bytes :=
  match Gen.errorList.find? (fun p => p.1 == code) with
  | some (_, s) => bytesOf s
  | none => bytesOf Gen.errFallback

/-! ### blocks and binary arrays -/

/-- SCPI_ResultArbitraryBlockHeader: '#', digit count, decimal length ((uint32_t) len) -/
def resultBlockHeader (o : Out) (len : Nat) : Out :=
  let (r, _) := IntFmt.toStrBaseSign 32 tbl32 (len % 2^32) Gen.blockHeaderLen Gen.blockHeaderBase false
  let digits := charsToBytes r.chars
  let hdr : Bytes := [35, UInt8.ofNat (digits.length + 48)] ++ digits
  let o := { o with arbRemaining := len }
  writeData (writeDelimiter o) hdr

/-- SCPI_ResultArbitraryBlockData -/
def resultBlockData (o : Out) (d : Bytes) : Out :=
  if o.arbRemaining < d.length then { o with pushed := o.pushed ++ [-310] }
  else
    -- ghost: block data while no item is under construction (no header before it) is recorded in gPartial
    let o := { o with arbRemaining := o.arbRemaining - d.length, gPartial := o.gPartial || o.gCur.isEmpty }
    -- C increments output_count before the writeData call; writeData does not read it, and the ghost
    -- item has to be closed after its last bytes, so the model writes first
    let o := writeData o d
    if o.arbRemaining == 0 then bump o else o

/-- SCPI_ResultArbitraryBlock -/
def resultBlock (o : Out) (d : Bytes) : Out := resultBlockData (resultBlockHeader o d.length) d

/-- produceResultArrayBinary: `elems` are the elements as byte strings in HOST order (each of
`itemSize` bytes); `sameOrder` = (SCPI_GetNativeFormat() == format) -/
def resultArrayBinary (o : Out) (elems : List Bytes) (itemSize : Nat) (sameOrder : Bool) : Out :=
  if !(itemSize == 1 ∨ itemSize == 2 ∨ itemSize == 4 ∨ itemSize == 8) then { o with pushed := o.pushed ++ [-310] }
  else if sameOrder then resultBlock o elems.flatten
  else
    let o := resultBlockHeader o (elems.length * itemSize)
    if itemSize == 1 then resultBlockData o elems.flatten
    else
      -- an empty array still has to complete the block (one zero-length data call)
      let o := if elems.isEmpty then resultBlockData o [] else o
      elems.foldl (fun o e => resultBlockData o e.reverse) o      -- SCPI_SwapNN of each element

/-- writeNewLine -/
def writeNewLine (o : Out) : Out :=
  if !o.firstOutput then { (writeSep o (bytesOf Gen.LINE_ENDING)) with flushes := o.flushes + 1 } else o

end ScpiVerif.Result
