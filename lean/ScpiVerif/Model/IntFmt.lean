/-
Model of UInt32ToStrBaseSign / UInt64ToStrBaseSign (libscpi/src/utils.c).

The two C functions are the same text up to the integer width and the initial
divisor constants; the model takes the width `w` (32 or 64) and the table of
initial divisors as parameters (the table comes from the translator, Gen/Tables.lean).

C variables -> model:
  val, uval : uintW_t    -> Nat (< 2^w), every arithmetic step reduced mod 2^w where C wraps
  x         : uintW_t    -> Nat
  pos, len  : size_t     -> Nat
  str       : char[len]  -> the list of characters stored so far (ADD_CHAR appends iff pos < len)
The result is (stored characters, nulWritten, returned pos, ub) where `ub` records any
step that would be undefined or out of the digit table in C (division by zero,
digits[] index >= 16): the property theorem shows ub = false.
-/
namespace ScpiVerif.IntFmt

def digitsTable : List Char := "0123456789ABCDEF".toList

def digitChar (d : Nat) : Char := digitsTable.getD d '?'

/-- initial divisor chosen by the `switch (base)`; `tbl` = (d2, d8, d10, d16) from the source. -/
structure DivTable where
  d2 : Nat
  d8 : Nat
  d10 : Nat
  d16 : Nat
deriving Repr, DecidableEq

/-- the `switch (base)`: returns (effective base, initial x). `default:` falls into case 10. -/
def switchBase (t : DivTable) (base : Int) : Nat × Nat :=
  if base = 2 then (2, t.d2)
  else if base = 8 then (8, t.d8)
  else if base = 16 then (16, t.d16)
  else (10, t.d10)

/-- `while ((uval / x) == 0) x /= base;`  (fuel = x, x strictly decreases) -/
def skipZeros (base uval : Nat) : Nat → Nat → Nat × Bool
  | 0, x => (x, true)                       -- out of fuel: only when x = 0 (division by zero)
  | fuel+1, x =>
    if x = 0 then (x, true)                 -- division by zero: UB
    else if uval / x = 0 then skipZeros base uval fuel (x / base)
    else (x, false)

structure Out where
  chars : List Char      -- characters stored in str[0..pos)
  pos : Nat
  ub : Bool
deriving Repr, DecidableEq

@[inline] def addChar (len : Nat) (o : Out) (c : Char) : Out :=
  if o.pos < len then { o with chars := o.chars ++ [c], pos := o.pos + 1 } else o

/-- the `do { … } while (x && (pos < len))` loop; fuel bounds the iterations (x decreases). -/
def emit (w base len : Nat) : Nat → Nat → Nat → Out → Out
  | 0, _, _, o => o
  | fuel+1, uval, x, o =>
    if x = 0 then { o with ub := true } else
    let digit := (uval / x) % 256                    -- (uint8_t)(uval / x)
    let o := if digit < 16 then o else { o with ub := true }
    let o := addChar len o (digitChar digit)
    let uval' := (uval + 2^w - (digit * x) % 2^w) % 2^w   -- uval -= digit * x   (mod 2^w)
    let x' := x / base
    if x' ≠ 0 ∧ o.pos < len then emit w base len fuel uval' x' o else o

/-- UInt{w}ToStrBaseSign(val, str, len, base, sign) -/
def toStrBaseSign (w : Nat) (t : DivTable) (val : Nat) (len : Nat) (base : Int) (sign : Bool) :
    Out × Bool :=
  let o0 : Out := { chars := [], pos := 0, ub := false }
  let o :=
    if val = 0 then addChar len o0 '0'
    else
      let (b, x0) := switchBase t base
      let neg := sign && decide (val ≥ 2^(w-1)) && decide (b = 10)
      let uval := if neg then (2^w - val) % 2^w else val
      let o1 := if neg then addChar len o0 '-' else o0
      let (x1, ub1) := skipZeros b uval (x0 + 1) x0
      let o1 := if ub1 then { o1 with ub := true } else o1
      emit w b len (w + 1) uval x1 o1
  (o, decide (o.pos < len))       -- if (pos < len) str[pos] = 0;

/-! ### Specification: canonical digits -/

/-- most significant first, upper case, no leading zeros, "0" for zero -/
def specDigitsAux (base : Nat) : Nat → Nat → List Char → List Char
  | 0, _, acc => acc
  | fuel+1, n, acc =>
    if n < base ∨ base < 2 then digitChar n :: acc
    else specDigitsAux base fuel (n / base) (digitChar (n % base) :: acc)

def specDigits (base n : Nat) : List Char := specDigitsAux base (n + 1) n []

def effBase (base : Int) : Nat :=
  if base = 2 then 2 else if base = 8 then 8 else if base = 16 then 16 else 10

/-- canonical text of a w-bit value -/
def canon (w : Nat) (val : Nat) (base : Int) (sign : Bool) : List Char :=
  let b := effBase base
  if sign && decide (val ≥ 2^(w-1)) && decide (b = 10)
  then '-' :: specDigits b (2^w - val)
  else specDigits b val

/-! ### What "canonical" means, independently of `specDigits` -/

def digitVal (c : Char) : Option Nat :=
  match digitsTable.idxOf? c with
  | some d => some d
  | none => none

/-- value of a digit string, `none` if a character is not a digit of the base -/
def parseDigits (base : Nat) (cs : List Char) : Option Nat :=
  cs.foldlM (fun acc c => match digitVal c with
    | some d => if d < base then some (acc * base + d) else none
    | none => none) 0

/-- the canonical text: optional '-', then a non-empty digit string without leading zero whose
value is the magnitude; '-' appears exactly for negative signed decimals -/
structure CanonOK (w val : Nat) (base : Int) (sign : Bool) : Prop where
  shape : ∃ ds, ds ≠ [] ∧ (ds.head? = some '0' → ds = ['0']) ∧
    ((sign = true ∧ val ≥ 2^(w-1) ∧ effBase base = 10 ∧
        canon w val base sign = '-' :: ds ∧ parseDigits (effBase base) ds = some (2^w - val)) ∨
     (¬(sign = true ∧ val ≥ 2^(w-1) ∧ effBase base = 10) ∧
        canon w val base sign = ds ∧ parseDigits (effBase base) ds = some val))

end ScpiVerif.IntFmt
