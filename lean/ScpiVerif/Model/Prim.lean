/-
Specifications of the C library functions the parameter readers call: strtol / strtoul / strtoll /
strtoull (syntax and value with the C clamping rules) and the *syntax* of strtod / strtof (which
prefix of the text is converted).  These are part of the trusted base (DESIGN.md section 6) and are
exercised by the correspondence, because the harness calls the real ones.
A C string is read from `mem` at offset `off`; beyond the end of `mem` a NUL is read.
-/
import ScpiVerif.Model.Lexer

namespace ScpiVerif.Prim
open ScpiVerif.Lexer (Bytes isDigit)

def rd (s : Bytes) (i : Nat) : UInt8 := s.getD i 0

/-- isspace in the C locale -/
def isSpace (b : UInt8) : Bool := b == 32 || (9 ≤ b && b ≤ 13)

def isHexDigit (b : UInt8) : Bool :=
  (48 ≤ b && b ≤ 57) || (97 ≤ b && b ≤ 102) || (65 ≤ b && b ≤ 70)

def digitVal (b : UInt8) : Option Nat :=
  if 48 ≤ b ∧ b ≤ 57 then some (b.toNat - 48)
  else if 97 ≤ b ∧ b ≤ 122 then some (b.toNat - 97 + 10)
  else if 65 ≤ b ∧ b ≤ 90 then some (b.toNat - 65 + 10)
  else none

def skipSpaces (mem : Bytes) : Nat → Nat → Nat
  | 0, i => i
  | f+1, i => if isSpace (rd mem i) then skipSpaces mem f (i + 1) else i

def digitsOfBase (mem : Bytes) (base : Nat) : Nat → Nat → Nat → Nat × Nat
  | 0, i, acc => (i, acc)
  | f+1, i, acc =>
    match digitVal (rd mem i) with
    | some d => if d < base then digitsOfBase mem base f (i + 1) (acc * base + d) else (i, acc)
    | none => (i, acc)

/-- common syntax of the strto* family for base ∈ {2, 8, 10, 16}: optional white space, optional sign,
optional "0x"/"0X" for base 16, digits.  Returns (bytes consumed from `off`, negative?, magnitude);
consumed = 0 when no conversion is performed.
(glibc >= 2.38 also accepts "0b" for base 2 only in C2x mode; not modelled.) -/
def strtoSyntax (mem : Bytes) (off : Nat) (base : Nat) : Nat × Bool × Nat :=
  let i0 := skipSpaces mem (mem.length - off + 1) off
  let (neg, i1) := if rd mem i0 == 45 then (true, i0 + 1) else if rd mem i0 == 43 then (false, i0 + 1) else (false, i0)
  -- optional 0x prefix: only taken when a hex digit follows
  let i2 :=
    if base == 16 ∧ rd mem i1 == 48 ∧ (rd mem (i1 + 1) == 120 ∨ rd mem (i1 + 1) == 88) ∧
       isHexDigit (rd mem (i1 + 2)) then i1 + 2 else i1
  let (i3, v) := digitsOfBase mem base (mem.length - i2 + 2) i2 0
  if i3 == i2 then (0, false, 0) else (i3 - off, neg, v)

/-- two's complement wrap of an integer to w bits, read as signed -/
def wrapSigned (w : Nat) (x : Int) : Int :=
  let m := x % (2^w : Int)
  if m ≥ 2^(w-1) then m - 2^w else m

def wrapUnsigned (w : Nat) (x : Int) : Nat := (x % (2^w : Int)).toNat

/-- strtol / strtoll (both 64-bit `long` here) then the implicit conversion to the w-bit signed destination -/
def strtolTo (w : Nat) (mem : Bytes) (off base : Nat) : Nat × Int :=
  let (n, neg, v) := strtoSyntax mem off base
  if n == 0 then (0, 0) else
  let lim : Nat := if neg then 2^63 else 2^63 - 1
  let v := if v > lim then lim else v
  (n, wrapSigned w (if neg then -(v : Int) else v))

/-- strtoul / strtoull then the implicit conversion to the w-bit unsigned destination:
overflow clamps to ULONG_MAX, a minus sign negates modulo 2^64 -/
def strtoulTo (w : Nat) (mem : Bytes) (off base : Nat) : Nat × Nat :=
  let (n, neg, v) := strtoSyntax mem off base
  if n == 0 then (0, 0) else
  let v64 : Nat := if v > 2^64 - 1 then 2^64 - 1 else (if neg then (2^64 - v) % 2^64 else v)
  (n, v64 % 2^w)

/-- the prefix strtod converts for text that starts with a decimal literal (the only tokens the
float readers hand to it): white space, sign, digits, optional point and digits, and an exponent only
when 'e'/'E' is followed by an optionally signed digit.  Returns the number of bytes consumed from
`off` (0 = no conversion).  inf / nan / hexadecimal floats are recognised as well because strtod
does so ("0x" only when followed by a hex digit or '.'+hex digit). -/
def strtodLen (mem : Bytes) (off : Nat) : Nat :=
  let i0 := skipSpaces mem (mem.length - off + 1) off
  let i1 := if rd mem i0 == 45 ∨ rd mem i0 == 43 then i0 + 1 else i0
  let lower := fun (b : UInt8) => if 65 ≤ b ∧ b ≤ 90 then b + 32 else b
  let word := fun (w : List UInt8) (at_ : Nat) => (w.zipIdx).all (fun (c, k) => lower (rd mem (at_ + k)) == c)
  if word [105, 110, 102] i1 then                       -- inf / infinity
    (if word [105, 110, 102, 105, 110, 105, 116, 121] i1 then i1 + 8 else i1 + 3) - off
  else if word [110, 97, 110] i1 then i1 + 3 - off      -- nan (the optional "(n-char-seq)" is not modelled)
  else
    let rec run (p : UInt8 → Bool) : Nat → Nat → Nat
      | 0, i => i
      | f+1, i => if p (rd mem i) then run p f (i + 1) else i
    let fuel := mem.length - i1 + 2
    let isHex := isHexDigit
    if rd mem i1 == 48 ∧ (rd mem (i1 + 1) == 120 ∨ rd mem (i1 + 1) == 88) ∧
       (isHex (rd mem (i1 + 2)) ∨ (rd mem (i1 + 2) == 46 ∧ isHex (rd mem (i1 + 3)))) then
      -- hexadecimal floating constant
      let a := run isHex fuel (i1 + 2)
      let b := if rd mem a == 46 then run isHex fuel (a + 1) else a
      let e := if rd mem b == 112 ∨ rd mem b == 80 then
                 let s := if rd mem (b + 1) == 45 ∨ rd mem (b + 1) == 43 then b + 2 else b + 1
                 if isDigit (rd mem s) then run isDigit fuel s else b
               else b
      e - off
    else
      let a := run isDigit fuel i1
      let b := if rd mem a == 46 then run isDigit fuel (a + 1) else a
      let nd := (a - i1) + (if rd mem a == 46 then b - (a + 1) else 0)
      if nd == 0 then 0
      else
        let e := if rd mem b == 101 ∨ rd mem b == 69 then
                   let s := if rd mem (b + 1) == 45 ∨ rd mem (b + 1) == 43 then b + 2 else b + 1
                   if isDigit (rd mem s) then run isDigit fuel s else b
                 else b
        e - off

end ScpiVerif.Prim
