/-
Model of the pattern matcher of libscpi/src/utils.c: strnpbrk, compareStr, compareStrAndNum,
patternSeparatorShortPos, patternSeparatorPos, cmdSeparatorPos, matchPattern, matchCommand,
and composeCompoundCommand.

Strings are byte lists; a C read `p[i]` is `rd p i`, which yields 0 at and beyond the end of the
list (the terminating NUL of the pattern; for the header the byte after the part under
comparison is never relied on — see `oob`).  `pattern_len` is a C `int` and can only shrink; the
model keeps it as Int and flags `oob` if the walker would run with a negative length (malformed
pattern), which the theorems exclude for patterns of the supported grammar.
-/
import ScpiVerif.Model.Lexer

namespace ScpiVerif.Match
open ScpiVerif.Lexer (Bytes isDigit isLower isUpper)

def rd (s : Bytes) (i : Nat) : UInt8 := s.getD i 0

def toLower (b : UInt8) : UInt8 := if isUpper b then b + 32 else b

/-- strncasecmp(a + ao, b + bo, n) == 0 -/
def caseEq (a : Bytes) (ao : Nat) (b : Bytes) (bo : Nat) : Nat → Bool
  | 0 => true
  | n+1 =>
    let x := toLower (rd a ao); let y := toLower (rd b bo)
    if x != y then false else if x == 0 then true else caseEq a (ao + 1) b (bo + 1) n

/-- index of the first byte of `set` in s[off, off+len), stopping at NUL; `len` if none -/
def sepPos (s : Bytes) (off : Nat) (len : Nat) (set : List UInt8) : Nat :=
  let rec go : Nat → Nat → Nat
    | 0, i => i
    | fuel+1, i =>
      let c := rd s (off + i)
      if c == 0 then len else if set.contains c then i else go fuel (i + 1)
  if len == 0 then 0 else
    let r := go len 0
    if r ≥ len then len else r

def patternSeparatorPos (p : Bytes) (off len : Nat) : Nat := sepPos p off len [63, 58, 91, 93]   -- "?:[]"
def cmdSeparatorPos (c : Bytes) (off len : Nat) : Nat := sepPos c off len [58, 63]             -- ":?"

/-- patternSeparatorShortPos: first lower-case letter, or the end (or a NUL) -/
def shortPos (p : Bytes) (off len : Nat) : Nat :=
  let rec go : Nat → Nat → Nat
    | 0, i => i
    | fuel+1, i => if i < len ∧ rd p (off + i) != 0 then (if isLower (rd p (off + i)) then i else go fuel (i + 1)) else i
  go len 0

/-- compareStr -/
def compareStr (a : Bytes) (ao len1 : Nat) (b : Bytes) (bo len2 : Nat) : Bool :=
  len1 == len2 && caseEq a ao b bo len2

/-- strtol(s + off, &end, 10) restricted to what a header can contain after a keyword: the model
reads optional white space and sign like strtol does, so that non-header input is treated as the C
library treats it.  Returns (consumed bytes, value truncated to int32). -/
def strtol10 (s : Bytes) (off : Nat) : Nat × Int :=
  let rec ws : Nat → Nat → Nat
    | 0, i => i
    | f+1, i => let c := rd s i; if c == 32 ∨ (9 ≤ c ∧ c ≤ 13) then ws f (i + 1) else i
  let i0 := ws (s.length - off) off
  let (neg, i1) := if rd s i0 == 45 then (true, i0 + 1) else if rd s i0 == 43 then (false, i0 + 1) else (false, i0)
  let rec dg : Nat → Nat → Nat → Nat × Nat
    | 0, i, acc => (i, acc)
    | f+1, i, acc => if isDigit (rd s i) then dg f (i + 1) (acc * 10 + ((rd s i).toNat - 48)) else (i, acc)
  let (i2, v) := dg (s.length - i1 + 1) i1 0
  if i2 == i1 then (0, 0)       -- no digits: nothing converted
  else
    let lim : Nat := if neg then 2^63 else 2^63 - 1
    let v := if v > lim then lim else v
    let sv : Int := if neg then -(v : Int) else v
    -- (int32_t) of the long
    let m := sv % (2^32 : Int)
    (i2 - off, if m ≥ 2^31 then m - 2^32 else m)

/-- compareStrAndNum; `num` = whether a number pointer was passed; returns (result, number written) -/
def compareStrAndNum (a : Bytes) (ao len1 : Nat) (b : Bytes) (bo len2 : Nat) (num : Bool) : Bool × Option Int :=
  if len2 < len1 then (false, none)
  else if caseEq a ao b bo len1 then
    if num then
      if len1 == len2 then (true, none)
      else
        let (used, v) := strtol10 b (bo + len1)
        if len1 + used != len2 then (false, none) else (true, some v)
    else
      (((List.range (len2 - len1)).all (fun i => isDigit (rd b (bo + len1 + i)))), none)
  else (false, none)

/-- matchPattern(pattern + po, plen, str + so, slen, num) -/
def matchPattern (p : Bytes) (po plen : Nat) (s : Bytes) (so slen : Nat) (num : Bool) : Bool × Option Int :=
  if plen > 0 ∧ rd p (po + plen - 1) == 35 then
    let nl := plen - 1
    let sh := shortPos p po nl
    let r1 := compareStrAndNum p po nl s so slen num
    if r1.1 then r1 else compareStrAndNum p po sh s so slen num
  else
    let sh := shortPos p po plen
    (compareStr p po plen s so slen || compareStr p po sh s so slen, none)

structure MState where
  pp : Nat          -- pattern_ptr - pattern
  pl : Int          -- pattern_len
  cp : Nat          -- cmd_ptr - cmd
  cl : Nat          -- cmd_len
  brackets : Int
  numbers : List Int        -- the caller's array (length numbers_len); empty list with hasNumbers = false means NULL
  idx : Nat                 -- numbers_idx
  oob : Bool := false
deriving Repr, DecidableEq

def setNum (st : MState) (hasNumbers : Bool) (i : Nat) (v : Int) : MState :=
  if hasNumbers ∧ i < st.numbers.length then { st with numbers := st.numbers.set i v } else st

/-- the "verify all subsequent pattern parts are also optional" loop -/
def trailingLoop (p : Bytes) (hasNumbers : Bool) (dflt : Int) : Nat → MState → MState
  | 0, st => st
  | fuel+1, st =>
    if st.pl == 0 then st
    else if st.pl < 0 then { st with oob := true }
    else
      let sp := patternSeparatorPos p st.pp st.pl.toNat
      -- a numeric-suffix keyword that is skipped gets the caller's default
      let st : MState := if sp > 0 ∧ rd p (st.pp + sp - 1) == 35 then
                  { (setNum st hasNumbers st.idx dflt) with idx := st.idx + 1 } else st
      let ch := rd p (st.pp + sp)
      let st : MState := if ch == 91 then { st with brackets := st.brackets + 1 }
                else if ch == 93 then { st with brackets := st.brackets - 1 } else st
      let st : MState := { st with pp := st.pp + sp + 1, pl := st.pl - (sp + 1) }
      if st.brackets == 0 then
        if st.pl > 0 ∧ rd p st.pp == 91 then trailingLoop p hasNumbers dflt fuel st
        else st
      else trailingLoop p hasNumbers dflt fuel st

/-- the `while (1)` loop of matchCommand; returns (result, state) -/
def mainLoop (p c : Bytes) (hasNumbers : Bool) (dflt : Int) : Nat → MState → Bool × MState
  | 0, st => (false, { st with oob := true })
  | fuel+1, st =>
    if st.pl < 0 then (false, { st with oob := true }) else
    let psp := patternSeparatorPos p st.pp st.pl.toNat
    let csp := cmdSeparatorPos c st.cp st.cl
    let isNum := psp > 0 ∧ rd p (st.pp + psp - 1) == 35
    let (st, numPtr) : MState × Option Nat :=
      if isNum then
        if hasNumbers ∧ st.idx < st.numbers.length then
          ({ (setNum st hasNumbers st.idx dflt) with idx := st.idx + 1 }, some st.idx)
        else ({ st with idx := st.idx + 1 }, none)
      else (st, none)
    let (m, v) := matchPattern p st.pp psp c st.cp csp numPtr.isSome
    if m then
      let st : MState := match numPtr, v with
        | some i, some x => setNum st hasNumbers i x
        | _, _ => st
      let st : MState := { st with pp := st.pp + psp, pl := st.pl - psp, cp := st.cp + csp, cl := st.cl - csp }
      if st.pl == 0 ∧ st.cl == 0 then (true, st)
      else if st.pl == 0 ∧ st.cl > 0 then (false, st)
      else if st.cl == 0 then
        let st : MState := trailingLoop p hasNumbers dflt (p.length + 2) st
        (st.pl == 0, st)
      else
        let p0 := rd p st.pp; let p1 := rd p (st.pp + 1); let p2 := rd p (st.pp + 2); let c0 := rd c st.cp
        if st.pl > 0 ∧ p0 == c0 ∧ p0 == 58 then
          mainLoop p c hasNumbers dflt fuel { st with pp := st.pp + 1, pl := st.pl - 1, cp := st.cp + 1, cl := st.cl - 1 }
        else if st.pl > 1 ∧ p1 == c0 ∧ p0 == 91 ∧ p1 == 58 then
          mainLoop p c hasNumbers dflt fuel { st with pp := st.pp + 2, pl := st.pl - 2, cp := st.cp + 1, cl := st.cl - 1, brackets := st.brackets + 1 }
        else if st.pl > 1 ∧ p1 == c0 ∧ p0 == 93 ∧ p1 == 58 then
          mainLoop p c hasNumbers dflt fuel { st with pp := st.pp + 2, pl := st.pl - 2, cp := st.cp + 1, cl := st.cl - 1, brackets := st.brackets - 1 }
        else if st.pl > 2 ∧ p2 == c0 ∧ p0 == 93 ∧ p1 == 91 ∧ p2 == 58 then
          mainLoop p c hasNumbers dflt fuel { st with pp := st.pp + 3, pl := st.pl - 3, cp := st.cp + 1, cl := st.cl - 1 }
        else (false, st)
    else
      let st : MState := { st with pp := st.pp + psp, pl := st.pl - psp }
      let p0 := rd p st.pp; let p1 := rd p (st.pp + 1); let p2 := rd p (st.pp + 2)
      if p0 == 93 ∧ p1 == 58 then
        mainLoop p c hasNumbers dflt fuel { st with pp := st.pp + 2, pl := st.pl - 2, brackets := st.brackets - 1 }
      else if st.pl > 2 ∧ p0 == 93 ∧ p1 == 91 ∧ p2 == 58 then
        mainLoop p c hasNumbers dflt fuel { st with pp := st.pp + 3, pl := st.pl - 3 }
      else (false, st)

/-- matchCommand(pattern, cmd, len, numbers, numbers_len, default_value).
`pattern` is the C string without its NUL (non-empty by contract), `cmd` the header bytes the
caller points at and `len` the caller's length.  `numbers = none` is a NULL pointer. -/
def matchCommand (pattern cmd : Bytes) (len : Nat) (numbers : Option (List Int)) (dflt : Int) : Bool × List Int × Bool :=
  let plen : Int := (pattern.takeWhile (· ≠ 0)).length
  let clen := min ((cmd.takeWhile (· ≠ 0)).length) len
  let hasNumbers := numbers.isSome
  let nums := numbers.getD []
  -- both commands are query commands?
  let q : Option (Int × Nat) :=
    if rd pattern (plen.toNat - 1) == 63 then
      if clen > 0 ∧ rd cmd (clen - 1) == 63 then some (plen - 1, clen - 1) else none
    else some (plen, clen)
  match q with
  | none => (false, nums, plen == 0)
  | some (plen, clen) =>
    let st : MState := { pp := 0, pl := plen, cp := 0, cl := clen, brackets := 0, numbers := nums, idx := 0, oob := plen == 0 ∧ pattern.isEmpty }
    let st : MState := if rd pattern st.pp == 91 then { st with pp := st.pp + 1, pl := st.pl - 1, brackets := 1 } else st
    let st : MState := if rd pattern st.pp == 58 then { st with pp := st.pp + 1, pl := st.pl - 1 } else st
    -- handle erroneous ":*IDN?"
    let go : Option MState :=
      if rd cmd st.cp == 58 then
        if st.cl ≥ 2 then
          if rd cmd (st.cp + 1) != 42 then some { st with cp := st.cp + 1, cl := st.cl - 1 } else none
        else some st
      else some st
    match go with
    | none => (false, nums, st.oob)
    | some st =>
      let (r, st) := mainLoop pattern cmd hasNumbers dflt (pattern.length + cmd.length + 4) st
      (r, st.numbers, st.oob)

/-- composeCompoundCommand on one buffer: `prev` and `cur` are (offset, length) of the previous and
the current header token inside `buf`; returns the new buffer and the new current token. -/
def composeCompound (buf : Bytes) (prev : Option (Nat × Nat)) (cur : Nat × Nat) : Bytes × (Nat × Nat) × Bool :=
  if cur.2 == 0 then (buf, cur, false)
  else match prev with
    | none => (buf, cur, true)
    | some (pp, pl) =>
      if pl == 0 then (buf, cur, true)
      else if rd buf cur.1 == 42 ∨ rd buf cur.1 == 58 then (buf, cur, true)
      else if rd buf pp == 42 then (buf, cur, true)
      else
        -- last ':' of the previous header
        let i := ((List.range pl).reverse.find? (fun k => rd buf (pp + k) == 58)).map (· + 1) |>.getD 0
        if i == 0 then (buf, cur, true)
        else if cur.1 < i then (buf, cur, false)      -- would move before the start of the buffer: flagged, never happens in SCPI_Parse
        else
          -- memmove(cur - i, prev, i)
          let src := (List.range i).map (fun k => rd buf (pp + k))
          let start := cur.1 - i
          let buf' := (src.zipIdx).foldl (fun b (x, k) => b.set (start + k) x) buf
          (buf', (start, cur.2 + i), true)

end ScpiVerif.Match
