/-
Model of the program-data / message-unit layer of libscpi/src/parser.c:
scpiParser_parseProgramData, scpiParser_parseAllProgramData, scpiParser_detectProgramMessageUnit.
-/
import ScpiVerif.Model.Lexer

namespace ScpiVerif.Parser
open ScpiVerif.Lexer

/-- scpiParser_parseProgramData: (pos, token, return value) -/
def parseProgramData (buf : Bytes) (pos : Nat) : Nat × Token × Int :=
  let (p0, _, w0) := lexWhiteSpace buf pos
  let realLen := w0
  let r1 := lexNondecimal buf p0
  let (p, tok, result) : Nat × Token × Int :=
    if r1.2.2 != 0 then r1 else
    let r2 := lexCharacterProgramData buf r1.1
    if r2.2.2 != 0 then r2 else
    let r3 := lexDecimal buf r2.1
    if r3.2.2 != 0 then
      -- optional suffix, possibly after white space
      let (pw, _, wsLen) := lexWhiteSpace buf r3.1
      let (ps, _, suffixLen) := lexSuffix buf pw
      if suffixLen > 0 then
        let len := r3.2.1.len + wsLen + suffixLen
        (ps, { r3.2.1 with len := len, type := .decimalWithSuffix }, len)
      else (ps, r3.2.1, r3.2.2 + wsLen)      -- realLen += wsLen: the blanks were consumed while looking for a suffix
    else
    let r4 := lexString buf r3.1
    if r4.2.2 != 0 then r4 else
    let r5 := lexBlock buf r4.1
    if r5.2.2 != 0 then r5 else
    lexExpression buf r5.1
  let (pe, _, w1) := lexWhiteSpace buf p
  (pe, tok, result + (realLen + w1))

structure AllData where
  pos : Nat
  tok : Token
  paramCount : Int
deriving Repr, DecidableEq

/-- the `for (result = 1; result != 0; result = scpiLex_Comma(...))` loop of
scpiParser_parseAllProgramData; `tlen` is token->len accumulated so far -/
def allDataLoop (buf : Bytes) : Nat → Nat → Int → Int → Int → AllData
  | 0, pos, tlen, _, cnt => ⟨pos, mkTok .allProgramData 0 tlen, cnt⟩
  | fuel+1, pos, tlen, result, cnt =>
    let tlen := tlen + result
    let (p1, tmp, r) := parseProgramData buf pos
    if tmp.type != .unknown then
      let tlen := tlen + r
      let cnt := cnt + 1
      let (p2, _, rc) := lexComma buf p1
      if rc != 0 then allDataLoop buf fuel p2 tlen rc cnt
      else ⟨p2, mkTok .allProgramData 0 tlen, cnt⟩
    else
      -- no data at all is valid, a separator without following data or unfinished data is not
      ⟨p1, mkTok .unknown 0 0, if cnt == 0 ∧ (p1 : Int) = pos + r then 0 else -1⟩

/-- scpiParser_parseAllProgramData -/
def parseAllProgramData (buf : Bytes) (pos : Nat) : AllData :=
  let r := allDataLoop buf (buf.length - pos + 2) pos (-1) 1 0
  { r with tok := { r.tok with ptr := pos } }

inductive Termination where
  | none | nl | semicolon
deriving Repr, DecidableEq

def Termination.code : Termination → Nat
  | .none => 0 | .nl => 1 | .semicolon => 2

structure Unit where
  header : Token
  data : Token
  nParams : Int
  term : Termination
  consumed : Nat            -- return value: lex_state.pos - lex_state.buffer
deriving Repr, DecidableEq

/-- scpiParser_detectProgramMessageUnit on the buffer `buf` (offsets relative to its start) -/
def detectUnit (buf : Bytes) : Unit :=
  let (p0, _, _) := lexWhiteSpace buf 0
  let (p1, hdr, hlen) := lexProgramHeader buf p0
  -- scpiLex_ProgramHeader never returns a negative value, so the else branch of the C code is dead
  let (p2, _, wlen) := lexWhiteSpace buf p1
  let (p3, data, n) : Nat × Token × Int :=
    if hlen ≥ 0 then
      if wlen > 0 then
        let a := parseAllProgramData buf p2
        (a.pos, a.tok, a.paramCount)
      else (p2, mkTok .unknown p2 0, 0)
    else (p2, mkTok .unknown 0 0, 0)
  let (p4, tnl, rnl) := lexNewLine buf p3
  let (p5, tlast, r) : Nat × Token × Int :=
    if rnl != 0 then (p4, tnl, rnl) else
      let (p, t, rs) := lexSemicolon buf p4
      (p, t, rs)
  let (p6, hdr, data) :=
    if !iseos buf p5 && r == 0 then
      (p5 + 1, { hdr with len := 1, type := TokType.invalid }, mkTok .unknown 0 0)
    else (p5, hdr, data)
  let term := if tlast.type == .semicolon then Termination.semicolon
              else if tlast.type == .nl then Termination.nl else Termination.none
  { header := hdr, data := data, nParams := n, term := term, consumed := p6 }

end ScpiVerif.Parser
