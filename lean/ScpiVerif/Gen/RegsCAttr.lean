import Lean.Meta.Tactic.Simp.RegisterCommand
/-
Simp set `regsC`: every definition of the GENERATED file Gen/RegsC.lean (translate/c2lean_regs.py) is tagged with it, so
that the refinement proofs of Lemmas/RegsC.lean unfold whatever functions the current C text is made of (a helper
function a refactoring introduces is unfolded like the others, without a change to the proofs).
(A simp attribute has to be declared in a module other than the one that uses it.)
-/
/-- definitions generated from the C text of the register functions (unfolded by the refinement proofs) -/
register_simp_attr regsC
