/-
Hand-written prelude of the GENERATED file Gen/LexerC.lean (translate/c2lean_lexer.py): the value domains and the
primitives the generated text of libscpi/src/lexer.c is written in.  Tracked; nothing here depends on the C source.

C semantics decisions (see the docstring of translate/c2lean_lexer.py and notes/EXT_GEN_LEXER_REPORT.md):
  * `lex_state_t {buffer, pos, len}`: `buffer` is the base of an array object of exactly `len` bytes; a pointer into it
    is its OFFSET from `buffer`, an `Int` (so that a pointer moved in front of the object is visible as a negative
    number instead of being truncated); `state->len` is `buf.length`.
  * EVERY read `state->pos[k]` is `rd state k`: it delivers the byte as a (signed) plain `char` when
    `0 ≤ pos + k < len` and SETS `oob` otherwise (and delivers 0).  Nothing else reads the buffer.
  * `&&`, `||` are translated with C's short-circuit evaluation, so the read of the right operand happens only when the
    left operand lets it.
  * a loop is `whileC cond body fuel`: `fuel` iterations at most; running out of fuel sets `ub`.
-/
namespace ScpiVerif.Gen.LexerC

/-- placeholder type of a function the translator refused: every theorem that mentions it stops type-checking -/
structure NotTranslated where
  reason : String

/-- `lex_state_t` plus the two flags that make undefined behaviour visible -/
structure CLex where
  buf : List UInt8
  pos : Int
  /-- some `state->pos[k]` was evaluated with `pos + k` outside `[0, len)` -/
  oob : Bool
  /-- a loop ran out of fuel -/
  ub : Bool
deriving DecidableEq, Repr

/-- `scpi_token_t`: `type` is the value of the enum constant, `ptr` an offset from `state->buffer` -/
structure CTok where
  type : Int
  ptr : Int
  len : Int
deriving DecidableEq, Repr

/-- a byte of the buffer as a plain `char` (signed on the target; the translator checks that clang agrees) -/
def sc (b : UInt8) : Int := if b.toNat < 128 then (b.toNat : Int) else (b.toNat : Int) - 256

/-- `(uint8_t) x` -/
def u8 (x : Int) : Int := x % 256

/-- `(char) x` for an `int` x (two's complement, what gcc and clang define) -/
def s8 (x : Int) : Int := (x + 128) % 256 - 128

/-- a `<ctype.h>` classification function as linked ("C" locale), tabulated by translate/extract.py for the arguments
0..255 (`Gen.cc_*`).  Any other argument is outside the domain the C standard defines (EOF aside); it is answered
`false` here, which is what glibc's table answers for -128..-1 in the "C" locale.  Only the truth value is used. -/
def ctype (table : Nat) (c : Int) : Bool := decide (0 ≤ c) && decide (c ≤ 255) && table.testBit c.toNat

/-- `state->pos[k]` -/
def rd (s : CLex) (k : Int) : CLex × Int :=
  if 0 ≤ s.pos + k ∧ s.pos + k < s.buf.length then (s, sc (s.buf.getD (s.pos + k).toNat 0))
  else ({ s with oob := true }, 0)

/-- how one execution of a loop body ends -/
inductive Flow (ρ : Type) where
  | next
  | brk
  | ret (r : ρ)

/-- `while (cond) body` with the loop-carried locals `l`; result: state, locals, `some r` when the body executed
`return r`.  `for (init; cond; step) body` is `init; while (cond) { body; step }` (no `continue` in the subset). -/
def whileC {L ρ : Type} (cond : CLex → L → CLex × Bool) (body : CLex → L → CLex × L × Flow ρ) :
    Nat → CLex → L → CLex × L × Option ρ
  | 0, s, l => ({ s with ub := true }, l, none)
  | fuel + 1, s, l =>
    match cond s l with
    | (s, true) =>
      match body s l with
      | (s, l, .next) => whileC cond body fuel s l
      | (s, l, .brk) => (s, l, none)
      | (s, l, .ret r) => (s, l, some r)
    | (s, false) => (s, l, none)

/-- a Bool used as an `int` -/
def b2i (b : Bool) : Int := if b then 1 else 0

end ScpiVerif.Gen.LexerC
