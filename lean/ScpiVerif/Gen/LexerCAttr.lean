/-
Simp sets the generated file Gen/LexerC.lean tags its definitions with (an attribute cannot be used in the file that declares it):
`lexc_fn`: the functions with a `lex_state_t *` parameter (unfolded by the refinement proofs),
`lexc_pred`: the `int -> int` character predicates (never unfolded: their meaning is checked on all 256 byte values).
-/
import Lean.Meta.Tactic.Simp.RegisterCommand

register_simp_attr lexc_fn
register_simp_attr lexc_pred
/-- `lexc_cls`: the character-class theorems of Lemmas/LexerC.lean (generated predicate on `sc b` = hand-model predicate on `b`) -/
register_simp_attr lexc_cls
/-- `lexc_ref`: the refinement theorems of the functions already proved (used instead of unfolding a callee) -/
register_simp_attr lexc_ref
/-- `lexc_code`: numeric values of the hand model's token types (enum constants of the C header) -/
register_simp_attr lexc_code
