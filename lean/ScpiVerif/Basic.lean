def hello := "world"
