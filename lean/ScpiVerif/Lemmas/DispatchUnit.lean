/-
C02 helper lemmas, part 3: what `SCPI_Parse` learns from the unit detector about a well-formed
unit, in terms of the unit specification: extent, header position and length, and the facts about
the header bytes the dispatcher relies on (header alphabet, no NUL before the end of the header).
-/
import ScpiVerif.Lemmas.Bounds
import ScpiVerif.Lemmas.Params
import ScpiVerif.Lemmas.MatchRun

namespace ScpiVerif.Lemmas.Dispatch
open ScpiVerif ScpiVerif.Lexer ScpiVerif.Parser ScpiVerif.Spec ScpiVerif.Lemmas.Lexer
open ScpiVerif.Lemmas.Match (hdrAlpha)

/-! ### the header token only contains bytes of the header alphabet -/

theorem alpha_of_star : ∀ b : UInt8, (b == 42) = true → hdrAlpha b = true := by
  apply Params.forall_byte (fun b => (b == 42) = true → hdrAlpha b = true)
  set_option maxRecDepth 100000 in decide
theorem alpha_of_colon : ∀ b : UInt8, (b == 58) = true → hdrAlpha b = true := by
  apply Params.forall_byte (fun b => (b == 58) = true → hdrAlpha b = true)
  set_option maxRecDepth 100000 in decide
theorem alpha_of_q : ∀ b : UInt8, (b == 63) = true → hdrAlpha b = true := by
  apply Params.forall_byte (fun b => (b == 63) = true → hdrAlpha b = true)
  set_option maxRecDepth 100000 in decide
theorem alpha_of_alpha : ∀ b : UInt8, isAlpha b = true → hdrAlpha b = true := by
  apply Params.forall_byte (fun b => isAlpha b = true → hdrAlpha b = true)
  set_option maxRecDepth 100000 in decide
theorem alpha_of_alnum : ∀ b : UInt8, (isAlnum b || b == 95) = true → hdrAlpha b = true := by
  apply Params.forall_byte (fun b => (isAlnum b || b == 95) = true → hdrAlpha b = true)
  set_option maxRecDepth 100000 in decide
theorem alpha_ne_zero : ∀ b : UInt8, hdrAlpha b = true → b ≠ 0 := by
  apply Params.forall_byte (fun b => hdrAlpha b = true → b ≠ 0)
  set_option maxRecDepth 100000 in decide
theorem alpha_not_nl : ∀ b : UInt8, hdrAlpha b = true → (b == 13 || b == 10) = false := by
  apply Params.forall_byte (fun b => hdrAlpha b = true → (b == 13 || b == 10) = false)
  set_option maxRecDepth 100000 in decide
theorem ws_ne_zero : ∀ b : UInt8, isWs b = true → b ≠ 0 := by
  apply Params.forall_byte (fun b => isWs b = true → b ≠ 0)
  set_option maxRecDepth 100000 in decide

theorem mnemonic_alpha : Params.reAll (fun b => hdrAlpha b = true) mnemonic :=
  ⟨alpha_of_alpha, alpha_of_alnum⟩

theorem headerComplete_alpha : Params.reAll (fun b => hdrAlpha b = true) headerComplete := by
  simp only [headerComplete, Re.opt, Re.c, Params.reAll]
  exact ⟨⟨alpha_of_star, mnemonic_alpha, trivial, alpha_of_q⟩,
    ⟨trivial, alpha_of_colon⟩, mnemonic_alpha, ⟨alpha_of_colon, mnemonic_alpha⟩, trivial, alpha_of_q⟩

theorem headerIncC_alpha : Params.reAll (fun b => hdrAlpha b = true) headerIncompleteCommon := by
  simp only [headerIncompleteCommon, Re.c, Params.reAll]
  exact alpha_of_star

theorem headerIncP_alpha : Params.reAll (fun b => hdrAlpha b = true) headerIncompleteCompound := by
  simp only [headerIncompleteCompound, Re.opt, Re.c, Params.reAll]
  exact ⟨alpha_of_colon, ⟨trivial, alpha_of_colon⟩, mnemonic_alpha, ⟨alpha_of_colon, mnemonic_alpha⟩, alpha_of_colon⟩

theorem header_sel_some {s : Bytes} {comp incC incP : Option Nat} {ex : Expect}
    (h : header_sel s comp incC incP = some ex) :
    comp = some ex.consumed ∨ incC = some ex.consumed ∨ incP = some ex.consumed := by
  unfold header_sel at h
  dsimp only at h
  split at h
  · cases h
  · rename_i hb
    split at h
    · rename_i hc
      cases h
      left; simpa using hc
    · split at h
      · rename_i hc
        cases h
        right; left; simpa using hc
      · rename_i hc1 hc2
        cases h
        right; right
        dsimp only
        rcases comp with _ | a <;> rcases incC with _ | b <;> rcases incP with _ | c <;>
          simp at hb hc1 hc2 ⊢ <;> omega

/-- a header token of the specification: inside the input, over the header alphabet -/
theorem header_token_alpha {t : Bytes} {ex : Expect} (h : specToken .header t = some ex) :
    ex.consumed ≤ t.length ∧ ∀ b ∈ t.take ex.consumed, hdrAlpha b = true := by
  rw [header_spec_sel] at h
  rcases header_sel_some h with hc | hc | hc
  · obtain ⟨⟨h1, h2⟩, -⟩ := longest_some_PM hc
    exact ⟨h1, Params.matches_all h2 headerComplete_alpha⟩
  · obtain ⟨⟨h1, h2⟩, -⟩ := longest_some_PM hc
    exact ⟨h1, Params.matches_all h2 headerIncC_alpha⟩
  · obtain ⟨⟨h1, h2⟩, -⟩ := longest_some_PM hc
    exact ⟨h1, Params.matches_all h2 headerIncP_alpha⟩

/-! ### the detector on a well-formed unit -/

theorem specUnit_wf_facts (s : Bytes) (hwf : (specUnit s).wellFormed = true) :
    (specUnit s).headerOff = wsLen s ∧
    (0 < (specUnit s).headerLen → ∃ ex, specToken .header (s.drop (wsLen s)) = some ex ∧ ex.consumed = (specUnit s).headerLen) := by
  revert hwf
  unfold specUnit
  dsimp only
  cases hh : specToken .header (s.drop (wsLen s)) with
  | none =>
    dsimp only
    repeat' split
    all_goals simp
  | some ex =>
    dsimp only
    repeat' split
    all_goals simp

/-- the unit detector on a well-formed unit whose data list does not end in a separator -/
theorem unit_align (s : Bytes) (hwf : (specUnit s).wellFormed = true) (hn : 0 ≤ (specUnit s).nParams) :
    (detectUnit s).consumed = (specUnit s).consumed ∧ (detectUnit s).consumed ≤ s.length ∧
    (s ≠ [] → 1 ≤ (detectUnit s).consumed) ∧
    ((detectUnit s).header.type == TokType.invalid) = false ∧
    (detectUnit s).header.len = (specUnit s).headerLen ∧ 0 ≤ (detectUnit s).nParams ∧
    (0 < (specUnit s).headerLen →
      (detectUnit s).header.ptr = (specUnit s).headerOff ∧
      (specUnit s).headerOff + (specUnit s).headerLen ≤ (detectUnit s).consumed ∧
      (∀ b ∈ s.take (specUnit s).headerOff, b ≠ 0) ∧
      (∀ b ∈ (s.drop (specUnit s).headerOff).take (specUnit s).headerLen, hdrAlpha b = true)) := by
  obtain ⟨h1, -, h3, h4, h5, h6⟩ := Props.C13.unit_spec s
  obtain ⟨k1, k2, k3, k4⟩ := h4 hwf
  obtain ⟨f1, f2⟩ := specUnit_wf_facts s hwf
  have hinv : (detectUnit s).header.type ≠ TokType.invalid := by
    intro h; have := h3.1 h; rw [hwf] at this; cases this
  refine ⟨h1, h5, h6, ?_, k2, by rw [k4]; exact hn, ?_⟩
  · cases ht : (detectUnit s).header.type <;> first | rfl | exact absurd ht hinv
  · intro hpos
    have hin := Bounds.detect_header_inside s hinv (by rw [k2]; omega)
    rw [k2, k3 hpos] at hin
    obtain ⟨ex, e1, e2⟩ := f2 hpos
    obtain ⟨a1, a2⟩ := header_token_alpha e1
    refine ⟨k3 hpos, by simpa using hin, ?_, ?_⟩
    · rw [f1, unit_wsLen_eq_tw]
      intro b hb
      unfold tw at hb
      rw [Params.take_takeWhile_length] at hb
      exact ws_ne_zero b (List.all_eq_true.1 List.all_takeWhile b hb)
    · rw [f1, ← e2]; exact a2
end ScpiVerif.Lemmas.Dispatch
