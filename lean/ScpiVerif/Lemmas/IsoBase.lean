/-
Helper vocabulary for C09 (isolation): two byte buffers that agree up to and including an index
holding a NUL.  Everything the parser reads lies before that NUL or is a scan that stops at it.
-/
import ScpiVerif.Model.Ctx

namespace ScpiVerif.Lemmas.Isolation
open ScpiVerif ScpiVerif.Lexer

/-- same length, same bytes at every index `≤ P`, and a NUL at index `P` -/
structure Agree (P : Nat) (b1 b2 : Bytes) : Prop where
  len : b1.length = b2.length
  eq : ∀ i, i ≤ P → b1.getD i 0 = b2.getD i 0
  nul : b1.getD P 0 = 0

theorem Agree.nul2 {P : Nat} {b1 b2 : Bytes} (h : Agree P b1 b2) : b2.getD P 0 = 0 := by
  rw [← h.eq P (Nat.le_refl _)]; exact h.nul

theorem Agree.symm {P : Nat} {b1 b2 : Bytes} (h : Agree P b1 b2) : Agree P b2 b1 :=
  ⟨h.len.symm, fun i hi => (h.eq i hi).symm, h.nul2⟩

theorem Agree.refl' {P : Nat} {b : Bytes} (h : b.getD P 0 = 0) : Agree P b b := ⟨rfl, fun _ _ => rfl, h⟩

theorem Agree.prd {P : Nat} {b1 b2 : Bytes} (h : Agree P b1 b2) {i : Nat} (hi : i ≤ P) :
    Prim.rd b1 i = Prim.rd b2 i := h.eq i hi

theorem Agree.mrd {P : Nat} {b1 b2 : Bytes} (h : Agree P b1 b2) {i : Nat} (hi : i ≤ P) :
    Match.rd b1 i = Match.rd b2 i := h.eq i hi

/-- a non-NUL byte at an index `≤ P` is strictly before `P` -/
theorem Agree.lt_of_ne {P : Nat} {b1 b2 : Bytes} (h : Agree P b1 b2) {i : Nat} (hi : i ≤ P)
    (hne : b1.getD i 0 ≠ 0) : i < P := by
  rcases Nat.lt_or_ge i P with h1 | h1
  · exact h1
  · have : i = P := by omega
    subst this; exact absurd h.nul hne

theorem getD_drop (b : Bytes) (off i : Nat) : (b.drop off).getD i 0 = b.getD (off + i) 0 := by
  simp [List.getD_eq_getElem?_getD, List.getElem?_drop]

/-- the tail from `off` agrees up to the (shifted) NUL -/
theorem Agree.drop {P : Nat} {b1 b2 : Bytes} (h : Agree P b1 b2) (off : Nat) (ho : off ≤ P) :
    Agree (P - off) (b1.drop off) (b2.drop off) := by
  refine ⟨?_, ?_, ?_⟩
  · simp [h.len]
  · intro i hi
    rw [getD_drop, getD_drop]; exact h.eq _ (by omega)
  · rw [getD_drop]
    have : off + (P - off) = P := by omega
    rw [this]; exact h.nul

/-- windows that end at or before the NUL are equal -/
theorem Agree.window {P : Nat} {b1 b2 : Bytes} (h : Agree P b1 b2) (a n : Nat) (hb : a + n ≤ P + 1) :
    (b1.drop a).take n = (b2.drop a).take n := by
  apply List.ext_getElem?
  intro i
  simp only [List.getElem?_take, List.getElem?_drop]
  split
  · have h1 := h.eq (a + i) (by omega)
    simp only [List.getD_eq_getElem?_getD] at h1
    have hl := h.len
    by_cases hlt : a + i < b1.length
    · have hlt2 : a + i < b2.length := by omega
      rw [List.getElem?_eq_getElem hlt, List.getElem?_eq_getElem hlt2] at h1 ⊢
      simpa using h1
    · rw [List.getElem?_eq_none (by omega), List.getElem?_eq_none (by omega)]
  · rfl

theorem Agree.take {P : Nat} {b1 b2 : Bytes} (h : Agree P b1 b2) (n : Nat) (hn : n ≤ P + 1) :
    b1.take n = b2.take n := by
  have := h.window 0 n (by omega)
  simpa using this

/-- a store below or at... strictly below `P` of the same byte at the same index keeps agreement -/
theorem Agree.set {P : Nat} {b1 b2 : Bytes} (h : Agree P b1 b2) (i : Nat) (x : UInt8) (hi : i < P) :
    Agree P (b1.set i x) (b2.set i x) := by
  refine ⟨by simp [h.len], ?_, ?_⟩
  · intro j hj
    simp only [List.getD_eq_getElem?_getD, List.getElem?_set]
    have hl := h.len
    have hj' := h.eq j hj
    simp only [List.getD_eq_getElem?_getD] at hj'
    by_cases hij : i = j
    · subst hij
      simp only [if_true]
      by_cases hlt : i < b1.length
      · have : i < b2.length := by omega
        simp [hlt, this]
      · have : ¬ i < b2.length := by omega
        simp [hlt, this]
    · simp only [hij, if_false]; exact hj'
  · have := h.nul
    simp only [List.getD_eq_getElem?_getD, List.getElem?_set] at this ⊢
    have hne : ¬ i = P := by omega
    simp only [hne, if_false]; exact this

theorem takeWhile_take_of_stop {α : Type} (p : α → Bool) : ∀ (l : List α) (n : Nat),
    (∃ i, i < n ∧ ∃ h : i < l.length, p l[i] = false) → l.takeWhile p = (l.take n).takeWhile p := by
  intro l
  induction l with
  | nil => intro n _; simp
  | cons a t ih =>
    intro n ⟨i, hin, hil, hp⟩
    cases n with
    | zero => omega
    | succ n =>
      rw [List.take_succ_cons, List.takeWhile_cons, List.takeWhile_cons]
      cases hpa : p a with
      | false => simp
      | true =>
        simp only [if_true]
        congr 1
        cases i with
        | zero => simp [hpa] at hp
        | succ i =>
          apply ih
          exact ⟨i, by omega, by simpa using hil, by simpa using hp⟩

/-- the C string starting at `off ≤ P` is the same in both buffers -/
theorem Agree.cstr {P : Nat} {b1 b2 : Bytes} (h : Agree P b1 b2) (off : Nat) (ho : off ≤ P) :
    (b1.drop off).takeWhile (· ≠ 0) = (b2.drop off).takeWhile (· ≠ 0) := by
  have hw := h.window off (P + 1 - off) (by omega)
  have key : ∀ (b : Bytes), b.getD P 0 = 0 →
      (b.drop off).takeWhile (· ≠ 0) = ((b.drop off).take (P + 1 - off)).takeWhile (· ≠ 0) := by
    intro b hb
    by_cases hlen : P < b.length
    · apply takeWhile_take_of_stop
      refine ⟨P - off, by omega, by simp only [List.length_drop]; omega, ?_⟩
      simp only [List.getElem_drop]
      have e : off + (P - off) = P := by omega
      simp only [e]
      have : b[P] = 0 := by simpa [List.getD_eq_getElem?_getD, List.getElem?_eq_getElem hlen] using hb
      simp [this]
    · rw [List.take_of_length_le (by simp only [List.length_drop]; omega)]
  rw [key b1 h.nul, key b2 h.nul2, hw]

end ScpiVerif.Lemmas.Isolation
