/-
Helper lemmas for `ParseLocal`, part 3: the pattern matcher `Match.matchCommand` on two command
buffers that agree up to and including a line feed (or CR) at index `Q`, for a header window `[0, len)`
with `len ≤ Q + 1`.

Differences to the NUL-stopped version in `Lemmas/Isolation.lean`:
* the window may end directly behind the agreed part, so the byte the main loop reads at the new
  command position is only shown equal when the remaining command length is not zero (it is not
  used otherwise, `loopTail_c0`);
* the white-space skip of the `strtol` model would step over the line feed: either it stops inside
  the agreed part (and all is as before), or it leaves the agreed part in both buffers and then the
  consumed length cannot be what `compareStrAndNum` requires (`strtol10_agree`).
-/
import ScpiVerif.Lemmas.ParseLocalPrim

set_option linter.unusedSimpArgs false

namespace ScpiVerif.Lemmas.ParseLocalAux
open ScpiVerif ScpiVerif.Lexer
open ScpiVerif.Lemmas.Isolation (sepPos_le numStep upd loopTail mainLoop_succ setNum_cp_cl numStep_cp_cl upd_cp_cl
  loopTail_congr mcStart mcTail matchCommand_eq mcStart_cp_cl)

/-! ### the length of the C string, cut at the caller's length -/

theorem min_takeWhile_take {α : Type} (p : α → Bool) : ∀ (l : List α) (n : Nat),
    min (l.takeWhile p).length n = min ((l.take n).takeWhile p).length n := by
  intro l
  induction l with
  | nil => intro n; simp
  | cons a t ih =>
    intro n
    cases n with
    | zero => simp
    | succ n =>
      rw [List.take_succ_cons, List.takeWhile_cons, List.takeWhile_cons]
      split
      · have := ih n
        simp only [List.length_cons]
        omega
      · rfl

/-! ### caseEq -/

theorem caseEq_agree {Q : Nat} {c1 c2 : Bytes} (h : AgreeL Q c1 c2) (a : Bytes) :
    ∀ (n ao bo : Nat), bo + n ≤ Q + 1 → Match.caseEq a ao c1 bo n = Match.caseEq a ao c2 bo n := by
  intro n
  induction n with
  | zero => intros; rfl
  | succ n ih =>
    intro ao bo hb
    simp only [Match.caseEq]
    rw [h.mrd (show bo ≤ Q by omega), ih (ao + 1) (bo + 1) (by omega)]

/-! ### sepPos -/

theorem sepPos_go_agree {Q : Nat} {c1 c2 : Bytes} (h : AgreeL Q c1 c2) (off len : Nat) (set : List UInt8) :
    ∀ (fuel i : Nat), off + i + fuel ≤ Q + 1 →
      Match.sepPos.go c1 off len set fuel i = Match.sepPos.go c2 off len set fuel i := by
  intro fuel
  induction fuel with
  | zero => intros; rfl
  | succ f ih =>
    intro i hb
    simp only [Match.sepPos.go]
    rw [h.mrd (show off + i ≤ Q by omega), ih (i + 1) (by omega)]

theorem sepPos_agree {Q : Nat} {c1 c2 : Bytes} (h : AgreeL Q c1 c2) (off len : Nat) (set : List UInt8)
    (hb : off + len ≤ Q + 1) : Match.sepPos c1 off len set = Match.sepPos c2 off len set := by
  simp only [Match.sepPos]
  rw [sepPos_go_agree h off len set len 0 (by omega)]

/-! ### strtol10 -/

theorem ws_ge (c : Bytes) : ∀ (f i : Nat), i ≤ Match.strtol10.ws c f i := by
  intro f
  induction f with
  | zero => intro i; exact Nat.le_refl _
  | succ f ih =>
    intro i
    simp only [Match.strtol10.ws]
    split
    · have := ih (i + 1); omega
    · exact Nat.le_refl _

theorem ws_agree {Q : Nat} {c1 c2 : Bytes} (h : AgreeL Q c1 c2) :
    ∀ (f i : Nat), i ≤ Q →
      (Match.strtol10.ws c1 f i = Match.strtol10.ws c2 f i ∧ Match.strtol10.ws c1 f i ≤ Q) ∨
      (Q < Match.strtol10.ws c1 f i ∧ Q < Match.strtol10.ws c2 f i) := by
  intro f
  induction f with
  | zero => intro i hi; exact .inl ⟨rfl, hi⟩
  | succ f ih =>
    intro i hi
    simp only [Match.strtol10.ws]
    rw [← h.mrd hi]
    split
    · rcases Nat.lt_or_ge i Q with hlt | hge
      · exact ih (i + 1) hlt
      · right
        have := ws_ge c1 f (i + 1)
        have := ws_ge c2 f (i + 1)
        omega
    · exact .inl ⟨rfl, hi⟩

theorem isDigit_ne_lf {b : UInt8} (hb : isDigit b = true) : stp b = false :=
  not_stp_of (p := isDigit) (by decide) (by decide) hb

theorem dg_ge (c : Bytes) : ∀ (f i acc : Nat), i ≤ (Match.strtol10.dg c f i acc).1 := by
  intro f
  induction f with
  | zero => intro i acc; exact Nat.le_refl _
  | succ f ih =>
    intro i acc
    simp only [Match.strtol10.dg]
    split
    · have := ih (i + 1) (acc * 10 + ((Match.rd c i).toNat - 48)); omega
    · exact Nat.le_refl _

theorem dg_agree {Q : Nat} {c1 c2 : Bytes} (h : AgreeL Q c1 c2) :
    ∀ (f i acc : Nat), i ≤ Q → Match.strtol10.dg c1 f i acc = Match.strtol10.dg c2 f i acc := by
  intro f
  induction f with
  | zero => intros; rfl
  | succ f ih =>
    intro i acc hi
    simp only [Match.strtol10.dg]
    rw [← h.mrd hi]
    split
    · rename_i hc
      exact ih (i + 1) _ (h.lt_of_ne hi (isDigit_ne_lf hc))
    · rfl

/-- the number reader in terms of its three stages -/
def s10Sign (s : Bytes) (i0 : Nat) : Bool × Nat :=
  if Match.rd s i0 == 45 then (true, i0 + 1) else if Match.rd s i0 == 43 then (false, i0 + 1) else (false, i0)

def s10Tail (off : Nat) (neg : Bool) (i1 : Nat) (r : Nat × Nat) : Nat × Int :=
  if r.1 == i1 then (0, 0)
  else
    let lim : Nat := if neg then 2^63 else 2^63 - 1
    let v := if r.2 > lim then lim else r.2
    let sv : Int := if neg then -(v : Int) else v
    let m := sv % (2^32 : Int)
    (r.1 - off, if m ≥ 2^31 then m - 2^32 else m)

theorem strtol10_eq (s : Bytes) (off : Nat) :
    Match.strtol10 s off =
      (let sg := s10Sign s (Match.strtol10.ws s (s.length - off) off)
       s10Tail off sg.1 sg.2 (Match.strtol10.dg s (s.length - sg.2 + 1) sg.2 0)) := by
  simp only [Match.strtol10, s10Sign, s10Tail]
  split <;> rfl

theorem s10Sign_ge (s : Bytes) (i0 : Nat) : i0 ≤ (s10Sign s i0).2 := by
  unfold s10Sign
  split
  · simp
  · split <;> simp

theorem s10Sign_agree {Q : Nat} {c1 c2 : Bytes} (h : AgreeL Q c1 c2) {i0 : Nat} (hi : i0 ≤ Q) :
    s10Sign c1 i0 = s10Sign c2 i0 ∧ (s10Sign c1 i0).2 ≤ Q := by
  unfold s10Sign
  rw [← h.mrd hi]
  by_cases h45 : (Match.rd c1 i0 == 45) = true
  · have hne : stp (c1.getD i0 0) = false :=
      not_stp_of (p := fun b => b == 45) (by decide) (by decide) h45
    have hlt := h.lt_of_ne hi hne
    simp only [h45, if_true]
    exact ⟨by first | rfl | trivial, hlt⟩
  · simp only [h45, Bool.false_eq_true, if_false]
    by_cases h43 : (Match.rd c1 i0 == 43) = true
    · have hne : stp (c1.getD i0 0) = false :=
        not_stp_of (p := fun b => b == 43) (by decide) (by decide) h43
      have hlt := h.lt_of_ne hi hne
      simp only [h43, if_true]
      exact ⟨by first | rfl | trivial, hlt⟩
    · simp only [h43, Bool.false_eq_true, if_false]
      exact ⟨by first | rfl | trivial, hi⟩

/-- once the white-space skip has left `[0, Q]`, nothing or too much is consumed -/
theorem strtol10_far (s : Bytes) (off Q : Nat) (_hoff : off ≤ Q)
    (hfar : Q < Match.strtol10.ws s (s.length - off) off) :
    (Match.strtol10 s off).1 = 0 ∨ Q + 1 < off + (Match.strtol10 s off).1 := by
  rw [strtol10_eq]
  simp only []
  have h1 := s10Sign_ge s (Match.strtol10.ws s (s.length - off) off)
  generalize s10Sign s (Match.strtol10.ws s (s.length - off) off) = sg at h1
  have h2 := dg_ge s (s.length - sg.2 + 1) sg.2 0
  generalize Match.strtol10.dg s (s.length - sg.2 + 1) sg.2 0 = r at h2
  unfold s10Tail
  by_cases he : (r.1 == sg.2) = true
  · left; simp only [he, if_true]
  · right
    simp only [he, Bool.false_eq_true, if_false]
    have : r.1 ≠ sg.2 := by simpa using he
    omega

theorem strtol10_agree {Q : Nat} {c1 c2 : Bytes} (h : AgreeL Q c1 c2) (off : Nat) (ho : off ≤ Q) :
    Match.strtol10 c1 off = Match.strtol10 c2 off ∨
    (((Match.strtol10 c1 off).1 = 0 ∨ Q + 1 < off + (Match.strtol10 c1 off).1) ∧
     ((Match.strtol10 c2 off).1 = 0 ∨ Q + 1 < off + (Match.strtol10 c2 off).1)) := by
  rcases ws_agree h (c1.length - off) off ho with ⟨hw1, hw2⟩ | ⟨hf1, hf2⟩
  · left
    rw [strtol10_eq, strtol10_eq]
    simp only []
    rw [← h.len, ← hw1]
    have hs := s10Sign_agree h hw2
    rw [← hs.1]
    rw [dg_agree h _ _ 0 hs.2]
  · right
    rw [h.len] at hf2
    exact ⟨strtol10_far c1 off Q ho hf1, strtol10_far c2 off Q ho hf2⟩

/-! ### compareStr, compareStrAndNum, matchPattern -/

theorem compareStr_agree {Q : Nat} {c1 c2 : Bytes} (h : AgreeL Q c1 c2) (a : Bytes) (ao len1 bo len2 : Nat)
    (hb : bo + len2 ≤ Q + 1) :
    Match.compareStr a ao len1 c1 bo len2 = Match.compareStr a ao len1 c2 bo len2 := by
  simp only [Match.compareStr]
  rw [caseEq_agree h a len2 ao bo hb]

theorem all_digits_agree {Q : Nat} {c1 c2 : Bytes} (h : AgreeL Q c1 c2) (base n : Nat) (hb : base + n ≤ Q + 1) :
    (List.range n).all (fun i => isDigit (Match.rd c1 (base + i))) =
    (List.range n).all (fun i => isDigit (Match.rd c2 (base + i))) := by
  rw [Bool.eq_iff_iff, List.all_eq_true, List.all_eq_true]
  constructor
  · intro H i hi
    have : i < n := List.mem_range.mp hi
    rw [← h.mrd (show base + i ≤ Q by omega)]; exact H i hi
  · intro H i hi
    have : i < n := List.mem_range.mp hi
    rw [h.mrd (show base + i ≤ Q by omega)]; exact H i hi

/-- the numeric-suffix part of `compareStrAndNum` -/
def csnNum (len1 len2 : Nat) (r : Nat × Int) : Bool × Option Int :=
  if len1 + r.1 != len2 then (false, none) else (true, some r.2)

theorem compareStrAndNum_eq (a : Bytes) (ao len1 : Nat) (b : Bytes) (bo len2 : Nat) (num : Bool) :
    Match.compareStrAndNum a ao len1 b bo len2 num =
      if len2 < len1 then (false, none)
      else if Match.caseEq a ao b bo len1 then
        if num then
          if len1 == len2 then (true, none)
          else csnNum len1 len2 (Match.strtol10 b (bo + len1))
        else
          (((List.range (len2 - len1)).all (fun i => isDigit (Match.rd b (bo + len1 + i)))), none)
      else (false, none) := by
  rfl

theorem compareStrAndNum_agree {Q : Nat} {c1 c2 : Bytes} (h : AgreeL Q c1 c2) (a : Bytes)
    (ao len1 bo len2 : Nat) (num : Bool) (hb : bo + len2 ≤ Q + 1) :
    Match.compareStrAndNum a ao len1 c1 bo len2 num = Match.compareStrAndNum a ao len1 c2 bo len2 num := by
  rw [compareStrAndNum_eq, compareStrAndNum_eq]
  by_cases hl : len2 < len1
  · simp only [hl, if_true]
  · simp only [hl, if_false]
    rw [caseEq_agree h a len1 ao bo (by omega), all_digits_agree h (bo + len1) (len2 - len1) (by omega)]
    by_cases he : (len1 == len2) = true
    · simp only [he, if_true]
    · simp only [he, Bool.false_eq_true, if_false]
      have hne : len1 ≠ len2 := by simpa using he
      rcases strtol10_agree h (bo + len1) (by omega) with heq | ⟨hf1, hf2⟩
      · rw [heq]
      · have e1 : csnNum len1 len2 (Match.strtol10 c1 (bo + len1)) = (false, none) := by
          unfold csnNum
          have : len1 + (Match.strtol10 c1 (bo + len1)).1 ≠ len2 := by omega
          simp [this]
        have e2 : csnNum len1 len2 (Match.strtol10 c2 (bo + len1)) = (false, none) := by
          unfold csnNum
          have : len1 + (Match.strtol10 c2 (bo + len1)).1 ≠ len2 := by omega
          simp [this]
        rw [e1, e2]

theorem matchPattern_agree {Q : Nat} {c1 c2 : Bytes} (h : AgreeL Q c1 c2) (p : Bytes)
    (po plen so slen : Nat) (num : Bool) (hb : so + slen ≤ Q + 1) :
    Match.matchPattern p po plen c1 so slen num = Match.matchPattern p po plen c2 so slen num := by
  simp only [Match.matchPattern]
  simp only [compareStrAndNum_agree h p _ _ so slen num hb, compareStr_agree h p _ _ so slen hb]

/-! ### mainLoop -/

/-- the byte at the new command position is looked at only when command bytes remain -/
theorem loopTail_c0 (p : Bytes) (hn : Bool) (d : Int) (k : Match.MState → Bool × Match.MState)
    (psp csp : Nat) (st : Match.MState) (numPtr : Option Nat) (mp : Bool × Option Int) (c0 c0' : UInt8)
    (hc : st.cl - csp ≠ 0 → c0 = c0') :
    loopTail p hn d k psp csp st numPtr mp c0 = loopTail p hn d k psp csp st numPtr mp c0' := by
  by_cases hz : st.cl - csp = 0
  · have hu := upd_cp_cl hn st numPtr mp.2
    simp only [loopTail]
    generalize upd hn st numPtr mp.2 = st2 at hu ⊢
    obtain ⟨hu1, hu2⟩ := hu
    split
    · split
      · rfl
      · split
        · rfl
        · split
          · rfl
          · rename_i hcl
            exfalso
            apply hcl
            simp only [hu2, hz]
            rfl
    · rfl
  · rw [hc hz]

theorem mainLoop_agree {Q : Nat} {c1 c2 : Bytes} (h : AgreeL Q c1 c2) (p : Bytes) (hn : Bool) (d : Int) :
    ∀ (fuel : Nat) (st : Match.MState), st.cp + st.cl ≤ Q + 1 →
      Match.mainLoop p c1 hn d fuel st = Match.mainLoop p c2 hn d fuel st := by
  intro fuel
  induction fuel with
  | zero => intros; rfl
  | succ fuel ih =>
    intro st hst
    rw [mainLoop_succ, mainLoop_succ]
    by_cases hpl : st.pl < 0
    · simp only [hpl, if_true]
    · simp only [hpl, if_false]
      have hcsp : Match.cmdSeparatorPos c2 st.cp st.cl = Match.cmdSeparatorPos c1 st.cp st.cl :=
        (sepPos_agree h st.cp st.cl _ (by omega)).symm
      have hle : Match.cmdSeparatorPos c1 st.cp st.cl ≤ st.cl := sepPos_le _ _ _ _
      rw [hcsp]
      generalize Match.cmdSeparatorPos c1 st.cp st.cl = csp at hle
      generalize Match.patternSeparatorPos p st.pp st.pl.toNat = psp
      have hx := numStep_cp_cl p hn d psp st
      generalize numStep p hn d psp st = x at hx
      obtain ⟨hx1, hx2⟩ := hx
      rw [← matchPattern_agree h p x.1.pp psp x.1.cp csp x.2.isSome (by omega)]
      generalize Match.matchPattern p x.1.pp psp c1 x.1.cp csp x.2.isSome = mp
      have hu := upd_cp_cl hn x.1 x.2 mp.2
      rw [loopTail_c0 p hn d (Match.mainLoop p c2 hn d fuel) psp csp x.1 x.2 mp
        (Match.rd c2 ((upd hn x.1 x.2 mp.2).cp + csp)) (Match.rd c1 ((upd hn x.1 x.2 mp.2).cp + csp))
        (by intro hnz; exact (h.mrd (show (upd hn x.1 x.2 mp.2).cp + csp ≤ Q by omega)).symm)]
      apply loopTail_congr
      · omega
      · intro st' hst'
        exact ih st' (by omega)

/-! ### matchCommand -/

theorem mcTail_agree {Q : Nat} {c1 c2 : Bytes} (h : AgreeL Q c1 c2) (pattern : Bytes) (hn : Bool)
    (nums : List Int) (dflt : Int) (st : Match.MState) (hst : st.cp + st.cl ≤ Q + 1) (hcp : st.cp ≤ Q) :
    mcTail pattern c1 hn nums dflt st = mcTail pattern c2 hn nums dflt st := by
  simp only [mcTail]
  rw [← h.mrd hcp, ← h.len]
  by_cases h58 : (Match.rd c1 st.cp == 58) = true
  · simp only [h58, if_true]
    by_cases h2 : st.cl ≥ 2
    · simp only [h2, if_true]
      rw [← h.mrd (show st.cp + 1 ≤ Q by omega)]
      by_cases h42 : (Match.rd c1 (st.cp + 1) != 42) = true
      · simp only [h42, if_true]
        rw [mainLoop_agree h pattern hn dflt _ _ (show (st.cp + 1) + (st.cl - 1) ≤ Q + 1 by omega)]
      · simp only [h42, Bool.false_eq_true, if_false]
    · simp only [h2, if_false]
      rw [mainLoop_agree h pattern hn dflt _ _ hst]
  · simp only [h58, Bool.false_eq_true, if_false]
    rw [mainLoop_agree h pattern hn dflt _ _ hst]

theorem matchCommand_agree {Q : Nat} {c1 c2 : Bytes} (h : AgreeL Q c1 c2) (pattern : Bytes) (len : Nat)
    (numbers : Option (List Int)) (dflt : Int) (hlen : len ≤ Q + 1) :
    Match.matchCommand pattern c1 len numbers dflt = Match.matchCommand pattern c2 len numbers dflt := by
  have hmin : min (c2.takeWhile (· ≠ 0)).length len = min (c1.takeWhile (· ≠ 0)).length len := by
    rw [min_takeWhile_take _ c1 len, min_takeWhile_take _ c2 len, h.take len hlen]
  rw [matchCommand_eq, matchCommand_eq]
  simp only []
  rw [hmin]
  have hclen : min (c1.takeWhile (· ≠ 0)).length len ≤ Q + 1 := by omega
  generalize min (c1.takeWhile (· ≠ 0)).length len = clen at hclen
  rw [← h.mrd (show clen - 1 ≤ Q by omega)]
  generalize ((pattern.takeWhile (· ≠ 0)).length : Int) = plen
  have key : ∀ (pl : Int) (cl : Nat), cl ≤ clen →
      mcTail pattern c1 numbers.isSome (numbers.getD []) dflt (mcStart pattern (numbers.getD []) pl cl) =
      mcTail pattern c2 numbers.isSome (numbers.getD []) dflt (mcStart pattern (numbers.getD []) pl cl) := by
    intro pl cl hcl
    have hs := mcStart_cp_cl pattern (numbers.getD []) pl cl
    exact mcTail_agree h pattern _ _ dflt _ (by omega) (by omega)
  by_cases hq : (Match.rd pattern (plen.toNat - 1) == 63) = true
  · simp only [hq, if_true]
    by_cases h2 : clen > 0 ∧ (Match.rd c1 (clen - 1) == 63) = true
    · simp only [h2, and_self, if_true]
      exact key _ _ (by omega)
    · simp only [h2, if_false]
  · simp only [hq, Bool.false_eq_true, if_false]
    exact key _ _ (Nat.le_refl _)

end ScpiVerif.Lemmas.ParseLocalAux
