/-
The recognisers of Model/Lexer.lean against the token specification of Spec/Tokens.lean.

Method: everything is expressed over `s = buf.drop pos` with `hd s p` (first byte satisfies `p`)
and `tw p s` (length of the longest prefix of bytes satisfying `p`); `PM r s i` says that the
prefix of length `i` of `s` is in the language of `r`, and is computed structurally (`PM_seq`, ...).
-/
import ScpiVerif.Model.Parser
import ScpiVerif.Spec.Unit
import ScpiVerif.Lemmas.Regex

namespace ScpiVerif.Lemmas.Lexer
open ScpiVerif ScpiVerif.Lexer ScpiVerif.Parser ScpiVerif.Spec ScpiVerif.Lemmas.Regex
open ScpiVerif.Spec.Re (opt plus nullable deriv longest)

/-! ## `hd` and `tw` -/

/-- the first byte exists and satisfies `p` -/
def hd (s : Bytes) (p : UInt8 → Bool) : Bool :=
  match s with
  | b :: _ => p b
  | [] => false

/-- number of leading bytes satisfying `p` -/
def tw (p : UInt8 → Bool) (s : Bytes) : Nat := (s.takeWhile p).length

@[simp] theorem hd_nil (p : UInt8 → Bool) : hd [] p = false := rfl
@[simp] theorem hd_cons (b : UInt8) (s : Bytes) (p : UInt8 → Bool) : hd (b :: s) p = p b := rfl
@[simp] theorem tw_nil (p : UInt8 → Bool) : tw p [] = 0 := rfl
theorem tw_cons (p : UInt8 → Bool) (b : UInt8) (s : Bytes) :
    tw p (b :: s) = if p b = true then 1 + tw p s else 0 := by
  unfold tw; rw [List.takeWhile_cons]; split <;> simp [Nat.add_comm]

theorem tw_le_length (p : UInt8 → Bool) (s : Bytes) : tw p s ≤ s.length := by
  induction s with
  | nil => simp
  | cons b s ih => rw [tw_cons]; split <;> simp <;> omega

theorem hd_length {s : Bytes} {p : UInt8 → Bool} (h : hd s p = true) : 0 < s.length := by
  cases s with
  | nil => simp at h
  | cons b s => simp

theorem hd_drop_length {s : Bytes} {p : UInt8 → Bool} {i : Nat} (h : hd (s.drop i) p = true) :
    i < s.length := by
  have := hd_length h
  simp at this; omega

theorem hd_drop_of_lt_tw {p : UInt8 → Bool} {s : Bytes} {j : Nat} (h : j < tw p s) :
    hd (s.drop j) p = true := by
  induction s generalizing j with
  | nil => simp at h
  | cons b s ih =>
    rw [tw_cons] at h
    by_cases hb : p b = true
    · rw [if_pos hb] at h
      cases j with
      | zero => simpa using hb
      | succ j => simp; exact ih (by omega)
    · rw [if_neg hb] at h; omega

theorem hd_drop_tw (p : UInt8 → Bool) (s : Bytes) : hd (s.drop (tw p s)) p = false := by
  induction s with
  | nil => simp
  | cons b s ih =>
    rw [tw_cons]
    by_cases hb : p b = true
    · rw [if_pos hb, Nat.add_comm]; simpa using ih
    · rw [if_neg hb]; simpa using hb

theorem tw_pos_iff {p : UInt8 → Bool} {s : Bytes} : 0 < tw p s ↔ hd s p = true := by
  cases s with
  | nil => simp
  | cons b s => rw [tw_cons]; by_cases hb : p b = true <;> simp [hb]; omega

theorem tw_eq_zero_iff {p : UInt8 → Bool} {s : Bytes} : tw p s = 0 ↔ hd s p = false := by
  have := @tw_pos_iff p s
  cases h : hd s p <;> simp [h] at this ⊢ <;> omega

theorem tw_succ {p : UInt8 → Bool} {s : Bytes} (h : hd s p = true) : tw p s = 1 + tw p (s.drop 1) := by
  cases s with
  | nil => simp at h
  | cons b s => rw [tw_cons]; simp at h; simp [h]

theorem tw_drop {p : UInt8 → Bool} {s : Bytes} {j : Nat} (h : j ≤ tw p s) :
    tw p (s.drop j) = tw p s - j := by
  induction s generalizing j with
  | nil => simp
  | cons b s ih =>
    cases j with
    | zero => simp
    | succ j =>
      rw [tw_cons] at h ⊢
      by_cases hb : p b = true
      · rw [if_pos hb] at h ⊢
        simp; rw [ih (by omega)]; omega
      · rw [if_neg hb] at h; omega

/-- two classes with no common byte -/
theorem hd_disj {p q : UInt8 → Bool} (hpq : ∀ b, p b = true → q b = false) {s : Bytes}
    (h : hd s p = true) : hd s q = false := by
  cases s with
  | nil => rfl
  | cons b s => exact hpq b h

theorem hd_imp {p q : UInt8 → Bool} (hpq : ∀ b, p b = true → q b = true) {s : Bytes}
    (h : hd s p = true) : hd s q = true := by
  cases s with
  | nil => simp at h
  | cons b s => exact hpq b h

theorem hd_eq_iff_head? {s : Bytes} {ch : UInt8} : hd s (· == ch) = true ↔ s.head? = some ch := by
  cases s with
  | nil => simp
  | cons b s => simp

theorem hd_eq_cons {s : Bytes} {ch : UInt8} (h : hd s (· == ch) = true) : s = ch :: s.drop 1 := by
  cases s with
  | nil => simp at h
  | cons b s => simp at h; simp [h]

theorem hd_cons_drop {s : Bytes} {p : UInt8 → Bool} (h : hd s p = true) :
    ∃ b, p b = true ∧ s = b :: s.drop 1 := by
  cases s with
  | nil => simp at h
  | cons b s => exact ⟨b, h, by simp⟩

theorem all_take_iff {p : UInt8 → Bool} {s : Bytes} {i : Nat} :
    (i ≤ s.length ∧ (s.take i).all p = true) ↔ i ≤ tw p s := by
  induction s generalizing i with
  | nil => simp
  | cons b s ih =>
    cases i with
    | zero => simp
    | succ i =>
      rw [tw_cons]
      by_cases hb : p b = true
      · rw [if_pos hb]
        have := @ih i
        simp only [List.length_cons, List.take_succ_cons, List.all_cons, hb, Bool.true_and]
        rw [Nat.add_le_add_iff_right, this]; omega
      · rw [if_neg hb]
        simp [hb]

/-! ## the model's primitives over `buf.drop pos` -/

theorem drop_add (buf : Bytes) (pos k : Nat) : buf.drop (pos + k) = (buf.drop pos).drop k := by
  rw [List.drop_drop]

theorem length_drop_le {buf : Bytes} {pos : Nat} (h : pos ≤ buf.length) :
    pos + (buf.drop pos).length = buf.length := by
  simp; omega

theorem peekP_eq (buf : Bytes) (pos : Nat) (p : UInt8 → Bool) : peekP buf pos p = hd (buf.drop pos) p := by
  unfold peekP
  rw [← List.head?_drop]
  cases buf.drop pos <;> rfl

theorem getElem?_eq_head_drop (buf : Bytes) (pos : Nat) : buf[pos]? = (buf.drop pos).head? := by
  rw [List.head?_drop]

theorem skipWhile_eq (buf : Bytes) (p : UInt8 → Bool) (fuel pos : Nat) (h : buf.length - pos ≤ fuel) :
    skipWhile buf p fuel pos = pos + tw p (buf.drop pos) := by
  induction fuel generalizing pos with
  | zero =>
    have : buf.drop pos = [] := by simp; omega
    simp [skipWhile, this]
  | succ fuel ih =>
    rw [skipWhile, peekP_eq]
    by_cases hh : hd (buf.drop pos) p = true
    · rw [if_pos hh, ih (pos + 1) (by omega), tw_succ hh, drop_add]; omega
    · rw [if_neg hh]
      have : tw p (buf.drop pos) = 0 := tw_eq_zero_iff.2 (by simpa using hh)
      omega

theorem skipMany_eq (buf : Bytes) (pos : Nat) (p : UInt8 → Bool) :
    skipMany buf pos p = pos + tw p (buf.drop pos) := skipWhile_eq buf p _ pos (Nat.le_refl _)

theorem skipOne_eq (buf : Bytes) (pos : Nat) (p : UInt8 → Bool) :
    skipOne buf pos p = pos + (if hd (buf.drop pos) p = true then 1 else 0) := by
  unfold skipOne; rw [peekP_eq]; split <;> rfl

theorem skipChr_eq (buf : Bytes) (pos : Nat) (ch : UInt8) :
    skipChr buf pos ch = pos + (if hd (buf.drop pos) (· == ch) = true then 1 else 0) := skipOne_eq _ _ _

theorem iseos_eq (buf : Bytes) (pos : Nat) : iseos buf pos = decide ((buf.drop pos).length = 0) := by
  unfold iseos; simp; omega

/-! ## prefix membership -/

/-- the prefix of length `i` of `s` is a word of `r` -/
def PM (r : Re) (s : Bytes) (i : Nat) : Prop := i ≤ s.length ∧ Matches r (s.take i)

theorem PM_le {r : Re} {s : Bytes} {i : Nat} (h : PM r s i) : i ≤ s.length := h.1

theorem PM_empty {s : Bytes} {i : Nat} : PM .empty s i ↔ False := by
  simp [PM, matches_empty]

theorem PM_eps {s : Bytes} {i : Nat} : PM .eps s i ↔ i = 0 := by
  simp only [PM, matches_eps]
  constructor
  · rintro ⟨h1, h2⟩
    cases i with
    | zero => rfl
    | succ i => cases s <;> simp at h1 h2
  · rintro rfl; simp

theorem PM_chr {p : UInt8 → Bool} {s : Bytes} {i : Nat} : PM (.chr p) s i ↔ i = 1 ∧ hd s p = true := by
  simp only [PM, matches_chr]
  constructor
  · rintro ⟨h1, b, h2, hb⟩
    cases s with
    | nil => simp at h2
    | cons d s =>
      cases i with
      | zero => simp at h2
      | succ i =>
        simp at h2
        obtain ⟨rfl, h3⟩ := h2
        refine ⟨?_, hb⟩
        cases i with
        | zero => rfl
        | succ i => cases s <;> simp at h3 h1
  · rintro ⟨rfl, h⟩
    obtain ⟨b, hb, hs⟩ := hd_cons_drop h
    rw [hs]
    exact ⟨by simp, b, by simp, hb⟩

theorem PM_c {b : UInt8} {s : Bytes} {i : Nat} : PM (Re.c b) s i ↔ i = 1 ∧ hd s (· == b) = true := PM_chr

theorem take_eq_append {s u t : Bytes} {m : Nat} (hm : m ≤ s.length) (h : s.take m = u ++ t) :
    u.length ≤ m ∧ u = s.take u.length ∧ t = (s.drop u.length).take (m - u.length) := by
  have hl : u.length + t.length = m := by
    have := congrArg List.length h
    simp at this; omega
  refine ⟨by omega, ?_, ?_⟩
  · have := congrArg (List.take u.length) h
    simp [List.take_take] at this
    rw [Nat.min_eq_left (by omega)] at this
    exact this.symm
  · have := congrArg (List.drop u.length) h
    simp [List.drop_take] at this
    exact this.symm

theorem PM_seq {a b : Re} {s : Bytes} {m : Nat} :
    PM (.seq a b) s m ↔ ∃ i j, m = i + j ∧ PM a s i ∧ PM b (s.drop i) j := by
  simp only [PM, matches_seq]
  constructor
  · rintro ⟨hm, u, t, h, h1, h2⟩
    obtain ⟨hu, e1, e2⟩ := take_eq_append hm h
    refine ⟨u.length, m - u.length, by omega, ⟨by omega, e1 ▸ h1⟩, by simp; omega, e2 ▸ h2⟩
  · rintro ⟨i, j, rfl, ⟨hi, h1⟩, ⟨hj, h2⟩⟩
    simp at hj
    exact ⟨by omega, _, _, List.take_add, h1, h2⟩

theorem PM_alt {a b : Re} {s : Bytes} {m : Nat} : PM (.alt a b) s m ↔ PM a s m ∨ PM b s m := by
  simp only [PM, matches_alt]
  constructor
  · rintro ⟨h, h1 | h1⟩
    · exact .inl ⟨h, h1⟩
    · exact .inr ⟨h, h1⟩
  · rintro (⟨h, h1⟩ | ⟨h, h1⟩)
    · exact ⟨h, .inl h1⟩
    · exact ⟨h, .inr h1⟩

theorem PM_opt {a : Re} {s : Bytes} {m : Nat} : PM (opt a) s m ↔ m = 0 ∨ PM a s m := by
  unfold opt; rw [PM_alt, PM_eps]

theorem PM_star {a : Re} {s : Bytes} {m : Nat} :
    PM (.star a) s m ↔ m = 0 ∨ ∃ i j, m = i + j ∧ 0 < i ∧ PM a s i ∧ PM (.star a) (s.drop i) j := by
  constructor
  · rintro ⟨hm, h⟩
    rcases matches_star.1 h with h0 | ⟨u, t, h, hne, h1, h2⟩
    · left
      cases m with
      | zero => rfl
      | succ m => cases s <;> simp at hm h0
    · right
      obtain ⟨hu, e1, e2⟩ := take_eq_append hm h
      refine ⟨u.length, m - u.length, by omega, ?_, ⟨by omega, e1 ▸ h1⟩, by simp; omega, e2 ▸ h2⟩
      cases u with
      | nil => exact absurd rfl hne
      | cons => simp
  · rintro (rfl | ⟨i, j, rfl, _, ⟨hi, h1⟩, ⟨hj, h2⟩⟩)
    · exact ⟨by simp, by simpa using Matches.starNil⟩
    · simp at hj
      refine ⟨by omega, ?_⟩
      rw [List.take_add]
      exact .starCons h1 h2

theorem matches_star_chr {p : UInt8 → Bool} {u : Bytes} : Matches (.star (.chr p)) u ↔ u.all p = true := by
  induction u with
  | nil => simp; exact .starNil
  | cons c u ih =>
    constructor
    · intro h
      obtain ⟨s, t, rfl, h1, h2⟩ := matches_star_cons h
      obtain ⟨b, hb, hp⟩ := matches_chr.1 h1
      simp at hb
      obtain ⟨rfl, rfl⟩ := hb
      have h3 := ih.1 h2
      simp only [List.nil_append] at h3 ⊢
      simp only [List.all_cons, hp, h3]; rfl
    · intro h
      simp at h
      have h2 := ih.2 (by simpa using h.2)
      exact Matches.starCons (s := [c]) (.chr p c h.1) h2

theorem PM_star_chr {p : UInt8 → Bool} {s : Bytes} {i : Nat} : PM (.star (.chr p)) s i ↔ i ≤ tw p s := by
  simp only [PM, matches_star_chr]; exact all_take_iff

theorem PM_plus_chr {p : UInt8 → Bool} {s : Bytes} {i : Nat} :
    PM (plus (.chr p)) s i ↔ 1 ≤ i ∧ i ≤ tw p s := by
  unfold plus
  rw [PM_seq]
  constructor
  · rintro ⟨a, b, rfl, h1, h2⟩
    rw [PM_chr] at h1
    rw [PM_star_chr] at h2
    obtain ⟨rfl, hh⟩ := h1
    rw [tw_succ hh]; omega
  · rintro ⟨h1, h2⟩
    have hh : hd s p = true := tw_pos_iff.1 (by omega)
    refine ⟨1, i - 1, by omega, PM_chr.2 ⟨rfl, hh⟩, PM_star_chr.2 ?_⟩
    rw [tw_succ hh] at h2; omega

/-! ## from prefix membership to `Re.longest` -/

theorem longest_eq_some {r : Re} {s : Bytes} {n : Nat} (h1 : PM r s n) (h2 : ∀ m, PM r s m → m ≤ n) :
    r.longest s = some n := by
  rw [longest_is_longest]
  refine ⟨h1.1, h1.2, ?_⟩
  intro m hm hm2 hM
  have := h2 m ⟨hm2, hM⟩
  omega

theorem longest_eq_none {r : Re} {s : Bytes} (h : ∀ m, ¬ PM r s m) : r.longest s = none := by
  rw [longest_none]
  intro m hm hM
  exact h m ⟨hm, hM⟩

theorem longest_some_PM {r : Re} {s : Bytes} {n : Nat} (h : r.longest s = some n) :
    PM r s n ∧ ∀ m, PM r s m → m ≤ n := by
  rw [longest_is_longest] at h
  refine ⟨⟨h.1, h.2.1⟩, ?_⟩
  intro m hm
  apply Nat.le_of_not_lt
  intro hlt
  exact h.2.2 m hlt hm.1 hm.2

theorem longest_none_PM {r : Re} {s : Bytes} (h : r.longest s = none) (m : Nat) : ¬ PM r s m := by
  rw [longest_none] at h
  intro hm
  exact h m hm.1 hm.2

/-- nothing but possibly the empty prefix matches: `longest` is `none` or `some 0` -/
theorem longest_no_pos {r : Re} {s : Bytes} (h : ∀ m, 0 < m → ¬ PM r s m) :
    r.longest s = none ∨ r.longest s = some 0 := by
  cases hl : r.longest s with
  | none => exact .inl rfl
  | some k =>
    right
    have := (longest_some_PM hl).1
    cases k with
    | zero => rfl
    | succ k => exact absurd this (h _ (by omega))

/-- the `plain` tokens of `specToken`: longest non-empty match, extent = the match -/
def plainSpec (r : Re) (ty : TokType) (s : Bytes) : Option Expect :=
  match r.longest s with
  | some n => if n > 0 then some (Expect.mk n ty 0 n) else none
  | none => none

theorem plainSpec_some {r : Re} {ty : TokType} {s : Bytes} {n : Nat} (hn : 0 < n) (h1 : PM r s n)
    (h2 : ∀ m, PM r s m → m ≤ n) : plainSpec r ty s = some ⟨n, ty, 0, n⟩ := by
  unfold plainSpec; rw [longest_eq_some h1 h2]; simp [hn]

theorem plainSpec_none {r : Re} {ty : TokType} {s : Bytes} (h : ∀ m, 0 < m → ¬ PM r s m) :
    plainSpec r ty s = none := by
  unfold plainSpec
  rcases longest_no_pos h with h | h <;> rw [h] <;> simp

/-! ## single characters -/

theorem oneChar_agrees (k : Kind) (buf : Bytes) (pos : Nat) (ch : UInt8) (ty : TokType)
    (h : pos ≤ buf.length) (hk : specToken k (buf.drop pos) = single (buf.drop pos) ch ty)
    (hb : k ≠ .block) : Agrees k buf pos (lexOneChar buf pos ch ty) := by
  unfold Agrees lexOneChar
  rw [hk, peekP_eq]
  unfold single
  by_cases hh : hd (buf.drop pos) (· == ch) = true
  · have h1 := hd_eq_iff_head?.1 hh
    have h2 := hd_length hh
    simp at h2
    simp [h1, hh, mkTok]; omega
  · have h1 : ¬ buf[pos]? = some ch := fun h => hh (hd_eq_iff_head?.2 (by rw [List.head?_drop]; exact h))
    simp [h1, hh, mkTok, hb]

theorem comma_spec (buf : Bytes) (pos : Nat) (h : pos ≤ buf.length) :
    Agrees .comma buf pos (lexComma buf pos) := oneChar_agrees _ _ _ _ _ h rfl (by decide)
theorem semicolon_spec (buf : Bytes) (pos : Nat) (h : pos ≤ buf.length) :
    Agrees .semicolon buf pos (lexSemicolon buf pos) := oneChar_agrees _ _ _ _ _ h rfl (by decide)
theorem colon_spec (buf : Bytes) (pos : Nat) (h : pos ≤ buf.length) :
    Agrees .colon buf pos (lexColon buf pos) := oneChar_agrees _ _ _ _ _ h rfl (by decide)
theorem specific_spec (buf : Bytes) (pos : Nat) (ch : UInt8) (h : pos ≤ buf.length) :
    Agrees (.specific ch) buf pos (lexSpecific buf pos ch) := oneChar_agrees _ _ _ _ _ h rfl (by simp)

/-! ## plain tokens -/

/-- rewrite the model's primitives over `buf.drop pos` -/
syntax "lex_rel" ("[" Lean.Parser.Tactic.simpLemma,* "]")? : tactic
macro_rules
  | `(tactic| lex_rel) => `(tactic| simp only [peekP_eq, skipMany_eq, skipOne_eq, skipChr_eq, skipWs, skipNumbers,
      skipAlpha, drop_add, mkTok])
  | `(tactic| lex_rel [$ts,*]) => `(tactic| simp only [peekP_eq, skipMany_eq, skipOne_eq, skipChr_eq, skipWs, skipNumbers,
      skipAlpha, drop_add, mkTok, $ts,*])

theorem agrees_plain {k : Kind} {re : Re} {ty : TokType} {buf : Bytes} {pos : Nat}
    (hk : specToken k (buf.drop pos) = plainSpec re ty (buf.drop pos)) (hb : k ≠ .block)
    (n : Nat) (hmax : ∀ m, PM re (buf.drop pos) m → m ≤ n) (hmem : 0 < n → PM re (buf.drop pos) n)
    (r : Nat × Token × Int) (hr1 : r.1 = pos + n) (hr2 : r.2.2 = n)
    (hr3 : r.2.1.type = if n > 0 then ty else .unknown) (hr4 : r.2.1.ptr = pos) (hr5 : r.2.1.len = n)
    (h : pos ≤ buf.length) :
    Agrees k buf pos r := by
  unfold Agrees
  rw [hk]
  have hr : r.2.1 = ⟨if n > 0 then ty else .unknown, pos, n⟩ := by
    rw [← hr3, ← hr4, ← hr5]
  by_cases hn : 0 < n
  · rw [plainSpec_some hn (hmem hn) hmax]
    have := PM_le (hmem hn)
    simp at this
    simp [hr1, hr2, hr, hn]; omega
  · have hn0 : n = 0 := by omega
    subst hn0
    rw [plainSpec_none (fun m hm hP => by have := hmax m hP; omega)]
    simp [hr1, hr2, hr, hb]

/-- the shape `(pos + n, ⟨if n > 0 then ty else unknown, pos, n⟩, n)` shared by most recognisers -/
theorem agrees_plain' {k : Kind} {re : Re} {ty : TokType} {buf : Bytes} {pos : Nat}
    (hk : specToken k (buf.drop pos) = plainSpec re ty (buf.drop pos)) (hb : k ≠ .block)
    (n : Nat) (hmax : ∀ m, PM re (buf.drop pos) m → m ≤ n) (hmem : 0 < n → PM re (buf.drop pos) n)
    (r : Nat × Token × Int)
    (hr : r = (pos + n, Token.mk (if n > 0 then ty else .unknown) pos n, (n : Int)))
    (h : pos ≤ buf.length) :
    Agrees k buf pos r := by
  subst hr
  exact agrees_plain hk hb n hmax hmem _ rfl rfl rfl rfl rfl h

theorem plain_result_eq {pos p n : Nat} {ty : TokType} (hp : p = pos + n) :
    (p, Token.mk (if ((p : Int) - pos) > 0 then ty else .unknown) pos ((p : Int) - pos), (p : Int) - pos) =
      (pos + n, Token.mk (if n > 0 then ty else .unknown) pos n, (n : Int)) := by
  subst hp
  have e : ((pos + n : Nat) : Int) - pos = n := by omega
  rw [e]; simp

theorem whiteSpace_spec (buf : Bytes) (pos : Nat) (h : pos ≤ buf.length) :
    Agrees .ws buf pos (lexWhiteSpace buf pos) := by
  apply agrees_plain' (re := wsRe) (ty := .ws) rfl (by decide) (tw isWs (buf.drop pos)) _ _ _ _ h
  · intro m hm; exact (PM_plus_chr.1 hm).2
  · intro hn; exact PM_plus_chr.2 ⟨hn, Nat.le_refl _⟩
  · unfold lexWhiteSpace
    lex_rel
    exact plain_result_eq rfl

theorem PM_mnemonic {s : Bytes} {m : Nat} :
    PM mnemonic s m ↔ hd s isAlpha = true ∧ 1 ≤ m ∧ m ≤ 1 + tw (fun b => isAlnum b || b == 95) (s.drop 1) := by
  unfold mnemonic
  rw [PM_seq]
  constructor
  · rintro ⟨i, j, rfl, h1, h2⟩
    rw [PM_chr] at h1; rw [PM_star_chr] at h2
    obtain ⟨rfl, h1⟩ := h1
    exact ⟨h1, by omega, by omega⟩
  · rintro ⟨h1, h2, h3⟩
    exact ⟨1, m - 1, by omega, PM_chr.2 ⟨rfl, h1⟩, PM_star_chr.2 (by omega)⟩

theorem characterData_spec (buf : Bytes) (pos : Nat) (h : pos ≤ buf.length) :
    Agrees .chr buf pos (lexCharacterProgramData buf pos) := by
  by_cases hh : hd (buf.drop pos) isAlpha = true
  · apply agrees_plain' (re := mnemonic) (ty := .programMnemonic) rfl (by decide)
      (1 + tw (fun b => isAlnum b || b == 95) ((buf.drop pos).drop 1)) _ _ _ _ h
    · intro m hm; exact (PM_mnemonic.1 hm).2.2
    · intro hn; exact PM_mnemonic.2 ⟨hh, by omega, Nat.le_refl _⟩
    · unfold lexCharacterProgramData
      lex_rel [hh, if_true]
      exact plain_result_eq (by omega)
  · apply agrees_plain' (re := mnemonic) (ty := .programMnemonic) rfl (by decide) 0 _ _ _ _ h
    · intro m hm; exact absurd (PM_mnemonic.1 hm).1 hh
    · intro hn; omega
    · unfold lexCharacterProgramData
      lex_rel [hh]
      exact plain_result_eq rfl

end ScpiVerif.Lemmas.Lexer
