/-
The recognisers of Model/Lexer.lean against the token specification of Spec/Tokens.lean.

Method: everything is expressed over `s = buf.drop pos` with `hd s p` (first byte satisfies `p`)
and `tw p s` (length of the longest prefix of bytes satisfying `p`); `PM r s i` says that the
prefix of length `i` of `s` is in the language of `r`, and is computed structurally (`PM_seq`, ...).
-/
import ScpiVerif.Model.Parser
import ScpiVerif.Spec.Unit
import ScpiVerif.Lemmas.Regex

namespace ScpiVerif.Lemmas.Lexer
open ScpiVerif ScpiVerif.Lexer ScpiVerif.Parser ScpiVerif.Spec ScpiVerif.Lemmas.Regex
open ScpiVerif.Spec.Re (opt plus nullable deriv longest)

/-! ## `hd` and `tw` -/

/-- the first byte exists and satisfies `p` -/
def hd (s : Bytes) (p : UInt8 → Bool) : Bool :=
  match s with
  | b :: _ => p b
  | [] => false

/-- number of leading bytes satisfying `p` -/
def tw (p : UInt8 → Bool) (s : Bytes) : Nat := (s.takeWhile p).length

@[simp] theorem hd_nil (p : UInt8 → Bool) : hd [] p = false := rfl
@[simp] theorem hd_cons (b : UInt8) (s : Bytes) (p : UInt8 → Bool) : hd (b :: s) p = p b := rfl
@[simp] theorem tw_nil (p : UInt8 → Bool) : tw p [] = 0 := rfl
theorem tw_cons (p : UInt8 → Bool) (b : UInt8) (s : Bytes) :
    tw p (b :: s) = if p b = true then 1 + tw p s else 0 := by
  unfold tw; rw [List.takeWhile_cons]; split <;> simp [Nat.add_comm]

theorem tw_le_length (p : UInt8 → Bool) (s : Bytes) : tw p s ≤ s.length := by
  induction s with
  | nil => simp
  | cons b s ih => rw [tw_cons]; split <;> simp <;> omega

theorem hd_length {s : Bytes} {p : UInt8 → Bool} (h : hd s p = true) : 0 < s.length := by
  cases s with
  | nil => simp at h
  | cons b s => simp

theorem hd_drop_length {s : Bytes} {p : UInt8 → Bool} {i : Nat} (h : hd (s.drop i) p = true) :
    i < s.length := by
  have := hd_length h
  simp at this; omega

theorem hd_drop_of_lt_tw {p : UInt8 → Bool} {s : Bytes} {j : Nat} (h : j < tw p s) :
    hd (s.drop j) p = true := by
  induction s generalizing j with
  | nil => simp at h
  | cons b s ih =>
    rw [tw_cons] at h
    by_cases hb : p b = true
    · rw [if_pos hb] at h
      cases j with
      | zero => simpa using hb
      | succ j => simp; exact ih (by omega)
    · rw [if_neg hb] at h; omega

theorem hd_drop_tw (p : UInt8 → Bool) (s : Bytes) : hd (s.drop (tw p s)) p = false := by
  induction s with
  | nil => simp
  | cons b s ih =>
    rw [tw_cons]
    by_cases hb : p b = true
    · rw [if_pos hb, Nat.add_comm]; simpa using ih
    · rw [if_neg hb]; simpa using hb

theorem tw_pos_iff {p : UInt8 → Bool} {s : Bytes} : 0 < tw p s ↔ hd s p = true := by
  cases s with
  | nil => simp
  | cons b s => rw [tw_cons]; by_cases hb : p b = true <;> simp [hb]; omega

theorem tw_eq_zero_iff {p : UInt8 → Bool} {s : Bytes} : tw p s = 0 ↔ hd s p = false := by
  have := @tw_pos_iff p s
  cases h : hd s p <;> simp [h] at this ⊢ <;> omega

theorem tw_succ {p : UInt8 → Bool} {s : Bytes} (h : hd s p = true) : tw p s = 1 + tw p (s.drop 1) := by
  cases s with
  | nil => simp at h
  | cons b s => rw [tw_cons]; simp at h; simp [h]

theorem tw_drop {p : UInt8 → Bool} {s : Bytes} {j : Nat} (h : j ≤ tw p s) :
    tw p (s.drop j) = tw p s - j := by
  induction s generalizing j with
  | nil => simp
  | cons b s ih =>
    cases j with
    | zero => simp
    | succ j =>
      rw [tw_cons] at h ⊢
      by_cases hb : p b = true
      · rw [if_pos hb] at h ⊢
        simp; rw [ih (by omega)]; omega
      · rw [if_neg hb] at h; omega

/-- two classes with no common byte -/
theorem hd_disj {p q : UInt8 → Bool} (hpq : ∀ b, p b = true → q b = false) {s : Bytes}
    (h : hd s p = true) : hd s q = false := by
  cases s with
  | nil => rfl
  | cons b s => exact hpq b h

theorem hd_imp {p q : UInt8 → Bool} (hpq : ∀ b, p b = true → q b = true) {s : Bytes}
    (h : hd s p = true) : hd s q = true := by
  cases s with
  | nil => simp at h
  | cons b s => exact hpq b h

theorem hd_eq_iff_head? {s : Bytes} {ch : UInt8} : hd s (· == ch) = true ↔ s.head? = some ch := by
  cases s with
  | nil => simp
  | cons b s => simp

theorem hd_eq_cons {s : Bytes} {ch : UInt8} (h : hd s (· == ch) = true) : s = ch :: s.drop 1 := by
  cases s with
  | nil => simp at h
  | cons b s => simp at h; simp [h]

theorem hd_cons_drop {s : Bytes} {p : UInt8 → Bool} (h : hd s p = true) :
    ∃ b, p b = true ∧ s = b :: s.drop 1 := by
  cases s with
  | nil => simp at h
  | cons b s => exact ⟨b, h, by simp⟩

theorem all_take_iff {p : UInt8 → Bool} {s : Bytes} {i : Nat} :
    (i ≤ s.length ∧ (s.take i).all p = true) ↔ i ≤ tw p s := by
  induction s generalizing i with
  | nil => simp
  | cons b s ih =>
    cases i with
    | zero => simp
    | succ i =>
      rw [tw_cons]
      by_cases hb : p b = true
      · rw [if_pos hb]
        have := @ih i
        simp only [List.length_cons, List.take_succ_cons, List.all_cons, hb, Bool.true_and]
        rw [Nat.add_le_add_iff_right, this]; omega
      · rw [if_neg hb]
        simp [hb]

/-! ## the model's primitives over `buf.drop pos` -/

theorem drop_add (buf : Bytes) (pos k : Nat) : buf.drop (pos + k) = (buf.drop pos).drop k := by
  rw [List.drop_drop]

theorem length_drop_le {buf : Bytes} {pos : Nat} (h : pos ≤ buf.length) :
    pos + (buf.drop pos).length = buf.length := by
  simp; omega

theorem peekP_eq (buf : Bytes) (pos : Nat) (p : UInt8 → Bool) : peekP buf pos p = hd (buf.drop pos) p := by
  unfold peekP
  rw [← List.head?_drop]
  cases buf.drop pos <;> rfl

theorem getElem?_eq_head_drop (buf : Bytes) (pos : Nat) : buf[pos]? = (buf.drop pos).head? := by
  rw [List.head?_drop]

theorem skipWhile_eq (buf : Bytes) (p : UInt8 → Bool) (fuel pos : Nat) (h : buf.length - pos ≤ fuel) :
    skipWhile buf p fuel pos = pos + tw p (buf.drop pos) := by
  induction fuel generalizing pos with
  | zero =>
    have : buf.drop pos = [] := by simp; omega
    simp [skipWhile, this]
  | succ fuel ih =>
    rw [skipWhile, peekP_eq]
    by_cases hh : hd (buf.drop pos) p = true
    · rw [if_pos hh, ih (pos + 1) (by omega), tw_succ hh, drop_add]; omega
    · rw [if_neg hh]
      have : tw p (buf.drop pos) = 0 := tw_eq_zero_iff.2 (by simpa using hh)
      omega

theorem skipMany_eq (buf : Bytes) (pos : Nat) (p : UInt8 → Bool) :
    skipMany buf pos p = pos + tw p (buf.drop pos) := skipWhile_eq buf p _ pos (Nat.le_refl _)

theorem skipOne_eq (buf : Bytes) (pos : Nat) (p : UInt8 → Bool) :
    skipOne buf pos p = pos + (if hd (buf.drop pos) p = true then 1 else 0) := by
  unfold skipOne; rw [peekP_eq]; split <;> rfl

theorem skipChr_eq (buf : Bytes) (pos : Nat) (ch : UInt8) :
    skipChr buf pos ch = pos + (if hd (buf.drop pos) (· == ch) = true then 1 else 0) := skipOne_eq _ _ _

theorem iseos_eq (buf : Bytes) (pos : Nat) : iseos buf pos = decide ((buf.drop pos).length = 0) := by
  unfold iseos; simp; omega

/-! ## prefix membership -/

/-- the prefix of length `i` of `s` is a word of `r` -/
def PM (r : Re) (s : Bytes) (i : Nat) : Prop := i ≤ s.length ∧ Matches r (s.take i)

theorem PM_le {r : Re} {s : Bytes} {i : Nat} (h : PM r s i) : i ≤ s.length := h.1

theorem PM_empty {s : Bytes} {i : Nat} : PM .empty s i ↔ False := by
  simp [PM, matches_empty]

theorem PM_eps {s : Bytes} {i : Nat} : PM .eps s i ↔ i = 0 := by
  simp only [PM, matches_eps]
  constructor
  · rintro ⟨h1, h2⟩
    cases i with
    | zero => rfl
    | succ i => cases s <;> simp at h1 h2
  · rintro rfl; simp

theorem PM_chr {p : UInt8 → Bool} {s : Bytes} {i : Nat} : PM (.chr p) s i ↔ i = 1 ∧ hd s p = true := by
  simp only [PM, matches_chr]
  constructor
  · rintro ⟨h1, b, h2, hb⟩
    cases s with
    | nil => simp at h2
    | cons d s =>
      cases i with
      | zero => simp at h2
      | succ i =>
        simp at h2
        obtain ⟨rfl, h3⟩ := h2
        refine ⟨?_, hb⟩
        cases i with
        | zero => rfl
        | succ i => cases s <;> simp at h3 h1
  · rintro ⟨rfl, h⟩
    obtain ⟨b, hb, hs⟩ := hd_cons_drop h
    rw [hs]
    exact ⟨by simp, b, by simp, hb⟩

theorem PM_c {b : UInt8} {s : Bytes} {i : Nat} : PM (Re.c b) s i ↔ i = 1 ∧ hd s (· == b) = true := PM_chr

theorem take_eq_append {s u t : Bytes} {m : Nat} (hm : m ≤ s.length) (h : s.take m = u ++ t) :
    u.length ≤ m ∧ u = s.take u.length ∧ t = (s.drop u.length).take (m - u.length) := by
  have hl : u.length + t.length = m := by
    have := congrArg List.length h
    simp at this; omega
  refine ⟨by omega, ?_, ?_⟩
  · have := congrArg (List.take u.length) h
    simp [List.take_take] at this
    rw [Nat.min_eq_left (by omega)] at this
    exact this.symm
  · have := congrArg (List.drop u.length) h
    simp [List.drop_take] at this
    exact this.symm

theorem PM_seq {a b : Re} {s : Bytes} {m : Nat} :
    PM (.seq a b) s m ↔ ∃ i j, m = i + j ∧ PM a s i ∧ PM b (s.drop i) j := by
  simp only [PM, matches_seq]
  constructor
  · rintro ⟨hm, u, t, h, h1, h2⟩
    obtain ⟨hu, e1, e2⟩ := take_eq_append hm h
    refine ⟨u.length, m - u.length, by omega, ⟨by omega, e1 ▸ h1⟩, by simp; omega, e2 ▸ h2⟩
  · rintro ⟨i, j, rfl, ⟨hi, h1⟩, ⟨hj, h2⟩⟩
    simp at hj
    exact ⟨by omega, _, _, List.take_add, h1, h2⟩

theorem PM_alt {a b : Re} {s : Bytes} {m : Nat} : PM (.alt a b) s m ↔ PM a s m ∨ PM b s m := by
  simp only [PM, matches_alt]
  constructor
  · rintro ⟨h, h1 | h1⟩
    · exact .inl ⟨h, h1⟩
    · exact .inr ⟨h, h1⟩
  · rintro (⟨h, h1⟩ | ⟨h, h1⟩)
    · exact ⟨h, .inl h1⟩
    · exact ⟨h, .inr h1⟩

theorem PM_opt {a : Re} {s : Bytes} {m : Nat} : PM (opt a) s m ↔ m = 0 ∨ PM a s m := by
  unfold opt; rw [PM_alt, PM_eps]

theorem PM_star {a : Re} {s : Bytes} {m : Nat} :
    PM (.star a) s m ↔ m = 0 ∨ ∃ i j, m = i + j ∧ 0 < i ∧ PM a s i ∧ PM (.star a) (s.drop i) j := by
  constructor
  · rintro ⟨hm, h⟩
    rcases matches_star.1 h with h0 | ⟨u, t, h, hne, h1, h2⟩
    · left
      cases m with
      | zero => rfl
      | succ m => cases s <;> simp at hm h0
    · right
      obtain ⟨hu, e1, e2⟩ := take_eq_append hm h
      refine ⟨u.length, m - u.length, by omega, ?_, ⟨by omega, e1 ▸ h1⟩, by simp; omega, e2 ▸ h2⟩
      cases u with
      | nil => exact absurd rfl hne
      | cons => simp
  · rintro (rfl | ⟨i, j, rfl, _, ⟨hi, h1⟩, ⟨hj, h2⟩⟩)
    · exact ⟨by simp, by simpa using Matches.starNil⟩
    · simp at hj
      refine ⟨by omega, ?_⟩
      rw [List.take_add]
      exact .starCons h1 h2

theorem matches_star_chr {p : UInt8 → Bool} {u : Bytes} : Matches (.star (.chr p)) u ↔ u.all p = true := by
  induction u with
  | nil => simp; exact .starNil
  | cons c u ih =>
    constructor
    · intro h
      obtain ⟨s, t, rfl, h1, h2⟩ := matches_star_cons h
      obtain ⟨b, hb, hp⟩ := matches_chr.1 h1
      simp at hb
      obtain ⟨rfl, rfl⟩ := hb
      have h3 := ih.1 h2
      simp only [List.nil_append] at h3 ⊢
      simp only [List.all_cons, hp, h3]; rfl
    · intro h
      simp at h
      have h2 := ih.2 (by simpa using h.2)
      exact Matches.starCons (s := [c]) (.chr p c h.1) h2

theorem PM_star_chr {p : UInt8 → Bool} {s : Bytes} {i : Nat} : PM (.star (.chr p)) s i ↔ i ≤ tw p s := by
  simp only [PM, matches_star_chr]; exact all_take_iff

theorem PM_plus_chr {p : UInt8 → Bool} {s : Bytes} {i : Nat} :
    PM (plus (.chr p)) s i ↔ 1 ≤ i ∧ i ≤ tw p s := by
  unfold plus
  rw [PM_seq]
  constructor
  · rintro ⟨a, b, rfl, h1, h2⟩
    rw [PM_chr] at h1
    rw [PM_star_chr] at h2
    obtain ⟨rfl, hh⟩ := h1
    rw [tw_succ hh]; omega
  · rintro ⟨h1, h2⟩
    have hh : hd s p = true := tw_pos_iff.1 (by omega)
    refine ⟨1, i - 1, by omega, PM_chr.2 ⟨rfl, hh⟩, PM_star_chr.2 ?_⟩
    rw [tw_succ hh] at h2; omega

/-! ## from prefix membership to `Re.longest` -/

theorem longest_eq_some {r : Re} {s : Bytes} {n : Nat} (h1 : PM r s n) (h2 : ∀ m, PM r s m → m ≤ n) :
    r.longest s = some n := by
  rw [longest_is_longest]
  refine ⟨h1.1, h1.2, ?_⟩
  intro m hm hm2 hM
  have := h2 m ⟨hm2, hM⟩
  omega

theorem longest_eq_none {r : Re} {s : Bytes} (h : ∀ m, ¬ PM r s m) : r.longest s = none := by
  rw [longest_none]
  intro m hm hM
  exact h m ⟨hm, hM⟩

theorem longest_some_PM {r : Re} {s : Bytes} {n : Nat} (h : r.longest s = some n) :
    PM r s n ∧ ∀ m, PM r s m → m ≤ n := by
  rw [longest_is_longest] at h
  refine ⟨⟨h.1, h.2.1⟩, ?_⟩
  intro m hm
  apply Nat.le_of_not_lt
  intro hlt
  exact h.2.2 m hlt hm.1 hm.2

theorem longest_none_PM {r : Re} {s : Bytes} (h : r.longest s = none) (m : Nat) : ¬ PM r s m := by
  rw [longest_none] at h
  intro hm
  exact h m hm.1 hm.2

/-- nothing but possibly the empty prefix matches: `longest` is `none` or `some 0` -/
theorem longest_no_pos {r : Re} {s : Bytes} (h : ∀ m, 0 < m → ¬ PM r s m) :
    r.longest s = none ∨ r.longest s = some 0 := by
  cases hl : r.longest s with
  | none => exact .inl rfl
  | some k =>
    right
    have := (longest_some_PM hl).1
    cases k with
    | zero => rfl
    | succ k => exact absurd this (h _ (by omega))

/-- the `plain` tokens of `specToken`: longest non-empty match, extent = the match -/
def plainSpec (r : Re) (ty : TokType) (s : Bytes) : Option Expect :=
  match r.longest s with
  | some n => if n > 0 then some (Expect.mk n ty 0 n) else none
  | none => none

theorem plainSpec_some {r : Re} {ty : TokType} {s : Bytes} {n : Nat} (hn : 0 < n) (h1 : PM r s n)
    (h2 : ∀ m, PM r s m → m ≤ n) : plainSpec r ty s = some ⟨n, ty, 0, n⟩ := by
  unfold plainSpec; rw [longest_eq_some h1 h2]; simp [hn]

theorem plainSpec_none {r : Re} {ty : TokType} {s : Bytes} (h : ∀ m, 0 < m → ¬ PM r s m) :
    plainSpec r ty s = none := by
  unfold plainSpec
  rcases longest_no_pos h with h | h <;> rw [h] <;> simp

/-! ## single characters -/

theorem oneChar_agrees (k : Kind) (buf : Bytes) (pos : Nat) (ch : UInt8) (ty : TokType)
    (h : pos ≤ buf.length) (hk : specToken k (buf.drop pos) = single (buf.drop pos) ch ty)
    (hb : k ≠ .block) : Agrees k buf pos (lexOneChar buf pos ch ty) := by
  unfold Agrees lexOneChar
  rw [hk, peekP_eq]
  unfold single
  by_cases hh : hd (buf.drop pos) (· == ch) = true
  · have h1 := hd_eq_iff_head?.1 hh
    have h2 := hd_length hh
    simp at h2
    simp [h1, hh, mkTok]; omega
  · have h1 : ¬ buf[pos]? = some ch := fun h => hh (hd_eq_iff_head?.2 (by rw [List.head?_drop]; exact h))
    simp [h1, hh, mkTok, hb]

theorem comma_spec (buf : Bytes) (pos : Nat) (h : pos ≤ buf.length) :
    Agrees .comma buf pos (lexComma buf pos) := oneChar_agrees _ _ _ _ _ h rfl (by decide)
theorem semicolon_spec (buf : Bytes) (pos : Nat) (h : pos ≤ buf.length) :
    Agrees .semicolon buf pos (lexSemicolon buf pos) := oneChar_agrees _ _ _ _ _ h rfl (by decide)
theorem colon_spec (buf : Bytes) (pos : Nat) (h : pos ≤ buf.length) :
    Agrees .colon buf pos (lexColon buf pos) := oneChar_agrees _ _ _ _ _ h rfl (by decide)
theorem specific_spec (buf : Bytes) (pos : Nat) (ch : UInt8) (h : pos ≤ buf.length) :
    Agrees (.specific ch) buf pos (lexSpecific buf pos ch) := oneChar_agrees _ _ _ _ _ h rfl (by simp)

/-! ## plain tokens -/

/-- rewrite the model's primitives over `buf.drop pos` -/
syntax "lex_rel" ("[" Lean.Parser.Tactic.simpLemma,* "]")? : tactic
macro_rules
  | `(tactic| lex_rel) => `(tactic| simp only [peekP_eq, skipMany_eq, skipOne_eq, skipChr_eq, skipWs, skipNumbers,
      skipAlpha, drop_add, mkTok])
  | `(tactic| lex_rel [$ts,*]) => `(tactic| simp only [peekP_eq, skipMany_eq, skipOne_eq, skipChr_eq, skipWs, skipNumbers,
      skipAlpha, drop_add, mkTok, $ts,*])

theorem agrees_plain {k : Kind} {re : Re} {ty : TokType} {buf : Bytes} {pos : Nat}
    (hk : specToken k (buf.drop pos) = plainSpec re ty (buf.drop pos)) (hb : k ≠ .block)
    (n : Nat) (hmax : ∀ m, PM re (buf.drop pos) m → m ≤ n) (hmem : 0 < n → PM re (buf.drop pos) n)
    (r : Nat × Token × Int) (hr1 : r.1 = pos + n) (hr2 : r.2.2 = n)
    (hr3 : r.2.1.type = if n > 0 then ty else .unknown) (hr4 : r.2.1.ptr = pos) (hr5 : r.2.1.len = n)
    (h : pos ≤ buf.length) :
    Agrees k buf pos r := by
  unfold Agrees
  rw [hk]
  have hr : r.2.1 = ⟨if n > 0 then ty else .unknown, pos, n⟩ := by
    rw [← hr3, ← hr4, ← hr5]
  by_cases hn : 0 < n
  · rw [plainSpec_some hn (hmem hn) hmax]
    have := PM_le (hmem hn)
    simp at this
    simp [hr1, hr2, hr, hn]; omega
  · have hn0 : n = 0 := by omega
    subst hn0
    rw [plainSpec_none (fun m hm hP => by have := hmax m hP; omega)]
    simp [hr1, hr2, hr, hb]

/-- the shape `(pos + n, ⟨if n > 0 then ty else unknown, pos, n⟩, n)` shared by most recognisers -/
theorem agrees_plain' {k : Kind} {re : Re} {ty : TokType} {buf : Bytes} {pos : Nat}
    (hk : specToken k (buf.drop pos) = plainSpec re ty (buf.drop pos)) (hb : k ≠ .block)
    (n : Nat) (hmax : ∀ m, PM re (buf.drop pos) m → m ≤ n) (hmem : 0 < n → PM re (buf.drop pos) n)
    (r : Nat × Token × Int)
    (hr : r = (pos + n, Token.mk (if n > 0 then ty else .unknown) pos n, (n : Int)))
    (h : pos ≤ buf.length) :
    Agrees k buf pos r := by
  subst hr
  exact agrees_plain hk hb n hmax hmem _ rfl rfl rfl rfl rfl h

theorem plain_result_eq {pos p n : Nat} {ty : TokType} (hp : p = pos + n) :
    (p, Token.mk (if ((p : Int) - pos) > 0 then ty else .unknown) pos ((p : Int) - pos), (p : Int) - pos) =
      (pos + n, Token.mk (if n > 0 then ty else .unknown) pos n, (n : Int)) := by
  subst hp
  have e : ((pos + n : Nat) : Int) - pos = n := by omega
  rw [e]; simp

theorem whiteSpace_spec (buf : Bytes) (pos : Nat) (h : pos ≤ buf.length) :
    Agrees .ws buf pos (lexWhiteSpace buf pos) := by
  apply agrees_plain' (re := wsRe) (ty := .ws) rfl (by decide) (tw isWs (buf.drop pos)) _ _ _ _ h
  · intro m hm; exact (PM_plus_chr.1 hm).2
  · intro hn; exact PM_plus_chr.2 ⟨hn, Nat.le_refl _⟩
  · unfold lexWhiteSpace
    lex_rel
    exact plain_result_eq rfl

theorem PM_mnemonic {s : Bytes} {m : Nat} :
    PM mnemonic s m ↔ hd s isAlpha = true ∧ 1 ≤ m ∧ m ≤ 1 + tw (fun b => isAlnum b || b == 95) (s.drop 1) := by
  unfold mnemonic
  rw [PM_seq]
  constructor
  · rintro ⟨i, j, rfl, h1, h2⟩
    rw [PM_chr] at h1; rw [PM_star_chr] at h2
    obtain ⟨rfl, h1⟩ := h1
    exact ⟨h1, by omega, by omega⟩
  · rintro ⟨h1, h2, h3⟩
    exact ⟨1, m - 1, by omega, PM_chr.2 ⟨rfl, h1⟩, PM_star_chr.2 (by omega)⟩

theorem characterData_spec (buf : Bytes) (pos : Nat) (h : pos ≤ buf.length) :
    Agrees .chr buf pos (lexCharacterProgramData buf pos) := by
  by_cases hh : hd (buf.drop pos) isAlpha = true
  · apply agrees_plain' (re := mnemonic) (ty := .programMnemonic) rfl (by decide)
      (1 + tw (fun b => isAlnum b || b == 95) ((buf.drop pos).drop 1)) _ _ _ _ h
    · intro m hm; exact (PM_mnemonic.1 hm).2.2
    · intro hn; exact PM_mnemonic.2 ⟨hh, by omega, Nat.le_refl _⟩
    · unfold lexCharacterProgramData
      lex_rel [hh, if_true]
      exact plain_result_eq (by omega)
  · apply agrees_plain' (re := mnemonic) (ty := .programMnemonic) rfl (by decide) 0 _ _ _ _ h
    · intro m hm; exact absurd (PM_mnemonic.1 hm).1 hh
    · intro hn; omega
    · unfold lexCharacterProgramData
      lex_rel [hh]
      exact plain_result_eq rfl

/-! ## main -/
/-! ## newline, expression, nondecimal -/

theorem plain_result_eq2 {pos p n : Nat} {ty : TokType} (hp : p = pos + n) :
    (if ((p : Int) - pos) > 0 then (p, Token.mk ty pos ((p : Int) - pos), (p : Int) - pos)
      else (pos, Token.mk .unknown pos 0, (0 : Int))) =
      (pos + n, Token.mk (if n > 0 then ty else .unknown) pos n, (n : Int)) := by
  subst hp
  have e : ((pos + n : Nat) : Int) - pos = n := by omega
  rw [e]
  by_cases hn : 0 < n
  · simp [hn]
  · have : n = 0 := by omega
    subst this; simp

theorem plain_result_eq3 {pos p n : Nat} {ty : TokType} (hp : p = pos + n) (hn : 0 < n) :
    (p, Token.mk ty pos ((p : Int) - pos), (p : Int) - pos) =
      (pos + n, Token.mk (if n > 0 then ty else .unknown) pos n, (n : Int)) := by
  subst hp
  have e : ((pos + n : Nat) : Int) - pos = n := by omega
  rw [e]; simp [hn]

theorem plain_result_eq0 {pos : Nat} {ty : TokType} :
    (pos, Token.mk .unknown pos 0, (0 : Int)) =
      (pos + 0, Token.mk (if 0 > 0 then ty else .unknown) pos (0 : Nat), ((0 : Nat) : Int)) := by
  simp

theorem PM_newline {s : Bytes} {m : Nat} :
    PM newline s m ↔ (m = 2 ∧ hd s (· == 13) = true ∧ hd (s.drop 1) (· == 10) = true) ∨
      (m = 1 ∧ hd s (· == 10) = true) ∨ (m = 1 ∧ hd s (· == 13) = true) := by
  unfold newline
  rw [PM_alt, PM_alt, PM_seq, PM_c, PM_c]
  constructor
  · rintro (⟨i, j, rfl, h1, h2⟩ | h | h)
    · rw [PM_c] at h1 h2
      obtain ⟨rfl, h1⟩ := h1
      obtain ⟨rfl, h2⟩ := h2
      exact .inl ⟨rfl, h1, h2⟩
    · exact .inr (.inl h)
    · exact .inr (.inr h)
  · rintro (⟨rfl, h1, h2⟩ | h | h)
    · exact .inl ⟨1, 1, rfl, PM_c.2 ⟨rfl, h1⟩, PM_c.2 ⟨rfl, h2⟩⟩
    · exact .inr (.inl h)
    · exact .inr (.inr h)

theorem cr_not_lf {s : Bytes} (h : hd s (· == 13) = true) : hd s (· == 10) = false :=
  hd_disj (by intro b hb; simp at *; subst hb; decide) h

theorem newLine_spec (buf : Bytes) (pos : Nat) (h : pos ≤ buf.length) :
    Agrees .nl buf pos (lexNewLine buf pos) := by
  by_cases h13 : hd (buf.drop pos) (· == 13) = true
  · by_cases h10 : hd ((buf.drop pos).drop 1) (· == 10) = true
    · apply agrees_plain' (re := newline) (ty := .nl) rfl (by decide) 2 _ _ _ _ h
      · intro m hm; rw [PM_newline] at hm; omega
      · intro _; exact PM_newline.2 (.inl ⟨rfl, h13, h10⟩)
      · unfold lexNewLine
        lex_rel [h13, h10, if_true]
        exact plain_result_eq2 (by omega)
    · apply agrees_plain' (re := newline) (ty := .nl) rfl (by decide) 1 _ _ _ _ h
      · intro m hm; rw [PM_newline] at hm
        rcases hm with ⟨_, _, h2⟩ | h2 | h2
        · exact absurd h2 h10
        · omega
        · omega
      · intro _; exact PM_newline.2 (.inr (.inr ⟨rfl, h13⟩))
      · unfold lexNewLine
        lex_rel [h13, h10, if_true]
        exact plain_result_eq2 (by simp)
  · by_cases h10 : hd (buf.drop pos) (· == 10) = true
    · apply agrees_plain' (re := newline) (ty := .nl) rfl (by decide) 1 _ _ _ _ h
      · intro m hm; rw [PM_newline] at hm
        rcases hm with ⟨_, h2, _⟩ | h2 | h2
        · exact absurd h2 h13
        · omega
        · omega
      · intro _; exact PM_newline.2 (.inr (.inl ⟨rfl, h10⟩))
      · unfold lexNewLine
        lex_rel [h13, h10, if_true, if_false, Bool.false_eq_true, Nat.add_zero, List.drop_zero]
        exact plain_result_eq2 (by simp)
    · apply agrees_plain' (re := newline) (ty := .nl) rfl (by decide) 0 _ _ _ _ h
      · intro m hm; rw [PM_newline] at hm
        rcases hm with ⟨_, h2, _⟩ | ⟨_, h2⟩ | ⟨_, h2⟩
        · exact absurd h2 h13
        · exact absurd h2 h10
        · exact absurd h2 h13
      · intro hn; omega
      · unfold lexNewLine
        lex_rel [h13, h10, if_true, if_false, Bool.false_eq_true, Nat.add_zero, List.drop_zero]
        exact plain_result_eq2 (p := pos) (n := 0) rfl

theorem PM_expression {s : Bytes} {m : Nat} :
    PM expression s m ↔ hd s (· == 40) = true ∧
      hd ((s.drop 1).drop (tw isProgramExpression (s.drop 1))) (· == 41) = true ∧
      m = 1 + tw isProgramExpression (s.drop 1) + 1 := by
  unfold expression
  rw [PM_seq]
  constructor
  · rintro ⟨i, j, rfl, h1, h2⟩
    rw [PM_c] at h1
    obtain ⟨rfl, h1⟩ := h1
    rw [PM_seq] at h2
    obtain ⟨i, j, rfl, h2, h3⟩ := h2
    rw [PM_star_chr] at h2
    rw [PM_c] at h3
    obtain ⟨rfl, h3⟩ := h3
    have : i = tw isProgramExpression (s.drop 1) := by
      apply Nat.le_antisymm h2
      apply Nat.le_of_not_lt
      intro hlt
      have h4 := hd_drop_of_lt_tw hlt
      have h5 : hd ((s.drop 1).drop i) (· == 41) = false :=
        hd_disj (by intro b hb; simp [isProgramExpression] at *; grind) h4
      rw [h5] at h3; cases h3
    subst this
    exact ⟨h1, h3, by omega⟩
  · rintro ⟨h1, h2, rfl⟩
    exact ⟨1, _, by omega, PM_c.2 ⟨rfl, h1⟩,
      PM_seq.2 ⟨_, 1, rfl, PM_star_chr.2 (Nat.le_refl _), PM_c.2 ⟨rfl, h2⟩⟩⟩

theorem expression_spec (buf : Bytes) (pos : Nat) (h : pos ≤ buf.length) :
    Agrees .expression buf pos (lexExpression buf pos) := by
  by_cases h40 : hd (buf.drop pos) (· == 40) = true
  · by_cases h41 : hd (((buf.drop pos).drop 1).drop (tw isProgramExpression ((buf.drop pos).drop 1))) (· == 41) = true
    · apply agrees_plain' (re := expression) (ty := .expression) rfl (by decide)
        (1 + tw isProgramExpression ((buf.drop pos).drop 1) + 1) _ _ _ _ h
      · intro m hm; rw [PM_expression] at hm; omega
      · intro _; exact PM_expression.2 ⟨h40, h41, rfl⟩
      · unfold lexExpression
        lex_rel [h40, h41, if_true]
        exact plain_result_eq3 (by omega) (by omega)
    · apply agrees_plain' (re := expression) (ty := .expression) rfl (by decide) 0 _ _ _ _ h
      · intro m hm; rw [PM_expression] at hm; exact absurd hm.2.1 h41
      · intro hn; omega
      · unfold lexExpression
        lex_rel [h40, h41, if_true]
        exact plain_result_eq0
  · apply agrees_plain' (re := expression) (ty := .expression) rfl (by decide) 0 _ _ _ _ h
    · intro m hm; rw [PM_expression] at hm; exact absurd hm.1 h40
    · intro hn; omega
    · unfold lexExpression
      lex_rel [h40]
      exact plain_result_eq0

/-- `# <letter> <digit>+` -/
def numRe (pc pd : UInt8 → Bool) : Re := .seq (Re.c 35) (.seq (.chr pc) (plus (.chr pd)))

theorem PM_numRe {pc pd : UInt8 → Bool} {s : Bytes} {m : Nat} :
    PM (numRe pc pd) s m ↔ hd s (· == 35) = true ∧ hd (s.drop 1) pc = true ∧
      3 ≤ m ∧ m ≤ 2 + tw pd ((s.drop 1).drop 1) := by
  unfold numRe
  rw [PM_seq]
  constructor
  · rintro ⟨i, j, rfl, h1, h2⟩
    rw [PM_c] at h1
    obtain ⟨rfl, h1⟩ := h1
    rw [PM_seq] at h2
    obtain ⟨i, j, rfl, h2, h3⟩ := h2
    rw [PM_chr] at h2
    obtain ⟨rfl, h2⟩ := h2
    rw [PM_plus_chr] at h3
    exact ⟨h1, h2, by omega, by omega⟩
  · rintro ⟨h1, h2, h3, h4⟩
    exact ⟨1, m - 1, by omega, PM_c.2 ⟨rfl, h1⟩,
      PM_seq.2 ⟨1, m - 2, by omega, PM_chr.2 ⟨rfl, h2⟩, PM_plus_chr.2 ⟨by omega, by omega⟩⟩⟩

theorem longest_numRe (pc pd : UInt8 → Bool) (s : Bytes) :
    (numRe pc pd).longest s =
      if hd s (· == 35) = true ∧ hd (s.drop 1) pc = true ∧ 0 < tw pd ((s.drop 1).drop 1)
      then some (2 + tw pd ((s.drop 1).drop 1)) else none := by
  split
  · next hc =>
    apply longest_eq_some
    · exact PM_numRe.2 ⟨hc.1, hc.2.1, by omega, Nat.le_refl _⟩
    · intro m hm; exact (PM_numRe.1 hm).2.2.2
  · next hc =>
    apply longest_eq_none
    intro m hm
    rw [PM_numRe] at hm
    exact hc ⟨hm.1, hm.2.1, by omega⟩

theorem specToken_nondecimal (s : Bytes) : specToken .nondecimal s =
    let pick := fun (r : Re) (ty : TokType) => match r.longest s with
      | some n => some (Expect.mk n ty 2 (n - 2))
      | none => none
    (pick (numRe (fun b => b == 104 || b == 72) isXDigit) .hexnum).orElse fun _ =>
      (pick (numRe (fun b => b == 113 || b == 81) isQDigit) .octnum).orElse fun _ =>
        pick (numRe (fun b => b == 98 || b == 66) isBDigit) .binnum := rfl

theorem nondecimal_fail {buf s : Bytes} {pos : Nat} (hs : buf.drop pos = s)
    (hsp : specToken .nondecimal s = none) :
    Agrees .nondecimal buf pos (pos, Token.mk .unknown pos 0, 0) := by
  unfold Agrees; rw [hs, hsp]; simp

theorem nondecimal_ok {buf s : Bytes} {pos t : Nat} {ty : TokType} (h : pos ≤ buf.length) (hs : buf.drop pos = s)
    (hsp : specToken .nondecimal s = some ⟨2 + t, ty, 2, 2 + t - 2⟩)
    (ht : 2 + t ≤ s.length) :
    Agrees .nondecimal buf pos
      (pos + 1 + 1 + t, Token.mk ty (pos + 2) (((pos + 1 + 1 + t : Nat) : Int) - ((pos : Int) + 2)),
        ((pos + 1 + 1 + t : Nat) : Int) - ((pos : Int) + 2) + 2) := by
  unfold Agrees; rw [hs, hsp]
  subst hs
  simp at ht
  simp only [Token.mk.injEq, true_and]
  refine ⟨by omega, by omega, by omega, by omega⟩

theorem numRe_len {pd : UInt8 → Bool} {s : Bytes} (_h35 : hd s (· == 35) = true)
    (ht : 0 < tw pd ((s.drop 1).drop 1)) : 2 + tw pd ((s.drop 1).drop 1) ≤ s.length := by
  have := tw_le_length pd ((s.drop 1).drop 1)
  simp only [List.length_drop] at this
  omega

/-- evaluate `specToken .nondecimal s` under the given facts about the first two bytes -/
syntax "nd_eval" "[" Lean.Parser.Tactic.simpLemma,* "]" : tactic
macro_rules
  | `(tactic| nd_eval [$ts,*]) => `(tactic| (
      rw [specToken_nondecimal]; simp only [longest_numRe]
      generalize List.drop 1 _ = s1 at *
      generalize List.drop 1 s1 = s2 at *
      simp [$ts,*]))

theorem nondecimal_spec (buf : Bytes) (pos : Nat) (h : pos ≤ buf.length) :
    Agrees .nondecimal buf pos (lexNondecimal buf pos) := by
  have hxq : ∀ {s : Bytes}, hd s (fun b => b == 104 || b == 72) = true → hd s (fun b => b == 113 || b == 81) = false :=
    fun h => hd_disj (by intro b hb; simp at *; grind) h
  have hxb : ∀ {s : Bytes}, hd s (fun b => b == 104 || b == 72) = true → hd s (fun b => b == 98 || b == 66) = false :=
    fun h => hd_disj (by intro b hb; simp at *; grind) h
  have hqb : ∀ {s : Bytes}, hd s (fun b => b == 113 || b == 81) = true → hd s (fun b => b == 98 || b == 66) = false :=
    fun h => hd_disj (by intro b hb; simp at *; grind) h
  unfold lexNondecimal
  lex_rel
  generalize hs : buf.drop pos = s
  by_cases h35 : hd s (· == 35) = true
  · simp only [h35, if_true]
    by_cases hx : hd (s.drop 1) (fun b => b == 104 || b == 72) = true
    · simp only [hx, if_true]
      have hq := hxq hx
      have hb := hxb hx
      by_cases ht : 0 < tw isXDigit ((s.drop 1).drop 1)
      · rw [if_pos (by omega)]
        refine nondecimal_ok h hs ?_ (numRe_len h35 ht)
        nd_eval [h35, hx, ht]
      · rw [if_neg (by omega)]
        refine nondecimal_fail hs ?_
        nd_eval [h35, hx, ht, hq, hb]
    · simp only [hx, Bool.false_eq_true, if_false]
      by_cases hq : hd (s.drop 1) (fun b => b == 113 || b == 81) = true
      · simp only [hq, if_true]
        have hb := hqb hq
        by_cases ht : 0 < tw isQDigit ((s.drop 1).drop 1)
        · rw [if_pos (by omega)]
          refine nondecimal_ok h hs ?_ (numRe_len h35 ht)
          nd_eval [h35, hx, hq, ht]
        · rw [if_neg (by omega)]
          refine nondecimal_fail hs ?_
          nd_eval [h35, hx, hq, ht, hb]
      · simp only [hq, Bool.false_eq_true, if_false]
        by_cases hb : hd (s.drop 1) (fun b => b == 98 || b == 66) = true
        · simp only [hb, if_true]
          by_cases ht : 0 < tw isBDigit ((s.drop 1).drop 1)
          · rw [if_pos (by omega)]
            refine nondecimal_ok h hs ?_ (numRe_len h35 ht)
            nd_eval [h35, hx, hq, hb, ht]
          · rw [if_neg (by omega)]
            refine nondecimal_fail hs ?_
            nd_eval [h35, hx, hq, hb, ht]
        · simp only [hb, Bool.false_eq_true, if_false]
          refine nondecimal_fail hs ?_
          nd_eval [h35, hx, hq, hb]
  · simp only [h35, Bool.false_eq_true, if_false]
    refine nondecimal_fail hs ?_
    nd_eval [h35]

/-! ## decimal -/
/-! ## byte classes -/
theorem decimal_digit_not_dot : ∀ b, isDigit b = true → (b == 46) = false := by
  intro b h; simp [isDigit] at *; grind
theorem decimal_sign_not_digit : ∀ b, isPlusMn b = true → isDigit b = false := by
  intro b h; simp [isDigit, isPlusMn] at *; grind
theorem decimal_sign_not_dd : ∀ b, isPlusMn b = true → (isDigit b || b == 46) = false := by
  intro b h; simp [isDigit, isPlusMn] at *; grind
theorem decimal_ws_not_E : ∀ b, isWs b = true → isE b = false := by
  intro b h; simp [isWs, isE] at *; grind
theorem decimal_ws_not_sd : ∀ b, isWs b = true → (isPlusMn b || isDigit b) = false := by
  intro b h; simp [isWs, isPlusMn, isDigit] at *; grind
theorem decimal_dd_not_wsE : ∀ b, (isDigit b || b == 46) = true → (isWs b || isE b) = false := by
  intro b h; simp [isWs, isE, isDigit] at *; grind

/-! ## generic: optional / starred class followed by something that cannot start in that class -/
theorem decimal_PM_opt_seq {p q : UInt8 → Bool} {r : Re} (hpq : ∀ b, p b = true → q b = false)
    (hr : ∀ t j, PM r t j → hd t q = true) {s : Bytes} {m : Nat} :
    PM (.seq (opt (.chr p)) r) s m ↔
      ∃ j, m = (if hd s p = true then 1 else 0) + j ∧ PM r (s.drop (if hd s p = true then 1 else 0)) j := by
  rw [PM_seq]
  constructor
  · rintro ⟨i, j, rfl, h1, h2⟩
    rw [PM_opt, PM_chr] at h1
    rcases h1 with rfl | ⟨rfl, hp⟩
    · have hq := hr _ _ h2
      simp only [List.drop_zero] at hq
      have hp : ¬ hd s p = true := by
        intro h; rw [hd_disj hpq h] at hq; cases hq
      rw [if_neg hp]; exact ⟨j, rfl, h2⟩
    · rw [if_pos hp]; exact ⟨j, rfl, h2⟩
  · rintro ⟨j, rfl, h⟩
    by_cases hp : hd s p = true
    · rw [if_pos hp] at h ⊢; exact ⟨1, j, rfl, PM_opt.2 (.inr (PM_chr.2 ⟨rfl, hp⟩)), h⟩
    · rw [if_neg hp] at h ⊢; exact ⟨0, j, rfl, PM_opt.2 (.inl rfl), h⟩

theorem decimal_PM_star_seq {p q : UInt8 → Bool} {r : Re} (hpq : ∀ b, p b = true → q b = false)
    (hr : ∀ t j, PM r t j → hd t q = true) {s : Bytes} {m : Nat} :
    PM (.seq (.star (.chr p)) r) s m ↔ ∃ j, m = tw p s + j ∧ PM r (s.drop (tw p s)) j := by
  rw [PM_seq]
  constructor
  · rintro ⟨i, j, rfl, h1, h2⟩
    rw [PM_star_chr] at h1
    have hq := hr _ _ h2
    have hi : i = tw p s := by
      rcases Nat.lt_or_ge i (tw p s) with hlt | hge
      · have := hd_disj hpq (hd_drop_of_lt_tw hlt); rw [this] at hq; cases hq
      · omega
    subst hi; exact ⟨j, rfl, h2⟩
  · rintro ⟨j, rfl, h⟩
    exact ⟨_, j, rfl, PM_star_chr.2 (Nat.le_refl _), h⟩

theorem decimal_PM_digits {s : Bytes} {m : Nat} : PM digits s m ↔ 1 ≤ m ∧ m ≤ tw isDigit s := PM_plus_chr

theorem decimal_digits_hd (t : Bytes) (j : Nat) (h : PM digits t j) : hd t isDigit = true := by
  have := decimal_PM_digits.1 h
  exact tw_pos_iff.1 (by omega)

/-! ## the mantissa without its sign -/
def decimalCore : Re :=
  .alt (.seq digits (opt (.seq (Re.c 46) (.star (.chr isDigit))))) (.seq (Re.c 46) digits)

theorem decimal_mantissa_eq : mantissa = .seq (opt (.chr isPlusMn)) decimalCore := rfl

theorem decimal_PM_core {t : Bytes} {m d1 d2 : Nat} (hd1 : d1 = tw isDigit t)
    (hd2 : d2 = tw isDigit (t.drop (d1 + 1))) :
    PM decimalCore t m ↔
      (1 ≤ m ∧ m ≤ d1) ∨
      (hd (t.drop d1) (· == 46) = true ∧ d1 + 1 ≤ m ∧ m ≤ d1 + 1 + d2 ∧ (1 ≤ d1 ∨ d1 + 2 ≤ m)) := by
  unfold decimalCore
  rw [PM_alt, PM_seq, PM_seq]
  constructor
  · rintro (⟨a, b, rfl, ha, hb⟩ | ⟨a, b, rfl, ha, hb⟩)
    · rw [decimal_PM_digits] at ha
      rw [PM_opt, PM_seq] at hb
      rcases hb with rfl | ⟨i, j, rfl, hi, hj⟩
      · left; omega
      · rw [PM_c] at hi
        obtain ⟨rfl, hdot⟩ := hi
        rw [PM_star_chr, List.drop_drop] at hj
        have ha' : a = d1 := by
          rcases Nat.lt_or_ge a d1 with hlt | hge
          · rw [hd1] at hlt
            have := hd_disj decimal_digit_not_dot (hd_drop_of_lt_tw hlt)
            rw [this] at hdot; cases hdot
          · omega
        subst ha'
        right; exact ⟨hdot, by omega, by omega, by omega⟩
    · rw [PM_c] at ha
      obtain ⟨rfl, hdot⟩ := ha
      rw [decimal_PM_digits] at hb
      have h0 : d1 = 0 := by
        rw [hd1, tw_eq_zero_iff]
        cases h : hd t isDigit
        · rfl
        · rw [hd_disj decimal_digit_not_dot h] at hdot; cases hdot
      subst h0
      right
      simp only [Nat.zero_add] at hd2
      exact ⟨by simpa using hdot, by omega, by omega, by omega⟩
  · rintro (⟨h1, h2⟩ | ⟨hdot, h1, h2, h3⟩)
    · left
      exact ⟨m, 0, rfl, decimal_PM_digits.2 ⟨h1, by omega⟩, PM_opt.2 (.inl rfl)⟩
    · by_cases h0 : 1 ≤ d1
      · left
        refine ⟨d1, m - d1, by omega, decimal_PM_digits.2 ⟨h0, by omega⟩, PM_opt.2 (.inr ?_)⟩
        rw [PM_seq]
        refine ⟨1, m - d1 - 1, by omega, PM_c.2 ⟨rfl, hdot⟩, PM_star_chr.2 ?_⟩
        rw [List.drop_drop]; omega
      · right
        have h0 : d1 = 0 := by omega
        subst h0
        simp only [Nat.zero_add, List.drop_zero] at hd2 hdot
        exact ⟨1, m - 1, by omega, PM_c.2 ⟨rfl, hdot⟩, decimal_PM_digits.2 ⟨by omega, by omega⟩⟩

theorem decimal_core_hd (t : Bytes) (j : Nat) (h : PM decimalCore t j) :
    hd t (fun b => isDigit b || b == 46) = true := by
  rw [decimal_PM_core rfl rfl] at h
  rcases h with ⟨h1, h2⟩ | ⟨hdot, h1, h2, h3⟩
  · exact hd_imp (p := isDigit) (by intro b hb; simp [hb]) (tw_pos_iff.1 (by omega))
  · by_cases h0 : 1 ≤ tw isDigit t
    · exact hd_imp (p := isDigit) (by intro b hb; simp [hb]) (tw_pos_iff.1 (by omega))
    · have h0 : tw isDigit t = 0 := by omega
      rw [h0] at hdot
      exact hd_imp (p := (· == 46)) (by intro b hb; simp at hb; simp [hb]) (by simpa using hdot)

/-- length and digit count of the mantissa as the model computes them (relative to `s`) -/
def decimalMant (s : Bytes) : Nat × Nat :=
  let sg := if hd s isPlusMn = true then 1 else 0
  let d1 := tw isDigit (s.drop sg)
  if hd (s.drop (sg + d1)) (· == 46) = true then
    (sg + d1 + 1 + tw isDigit (s.drop (sg + d1 + 1)), d1 + tw isDigit (s.drop (sg + d1 + 1)))
  else (sg + d1, d1)

theorem decimal_PM_mantissa {s : Bytes} {m : Nat} :
    PM mantissa s m ↔ ∃ j, m = (if hd s isPlusMn = true then 1 else 0) + j ∧
      PM decimalCore (s.drop (if hd s isPlusMn = true then 1 else 0)) j := by
  rw [decimal_mantissa_eq]
  exact decimal_PM_opt_seq decimal_sign_not_dd decimal_core_hd

/-- every mantissa match is at most the model's, has digits, and if shorter is followed by a digit or '.' -/
theorem decimal_mantissa_max {s : Bytes} {m : Nat} (h : PM mantissa s m) :
    (decimalMant s).2 ≠ 0 ∧ m ≤ (decimalMant s).1 ∧
      (m < (decimalMant s).1 → hd (s.drop m) (fun b => isDigit b || b == 46) = true) := by
  rw [decimal_PM_mantissa] at h
  obtain ⟨j, rfl, h⟩ := h
  rw [decimal_PM_core rfl rfl] at h
  unfold decimalMant
  generalize (if hd s isPlusMn = true then 1 else 0) = sg at *
  simp only [List.drop_drop, ← Nat.add_assoc] at h
  have hdig : ∀ b, isDigit b = true → (isDigit b || b == 46) = true := by intro b hb; simp [hb]
  have hdot : ∀ b, (b == 46) = true → (isDigit b || b == 46) = true := by intro b hb; simp [hb]
  by_cases hh : hd (s.drop (sg + tw isDigit (s.drop sg))) (· == 46) = true
  · simp only [hh, if_true]
    rcases h with ⟨h1, h2⟩ | ⟨_, h1, h2, h3⟩
    · refine ⟨by omega, by omega, fun _ => ?_⟩
      rcases Nat.lt_or_ge j (tw isDigit (s.drop sg)) with hlt | hge
      · have := hd_drop_of_lt_tw hlt
        rw [List.drop_drop] at this
        exact hd_imp hdig this
      · have : j = tw isDigit (s.drop sg) := by omega
        subst this
        exact hd_imp hdot hh
    · refine ⟨by omega, by omega, fun hlt => ?_⟩
      have : j - (tw isDigit (s.drop sg) + 1) < tw isDigit (s.drop (sg + tw isDigit (s.drop sg) + 1)) := by
        omega
      have := hd_drop_of_lt_tw this
      rw [List.drop_drop] at this
      have e : sg + tw isDigit (s.drop sg) + 1 + (j - (tw isDigit (s.drop sg) + 1)) = sg + j := by omega
      rw [e] at this
      exact hd_imp hdig this
  · simp only [hh]
    rcases h with ⟨h1, h2⟩ | ⟨h0, _⟩
    · refine ⟨by simp; omega, by simp; omega, fun hlt => ?_⟩
      simp at hlt
      have := hd_drop_of_lt_tw hlt
      rw [List.drop_drop] at this
      exact hd_imp hdig this
    · exact absurd h0 hh

theorem decimal_mantissa_mem {s : Bytes} (h : (decimalMant s).2 ≠ 0) : PM mantissa s (decimalMant s).1 := by
  rw [decimal_PM_mantissa]
  unfold decimalMant at h ⊢
  generalize (if hd s isPlusMn = true then 1 else 0) = sg at *
  by_cases hh : hd (s.drop (sg + tw isDigit (s.drop sg))) (· == 46) = true
  · simp only [hh, if_true] at h ⊢
    refine ⟨tw isDigit (s.drop sg) + 1 + tw isDigit (s.drop (sg + tw isDigit (s.drop sg) + 1)), by omega, ?_⟩
    rw [decimal_PM_core rfl rfl]
    right
    simp only [List.drop_drop]
    refine ⟨hh, by omega, ?_, by omega⟩
    rw [← Nat.add_assoc]; omega
  · simp only [hh] at h ⊢
    simp at h
    refine ⟨tw isDigit (s.drop sg), by simp, ?_⟩
    rw [decimal_PM_core rfl rfl]
    left; omega

/-! ## the exponent -/
def decimalExpTail : Re :=
  .seq (.chr isE) (.seq (.star (.chr isWs)) (.seq (opt (.chr isPlusMn)) digits))

theorem decimal_exponent_eq : exponent = .seq (.star (.chr isWs)) decimalExpTail := rfl

/-- what `skipExponent` computes, relative to `t` -/
def decimalExp (t : Bytes) : Nat × Nat :=
  if hd t isE = true then
    let w := tw isWs (t.drop 1)
    let sg := if hd ((t.drop 1).drop w) isPlusMn = true then 1 else 0
    let d := tw isDigit (((t.drop 1).drop w).drop sg)
    (1 + w + sg + d, d)
  else (0, 0)

theorem decimal_sd_hd (t : Bytes) (j : Nat) (h : PM (.seq (opt (.chr isPlusMn)) digits) t j) :
    hd t (fun b => isPlusMn b || isDigit b) = true := by
  rw [decimal_PM_opt_seq decimal_sign_not_digit decimal_digits_hd] at h
  obtain ⟨j', _, h⟩ := h
  by_cases hs : hd t isPlusMn = true
  · exact hd_imp (p := isPlusMn) (by intro b hb; simp [hb]) hs
  · rw [if_neg hs] at h
    exact hd_imp (p := isDigit) (by intro b hb; simp [hb]) (by simpa using decimal_digits_hd _ _ h)

theorem decimal_PM_expTail {t : Bytes} {j : Nat} :
    PM decimalExpTail t j ↔ hd t isE = true ∧ (decimalExp t).1 - (decimalExp t).2 + 1 ≤ j ∧ j ≤ (decimalExp t).1 := by
  unfold decimalExpTail
  rw [PM_seq]
  constructor
  · rintro ⟨a, b, rfl, ha, hb⟩
    rw [PM_chr] at ha
    obtain ⟨rfl, hE⟩ := ha
    rw [decimal_PM_star_seq decimal_ws_not_sd decimal_sd_hd] at hb
    obtain ⟨b, rfl, hb⟩ := hb
    rw [decimal_PM_opt_seq decimal_sign_not_digit decimal_digits_hd] at hb
    obtain ⟨b, rfl, hb⟩ := hb
    rw [decimal_PM_digits] at hb
    unfold decimalExp
    simp only [hE, if_true]
    exact ⟨trivial, by omega, by omega⟩
  · rintro ⟨hE, h1, h2⟩
    unfold decimalExp at h1 h2
    simp only [hE, if_true] at h1 h2
    refine ⟨1, j - 1, by omega, PM_chr.2 ⟨rfl, hE⟩, ?_⟩
    rw [decimal_PM_star_seq decimal_ws_not_sd decimal_sd_hd]
    refine ⟨j - 1 - tw isWs (t.drop 1), by omega, ?_⟩
    rw [decimal_PM_opt_seq decimal_sign_not_digit decimal_digits_hd]
    refine ⟨j - 1 - tw isWs (t.drop 1) - (if hd ((t.drop 1).drop (tw isWs (t.drop 1))) isPlusMn = true then 1 else 0),
      by omega, ?_⟩
    rw [decimal_PM_digits]
    omega

theorem decimal_expTail_hd (t : Bytes) (j : Nat) (h : PM decimalExpTail t j) : hd t isE = true :=
  (decimal_PM_expTail.1 h).1

theorem decimal_PM_exponent {t : Bytes} {j : Nat} :
    PM exponent t j ↔ ∃ j', j = tw isWs t + j' ∧ PM decimalExpTail (t.drop (tw isWs t)) j' := by
  rw [decimal_exponent_eq]
  exact decimal_PM_star_seq decimal_ws_not_E decimal_expTail_hd

theorem decimal_exponent_hd {t : Bytes} {j : Nat} (h : PM exponent t j) :
    hd t (fun b => isWs b || isE b) = true := by
  rw [decimal_PM_exponent] at h
  obtain ⟨j', _, h⟩ := h
  have hE := decimal_expTail_hd _ _ h
  by_cases h0 : 0 < tw isWs t
  · exact hd_imp (p := isWs) (by intro b hb; simp [hb]) (tw_pos_iff.1 h0)
  · have h0 : tw isWs t = 0 := by omega
    rw [h0] at hE
    exact hd_imp (p := isE) (by intro b hb; simp [hb]) (by simpa using hE)

/-- what `lexDecimal` computes, relative to `s` -/
def decimalTotal (s : Bytes) : Nat :=
  if (decimalMant s).2 ≠ 0 then
    if (decimalExp ((s.drop (decimalMant s).1).drop (tw isWs (s.drop (decimalMant s).1)))).2 ≠ 0 then
      (decimalMant s).1 + tw isWs (s.drop (decimalMant s).1) +
        (decimalExp ((s.drop (decimalMant s).1).drop (tw isWs (s.drop (decimalMant s).1)))).1
    else (decimalMant s).1
  else 0

theorem decimal_exp_len_pos {t : Bytes} (h : (decimalExp t).2 ≠ 0) :
    hd t isE = true ∧ (decimalExp t).2 ≤ (decimalExp t).1 := by
  unfold decimalExp at h ⊢
  by_cases hE : hd t isE = true
  · simp only [hE, if_true] at h ⊢; exact ⟨trivial, by omega⟩
  · simp [hE] at h

theorem decimal_total_max {s : Bytes} {m : Nat} (h : PM decimal s m) : m ≤ decimalTotal s := by
  unfold decimal at h
  rw [PM_seq] at h
  obtain ⟨i, j, rfl, hi, hj⟩ := h
  obtain ⟨hn, hle, hnext⟩ := decimal_mantissa_max hi
  unfold decimalTotal
  rw [if_pos hn]
  rw [PM_opt] at hj
  rcases hj with rfl | hj
  · split <;> omega
  · have hlt : ¬ i < (decimalMant s).1 := by
      intro hlt
      have h1 := hd_disj decimal_dd_not_wsE (hnext hlt)
      rw [decimal_exponent_hd hj] at h1; cases h1
    have hi' : i = (decimalMant s).1 := by omega
    subst hi'
    rw [decimal_PM_exponent] at hj
    obtain ⟨j', rfl, hj⟩ := hj
    rw [decimal_PM_expTail] at hj
    obtain ⟨_, h1, h2⟩ := hj
    have : (decimalExp ((s.drop (decimalMant s).1).drop (tw isWs (s.drop (decimalMant s).1)))).2 ≠ 0 := by
      intro h0; rw [h0] at h1; omega
    rw [if_pos this]; omega

theorem decimal_total_mem {s : Bytes} (h : 0 < decimalTotal s) : PM decimal s (decimalTotal s) := by
  unfold decimalTotal at h ⊢
  by_cases hn : (decimalMant s).2 ≠ 0
  · rw [if_pos hn] at h ⊢
    have hm := decimal_mantissa_mem hn
    unfold decimal
    rw [PM_seq]
    by_cases he : (decimalExp ((s.drop (decimalMant s).1).drop (tw isWs (s.drop (decimalMant s).1)))).2 ≠ 0
    · rw [if_pos he]
      refine ⟨_, _, Nat.add_assoc _ _ _, hm, PM_opt.2 (.inr ?_)⟩
      rw [decimal_PM_exponent]
      refine ⟨_, rfl, ?_⟩
      rw [decimal_PM_expTail]
      have := decimal_exp_len_pos he
      exact ⟨this.1, by omega, Nat.le_refl _⟩
    · rw [if_neg he]
      exact ⟨_, 0, rfl, hm, PM_opt.2 (.inl rfl)⟩
  · rw [if_neg hn] at h; omega

/-! ## the model -/
theorem decimal_skipMantisa_eq (buf : Bytes) (pos : Nat) :
    skipMantisa buf pos = (pos + (decimalMant (buf.drop pos)).1, (decimalMant (buf.drop pos)).2) := by
  unfold skipMantisa decimalMant
  lex_rel
  generalize buf.drop pos = s
  simp only [List.drop_drop]
  generalize (if hd s isPlusMn = true then 1 else 0) = sg
  generalize tw isDigit (s.drop sg) = d1
  generalize tw isDigit (s.drop (sg + d1 + 1)) = d2
  split
  · refine Prod.ext ?_ ?_ <;> simp only <;> omega
  · refine Prod.ext ?_ ?_ <;> simp only <;> omega

theorem decimal_skipExponent_eq (buf : Bytes) (pos : Nat) :
    skipExponent buf pos = (pos + (decimalExp (buf.drop pos)).1, (decimalExp (buf.drop pos)).2) := by
  unfold skipExponent decimalExp
  lex_rel
  generalize buf.drop pos = s
  generalize tw isWs (s.drop 1) = w
  generalize (if hd ((s.drop 1).drop w) isPlusMn = true then 1 else 0) = sg
  generalize tw isDigit (((s.drop 1).drop w).drop sg) = d
  split
  · refine Prod.ext ?_ ?_ <;> simp only <;> omega
  · rfl

theorem decimal_lexDecimal_eq (buf : Bytes) (pos : Nat) :
    lexDecimal buf pos =
      (pos + decimalTotal (buf.drop pos),
        Token.mk (if decimalTotal (buf.drop pos) > 0 then .decimal else .unknown) pos (decimalTotal (buf.drop pos)),
        (decimalTotal (buf.drop pos) : Int)) := by
  unfold lexDecimal
  simp only [decimal_skipMantisa_eq, decimal_skipExponent_eq]
  lex_rel
  apply plain_result_eq
  unfold decimalTotal
  generalize buf.drop pos = s
  generalize (decimalMant s).2 = n
  generalize (decimalMant s).1 = M
  generalize tw isWs (s.drop M) = w
  generalize (decimalExp ((s.drop M).drop w)).2 = ne
  generalize (decimalExp ((s.drop M).drop w)).1 = le
  by_cases hn : n = 0
  · simp [hn]
  · by_cases he : ne = 0
    · simp [hn, he]
    · simp [hn, he]; omega

theorem decimal_spec (buf : Bytes) (pos : Nat) (h : pos ≤ buf.length) :
    Agrees .decimal buf pos (lexDecimal buf pos) :=
  agrees_plain' (re := Spec.decimal) (ty := .decimal) rfl (by decide) (decimalTotal (buf.drop pos))
    (fun _ hm => decimal_total_max hm) decimal_total_mem _ (decimal_lexDecimal_eq buf pos) h

/-! ## string -/
/-! ## string program data -/

def string_item (q : UInt8) : Re := .alt (.chr (fun b => isAscii7 b && b != q)) (.seq (Re.c q) (Re.c q))
def string_body (q : UInt8) : Re := .star (string_item q)

theorem string_quoted_eq (q : UInt8) : quoted q = .seq (Re.c q) (.seq (string_body q) (Re.c q)) := rfl

theorem string_PM_item {q b : UInt8} {t : Bytes} {i : Nat} :
    PM (string_item q) (b :: t) i ↔
      (i = 1 ∧ (isAscii7 b && b != q) = true) ∨ (i = 2 ∧ (b == q) = true ∧ hd t (· == q) = true) := by
  unfold string_item
  rw [PM_alt, PM_chr, PM_seq]
  simp only [PM_c]
  constructor
  · rintro (⟨rfl, h⟩ | ⟨i, j, rfl, ⟨rfl, h1⟩, ⟨rfl, h2⟩⟩)
    · left; exact ⟨rfl, h⟩
    · right; exact ⟨rfl, h1, h2⟩
  · rintro (⟨rfl, h⟩ | ⟨rfl, h1, h2⟩)
    · left; exact ⟨rfl, h⟩
    · right; exact ⟨1, 1, rfl, ⟨rfl, h1⟩, ⟨rfl, h2⟩⟩

theorem string_PM_body_zero (q : UInt8) (t : Bytes) : PM (string_body q) t 0 := PM_star.2 (.inl rfl)

theorem string_PM_body_cons {q b : UInt8} {t : Bytes} {j : Nat} :
    PM (string_body q) (b :: t) j ↔
      j = 0 ∨ ((isAscii7 b && b != q) = true ∧ ∃ k, j = k + 1 ∧ PM (string_body q) t k) ∨
      ((b == q) = true ∧ hd t (· == q) = true ∧ ∃ k, j = k + 2 ∧ PM (string_body q) (t.drop 1) k) := by
  unfold string_body
  rw [PM_star]
  constructor
  · rintro (rfl | ⟨i, k, rfl, _, hi, hk⟩)
    · left; rfl
    · rw [string_PM_item] at hi
      rcases hi with ⟨rfl, h⟩ | ⟨rfl, h1, h2⟩
      · right; left; exact ⟨h, k, by omega, hk⟩
      · right; right; exact ⟨h1, h2, k, by omega, hk⟩
  · rintro (rfl | ⟨h, k, rfl, hk⟩ | ⟨h1, h2, k, rfl, hk⟩)
    · left; rfl
    · right; exact ⟨1, k, by omega, by omega, string_PM_item.2 (.inl ⟨rfl, h⟩), hk⟩
    · right; exact ⟨2, k, by omega, by omega, string_PM_item.2 (.inr ⟨rfl, h1, h2⟩), hk⟩

theorem string_nonq_ne {q b : UInt8} (h : (isAscii7 b && b != q) = true) : (b == q) = false := by
  simp at h ⊢; exact h.2

/-- `e` is the offset at which the scan of the string body stops: the prefix of length `e` is a
body, a quote found there is not doubled, and it is the only possible place of a closing quote -/
def string_SQ (q : UInt8) (t : Bytes) (e : Nat) : Prop :=
  PM (string_body q) t e ∧
  (hd (t.drop e) (· == q) = true → hd (t.drop (e + 1)) (· == q) = false) ∧
  ∀ j, PM (string_body q) t j → hd (t.drop j) (· == q) = true → hd (t.drop (j + 1)) (· == q) = false → j = e

theorem string_SQ_nil (q : UInt8) : string_SQ q [] 0 :=
  ⟨string_PM_body_zero q [], by simp, fun j _ h => by simp at h⟩

theorem string_SQ_stop {q b : UInt8} {t : Bytes} (h1 : (isAscii7 b && b != q) = false)
    (h2 : (b == q) = true → hd t (· == q) = false) : string_SQ q (b :: t) 0 := by
  refine ⟨string_PM_body_zero q _, fun h => h2 h, ?_⟩
  intro j hj ha hb
  rw [string_PM_body_cons] at hj
  rcases hj with rfl | ⟨h, _⟩ | ⟨h3, h4, _⟩
  · rfl
  · rw [h1] at h; exact absurd h (by simp)
  · rw [h2 h3] at h4; exact absurd h4 (by simp)

theorem string_SQ_step1 {q b : UInt8} {t : Bytes} {e : Nat} (h : (isAscii7 b && b != q) = true)
    (hs : string_SQ q t e) : string_SQ q (b :: t) (e + 1) := by
  refine ⟨string_PM_body_cons.2 (.inr (.inl ⟨h, e, rfl, hs.1⟩)), hs.2.1, ?_⟩
  intro j hj ha hb
  rw [string_PM_body_cons] at hj
  rcases hj with rfl | ⟨_, k, rfl, hk⟩ | ⟨h3, _⟩
  · have : (b == q) = true := ha
    rw [string_nonq_ne h] at this; exact absurd this (by simp)
  · rw [hs.2.2 k hk ha hb]
  · rw [string_nonq_ne h] at h3; exact absurd h3 (by simp)

theorem string_SQ_step2 {q b c : UInt8} {t : Bytes} {e : Nat} (hb : (b == q) = true) (hc : (c == q) = true)
    (hs : string_SQ q t e) : string_SQ q (b :: c :: t) (e + 2) := by
  refine ⟨string_PM_body_cons.2 (.inr (.inr ⟨hb, hc, e, rfl, hs.1⟩)), hs.2.1, ?_⟩
  intro j hj ha hb'
  rw [string_PM_body_cons] at hj
  rcases hj with rfl | ⟨h, _⟩ | ⟨_, _, k, rfl, hk⟩
  · have : (c == q) = false := hb'
    rw [hc] at this; exact absurd this (by simp)
  · rw [string_nonq_ne h] at hb; exact absurd hb (by simp)
  · rw [hs.2.2 k hk ha hb']

theorem string_skipQuote (buf : Bytes) (q : UInt8) (fuel p : Nat) (h : (buf.drop p).length ≤ fuel) :
    ∃ e, skipQuote buf q fuel p = p + e ∧ string_SQ q (buf.drop p) e := by
  induction fuel generalizing p with
  | zero =>
    have : buf.drop p = [] := List.length_eq_zero_iff.1 (by omega)
    exact ⟨0, rfl, this ▸ string_SQ_nil q⟩
  | succ fuel ih =>
    rw [skipQuote, getElem?_eq_head_drop]
    simp only [peekP_eq]
    have e1 : buf.drop (p + 1) = (buf.drop p).drop 1 := drop_add ..
    have e2 : buf.drop (p + 2) = (buf.drop p).drop 2 := drop_add ..
    have ih1 := ih (p + 1)
    have ih2 := ih (p + 2)
    rw [e1] at ih1 ⊢
    rw [e2] at ih2
    generalize buf.drop p = t at *
    cases t with
    | nil => exact ⟨0, rfl, string_SQ_nil q⟩
    | cons b t =>
      simp only [List.head?_cons]
      by_cases hb : (isAscii7 b && b != q) = true
      · rw [if_pos hb]
        obtain ⟨e, he, hs⟩ := ih1 (by simp at h ⊢; omega)
        exact ⟨e + 1, by rw [he]; omega, string_SQ_step1 hb hs⟩
      · rw [if_neg hb]
        have hb' : (isAscii7 b && b != q) = false := by simpa using hb
        by_cases hq : (b == q) = true
        · rw [if_pos hq]
          by_cases hq2 : hd ((b :: t).drop 1) (· == q) = true
          · rw [if_pos hq2]
            cases t with
            | nil => simp at hq2
            | cons c t =>
              obtain ⟨e, he, hs⟩ := ih2 (by simp at h ⊢; omega)
              exact ⟨e + 2, by rw [he]; omega, string_SQ_step2 hq hq2 hs⟩
          · rw [if_neg hq2]
            exact ⟨0, rfl, string_SQ_stop hb' (fun _ => by simpa using hq2)⟩
        · rw [if_neg hq]
          exact ⟨0, rfl, string_SQ_stop hb' (fun h => absurd h hq)⟩

/-! ### the specification side -/

theorem string_getLast_unique {P : Nat → Bool} {k n0 : Nat} (h0 : n0 ≤ k) (hP : P n0 = true)
    (hu : ∀ n, n ≤ k → P n = true → n = n0) :
    ((List.range (k + 1)).filter P).getLast? = some n0 := by
  cases hl : ((List.range (k + 1)).filter P).getLast? with
  | none =>
    rw [List.getLast?_eq_none_iff] at hl
    have : n0 ∈ (List.range (k + 1)).filter P := by
      rw [List.mem_filter, List.mem_range]; exact ⟨by omega, hP⟩
    rw [hl] at this; simp at this
  | some n =>
    have := List.mem_of_getLast? hl
    rw [List.mem_filter, List.mem_range] at this
    rw [hu n (by omega) this.2]

theorem string_getLast_none {P : Nat → Bool} {k : Nat} (h : ∀ n, n ≤ k → P n = false) :
    ((List.range (k + 1)).filter P).getLast? = none := by
  rw [List.getLast?_eq_none_iff, List.filter_eq_nil_iff]
  intro n hn
  rw [List.mem_range] at hn
  simp [h n (by omega)]

theorem string_cand_iff {q : UInt8} {s : Bytes} {n : Nat} (hn : n ≤ s.length) :
    ((quoted q).accepts (s.take n) && s[n]? != some q) = true ↔
      PM (quoted q) s n ∧ hd (s.drop n) (· == q) = false := by
  rw [Bool.and_eq_true, accepts_iff_matches, getElem?_eq_head_drop]
  unfold PM
  have : ((s.drop n).head? != some q) = true ↔ hd (s.drop n) (· == q) = false := by
    cases s.drop n <;> simp
  rw [this]
  constructor
  · rintro ⟨h1, h2⟩; exact ⟨⟨hn, h1⟩, h2⟩
  · rintro ⟨⟨_, h1⟩, h2⟩; exact ⟨h1, h2⟩

theorem string_PM_quoted {q : UInt8} {s : Bytes} {n : Nat} :
    PM (quoted q) s n ↔ hd s (· == q) = true ∧
      ∃ j, n = j + 2 ∧ PM (string_body q) (s.drop 1) j ∧ hd ((s.drop 1).drop j) (· == q) = true := by
  rw [string_quoted_eq, PM_seq]
  simp only [PM_seq, PM_c]
  constructor
  · rintro ⟨i, m, rfl, ⟨rfl, h0⟩, j, k, rfl, hj, rfl, hk⟩
    exact ⟨h0, j, by omega, hj, hk⟩
  · rintro ⟨h0, j, rfl, hj, hk⟩
    exact ⟨1, j + 1, by omega, ⟨rfl, h0⟩, j, 1, rfl, hj, rfl, hk⟩

theorem string_longest_none_hd {q : UInt8} {s : Bytes} (h : hd s (· == q) = false) :
    longestString q s = none := by
  unfold longestString
  apply string_getLast_none
  intro n hn
  apply Bool.eq_false_iff.2
  intro hc
  rw [string_cand_iff hn, string_PM_quoted] at hc
  rw [h] at hc; exact absurd hc.1.1 (by simp)

theorem string_longest_none_scan {q a : UInt8} {u : Bytes} {e : Nat} (hs : string_SQ q u e)
    (he : hd (u.drop e) (· == q) = false) : longestString q (a :: u) = none := by
  unfold longestString
  apply string_getLast_none
  intro n hn
  apply Bool.eq_false_iff.2
  intro hc
  rw [string_cand_iff hn, string_PM_quoted] at hc
  obtain ⟨⟨_, j, rfl, hj, hq⟩, hnq⟩ := hc
  have : j = e := hs.2.2 j hj hq hnq
  subst this
  have hq' : hd (u.drop j) (· == q) = true := hq
  rw [he] at hq'; exact absurd hq' (by simp)

theorem string_longest_some {q a : UInt8} {u : Bytes} {e : Nat} (ha : (a == q) = true)
    (hs : string_SQ q u e) (he : hd (u.drop e) (· == q) = true) :
    longestString q (a :: u) = some (e + 2) := by
  unfold longestString
  have hlen : e < u.length := hd_drop_length he
  apply string_getLast_unique
  · simp; omega
  · rw [string_cand_iff (by simp; omega), string_PM_quoted]
    exact ⟨⟨ha, e, rfl, hs.1, he⟩, hs.2.1 he⟩
  · intro n hn hc
    rw [string_cand_iff hn, string_PM_quoted] at hc
    obtain ⟨⟨_, j, rfl, hj, hq⟩, hnq⟩ := hc
    rw [hs.2.2 j hj hq hnq]

/-- one branch of `lexString` -/
theorem string_go {buf : Bytes} {pos : Nat} {q : UInt8} (h : pos ≤ buf.length)
    (hq : hd (buf.drop pos) (· == q) = true) :
    (∃ e, skipQuote buf q (buf.length - pos) (pos + 1) = pos + 1 + e ∧
        hd (buf.drop (pos + 1 + e)) (· == q) = true ∧
        longestString q (buf.drop pos) = some (e + 2) ∧ pos + (e + 2) ≤ buf.length) ∨
    (hd (buf.drop (skipQuote buf q (buf.length - pos) (pos + 1))) (· == q) = false ∧
        longestString q (buf.drop pos) = none) := by
  obtain ⟨e, he, hs⟩ := string_skipQuote buf q (buf.length - pos) (pos + 1) (by simp; omega)
  have e1 : buf.drop (pos + 1 + e) = ((buf.drop pos).drop 1).drop e := by
    rw [drop_add, drop_add]
  have e2 : buf.drop (pos + 1) = (buf.drop pos).drop 1 := drop_add ..
  have hl := length_drop_le h
  by_cases hc : hd (buf.drop (pos + 1 + e)) (· == q) = true
  · left
    refine ⟨e, he, hc, ?_⟩
    rw [e1] at hc
    rw [e2] at hs
    generalize buf.drop pos = s at *
    cases s with
    | nil => simp at hq
    | cons a u =>
      have ha : (a == q) = true := hq
      have hc2 : hd (u.drop e) (· == q) = true := hc
      have hlen : e < u.length := hd_drop_length hc2
      refine ⟨string_longest_some ha hs hc2, ?_⟩
      simp at hl; omega
  · right
    rw [he]
    have hc' : hd (buf.drop (pos + 1 + e)) (· == q) = false := by simpa using hc
    refine ⟨hc', ?_⟩
    rw [e1] at hc'
    rw [e2] at hs
    generalize buf.drop pos = s at *
    cases s with
    | nil => simp at hq
    | cons a u => exact string_longest_none_scan hs hc'

theorem string_specToken (s : Bytes) : specToken .string s =
    match longestString 34 s with
    | some n => some ⟨n, .doubleQuote, 0, n⟩
    | none => match longestString 39 s with
      | some n => some ⟨n, .singleQuote, 0, n⟩
      | none => none := rfl

theorem string_hd_excl {s : Bytes} {a b : UInt8} (hab : a ≠ b) (h : hd s (· == a) = true) :
    hd s (· == b) = false := by
  cases s with
  | nil => rfl
  | cons c s =>
    simp at h ⊢
    subst h; exact hab

theorem string_spec (buf : Bytes) (pos : Nat) (h : pos ≤ buf.length) :
    Agrees .string buf pos (lexString buf pos) := by
  unfold Agrees lexString
  rw [string_specToken]
  simp only [peekP_eq]
  by_cases h34 : hd (buf.drop pos) (· == 34) = true
  · rw [if_pos h34]
    rcases string_go h h34 with ⟨e, he, hc, hl, hlen⟩ | ⟨hc, hl⟩
    · rw [he, if_pos hc, hl]
      simp [mkTok]; omega
    · rw [if_neg (by simpa using hc), hl,
        string_longest_none_hd (string_hd_excl (a := 34) (b := 39) (by decide) h34)]
      simp [mkTok]
  · rw [if_neg h34]
    have h34' : hd (buf.drop pos) (· == 34) = false := by simpa using h34
    rw [string_longest_none_hd h34']
    by_cases h39 : hd (buf.drop pos) (· == 39) = true
    · rw [if_pos h39]
      rcases string_go h h39 with ⟨e, he, hc, hl, hlen⟩ | ⟨hc, hl⟩
      · rw [he, if_pos hc, hl]
        simp [mkTok]; omega
      · rw [if_neg (by simpa using hc), hl]
        simp [mkTok]
    · rw [if_neg h39]
      have h39' : hd (buf.drop pos) (· == 39) = false := by simpa using h39
      rw [string_longest_none_hd h39']
      simp [mkTok]

/-! ## suffix -/
/-! ## byte-class facts -/

theorem suffix_alpha_sd : ∀ b : UInt8, isAlpha b = true → (b == 47 || b == 46) = false := by
  intro b h; simp [isAlpha, isUpper, isLower] at *; grind
theorem suffix_digit_sd : ∀ b : UInt8, isDigit b = true → (b == 47 || b == 46) = false := by
  intro b h; simp [isDigit] at *; grind
theorem suffix_minus_sd : ∀ b : UInt8, (b == 45) = true → (b == 47 || b == 46) = false := by
  intro b h; simp at *; grind
theorem suffix_alpha_minus : ∀ b : UInt8, isAlpha b = true → (b == 45) = false := by
  intro b h; simp [isAlpha, isUpper, isLower] at *; grind
theorem suffix_alpha_digit : ∀ b : UInt8, isAlpha b = true → isDigit b = false := by
  intro b h; simp [isAlpha, isUpper, isLower, isDigit] at *; grind
theorem suffix_digit_minus : ∀ b : UInt8, isDigit b = true → (b == 45) = false := by
  intro b h; simp [isDigit] at *; grind
theorem suffix_slash_alpha : ∀ b : UInt8, (b == 47) = true → isAlpha b = false := by
  intro b h; simp [isAlpha, isUpper, isLower] at *; grind

/-! ## the tail `-? d?` -/

/-- greedy length of `-? d?` -/
def suffix_gt (t : Bytes) : Nat :=
  (if hd t (· == 45) = true then 1 else 0) +
    (if hd (t.drop (if hd t (· == 45) = true then 1 else 0)) isDigit = true then 1 else 0)

theorem suffix_PM_tail {t : Bytes} {j : Nat} :
    PM suffixTail t j ↔ ∃ i k, j = i + k ∧ (i = 0 ∨ (i = 1 ∧ hd t (· == 45) = true)) ∧
      (k = 0 ∨ (k = 1 ∧ hd (t.drop i) isDigit = true)) := by
  unfold suffixTail
  rw [PM_seq]
  simp only [PM_opt, PM_c, PM_chr]

theorem suffix_tail_greedy (t : Bytes) : PM suffixTail t (suffix_gt t) := by
  rw [suffix_PM_tail]
  unfold suffix_gt
  refine ⟨_, _, rfl, ?_, ?_⟩
  · by_cases h : hd t (· == 45) = true <;> simp [h]
  · split <;> simp_all

/-- any other choice for the tail is shorter and is followed by '-' or a digit -/
theorem suffix_tail_max {t : Bytes} {j : Nat} (h : PM suffixTail t j) :
    j ≤ suffix_gt t ∧ (j < suffix_gt t → hd (t.drop j) (fun b => b == 47 || b == 46) = false) := by
  rw [suffix_PM_tail] at h
  obtain ⟨i, k, rfl, hi, hk⟩ := h
  unfold suffix_gt
  rcases hi with rfl | ⟨rfl, hi⟩
  · rcases hk with rfl | ⟨rfl, hk⟩
    · refine ⟨by omega, ?_⟩
      by_cases hm : hd t (· == 45) = true
      · intro _; simpa using hd_disj suffix_minus_sd hm
      · by_cases hdg : hd t isDigit = true
        · intro _; simpa using hd_disj suffix_digit_sd hdg
        · simp [hm, hdg]
    · simp only [List.drop_zero] at hk
      have hm := hd_disj suffix_digit_minus hk
      simp [hm, hk]
  · rcases hk with rfl | ⟨rfl, hk⟩
    · simp only [hi, if_true]
      refine ⟨by omega, ?_⟩
      by_cases hdg : hd (t.drop 1) isDigit = true
      · intro _; simpa using hd_disj suffix_digit_sd hdg
      · rw [if_neg hdg]; omega
    · simp only [hi, if_true, hk]; omega

theorem suffix_gt_of_alpha {t : Bytes} (h : hd t isAlpha = true) : suffix_gt t = 0 := by
  unfold suffix_gt
  simp [hd_disj suffix_alpha_minus h, hd_disj suffix_alpha_digit h]

/-! ## `alpha* tail` -/

def suffix_ga (t : Bytes) : Nat := tw isAlpha t + suffix_gt (t.drop (tw isAlpha t))

/-- `i0` alphas then a tail choice `k`: at most the greedy length, and if shorter the star must stop -/
theorem suffix_at_max {t : Bytes} {i0 k : Nat} (hi : i0 ≤ tw isAlpha t) (hk : PM suffixTail (t.drop i0) k) :
    i0 + k ≤ suffix_ga t ∧
      (i0 + k < suffix_ga t → hd (t.drop (i0 + k)) (fun b => b == 47 || b == 46) = false) := by
  unfold suffix_ga
  by_cases h : i0 < tw isAlpha t
  · have ha := hd_drop_of_lt_tw h
    have := suffix_tail_max hk
    rw [suffix_gt_of_alpha ha] at this
    have hk0 : k = 0 := by omega
    subst hk0
    exact ⟨by omega, fun _ => hd_disj suffix_alpha_sd ha⟩
  · have e : i0 = tw isAlpha t := by omega
    subst e
    have := suffix_tail_max hk
    rw [List.drop_drop] at this
    exact ⟨by omega, fun h => this.2 (by omega)⟩

theorem suffix_at_greedy (t : Bytes) :
    PM suffixTail (t.drop (tw isAlpha t)) (suffix_gt (t.drop (tw isAlpha t))) := suffix_tail_greedy _

/-! ## the loop item `[/.] alpha* tail` -/

def suffix_item : Re :=
  .seq (.chr (fun b => b == 47 || b == 46)) (.seq (.star (.chr isAlpha)) suffixTail)

theorem suffix_PM_item {t : Bytes} {j : Nat} :
    PM suffix_item t j ↔ hd t (fun b => b == 47 || b == 46) = true ∧
      ∃ i k, j = 1 + (i + k) ∧ i ≤ tw isAlpha (t.drop 1) ∧ PM suffixTail ((t.drop 1).drop i) k := by
  unfold suffix_item
  rw [PM_seq]
  simp only [PM_chr, PM_seq, PM_star_chr]
  constructor
  · rintro ⟨a, b, rfl, ⟨rfl, h⟩, i, k, rfl, h1, h2⟩
    exact ⟨h, i, k, rfl, h1, h2⟩
  · rintro ⟨h, i, k, rfl, h1, h2⟩
    exact ⟨1, i + k, rfl, ⟨rfl, h⟩, i, k, rfl, h1, h2⟩

theorem suffix_item_greedy {t : Bytes} (h : hd t (fun b => b == 47 || b == 46) = true) :
    PM suffix_item t (1 + suffix_ga (t.drop 1)) := by
  rw [suffix_PM_item]
  exact ⟨h, _, _, rfl, Nat.le_refl _, suffix_at_greedy _⟩

theorem suffix_item_max {t : Bytes} {j : Nat} (h : PM suffix_item t j) :
    j ≤ 1 + suffix_ga (t.drop 1) ∧
      (j < 1 + suffix_ga (t.drop 1) → hd (t.drop j) (fun b => b == 47 || b == 46) = false) := by
  rw [suffix_PM_item] at h
  obtain ⟨_, i, k, rfl, h1, h2⟩ := h
  have := suffix_at_max h1 h2
  rw [List.drop_drop] at this
  exact ⟨by omega, fun h => this.2 (by omega)⟩

theorem suffix_star_stop {t : Bytes} {m : Nat} (h : hd t (fun b => b == 47 || b == 46) = false)
    (hm : PM (.star suffix_item) t m) : m = 0 := by
  rw [PM_star] at hm
  rcases hm with rfl | ⟨i, j, rfl, _, hi, _⟩
  · rfl
  · rw [suffix_PM_item] at hi
    rw [hi.1] at h; cases h

theorem suffix_skipTail (buf : Bytes) (q : Nat) :
    skipOne buf (skipChr buf q 45) isDigit = q + suffix_gt (buf.drop q) := by
  lex_rel; unfold suffix_gt; omega

theorem suffix_skipAt (buf : Bytes) (q : Nat) :
    skipOne buf (skipChr buf (skipAlpha buf q) 45) isDigit = q + suffix_ga (buf.drop q) := by
  rw [suffix_skipTail]; lex_rel; unfold suffix_ga; omega

/-- the `while (skipSlashDot)` loop computes the longest match of `item*` -/
theorem suffix_loop (buf : Bytes) (fuel p : Nat) (hf : buf.length - p < fuel) :
    ∃ L, suffixLoop buf fuel p = p + L ∧ PM (.star suffix_item) (buf.drop p) L ∧
      ∀ m, PM (.star suffix_item) (buf.drop p) m → m ≤ L := by
  induction fuel generalizing p with
  | zero => omega
  | succ fuel ih =>
    rw [suffixLoop, peekP_eq]
    by_cases hh : hd (buf.drop p) (fun b => b == 47 || b == 46) = true
    · have hlen := hd_drop_length hh
      simp only [hh, if_true, suffix_skipAt]
      obtain ⟨L, e1, e2, e3⟩ := ih (p + 1 + suffix_ga (buf.drop (p + 1))) (by omega)
      rw [e1]
      rw [Nat.add_assoc p, drop_add] at e2 e3
      rw [drop_add buf p 1] at e2 e3 ⊢
      generalize buf.drop p = s at hh e2 e3 ⊢
      refine ⟨1 + suffix_ga (s.drop 1) + L, by omega, ?_, ?_⟩
      · exact PM_star.2 (.inr ⟨_, _, rfl, by omega, suffix_item_greedy hh, e2⟩)
      · intro m hm
        rcases PM_star.1 hm with rfl | ⟨i, j, rfl, _, hi, hj⟩
        · omega
        · have hmax := suffix_item_max hi
          by_cases hlt : i < 1 + suffix_ga (s.drop 1)
          · have := suffix_star_stop (hmax.2 hlt) hj
            omega
          · have e : i = 1 + suffix_ga (s.drop 1) := by omega
            subst e
            have := e3 j hj
            omega
    · have hh' : hd (buf.drop p) (fun b => b == 47 || b == 46) = false := by simpa using hh
      refine ⟨0, ?_, ?_, ?_⟩
      · simp [hh']
      · exact PM_star.2 (.inl rfl)
      · intro m hm; have := suffix_star_stop hh' hm; omega

/-! ## the body `alpha+ tail item*` -/

def suffix_body : Re := .seq (plus (.chr isAlpha)) (.seq suffixTail (.star suffix_item))

theorem suffix_eq : Spec.suffix = .seq (opt (Re.c 47)) (opt suffix_body) := rfl

theorem suffix_PM_body {t : Bytes} {j : Nat} :
    PM suffix_body t j ↔ ∃ i k l, j = i + k + l ∧ 1 ≤ i ∧ i ≤ tw isAlpha t ∧
      PM suffixTail (t.drop i) k ∧ PM (.star suffix_item) (t.drop (i + k)) l := by
  unfold suffix_body
  simp only [PM_seq, PM_plus_chr, List.drop_drop]
  constructor
  · rintro ⟨i, _, rfl, ⟨h1, h2⟩, k, l, rfl, h3, h4⟩
    exact ⟨i, k, l, by omega, h1, h2, h3, h4⟩
  · rintro ⟨i, k, l, rfl, h1, h2, h3, h4⟩
    exact ⟨i, k + l, by omega, ⟨h1, h2⟩, k, l, rfl, h3, h4⟩

theorem suffix_body_alpha {t : Bytes} {j : Nat} (h : PM suffix_body t j) : hd t isAlpha = true := by
  rw [suffix_PM_body] at h
  obtain ⟨i, k, l, rfl, h1, h2, _, _⟩ := h
  exact tw_pos_iff.1 (by omega)

theorem suffix_body_max {t : Bytes} {j L : Nat}
    (hL : ∀ m, PM (.star suffix_item) (t.drop (suffix_ga t)) m → m ≤ L) (h : PM suffix_body t j) :
    j ≤ suffix_ga t + L := by
  rw [suffix_PM_body] at h
  obtain ⟨i, k, l, rfl, h1, h2, h3, h4⟩ := h
  have hmax := suffix_at_max h2 h3
  by_cases hlt : i + k < suffix_ga t
  · have := suffix_star_stop (hmax.2 hlt) h4; omega
  · have e : i + k = suffix_ga t := by omega
    rw [e] at h4; have := hL l h4; omega

theorem suffix_body_greedy {t : Bytes} {L : Nat} (ha : hd t isAlpha = true)
    (hL : PM (.star suffix_item) (t.drop (suffix_ga t)) L) : PM suffix_body t (suffix_ga t + L) := by
  rw [suffix_PM_body]
  exact ⟨tw isAlpha t, _, L, rfl, tw_pos_iff.2 ha, Nat.le_refl _, suffix_at_greedy t, hL⟩

/-- longest match of `body?` at `t` -/
theorem suffix_optbody (t : Bytes) (L : Nat) (hL1 : PM (.star suffix_item) (t.drop (suffix_ga t)) L)
    (hL2 : ∀ m, PM (.star suffix_item) (t.drop (suffix_ga t)) m → m ≤ L) :
    PM (opt suffix_body) t (if hd t isAlpha = true then suffix_ga t + L else 0) ∧
      ∀ m, PM (opt suffix_body) t m → m ≤ (if hd t isAlpha = true then suffix_ga t + L else 0) := by
  by_cases ha : hd t isAlpha = true
  · simp only [ha, if_true]
    refine ⟨PM_opt.2 (.inr (suffix_body_greedy ha hL1)), ?_⟩
    intro m hm
    rcases PM_opt.1 hm with rfl | hm
    · omega
    · exact suffix_body_max hL2 hm
  · simp only [ha]
    refine ⟨PM_opt.2 (.inl rfl), ?_⟩
    intro m hm
    rcases PM_opt.1 hm with rfl | hm
    · omega
    · exact absurd (suffix_body_alpha hm) ha

/-- the whole regex `/? body?` -/
theorem suffix_whole (s : Bytes) (L : Nat)
    (hL1 : PM (.star suffix_item)
      ((s.drop (if hd s (· == 47) = true then 1 else 0)).drop
        (suffix_ga (s.drop (if hd s (· == 47) = true then 1 else 0)))) L)
    (hL2 : ∀ m, PM (.star suffix_item)
      ((s.drop (if hd s (· == 47) = true then 1 else 0)).drop
        (suffix_ga (s.drop (if hd s (· == 47) = true then 1 else 0)))) m → m ≤ L) :
    PM Spec.suffix s ((if hd s (· == 47) = true then 1 else 0) +
        (if hd (s.drop (if hd s (· == 47) = true then 1 else 0)) isAlpha = true
          then suffix_ga (s.drop (if hd s (· == 47) = true then 1 else 0)) + L else 0)) ∧
      ∀ m, PM Spec.suffix s m → m ≤ ((if hd s (· == 47) = true then 1 else 0) +
        (if hd (s.drop (if hd s (· == 47) = true then 1 else 0)) isAlpha = true
          then suffix_ga (s.drop (if hd s (· == 47) = true then 1 else 0)) + L else 0)) := by
  have hob := suffix_optbody _ L hL1 hL2
  rw [suffix_eq]
  by_cases hs : hd s (· == 47) = true
  · simp only [hs, if_true] at hob ⊢
    refine ⟨PM_seq.2 ⟨1, _, rfl, PM_opt.2 (.inr (PM_c.2 ⟨rfl, hs⟩)), hob.1⟩, ?_⟩
    intro m hm
    obtain ⟨i, j, rfl, hi, hj⟩ := PM_seq.1 hm
    rcases PM_opt.1 hi with rfl | hi
    · rcases PM_opt.1 hj with rfl | hj
      · omega
      · have := suffix_body_alpha hj
        rw [List.drop_zero, hd_disj suffix_slash_alpha hs] at this
        cases this
    · obtain ⟨rfl, _⟩ := PM_c.1 hi
      have := hob.2 j hj
      omega
  · simp only [hs] at hob ⊢
    refine ⟨PM_seq.2 ⟨0, _, rfl, PM_opt.2 (.inl rfl), hob.1⟩, ?_⟩
    intro m hm
    obtain ⟨i, j, rfl, hi, hj⟩ := PM_seq.1 hm
    rcases PM_opt.1 hi with rfl | hi
    · have := hob.2 j hj
      omega
    · exact absurd (PM_c.1 hi).2 hs

/-! ## the model -/

theorem suffix_result (pos p n : Nat) (hp : p = pos + n) :
    (if ((p : Int) - pos) > 0 then (p, Token.mk .suffix pos ((p : Int) - pos), (p : Int) - pos)
      else (pos, Token.mk .unknown pos 0, (0 : Int)))
      = (pos + n, Token.mk (if n > 0 then TokType.suffix else .unknown) pos n, (n : Int)) := by
  subst hp
  have e : ((pos + n : Nat) : Int) - pos = n := by omega
  rw [e]
  by_cases hn : n = 0
  · subst hn; simp
  · have h2 : n > 0 := by omega
    simp [h2]

theorem suffix_bne (x t : Nat) : ((x + t != x) = true) ↔ 0 < t := by
  simp; omega

theorem suffix_model (buf : Bytes) (pos : Nat) :
    ∃ n, lexSuffix buf pos = (pos + n, Token.mk (if n > 0 then TokType.suffix else .unknown) pos n, (n : Int)) ∧
      PM Spec.suffix (buf.drop pos) n ∧ ∀ m, PM Spec.suffix (buf.drop pos) m → m ≤ n := by
  obtain ⟨L, e1, e2, e3⟩ := suffix_loop buf
    (buf.length - (pos + (if hd (buf.drop pos) (· == 47) = true then 1 else 0) +
      suffix_ga ((buf.drop pos).drop (if hd (buf.drop pos) (· == 47) = true then 1 else 0))) + 1)
    (pos + (if hd (buf.drop pos) (· == 47) = true then 1 else 0) +
      suffix_ga ((buf.drop pos).drop (if hd (buf.drop pos) (· == 47) = true then 1 else 0))) (by omega)
  rw [drop_add, drop_add] at e2 e3
  have hw := suffix_whole (buf.drop pos) L e2 e3
  refine ⟨_, ?_, hw.1, hw.2⟩
  unfold lexSuffix
  simp only [suffix_skipAt]
  lex_rel
  apply suffix_result
  by_cases ha : hd ((buf.drop pos).drop (if hd (buf.drop pos) (· == 47) = true then 1 else 0)) isAlpha = true
  · have := tw_pos_iff.2 ha
    simp only [suffix_bne, this, if_true, e1, ha]
    omega
  · have := tw_eq_zero_iff.2 (Bool.eq_false_iff.2 ha)
    simp only [suffix_bne, this, Nat.lt_irrefl, if_false, ha, Bool.false_eq_true]
    omega

theorem suffix_spec (buf : Bytes) (pos : Nat) (h : pos ≤ buf.length) :
    Agrees .suffix buf pos (lexSuffix buf pos) := by
  obtain ⟨n, hn, hmem, hmax⟩ := suffix_model buf pos
  exact agrees_plain' (re := Spec.suffix) (ty := .suffix) rfl (by decide) n hmax (fun _ => hmem) _ hn h

/-! ## block -/
/-- the loop over the length digits, over `buf.drop p` -/
theorem block_blockDigits_eq (buf : Bytes) (i p acc : Nat) :
    blockDigits buf i p acc =
      (p + min i (tw isDigit (buf.drop p)), i - min i (tw isDigit (buf.drop p)),
       ((buf.drop p).take (min i (tw isDigit (buf.drop p)))).foldl (fun a b => a * 10 + (b.toNat - 48)) acc) := by
  induction i generalizing p acc with
  | zero => simp [blockDigits]
  | succ i ih =>
    rw [blockDigits, getElem?_eq_head_drop]
    cases hs : buf.drop p with
    | nil => simp
    | cons b t =>
      have ht : buf.drop (p+1) = t := by rw [drop_add, hs]; simp
      simp only [List.head?_cons]
      by_cases hb : isDigit b = true
      · rw [if_pos hb, ih, ht, tw_cons, if_pos hb]
        have : min (i+1) (1 + tw isDigit t) = (min i (tw isDigit t)) + 1 := by omega
        rw [this]; simp; omega
      · rw [if_neg hb, tw_cons, if_neg hb]; simp

theorem block_digit_le (d : UInt8) (h : isDigit d = true) : d.toNat - 48 ≤ 9 := by
  simp [isDigit, UInt8.le_iff_toNat_le] at h
  omega

theorem block_digit_pos (d : UInt8) (h : isDigit d = true) (h2 : (d != 48) = true) : 1 ≤ d.toNat - 48 := by
  simp [isDigit, UInt8.le_iff_toNat_le] at h
  have : d.toNat ≠ 48 := by
    intro e
    apply (bne_iff_ne.1 h2)
    exact UInt8.toNat_inj.1 e
  omega


theorem block_foldl_bound (ds : Bytes) (acc : Nat) (h : ds.all isDigit = true) :
    ds.foldl (fun a b => a * 10 + (b.toNat - 48)) acc + 1 ≤ (acc + 1) * 10 ^ ds.length := by
  induction ds generalizing acc with
  | nil => simp
  | cons b t ih =>
    simp at h
    have hb := block_digit_le b h.1
    have := ih (acc * 10 + (b.toNat - 48)) (by simpa using h.2)
    simp only [List.foldl_cons, List.length_cons]
    calc _ ≤ (acc*10 + (b.toNat-48) + 1) * 10^t.length := this
      _ ≤ ((acc+1) * 10) * 10^t.length := Nat.mul_le_mul_right _ (by omega)
      _ = _ := by rw [Nat.pow_succ, Nat.mul_assoc, Nat.mul_comm 10]

theorem block_take_all {p : UInt8 → Bool} {s : Bytes} {k : Nat} :
    (s.take k).all p = true ↔ min k s.length ≤ tw p s := by
  rw [← all_take_iff]
  have : s.take (min k s.length) = s.take k := by
    rw [List.take_eq_take_iff]; omega
  rw [this]
  constructor
  · intro h; exact ⟨by omega, h⟩
  · intro h; exact h.2

/-- the value accumulated by the digit loop is bounded, whether or not the loop stops early -/
theorem block_blockDigits_bound (buf : Bytes) (i p : Nat) (hi : i ≤ 9) :
    (blockDigits buf i p 0).2.2 ≤ 999999999 := by
  rw [block_blockDigits_eq]
  simp only
  generalize buf.drop p = t
  have hall : (t.take (min i (tw isDigit t))).all isDigit = true :=
    (all_take_iff.2 (Nat.min_le_right _ _)).2
  have hb := block_foldl_bound _ 0 hall
  have hl : (t.take (min i (tw isDigit t))).length ≤ 9 := by
    rw [List.length_take]; omega
  have := Nat.pow_le_pow_right (n := 10) (by omega) hl
  omega


/-- a definite-length block announces at most 999 999 999 bytes -/
theorem block_length_bounded (buf : Bytes) (pos : Nat) :
    (lexBlock buf pos).2.1.len ≤ 999999999 := by
  unfold lexBlock
  simp only [mkTok]
  split
  · split
    · rename_i d hd
      split
      · rename_i hdig
        have hk : d.toNat - 48 ≤ 9 := block_digit_le d (by simp at hdig; exact hdig.1)
        have hb := block_blockDigits_bound buf (d.toNat - 48) (pos+1+1) hk
        generalize blockDigits buf (d.toNat - 48) (pos+1+1) 0 = r at hb ⊢
        obtain ⟨p2, irem, blen⟩ := r
        simp only at hb ⊢
        split
        · split
          · simp; omega
          · simp
        · split <;> simp
      · simp
    · simp
  · simp


theorem block_specBlock_nohash {s : Bytes} (h : hd s (· == 35) = false) : specBlock s = .invalid := by
  unfold specBlock
  split
  · simp at h
  · rfl

/-- `specBlock` in terms of `tw` -/
theorem block_specBlock_hash (d : UInt8) (rest2 : Bytes) :
    specBlock (35 :: d :: rest2) =
      if (isDigit d && d != 48) = true then
        if d.toNat - 48 ≤ tw isDigit rest2 then
          if natOfDigits (rest2.take (d.toNat - 48)) + (d.toNat - 48) ≤ rest2.length
          then .valid (2 + (d.toNat - 48)) (natOfDigits (rest2.take (d.toNat - 48))) else .incomplete
        else if rest2.length ≤ tw isDigit rest2 then .incomplete else .invalid
      else .invalid := by
  simp only [specBlock]
  split
  · rename_i hdig
    have hall := @block_take_all isDigit rest2 (d.toNat - 48)
    have hall2 := @all_take_iff isDigit rest2 (d.toNat - 48)
    have htw := tw_le_length isDigit rest2
    by_cases h1 : d.toNat - 48 ≤ tw isDigit rest2
    · have ha : (rest2.take (d.toNat - 48)).all isDigit = true := hall.2 (by omega)
      have hl : (rest2.take (d.toNat - 48)).length = d.toNat - 48 := by rw [List.length_take]; omega
      rw [if_pos ha, if_pos hl, if_pos h1]
      by_cases h2 : natOfDigits (rest2.take (d.toNat - 48)) + (d.toNat - 48) ≤ rest2.length
      · rw [if_pos h2, if_pos (by omega)]
      · rw [if_neg h2, if_neg (by omega)]
    · rw [if_neg h1]
      by_cases h2 : rest2.length ≤ tw isDigit rest2
      · have ha : (rest2.take (d.toNat - 48)).all isDigit = true := hall.2 (by omega)
        have hl : ¬ (rest2.take (d.toNat - 48)).length = d.toNat - 48 := by rw [List.length_take]; omega
        rw [if_pos ha, if_neg hl, if_pos h2]
      · have ha : ¬ (rest2.take (d.toNat - 48)).all isDigit = true := fun hh => by
          have := hall.1 hh; omega
        rw [if_neg ha, if_neg h2]
  · rfl


/-- the model on `# d ...`, in the same terms as `block_specBlock_hash` -/
theorem block_lexBlock_hash (buf : Bytes) (pos : Nat) (d : UInt8) (rest2 : Bytes)
    (hs : buf.drop pos = 35 :: d :: rest2) :
    lexBlock buf pos =
      if (isDigit d && d != 48) = true then
        if d.toNat - 48 ≤ tw isDigit rest2 then
          if natOfDigits (rest2.take (d.toNat - 48)) + (d.toNat - 48) ≤ rest2.length
          then (pos + (2 + (d.toNat - 48) + natOfDigits (rest2.take (d.toNat - 48))),
                Token.mk .block (pos + (2 + (d.toNat - 48))) (natOfDigits (rest2.take (d.toNat - 48)) : Nat),
                ((2 + (d.toNat - 48) + natOfDigits (rest2.take (d.toNat - 48)) : Nat) : Int))
          else (buf.length, Token.mk .unknown pos 0, 0)
        else if rest2.length ≤ tw isDigit rest2 then (buf.length, Token.mk .unknown pos 0, 0)
        else (pos, Token.mk .unknown pos 0, 0)
      else (pos, Token.mk .unknown pos 0, 0) := by
  have hlen : buf.length = pos + 2 + rest2.length := by
    have := congrArg List.length hs
    simp at this; omega
  have h1 : buf[pos + 1]? = some d := by
    rw [getElem?_eq_head_drop, drop_add, hs]; rfl
  have h2 : buf.drop (pos + 1 + 1) = rest2 := by
    rw [Nat.add_assoc, drop_add, hs]; rfl
  have htw := tw_le_length isDigit rest2
  unfold lexBlock
  rw [peekP_eq, hs]
  simp only [hd_cons, beq_self_eq_true, if_true, h1, mkTok]
  split
  · by_cases hk : d.toNat - 48 ≤ tw isDigit rest2
    · have hbd : blockDigits buf (d.toNat - 48) (pos + 1 + 1) 0 =
          (pos + 1 + 1 + (d.toNat - 48), 0, natOfDigits (rest2.take (d.toNat - 48))) := by
        rw [block_blockDigits_eq, h2]
        have hm : min (d.toNat - 48) (tw isDigit rest2) = d.toNat - 48 := by omega
        rw [hm, Nat.sub_self]; rfl
      rw [hbd, if_pos hk]
      simp only [beq_self_eq_true, if_true]
      generalize natOfDigits (rest2.take (d.toNat - 48)) = n
      by_cases hn : n + (d.toNat - 48) ≤ rest2.length
      · rw [if_pos hn, if_pos (by omega)]
        refine Prod.ext (by simp only; omega) (Prod.ext ?_ (by simp only; omega))
        simp only [Token.mk.injEq, true_and, and_true]; omega
      · rw [if_neg hn, if_neg (by omega)]
    · have hbd : ∃ n, blockDigits buf (d.toNat - 48) (pos + 1 + 1) 0 =
          (pos + 1 + 1 + tw isDigit rest2, d.toNat - 48 - tw isDigit rest2, n) := by
        rw [block_blockDigits_eq, h2]
        have hm : min (d.toNat - 48) (tw isDigit rest2) = tw isDigit rest2 := by omega
        rw [hm]; exact ⟨_, rfl⟩
      obtain ⟨n, hbd⟩ := hbd
      rw [hbd, if_neg hk]
      have h0 : ((d.toNat - 48 - tw isDigit rest2) == 0) = false := by
        rw [beq_eq_false_iff_ne]; omega
      simp only [h0, Bool.false_eq_true, if_false]
      by_cases he : rest2.length ≤ tw isDigit rest2
      · have : iseos buf (pos + 1 + 1 + tw isDigit rest2) = true := by
          unfold iseos; rw [decide_eq_true_iff]; omega
        rw [if_pos he, if_pos this]
      · have : ¬ iseos buf (pos + 1 + 1 + tw isDigit rest2) = true := by
          unfold iseos; rw [decide_eq_true_iff]; omega
        rw [if_neg he, if_neg this]
  · rfl


theorem block_spec (buf : Bytes) (pos : Nat) (h : pos ≤ buf.length) :
    Agrees .block buf pos (lexBlock buf pos) := by
  unfold Agrees
  have hst : ∀ s, specToken .block s =
      match specBlock s with
      | .valid h n => some ⟨h + n, .block, h, n⟩
      | _ => none := fun _ => rfl
  rw [hst]
  cases hs : buf.drop pos with
  | nil =>
    have hl : lexBlock buf pos = (pos, Token.mk .unknown pos 0, 0) := by
      unfold lexBlock; rw [peekP_eq, hs]; rfl
    rw [hl]; simp [specBlock]
  | cons b t =>
    by_cases hb : b = 35
    · subst hb
      cases t with
      | nil =>
        have hl : lexBlock buf pos = (buf.length, Token.mk .unknown pos 0, 0) := by
          have h1 : buf[pos + 1]? = none := by
            rw [getElem?_eq_head_drop, drop_add, hs]; rfl
          unfold lexBlock; rw [peekP_eq, hs]; simp only [h1]; rfl
        rw [hl]; simp [specBlock]
      | cons d rest2 =>
        have hlen : buf.length = pos + 2 + rest2.length := by
          have := congrArg List.length hs
          simp at this; omega
        rw [block_lexBlock_hash buf pos d rest2 hs, block_specBlock_hash]
        by_cases hdig : (isDigit d && d != 48) = true
        · rw [if_pos hdig, if_pos hdig]
          by_cases hk : d.toNat - 48 ≤ tw isDigit rest2
          · rw [if_pos hk, if_pos hk]
            by_cases hn : natOfDigits (rest2.take (d.toNat - 48)) + (d.toNat - 48) ≤ rest2.length
            · rw [if_pos hn, if_pos hn]
              simp; omega
            · rw [if_neg hn, if_neg hn]; simp
          · rw [if_neg hk, if_neg hk]
            by_cases he : rest2.length ≤ tw isDigit rest2
            · rw [if_pos he, if_pos he]; simp
            · rw [if_neg he, if_neg he]; simp
        · rw [if_neg hdig, if_neg hdig]; simp
    · have hh : hd (b :: t) (· == 35) = false := by simp [hb]
      have hl : lexBlock buf pos = (pos, Token.mk .unknown pos 0, 0) := by
        unfold lexBlock; rw [peekP_eq, hs, hh]; rfl
      rw [hl, block_specBlock_nohash hh]; simp

/-! ## header -/
/-! ## program header -/

section header_token

local notation "headerAl" => (fun b : UInt8 => isAlnum b || b == 95)

/-- greedy mnemonic length -/
def header_mlen (t : Bytes) : Nat := if hd t isAlpha = true then 1 + tw headerAl (t.drop 1) else 0

/-- `(:mnemonic)*` -/
def header_S : Re := .star (.seq (Re.c 58) mnemonic)

theorem header_al_ne_colon : ∀ b : UInt8, headerAl b = true → (b == 58) = false := by
  intro b h; simp [isAlnum, isAlpha, isUpper, isLower, isDigit] at *; grind
theorem header_al_ne_q : ∀ b : UInt8, headerAl b = true → (b == 63) = false := by
  intro b h; simp [isAlnum, isAlpha, isUpper, isLower, isDigit] at *; grind
theorem header_alpha_al : ∀ b : UInt8, isAlpha b = true → headerAl b = true := by
  intro b h; simp [isAlnum] at *; simp [h]
theorem header_alpha_ne_colon : ∀ b : UInt8, isAlpha b = true → (b == 58) = false := by
  intro b h; simp [isAlpha, isUpper, isLower] at *; grind
theorem header_alpha_ne_star : ∀ b : UInt8, isAlpha b = true → (b == 42) = false := by
  intro b h; simp [isAlpha, isUpper, isLower] at *; grind
theorem header_colon_ne_star : ∀ b : UInt8, (b == 58) = true → (b == 42) = false := by
  intro b h; simp at *; simp [h]
theorem header_colon_ne_q : ∀ b : UInt8, (b == 58) = true → (b == 63) = false := by
  intro b h; simp at *; simp [h]
theorem header_star_ne_colon : ∀ b : UInt8, (b == 42) = true → (b == 58) = false := by
  intro b h; simp at *; simp [h]
theorem header_star_ne_alpha : ∀ b : UInt8, (b == 42) = true → isAlpha b = false := by
  intro b h; simp at h; subst h; decide

theorem header_PM_mn {t : Bytes} {m : Nat} : PM mnemonic t m ↔ 1 ≤ m ∧ m ≤ header_mlen t := by
  rw [PM_mnemonic]; unfold header_mlen
  by_cases h : hd t isAlpha = true
  · simp [h]
  · simp [h]; omega

theorem header_mlen_le (t : Bytes) : header_mlen t ≤ t.length := by
  unfold header_mlen
  split
  · have := tw_le_length headerAl (t.drop 1)
    have := hd_length ‹_›
    simp at *; omega
  · omega

theorem header_mlen_pos {t : Bytes} : 0 < header_mlen t ↔ hd t isAlpha = true := by
  by_cases h : hd t isAlpha = true
  · simp [header_mlen, h]; omega
  · simp [header_mlen, h]

theorem header_mlen_zero {t : Bytes} : header_mlen t = 0 ↔ hd t isAlpha = false := by
  unfold header_mlen; split <;> simp [*]

/-- every byte of the greedy mnemonic is alphanumeric or `_` -/
theorem header_mlen_al {t : Bytes} {i : Nat} (h : i < header_mlen t) : hd (t.drop i) headerAl = true := by
  unfold header_mlen at h
  split at h
  · rename_i ha
    cases i with
    | zero => simpa using hd_imp header_alpha_al ha
    | succ i =>
      have := hd_drop_of_lt_tw (p := headerAl) (s := t.drop 1) (j := i) (by omega)
      rw [List.drop_drop] at this
      rw [Nat.add_comm]; exact this
  · omega

/-- the byte after the greedy mnemonic is not alphanumeric or `_` -/
theorem header_mlen_end {t : Bytes} (h : 0 < header_mlen t) : hd (t.drop (header_mlen t)) headerAl = false := by
  unfold header_mlen at h ⊢
  split at h
  · rename_i ha
    rw [if_pos ha]
    have := hd_drop_tw headerAl (t.drop 1)
    rw [List.drop_drop] at this
    exact this
  · omega

/-! ### the model's mnemonic skipper -/

theorem header_skipMn_pos (buf : Bytes) (p : Nat) :
    (if peekP buf p isAlpha = true then skipMany buf (p + 1) headerAl else p) = p + header_mlen (buf.drop p) := by
  unfold header_mlen
  lex_rel
  split <;> omega

theorem header_skipMn (buf : Bytes) (p : Nat) :
    skipProgramMnemonic buf p =
      (p + header_mlen (buf.drop p),
        if (buf.drop (p + header_mlen (buf.drop p))).length = 0 then -((header_mlen (buf.drop p) : Nat) : Int)
        else ((header_mlen (buf.drop p) : Nat) : Int)) := by
  unfold skipProgramMnemonic
  simp only [header_skipMn_pos, iseos_eq, decide_eq_true_eq]
  split
  · congr 1; omega
  · congr 1; omega

theorem header_loop_step (buf : Bytes) (fuel p : Nat) :
    compoundLoop buf (fuel + 1) p =
      if hd (buf.drop p) (· == 58) = true then
        (if header_mlen (buf.drop (p + 1)) = 0 then (p + 1, -1)
         else if (buf.drop (p + 1 + header_mlen (buf.drop (p + 1)))).length = 0 then
           (p + 1 + header_mlen (buf.drop (p + 1)), 1)
         else compoundLoop buf fuel (p + 1 + header_mlen (buf.drop (p + 1))))
      else (p, 1) := by
  rw [compoundLoop, peekP_eq, header_skipMn]
  by_cases hc : hd (buf.drop p) (· == 58) = true
  · simp only [hc, if_true]
    by_cases hM : header_mlen (buf.drop (p + 1)) = 0
    · simp [hM]
    · simp only [hM, if_false]
      by_cases he : (buf.drop (p + 1 + header_mlen (buf.drop (p + 1)))).length = 0
      · simp only [he, if_true]
        rw [if_pos (by omega)]
      · simp only [he, if_false]
        rw [if_neg (by omega), if_neg (by simp; omega)]
  · simp only [hc]; simp

/-! ### `(:mnemonic)*` -/

theorem header_S_zero (t : Bytes) : PM header_S t 0 := PM_star.2 (.inl rfl)

theorem header_S_nocolon {t : Bytes} {j : Nat} (h : hd t (· == 58) = false) (hj : PM header_S t j) : j = 0 := by
  unfold header_S at hj
  rw [PM_star] at hj
  rcases hj with rfl | ⟨i, j', rfl, hi, h1, h2⟩
  · rfl
  · rw [PM_seq] at h1
    obtain ⟨a, b, rfl, ha, hb⟩ := h1
    rw [PM_c, h] at ha
    simp at ha

theorem header_S_al {t : Bytes} {j : Nat} (h : hd t headerAl = true) (hj : PM header_S t j) : j = 0 :=
  header_S_nocolon (hd_disj header_al_ne_colon h) hj

theorem header_S_dead {t : Bytes} {j : Nat} (hM : header_mlen (t.drop 1) = 0) (hj : PM header_S t j) : j = 0 := by
  unfold header_S at hj
  rw [PM_star] at hj
  rcases hj with rfl | ⟨i, j', rfl, hi, h1, h2⟩
  · rfl
  · rw [PM_seq] at h1
    obtain ⟨a, b, rfl, ha, hb⟩ := h1
    rw [PM_c] at ha
    obtain ⟨rfl, _⟩ := ha
    rw [header_PM_mn, hM] at hb
    omega

theorem header_S_step_mem {t : Bytes} {M j' : Nat} (hc : hd t (· == 58) = true)
    (hM : M = header_mlen (t.drop 1)) (hpos : 0 < M) (h : PM header_S (t.drop (1 + M)) j') :
    PM header_S t (1 + M + j') := by
  unfold header_S at h ⊢
  exact PM_star.2 (.inr ⟨1 + M, j', rfl, by omega,
    PM_seq.2 ⟨1, M, rfl, PM_c.2 ⟨rfl, hc⟩, header_PM_mn.2 ⟨hpos, by omega⟩⟩, h⟩)

theorem header_S_step_bound {t : Bytes} {M G j : Nat} (hM : M = header_mlen (t.drop 1))
    (hG : ∀ j', PM header_S (t.drop (1 + M)) j' → j' ≤ G) (h : PM header_S t j) : j ≤ 1 + M + G := by
  have h0 := h
  unfold header_S at h
  rw [PM_star] at h
  rcases h with rfl | ⟨i, j', rfl, hi, h1, h2⟩
  · omega
  · rw [PM_seq] at h1
    obtain ⟨a, b, rfl, ha, hb⟩ := h1
    rw [PM_c] at ha
    obtain ⟨rfl, _⟩ := ha
    rw [header_PM_mn] at hb
    by_cases hbM : b = M
    · subst hbM
      have := hG j' h2
      omega
    · have hal : hd ((t.drop 1).drop b) headerAl = true := header_mlen_al (by omega)
      rw [List.drop_drop] at hal
      have := header_S_al hal h2
      omega

/-- the `while (skipColon)` loop follows the greedy path of `(:mnemonic)*`; it reports -1 exactly when
the path is followed by one more (dangling) colon, which it consumes -/
theorem header_loop (buf : Bytes) : ∀ (fuel p : Nat), (buf.drop p).length < fuel →
    ∃ G : Nat, ∃ D : Bool,
      compoundLoop buf fuel p = (p + G + (if D = true then 1 else 0), if D = true then -1 else 1) ∧
      PM header_S (buf.drop p) G ∧ (∀ j, PM header_S (buf.drop p) j → j ≤ G) ∧
      hd ((buf.drop p).drop G) (· == 58) = D := by
  intro fuel
  induction fuel with
  | zero => intro p h; omega
  | succ fuel ih =>
    intro p hlen
    rw [header_loop_step]
    by_cases hc : hd (buf.drop p) (· == 58) = true
    · rw [if_pos hc]
      by_cases hM : header_mlen (buf.drop (p + 1)) = 0
      · rw [if_pos hM]
        refine ⟨0, true, by simp, header_S_zero _, ?_, by simpa using hc⟩
        intro j hj
        rw [drop_add] at hM
        have := header_S_dead hM hj
        omega
      · rw [if_neg hM]
        obtain ⟨M, hMdef⟩ : ∃ M, M = header_mlen (buf.drop (p + 1)) := ⟨_, rfl⟩
        rw [← hMdef] at hM ⊢
        have e2 : buf.drop (p + 1 + M) = (buf.drop p).drop (1 + M) := by rw [Nat.add_assoc, drop_add]
        rw [drop_add] at hMdef
        have hMpos : 0 < M := by omega
        by_cases he : (buf.drop (p + 1 + M)).length = 0
        · rw [if_pos he]
          rw [e2] at he
          have hnil : (buf.drop p).drop (1 + M) = [] := List.eq_nil_of_length_eq_zero he
          refine ⟨1 + M, false, ?_, ?_, ?_, ?_⟩
          · simp; omega
          · exact header_S_step_mem hc hMdef hMpos (header_S_zero _)
          · intro j hj
            have := header_S_step_bound (G := 0) hMdef
              (fun j' hj' => by have := PM_le hj'; rw [hnil] at this; simpa using this) hj
            omega
          · rw [hnil]; rfl
        · rw [if_neg he]
          have hl := hd_length hc
          obtain ⟨G, D, h1, h2, h3, h4⟩ := ih (p + 1 + M) (by simp at hlen hl ⊢; omega)
          rw [e2] at h2 h3 h4
          refine ⟨1 + M + G, D, ?_, header_S_step_mem hc hMdef hMpos h2,
            fun j hj => header_S_step_bound hMdef h3 hj, ?_⟩
          · rw [h1]; congr 1; omega
          · rw [List.drop_drop] at h4; exact h4
    · rw [if_neg hc]
      have hc' : hd (buf.drop p) (· == 58) = false := by simpa using hc
      refine ⟨0, false, by simp, header_S_zero _, ?_, by simpa using hc'⟩
      intro j hj
      have := header_S_nocolon hc' hj
      omega

/-- a non-empty word of `(:mnemonic)*` ends with an alphanumeric byte -/
theorem header_S_last : ∀ (j : Nat) (t : Bytes), PM header_S t j → 0 < j → hd (t.drop (j - 1)) headerAl = true := by
  intro j
  induction j using Nat.strongRecOn with
  | _ j ih =>
    intro t hj hpos
    unfold header_S at hj
    rw [PM_star] at hj
    rcases hj with rfl | ⟨i, j', rfl, hi, h1, h2⟩
    · omega
    · rw [PM_seq] at h1
      obtain ⟨a, b, rfl, ha, hb⟩ := h1
      rw [PM_c] at ha
      obtain ⟨rfl, _⟩ := ha
      rw [header_PM_mn] at hb
      by_cases hj' : j' = 0
      · subst hj'
        have hal : hd ((t.drop 1).drop (b - 1)) headerAl = true := header_mlen_al (by omega)
        rw [List.drop_drop] at hal
        rw [show 1 + b + 0 - 1 = 1 + (b - 1) by omega]; exact hal
      · have := ih j' (by omega) (t.drop (1 + b)) h2 (by omega)
        rw [List.drop_drop] at this
        rw [show 1 + b + j' - 1 = 1 + b + (j' - 1) by omega]; exact this

/-! ### the three header languages -/

/-- `:? mnemonic X` -/
theorem header_PM_prefix {X : Re} {s : Bytes} {n a : Nat} (ha : a = if hd s (· == 58) = true then 1 else 0) :
    PM (.seq (opt (Re.c 58)) (.seq mnemonic X)) s n ↔
      ∃ m k, n = a + m + k ∧ 1 ≤ m ∧ m ≤ header_mlen (s.drop a) ∧ PM X (s.drop (a + m)) k := by
  rw [PM_seq]
  constructor
  · rintro ⟨i, j, rfl, hi, hj⟩
    rw [PM_seq] at hj
    obtain ⟨m, k, rfl, hm, hk⟩ := hj
    rw [header_PM_mn] at hm
    rw [List.drop_drop] at hk
    rw [PM_opt, PM_c] at hi
    rcases hi with rfl | ⟨rfl, hc⟩
    · have hal : hd s isAlpha = true := header_mlen_pos.1 (by simp at hm; omega)
      have := hd_disj header_alpha_ne_colon hal
      rw [this] at ha; simp at ha; subst ha
      exact ⟨m, k, by omega, hm.1, hm.2, hk⟩
    · rw [hc] at ha; simp at ha; subst ha
      exact ⟨m, k, by omega, hm.1, hm.2, hk⟩
  · rintro ⟨m, k, rfl, h1, h2, hk⟩
    refine ⟨a, m + k, by omega, ?_, PM_seq.2 ⟨m, k, rfl, header_PM_mn.2 ⟨h1, h2⟩, by rw [List.drop_drop]; exact hk⟩⟩
    rw [PM_opt, PM_c]
    by_cases hc : hd s (· == 58) = true
    · rw [hc] at ha; simp at ha; right; exact ⟨ha, hc⟩
    · left; simp [hc] at ha; exact ha

section header_compound
variable {s : Bytes} {a M G : Nat}

/-- longest complete header, compound form -/
theorem header_comp_compound (hstar : hd s (· == 42) = false)
    (ha : a = if hd s (· == 58) = true then 1 else 0) (hM : M = header_mlen (s.drop a)) (hpos : 0 < M)
    (hG1 : PM header_S (s.drop (a + M)) G) (hG2 : ∀ j, PM header_S (s.drop (a + M)) j → j ≤ G) :
    headerComplete.longest s = some (a + M + G + if hd (s.drop (a + M + G)) (· == 63) = true then 1 else 0) := by
  apply longest_eq_some
  · unfold headerComplete
    rw [PM_alt]; right
    rw [header_PM_prefix ha]
    refine ⟨M, G + (if hd (s.drop (a + M + G)) (· == 63) = true then 1 else 0), by omega, hpos, by omega, ?_⟩
    refine PM_seq.2 ⟨G, _, rfl, hG1, ?_⟩
    rw [PM_opt, PM_c, List.drop_drop]
    by_cases hq : hd (s.drop (a + M + G)) (· == 63) = true
    · right; simp [hq]
    · left; simp [hq]
  · intro n hn
    unfold headerComplete at hn
    rw [PM_alt] at hn
    rcases hn with hn | hn
    · rw [PM_seq] at hn
      obtain ⟨i, j, _, hi, _⟩ := hn
      rw [PM_c, hstar] at hi
      simp at hi
    · rw [header_PM_prefix ha] at hn
      obtain ⟨m, k, rfl, h1, h2, hk⟩ := hn
      rw [PM_seq] at hk
      obtain ⟨j, e, rfl, hj, he⟩ := hk
      rw [PM_opt, PM_c, List.drop_drop] at he
      have he1 : e ≤ 1 := by omega
      by_cases hmM : m = M
      · subst hmM
        have := hG2 j hj
        by_cases hjG : j = G
        · subst hjG
          rcases he with rfl | ⟨rfl, hq⟩
          · omega
          · rw [if_pos hq]; omega
        · omega
      · have hal : hd ((s.drop a).drop m) headerAl = true := header_mlen_al (by omega)
        rw [List.drop_drop] at hal
        have := header_S_al hal hj
        omega

/-- every incomplete compound header is at most the greedy path plus its dangling colon -/
theorem header_incP_bound
    (ha : a = if hd s (· == 58) = true then 1 else 0) (hM : M = header_mlen (s.drop a)) (hpos : 0 < M)
    (hG2 : ∀ j, PM header_S (s.drop (a + M)) j → j ≤ G) (n : Nat) (hn : PM headerIncompleteCompound s n) :
    n ≤ a + M + G + if hd (s.drop (a + M + G)) (· == 58) = true then 1 else 0 := by
  unfold headerIncompleteCompound at hn
  rw [PM_alt] at hn
  rcases hn with hn | hn
  · rw [PM_c] at hn; omega
  · rw [header_PM_prefix ha] at hn
    obtain ⟨m, k, rfl, h1, h2, hk⟩ := hn
    rw [PM_seq] at hk
    obtain ⟨j, e, rfl, hj, he⟩ := hk
    rw [PM_c, List.drop_drop] at he
    obtain ⟨rfl, hc⟩ := he
    by_cases hmM : m = M
    · subst hmM
      have := hG2 j hj
      by_cases hjG : j = G
      · subst hjG
        rw [if_pos hc]; omega
      · omega
    · have hal : hd ((s.drop a).drop m) headerAl = true := header_mlen_al (by omega)
      rw [List.drop_drop] at hal
      have := header_S_al hal hj
      omega

theorem header_incP_mem
    (ha : a = if hd s (· == 58) = true then 1 else 0) (hM : M = header_mlen (s.drop a)) (hpos : 0 < M)
    (hG1 : PM header_S (s.drop (a + M)) G) (hc : hd (s.drop (a + M + G)) (· == 58) = true) :
    PM headerIncompleteCompound s (a + M + G + 1) := by
  unfold headerIncompleteCompound
  rw [PM_alt]; right
  rw [header_PM_prefix ha]
  refine ⟨M, G + 1, by omega, hpos, by omega, PM_seq.2 ⟨G, 1, rfl, hG1, ?_⟩⟩
  rw [PM_c, List.drop_drop]
  exact ⟨rfl, hc⟩

/-- no mnemonic after the optional colon: no complete header -/
theorem header_comp_none (hstar : hd s (· == 42) = false)
    (ha : a = if hd s (· == 58) = true then 1 else 0) (hM : header_mlen (s.drop a) = 0) (n : Nat) :
    ¬ PM headerComplete s n := by
  intro hn
  unfold headerComplete at hn
  rw [PM_alt] at hn
  rcases hn with hn | hn
  · rw [PM_seq] at hn
    obtain ⟨i, j, _, hi, _⟩ := hn
    rw [PM_c, hstar] at hi
    simp at hi
  · rw [header_PM_prefix ha] at hn
    obtain ⟨m, k, rfl, h1, h2, hk⟩ := hn
    omega

theorem header_incP_M0 (ha : a = if hd s (· == 58) = true then 1 else 0) (hM : header_mlen (s.drop a) = 0)
    (n : Nat) : PM headerIncompleteCompound s n ↔ n = 1 ∧ hd s (· == 58) = true := by
  unfold headerIncompleteCompound
  rw [PM_alt, PM_c, header_PM_prefix ha]
  constructor
  · rintro (h | ⟨m, k, rfl, h1, h2, hk⟩)
    · exact h
    · omega
  · intro h; exact .inl h

theorem header_incC_iff (n : Nat) : PM headerIncompleteCommon s n ↔ n = 1 ∧ hd s (· == 42) = true := by
  unfold headerIncompleteCommon; rw [PM_c]

end header_compound

section header_common
variable {s : Bytes} {M : Nat}

theorem header_star_nocompound (hstar : hd s (· == 42) = true) {X : Re} (n : Nat) :
    ¬ PM (.seq (opt (Re.c 58)) (.seq mnemonic X)) s n := by
  have ha : 0 = if hd s (· == 58) = true then 1 else 0 := by
    rw [hd_disj header_star_ne_colon hstar]; simp
  rw [header_PM_prefix ha]
  rintro ⟨m, k, _, h1, h2, _⟩
  have : header_mlen (s.drop 0) = 0 := header_mlen_zero.2 (by simpa using hd_disj header_star_ne_alpha hstar)
  omega

theorem header_comp_common (hstar : hd s (· == 42) = true) (hM : M = header_mlen (s.drop 1)) (hpos : 0 < M) :
    headerComplete.longest s = some (1 + M + if hd (s.drop (1 + M)) (· == 63) = true then 1 else 0) := by
  apply longest_eq_some
  · unfold headerComplete
    rw [PM_alt]; left
    refine PM_seq.2 ⟨1, M + (if hd (s.drop (1 + M)) (· == 63) = true then 1 else 0), by omega, PM_c.2 ⟨rfl, hstar⟩,
      PM_seq.2 ⟨M, (if hd (s.drop (1 + M)) (· == 63) = true then 1 else 0), rfl, header_PM_mn.2 ⟨hpos, by omega⟩, ?_⟩⟩
    rw [PM_opt, PM_c, List.drop_drop]
    by_cases hq : hd (s.drop (1 + M)) (· == 63) = true
    · right; simp [hq]
    · left; simp [hq]
  · intro n hn
    unfold headerComplete at hn
    rw [PM_alt] at hn
    rcases hn with hn | hn
    · rw [PM_seq] at hn
      obtain ⟨i, j, rfl, hi, hj⟩ := hn
      rw [PM_c] at hi
      obtain ⟨rfl, _⟩ := hi
      rw [PM_seq] at hj
      obtain ⟨m, e, rfl, hm, he⟩ := hj
      rw [header_PM_mn] at hm
      rw [PM_opt, PM_c, List.drop_drop] at he
      by_cases hmM : m = M
      · subst hmM
        rcases he with rfl | ⟨rfl, hq⟩
        · omega
        · rw [if_pos hq]; omega
      · omega
    · exact absurd hn (header_star_nocompound hstar n)

theorem header_comp_common_none (hstar : hd s (· == 42) = true) (hM : header_mlen (s.drop 1) = 0) (n : Nat) :
    ¬ PM headerComplete s n := by
  intro hn
  unfold headerComplete at hn
  rw [PM_alt] at hn
  rcases hn with hn | hn
  · rw [PM_seq] at hn
    obtain ⟨i, j, rfl, hi, hj⟩ := hn
    rw [PM_c] at hi
    obtain ⟨rfl, _⟩ := hi
    rw [PM_seq] at hj
    obtain ⟨m, e, rfl, hm, he⟩ := hj
    rw [header_PM_mn] at hm
    omega
  · exact absurd hn (header_star_nocompound hstar n)

theorem header_incP_common_none (hstar : hd s (· == 42) = true) (n : Nat) :
    ¬ PM headerIncompleteCompound s n := by
  intro hn
  unfold headerIncompleteCompound at hn
  rw [PM_alt] at hn
  rcases hn with hn | hn
  · rw [PM_c, hd_disj header_star_ne_colon hstar] at hn
    simp at hn
  · exact absurd hn (header_star_nocompound hstar n)

end header_common

/-! ### the selection among the three languages -/

def header_sel (s : Bytes) (comp incC incP : Option Nat) : Option Expect :=
  let best := [comp, incC, incP].filterMap id |>.foldl max 0
  if best = 0 then none
  else if comp == some best then
    let isCommon := s.head? == some 42
    let isQuery := s[best - 1]? == some 63
    some ⟨best, if isCommon then (if isQuery then .commonQueryHeader else .commonHeader)
                else (if isQuery then .compoundQueryHeader else .compoundHeader), 0, best⟩
  else if incC == some best then some ⟨best, .incompleteCommonHeader, 0, best⟩
  else some ⟨best, .incompleteCompoundHeader, 0, best⟩

theorem header_spec_sel (s : Bytes) :
    specToken .header s = header_sel s (headerComplete.longest s) (headerIncompleteCommon.longest s)
      (headerIncompleteCompound.longest s) := rfl

theorem header_head_star (s : Bytes) : (s.head? == some 42) = hd s (· == 42) := by
  cases s <;> simp

theorem header_get_q (s : Bytes) (i : Nat) : (s[i]? == some 63) = hd (s.drop i) (· == 63) := by
  rw [getElem?_eq_head_drop]
  cases s.drop i <;> simp

theorem header_sel_comp {s : Bytes} {n : Nat} {comp incC incP : Option Nat} (hn : 0 < n) (h1 : comp = some n)
    (h2 : ∀ k, incC = some k → k ≤ n) (h3 : ∀ k, incP = some k → k ≤ n) :
    header_sel s comp incC incP =
      some ⟨n, if hd s (· == 42) = true then
                 (if hd (s.drop (n - 1)) (· == 63) = true then .commonQueryHeader else .commonHeader)
               else (if hd (s.drop (n - 1)) (· == 63) = true then .compoundQueryHeader else .compoundHeader), 0, n⟩ := by
  subst h1
  have hb : ([some n, incC, incP].filterMap id).foldl max 0 = n := by
    rcases incC with _ | k1 <;> rcases incP with _ | k2 <;> simp at h2 h3 ⊢ <;> omega
  unfold header_sel
  simp only [hb, header_head_star, header_get_q]
  rw [if_neg (by omega)]
  simp

theorem header_sel_incC {s : Bytes} {n : Nat} {comp incC incP : Option Nat} (hn : 0 < n)
    (h1 : ∀ k, comp = some k → k < n) (h2 : incC = some n) (h3 : ∀ k, incP = some k → k ≤ n) :
    header_sel s comp incC incP = some ⟨n, .incompleteCommonHeader, 0, n⟩ := by
  subst h2
  have hb : ([comp, some n, incP].filterMap id).foldl max 0 = n := by
    rcases comp with _ | k1 <;> rcases incP with _ | k2 <;> simp at h1 h3 ⊢ <;> omega
  have hc : (comp == some n) = false := by
    rcases comp with _ | k
    · simp
    · have := h1 k rfl
      simp; omega
  unfold header_sel
  simp only [hb, hc]
  rw [if_neg (by omega)]
  simp

theorem header_sel_incP {s : Bytes} {n : Nat} {comp incC incP : Option Nat} (hn : 0 < n)
    (h1 : ∀ k, comp = some k → k < n) (h2 : ∀ k, incC = some k → k < n) (h3 : incP = some n) :
    header_sel s comp incC incP = some ⟨n, .incompleteCompoundHeader, 0, n⟩ := by
  subst h3
  have hb : ([comp, incC, some n].filterMap id).foldl max 0 = n := by
    rcases comp with _ | k1 <;> rcases incC with _ | k2 <;> simp at h1 h2 ⊢ <;> omega
  have hc : (comp == some n) = false := by
    rcases comp with _ | k
    · simp
    · have := h1 k rfl
      simp; omega
  have hc2 : (incC == some n) = false := by
    rcases incC with _ | k
    · simp
    · have := h2 k rfl
      simp; omega
  unfold header_sel
  simp only [hb, hc, hc2]
  rw [if_neg (by omega)]
  simp

theorem header_sel_none {s : Bytes} : header_sel s none none none = none := by
  simp [header_sel]

theorem header_le_of_bound {r : Re} {s : Bytes} {n : Nat} (h : ∀ m, PM r s m → m ≤ n) :
    ∀ k, r.longest s = some k → k ≤ n := fun k hk => h k (longest_some_PM hk).1

theorem header_lt_of_bound {r : Re} {s : Bytes} {n : Nat} (h : ∀ m, PM r s m → m < n) :
    ∀ k, r.longest s = some k → k < n := fun k hk => h k (longest_some_PM hk).1

/-! ### the specification, case by case -/

theorem header_spec_common {s : Bytes} {M : Nat} (hstar : hd s (· == 42) = true)
    (hM : M = header_mlen (s.drop 1)) (hpos : 0 < M) :
    specToken .header s = some ⟨1 + M + (if hd (s.drop (1 + M)) (· == 63) = true then 1 else 0),
      if hd (s.drop (1 + M)) (· == 63) = true then .commonQueryHeader else .commonHeader, 0,
      1 + M + (if hd (s.drop (1 + M)) (· == 63) = true then 1 else 0)⟩ := by
  rw [header_spec_sel, header_sel_comp (n := 1 + M + (if hd (s.drop (1 + M)) (· == 63) = true then 1 else 0))
    (by omega) (header_comp_common hstar hM hpos)
    (header_le_of_bound (fun m hm => by rw [header_incC_iff] at hm; omega))
    (header_le_of_bound (fun m hm => absurd hm (header_incP_common_none hstar m)))]
  rw [if_pos hstar]
  by_cases hq : hd (s.drop (1 + M)) (· == 63) = true
  · simp only [hq, if_true]
    rw [show 1 + M + 1 - 1 = 1 + M by omega, hq]; rfl
  · have hq' : hd (s.drop (1 + M)) (· == 63) = false := by simpa using hq
    simp only [hq', Bool.false_eq_true, if_false, Nat.add_zero]
    have hal : hd ((s.drop 1).drop (M - 1)) headerAl = true := header_mlen_al (by omega)
    rw [List.drop_drop] at hal
    rw [show 1 + M - 1 = 1 + (M - 1) by omega, hd_disj header_al_ne_q hal]; rfl

theorem header_spec_incC {s : Bytes} (hstar : hd s (· == 42) = true) (hM : header_mlen (s.drop 1) = 0) :
    specToken .header s = some ⟨1, .incompleteCommonHeader, 0, 1⟩ := by
  rw [header_spec_sel]
  apply header_sel_incC (by omega)
  · exact header_lt_of_bound (fun m hm => absurd hm (header_comp_common_none hstar hM m))
  · exact longest_eq_some ((header_incC_iff 1).2 ⟨rfl, hstar⟩) (fun m hm => by rw [header_incC_iff] at hm; omega)
  · exact header_le_of_bound (fun m hm => absurd hm (header_incP_common_none hstar m))

theorem header_incC_none {s : Bytes} (hstar : hd s (· == 42) = false) (m : Nat) :
    ¬ PM headerIncompleteCommon s m := by
  rw [header_incC_iff, hstar]; simp

theorem header_spec_colon {s : Bytes} (hstar : hd s (· == 42) = false) (hc : hd s (· == 58) = true)
    (hM : header_mlen (s.drop 1) = 0) :
    specToken .header s = some ⟨1, .incompleteCompoundHeader, 0, 1⟩ := by
  have ha : 1 = if hd s (· == 58) = true then 1 else 0 := by rw [if_pos hc]
  rw [header_spec_sel]
  apply header_sel_incP (by omega)
  · exact header_lt_of_bound (fun m hm => absurd hm (header_comp_none hstar ha hM m))
  · exact header_lt_of_bound (fun m hm => absurd hm (header_incC_none hstar m))
  · exact longest_eq_some ((header_incP_M0 ha hM 1).2 ⟨rfl, hc⟩)
      (fun m hm => by rw [header_incP_M0 ha hM] at hm; omega)

theorem header_spec_nothing {s : Bytes} (hstar : hd s (· == 42) = false) (hc : hd s (· == 58) = false)
    (hM : header_mlen s = 0) : specToken .header s = none := by
  have ha : 0 = if hd s (· == 58) = true then 1 else 0 := by rw [hc]; simp
  have hM' : header_mlen (s.drop 0) = 0 := by simpa using hM
  rw [header_spec_sel, longest_eq_none (header_comp_none hstar ha hM'),
    longest_eq_none (header_incC_none hstar),
    longest_eq_none (fun m hm => by rw [header_incP_M0 ha hM', hc] at hm; simp at hm)]
  exact header_sel_none

section header_compound2
variable {s : Bytes} {a M G : Nat}

theorem header_lastbyte (hM : M = header_mlen (s.drop a)) (hpos : 0 < M)
    (hG1 : PM header_S (s.drop (a + M)) G) : hd (s.drop (a + M + G - 1)) headerAl = true := by
  by_cases hG : G = 0
  · subst hG
    have hal : hd ((s.drop a).drop (M - 1)) headerAl = true := header_mlen_al (by omega)
    rw [List.drop_drop] at hal
    rw [show a + M + 0 - 1 = a + (M - 1) by omega]; exact hal
  · have := header_S_last G _ hG1 (by omega)
    rw [List.drop_drop] at this
    rw [show a + M + G - 1 = a + M + (G - 1) by omega]; exact this

theorem header_spec_compound (hstar : hd s (· == 42) = false)
    (ha : a = if hd s (· == 58) = true then 1 else 0) (hM : M = header_mlen (s.drop a)) (hpos : 0 < M)
    (hG1 : PM header_S (s.drop (a + M)) G) (hG2 : ∀ j, PM header_S (s.drop (a + M)) j → j ≤ G)
    (hD : hd (s.drop (a + M + G)) (· == 58) = false) :
    specToken .header s = some ⟨a + M + G + (if hd (s.drop (a + M + G)) (· == 63) = true then 1 else 0),
      if hd (s.drop (a + M + G)) (· == 63) = true then .compoundQueryHeader else .compoundHeader, 0,
      a + M + G + (if hd (s.drop (a + M + G)) (· == 63) = true then 1 else 0)⟩ := by
  rw [header_spec_sel, header_sel_comp
    (n := a + M + G + (if hd (s.drop (a + M + G)) (· == 63) = true then 1 else 0))
    (by omega) (header_comp_compound hstar ha hM hpos hG1 hG2)
    (header_le_of_bound (fun m hm => absurd hm (header_incC_none hstar m)))
    (header_le_of_bound (fun m hm => by
      have := header_incP_bound ha hM hpos hG2 m hm
      rw [hD] at this; simp at this; omega))]
  simp only [hstar, Bool.false_eq_true, if_false]
  by_cases hq : hd (s.drop (a + M + G)) (· == 63) = true
  · simp only [hq, if_true]
    rw [show a + M + G + 1 - 1 = a + M + G by omega]
    simp only [hq, if_true]
  · have hq' : hd (s.drop (a + M + G)) (· == 63) = false := by simpa using hq
    simp only [hq', Bool.false_eq_true, if_false, Nat.add_zero]
    simp only [hd_disj header_al_ne_q (header_lastbyte hM hpos hG1), Bool.false_eq_true, if_false]

theorem header_spec_dangling (hstar : hd s (· == 42) = false)
    (ha : a = if hd s (· == 58) = true then 1 else 0) (hM : M = header_mlen (s.drop a)) (hpos : 0 < M)
    (hG1 : PM header_S (s.drop (a + M)) G) (hG2 : ∀ j, PM header_S (s.drop (a + M)) j → j ≤ G)
    (hD : hd (s.drop (a + M + G)) (· == 58) = true) :
    specToken .header s = some ⟨a + M + G + 1, .incompleteCompoundHeader, 0, a + M + G + 1⟩ := by
  rw [header_spec_sel]
  apply header_sel_incP (by omega)
  · have hq : hd (s.drop (a + M + G)) (· == 63) = false := hd_disj header_colon_ne_q hD
    have := header_comp_compound hstar ha hM hpos hG1 hG2
    rw [hq] at this
    intro k hk
    rw [this] at hk
    simp at hk; omega
  · exact header_lt_of_bound (fun m hm => absurd hm (header_incC_none hstar m))
  · exact longest_eq_some (header_incP_mem ha hM hpos hG1 hD) (fun m hm => by
      have := header_incP_bound ha hM hpos hG2 m hm
      rw [hD] at this; simpa using this)

end header_compound2

/-! ### the model -/

theorem header_skipCommon (buf : Bytes) (pos : Nat) :
    skipCommonProgramHeader buf pos =
      if hd (buf.drop pos) (· == 42) = true then
        (pos + 1 + header_mlen (buf.drop (pos + 1)), if 0 < header_mlen (buf.drop (pos + 1)) then 1 else -1)
      else (pos, 0) := by
  unfold skipCommonProgramHeader
  rw [peekP_eq, header_skipMn]
  by_cases hs : hd (buf.drop pos) (· == 42) = true
  · simp only [hs, if_true]
    by_cases hM : header_mlen (buf.drop (pos + 1)) = 0
    · simp [hM]
    · by_cases he : (buf.drop (pos + 1 + header_mlen (buf.drop (pos + 1)))).length = 0
      · simp only [he, if_true]
        rw [if_neg (by simp; omega), if_pos (by omega), if_pos (by omega)]
      · simp only [he, if_false]
        rw [if_neg (by simp; omega), if_neg (by omega), if_pos (by omega), if_pos (by omega)]
  · simp only [hs]; simp

theorem header_skipCompound_M0 (buf : Bytes) (pos : Nat) {a : Nat}
    (ha : a = if hd (buf.drop pos) (· == 58) = true then 1 else 0)
    (hM : header_mlen (buf.drop (pos + a)) = 0) :
    skipCompoundProgramHeader buf pos = (pos + a, if a = 1 then -1 else 0) := by
  have h01 : a = 0 ∨ a = 1 := by split at ha <;> omega
  unfold skipCompoundProgramHeader
  simp only [skipChr_eq, ← ha, header_skipMn, hM]
  rcases h01 with h | h <;> simp [h]

theorem header_skipCompound_pos (buf : Bytes) (pos : Nat) {a M : Nat}
    (ha : a = if hd (buf.drop pos) (· == 58) = true then 1 else 0)
    (hM : M = header_mlen (buf.drop (pos + a))) (hpos : 0 < M) :
    ∃ G : Nat, ∃ D : Bool,
      skipCompoundProgramHeader buf pos =
        (pos + a + M + G + (if D = true then 1 else 0), if D = true then -1 else 1) ∧
      PM header_S (buf.drop (pos + a + M)) G ∧ (∀ j, PM header_S (buf.drop (pos + a + M)) j → j ≤ G) ∧
      hd ((buf.drop (pos + a + M)).drop G) (· == 58) = D := by
  have hsk : skipCompoundProgramHeader buf pos =
      if (buf.drop (pos + a + M)).length = 0 then (pos + a + M, 1)
      else compoundLoop buf (buf.length - (pos + a + M) + 1) (pos + a + M) := by
    unfold skipCompoundProgramHeader
    simp only [skipChr_eq, ← ha, header_skipMn, ← hM]
    by_cases he : (buf.drop (pos + a + M)).length = 0
    · simp only [he, if_true]
      rw [if_neg (by omega), if_pos (by omega)]
    · simp only [he, if_false]
      rw [if_pos (by omega)]
  rw [hsk]
  by_cases he : (buf.drop (pos + a + M)).length = 0
  · rw [if_pos he]
    have hnil : buf.drop (pos + a + M) = [] := List.eq_nil_of_length_eq_zero he
    refine ⟨0, false, by simp, header_S_zero _, ?_, by rw [hnil]; rfl⟩
    intro j hj
    have := PM_le hj
    omega
  -- loop
  · rw [if_neg he]
    exact header_loop buf _ _ (by simp)

/-! ### assembling -/

theorem header_sel_le {s : Bytes} {comp incC incP : Option Nat} {L : Nat} {e : Expect}
    (h1 : ∀ k, comp = some k → k ≤ L) (h2 : ∀ k, incC = some k → k ≤ L) (h3 : ∀ k, incP = some k → k ≤ L)
    (h : header_sel s comp incC incP = some e) : e.consumed ≤ L := by
  have hb : ([comp, incC, incP].filterMap id).foldl max 0 ≤ L := by
    rcases comp with _ | k1 <;> rcases incC with _ | k2 <;> rcases incP with _ | k3 <;>
      simp at h1 h2 h3 ⊢ <;> omega
  unfold header_sel at h
  simp only at h
  split at h
  · cases h
  · split at h
    · cases h; exact hb
    · split at h
      · cases h; exact hb
      · cases h; exact hb

theorem header_consumed_le {s : Bytes} {e : Expect} (h : specToken .header s = some e) :
    e.consumed ≤ s.length := by
  rw [header_spec_sel] at h
  exact header_sel_le (header_le_of_bound fun m hm => PM_le hm) (header_le_of_bound fun m hm => PM_le hm)
    (header_le_of_bound fun m hm => PM_le hm) h

theorem header_agrees_some {buf : Bytes} {pos n : Nat} {ty : TokType} {r : Nat × Token × Int}
    (h : pos ≤ buf.length) (hs : specToken .header (buf.drop pos) = some ⟨n, ty, 0, n⟩)
    (hr : r = (pos + n, Token.mk ty pos (n : Int), (n : Int))) : Agrees .header buf pos r := by
  have := header_consumed_le hs
  simp at this
  unfold Agrees
  rw [hs]; subst hr
  simp; omega

theorem header_agrees_none {buf : Bytes} {pos : Nat} {r : Nat × Token × Int}
    (hs : specToken .header (buf.drop pos) = none)
    (hr : r = (pos, Token.mk .unknown pos 0, (0 : Int))) : Agrees .header buf pos r := by
  unfold Agrees
  rw [hs]; subst hr
  simp

theorem header_lex_common (buf : Bytes) (pos : Nat) {M : Nat} (hstar : hd (buf.drop pos) (· == 42) = true)
    (hM : M = header_mlen ((buf.drop pos).drop 1)) (hpos : 0 < M) :
    lexProgramHeader buf pos =
      (pos + (1 + M + (if hd ((buf.drop pos).drop (1 + M)) (· == 63) = true then 1 else 0)),
       Token.mk (if hd ((buf.drop pos).drop (1 + M)) (· == 63) = true then .commonQueryHeader else .commonHeader) pos
         ((1 + M + (if hd ((buf.drop pos).drop (1 + M)) (· == 63) = true then 1 else 0) : Nat) : Int),
       ((1 + M + (if hd ((buf.drop pos).drop (1 + M)) (· == 63) = true then 1 else 0) : Nat) : Int)) := by
  rw [← drop_add] at hM
  have e2 : (buf.drop pos).drop (1 + M) = buf.drop (pos + 1 + M) := by rw [Nat.add_assoc, drop_add buf pos]
  rw [e2]
  unfold lexProgramHeader
  simp only [header_skipCommon, hstar, if_true, ← hM, hpos, skipChr_eq, mkTok]
  by_cases hq : hd (buf.drop (pos + 1 + M)) (· == 63) = true
  · simp [hq]
    omega
  · simp [hq]
    omega

theorem header_lex_incC (buf : Bytes) (pos : Nat) (hstar : hd (buf.drop pos) (· == 42) = true)
    (hM : header_mlen ((buf.drop pos).drop 1) = 0) :
    lexProgramHeader buf pos = (pos + 1, Token.mk .incompleteCommonHeader pos ((1 : Nat) : Int), ((1 : Nat) : Int)) := by
  rw [← drop_add] at hM
  unfold lexProgramHeader
  simp only [header_skipCommon, hstar, if_true, hM, mkTok]
  simp
  omega

theorem header_lex_cmp_ok (buf : Bytes) (pos : Nat) {n0 : Nat} (hstar : hd (buf.drop pos) (· == 42) = false)
    (hsk : skipCompoundProgramHeader buf pos = (pos + n0, 1)) :
    lexProgramHeader buf pos =
      (pos + (n0 + (if hd ((buf.drop pos).drop n0) (· == 63) = true then 1 else 0)),
       Token.mk (if hd ((buf.drop pos).drop n0) (· == 63) = true then .compoundQueryHeader else .compoundHeader) pos
         ((n0 + (if hd ((buf.drop pos).drop n0) (· == 63) = true then 1 else 0) : Nat) : Int),
       ((n0 + (if hd ((buf.drop pos).drop n0) (· == 63) = true then 1 else 0) : Nat) : Int)) := by
  rw [← drop_add]
  unfold lexProgramHeader
  simp only [header_skipCommon, hstar, Bool.false_eq_true, if_false]
  simp only [hsk, skipChr_eq, mkTok]
  by_cases hq : hd (buf.drop (pos + n0)) (· == 63) = true
  · simp [hq]
    omega
  · simp [hq]
    omega

theorem header_lex_cmp_inc (buf : Bytes) (pos : Nat) {n : Nat} (hstar : hd (buf.drop pos) (· == 42) = false)
    (hsk : skipCompoundProgramHeader buf pos = (pos + n, -1)) :
    lexProgramHeader buf pos = (pos + n, Token.mk .incompleteCompoundHeader pos (n : Int), (n : Int)) := by
  unfold lexProgramHeader
  simp only [header_skipCommon, hstar, Bool.false_eq_true, if_false]
  simp only [hsk, mkTok]
  simp
  omega

theorem header_lex_cmp_none (buf : Bytes) (pos : Nat) (hstar : hd (buf.drop pos) (· == 42) = false)
    (hsk : skipCompoundProgramHeader buf pos = (pos, 0)) :
    lexProgramHeader buf pos = (pos, Token.mk .unknown pos 0, (0 : Int)) := by
  unfold lexProgramHeader
  simp only [header_skipCommon, hstar, Bool.false_eq_true, if_false]
  simp only [hsk, mkTok]
  simp

theorem programHeader_spec (buf : Bytes) (pos : Nat) (h : pos ≤ buf.length) :
    Agrees .header buf pos (lexProgramHeader buf pos) := by
  by_cases hstar : hd (buf.drop pos) (· == 42) = true
  · by_cases hM : header_mlen ((buf.drop pos).drop 1) = 0
    · exact header_agrees_some h (header_spec_incC hstar hM) (header_lex_incC buf pos hstar hM)
    · exact header_agrees_some h (header_spec_common hstar rfl (by omega))
        (header_lex_common buf pos hstar rfl (by omega))
  · have hstar' : hd (buf.drop pos) (· == 42) = false := by simpa using hstar
    obtain ⟨a, ha⟩ : ∃ a, a = if hd (buf.drop pos) (· == 58) = true then 1 else 0 := ⟨_, rfl⟩
    by_cases hM : header_mlen ((buf.drop pos).drop a) = 0
    · have hsk := header_skipCompound_M0 buf pos ha (by rw [drop_add]; exact hM)
      by_cases hc : hd (buf.drop pos) (· == 58) = true
      · have ha1 : a = 1 := by rw [ha, if_pos hc]
        rw [ha1] at hM hsk
        exact header_agrees_some h (header_spec_colon hstar' hc hM)
          (header_lex_cmp_inc buf pos hstar' (by simpa using hsk))
      · have hc' : hd (buf.drop pos) (· == 58) = false := by simpa using hc
        have ha0 : a = 0 := by rw [ha, if_neg hc]
        rw [ha0] at hM hsk
        exact header_agrees_none (header_spec_nothing hstar' hc' (by simpa using hM))
          (header_lex_cmp_none buf pos hstar' (by simpa using hsk))
    · obtain ⟨M, hMdef⟩ : ∃ M, M = header_mlen ((buf.drop pos).drop a) := ⟨_, rfl⟩
      have hpos : 0 < M := by omega
      obtain ⟨G, D, hsk, hG1, hG2, hD⟩ := header_skipCompound_pos buf pos ha (M := M)
        (by rw [drop_add]; exact hMdef) hpos
      have e2 : buf.drop (pos + a + M) = (buf.drop pos).drop (a + M) := by
        rw [Nat.add_assoc, drop_add buf pos]
      rw [e2] at hG1 hG2 hD
      rw [List.drop_drop] at hD
      cases D with
      | false =>
        have hsk' : skipCompoundProgramHeader buf pos = (pos + (a + M + G), 1) := by
          rw [hsk]; simp; omega
        exact header_agrees_some h (header_spec_compound hstar' ha hMdef hpos hG1 hG2 hD)
          (header_lex_cmp_ok buf pos hstar' hsk')
      | true =>
        have hsk' : skipCompoundProgramHeader buf pos = (pos + (a + M + G + 1), -1) := by
          rw [hsk]; simp; omega
        exact header_agrees_some h (header_spec_dangling hstar' ha hMdef hpos hG1 hG2 hD)
          (header_lex_cmp_inc buf pos hstar' hsk')

end header_token

/-! ## pdata -/
/-! ## consequences of `Agrees` -/

theorem pdata_agrees_some {k : Kind} {buf : Bytes} {pos : Nat} {r : Nat × Token × Int} {e : Expect}
    (h : Agrees k buf pos r) (he : specToken k (buf.drop pos) = some e) :
    r.1 = pos + e.consumed ∧ r.2.2 = e.consumed ∧ r.2.1 = ⟨e.type, pos + e.payloadOff, e.payloadLen⟩ ∧
      pos + e.consumed ≤ buf.length := by
  unfold Agrees at h
  rw [he] at h
  exact h

theorem pdata_agrees_none {k : Kind} {buf : Bytes} {pos : Nat} {r : Nat × Token × Int}
    (h : Agrees k buf pos r) (he : specToken k (buf.drop pos) = none) :
    r.2.2 = 0 ∧ r.2.1.type = .unknown ∧ r.2.1.len = 0 ∧
      r.1 = (if k = .block ∧ specBlock (buf.drop pos) = .incomplete then buf.length else pos) := by
  unfold Agrees at h
  rw [he] at h
  exact h

/-! ## white space -/

theorem pdata_wsLen_eq_tw (s : Bytes) : wsLen s = tw isWs s := by
  have hk : specToken .ws s = plainSpec wsRe .ws s := rfl
  unfold wsLen
  rw [hk]
  by_cases hn : 0 < tw isWs s
  · have : plainSpec wsRe .ws s = some ⟨tw isWs s, .ws, 0, tw isWs s⟩ :=
      plainSpec_some hn (PM_plus_chr.2 ⟨hn, Nat.le_refl _⟩) (fun m hm => (PM_plus_chr.1 hm).2)
    rw [this]; rfl
  · have : plainSpec wsRe .ws s = none :=
      plainSpec_none (fun m hm hP => by have := (PM_plus_chr.1 hP).2; omega)
    rw [this]
    simp; omega

theorem pdata_wsLen_drop_wsLen (s : Bytes) : wsLen (s.drop (wsLen s)) = 0 := by
  rw [pdata_wsLen_eq_tw, pdata_wsLen_eq_tw]
  exact tw_eq_zero_iff.2 (hd_drop_tw _ _)

theorem pdata_wsLen_nil : wsLen [] = 0 := by
  rw [pdata_wsLen_eq_tw]; rfl

theorem pdata_ws (buf : Bytes) (pos : Nat) (h : pos ≤ buf.length) :
    (lexWhiteSpace buf pos).1 = pos + wsLen (buf.drop pos) ∧
    (lexWhiteSpace buf pos).2.2 = (wsLen (buf.drop pos) : Int) ∧
    pos + wsLen (buf.drop pos) ≤ buf.length := by
  rw [pdata_wsLen_eq_tw]
  unfold lexWhiteSpace
  lex_rel
  have := tw_le_length isWs (buf.drop pos)
  simp at this
  refine ⟨trivial, by omega, by omega⟩

/-! ## successful tokens are not empty -/

theorem pdata_plain_some {re : Re} {ty : TokType} {s : Bytes} {e : Expect} (h : plainSpec re ty s = some e) :
    0 < e.consumed ∧ e = ⟨e.consumed, ty, 0, e.consumed⟩ := by
  unfold plainSpec at h
  split at h
  · split at h
    · cases h; simp; assumption
    · cases h
  · cases h

theorem pdata_chr_some {s : Bytes} {e : Expect} (h : specToken .chr s = some e) :
    0 < e.consumed ∧ e = ⟨e.consumed, .programMnemonic, 0, e.consumed⟩ :=
  pdata_plain_some (re := mnemonic) h

theorem pdata_decimal_some {s : Bytes} {e : Expect} (h : specToken .decimal s = some e) :
    0 < e.consumed ∧ e = ⟨e.consumed, .decimal, 0, e.consumed⟩ :=
  pdata_plain_some (re := decimal) h

theorem pdata_suffix_some {s : Bytes} {e : Expect} (h : specToken .suffix s = some e) :
    0 < e.consumed ∧ e = ⟨e.consumed, .suffix, 0, e.consumed⟩ :=
  pdata_plain_some (re := suffix) h

theorem pdata_expression_some {s : Bytes} {e : Expect} (h : specToken .expression s = some e) :
    0 < e.consumed ∧ e = ⟨e.consumed, .expression, 0, e.consumed⟩ :=
  pdata_plain_some (re := expression) h

theorem pdata_orElse_some {α : Type} {a : Option α} {f : _root_.Unit → Option α} {e : α}
    (h : a.orElse f = some e) : a = some e ∨ f () = some e := by
  cases a with
  | none => exact .inr h
  | some x => exact .inl h

theorem pdata_pick_pos {X : Re} {ty : TokType} {s : Bytes} {e : Expect}
    (h : (match (Re.seq (Re.c 35) X).longest s with
      | some n => some (Expect.mk n ty 2 (n - 2))
      | none => none) = some e) : 0 < e.consumed := by
  split at h
  · rename_i n hn
    cases h
    have := (longest_some_PM hn).1
    rw [PM_seq] at this
    obtain ⟨i, j, rfl, h1, _⟩ := this
    rw [PM_c] at h1
    simp; omega
  · cases h

theorem pdata_nondecimal_some {s : Bytes} {e : Expect} (h : specToken .nondecimal s = some e) :
    0 < e.consumed := by
  simp only [specToken] at h
  rcases pdata_orElse_some h with h | h
  · exact pdata_pick_pos h
  · rcases pdata_orElse_some h with h | h
    · exact pdata_pick_pos h
    · exact pdata_pick_pos h

theorem pdata_longestString_pos {q : UInt8} {s : Bytes} {n : Nat} (h : longestString q s = some n) : 0 < n := by
  unfold longestString at h
  have hm := List.mem_of_getLast? h
  simp only [List.mem_filter, Bool.and_eq_true] at hm
  have hacc := (accepts_iff_matches _ _).1 hm.2.1
  unfold quoted at hacc
  rw [matches_seq] at hacc
  obtain ⟨u, t, hut, hu, _⟩ := hacc
  obtain ⟨b, rfl, _⟩ := matches_chr.1 hu
  cases n with
  | zero => simp at hut
  | succ n => omega

theorem pdata_string_some {s : Bytes} {e : Expect} (h : specToken .string s = some e) :
    0 < e.consumed := by
  simp only [specToken] at h
  split at h
  · rename_i n hn; cases h; exact pdata_longestString_pos hn
  · split at h
    · rename_i n hn; cases h; exact pdata_longestString_pos hn
    · cases h

theorem pdata_block_valid {s : Bytes} {hl n : Nat} (h : specBlock s = .valid hl n) : 2 ≤ hl := by
  unfold specBlock at h
  split at h
  · split at h
    · cases h
    · split at h
      · simp only [] at h
        split at h
        · split at h
          · split at h
            · cases h; omega
            · cases h
          · cases h
        · cases h
      · cases h
  · cases h

/-! ## the cascade of `parseProgramData`, stage by stage -/

def pdata_core6 (buf : Bytes) (q : Nat) : Nat × Token × Int := lexExpression buf q
def pdata_core5 (buf : Bytes) (q : Nat) : Nat × Token × Int :=
  let r := lexBlock buf q
  if r.2.2 != 0 then r else pdata_core6 buf r.1
def pdata_core4 (buf : Bytes) (q : Nat) : Nat × Token × Int :=
  let r := lexString buf q
  if r.2.2 != 0 then r else pdata_core5 buf r.1
def pdata_dec (buf : Bytes) (r3 : Nat × Token × Int) : Nat × Token × Int :=
  let a := lexWhiteSpace buf r3.1
  let b := lexSuffix buf a.1
  if b.2.2 > 0 then
    (b.1, { r3.2.1 with len := r3.2.1.len + a.2.2 + b.2.2, type := .decimalWithSuffix }, r3.2.1.len + a.2.2 + b.2.2)
  else (b.1, r3.2.1, r3.2.2 + a.2.2)
def pdata_core3 (buf : Bytes) (q : Nat) : Nat × Token × Int :=
  let r := lexDecimal buf q
  if r.2.2 != 0 then pdata_dec buf r else pdata_core4 buf r.1
def pdata_core2 (buf : Bytes) (q : Nat) : Nat × Token × Int :=
  let r := lexCharacterProgramData buf q
  if r.2.2 != 0 then r else pdata_core3 buf r.1
def pdata_core1 (buf : Bytes) (q : Nat) : Nat × Token × Int :=
  let r := lexNondecimal buf q
  if r.2.2 != 0 then r else pdata_core2 buf r.1

theorem pdata_parse_eq (buf : Bytes) (pos : Nat) :
    parseProgramData buf pos =
      ((lexWhiteSpace buf (pdata_core1 buf (lexWhiteSpace buf pos).1).1).1,
       (pdata_core1 buf (lexWhiteSpace buf pos).1).2.1,
       (pdata_core1 buf (lexWhiteSpace buf pos).1).2.2 +
         ((lexWhiteSpace buf pos).2.2 + (lexWhiteSpace buf (pdata_core1 buf (lexWhiteSpace buf pos).1).1).2.2)) := rfl

def pdata_tok (k : Kind) (s : Bytes) (d : DataSpec) : DataSpec :=
  match specToken k s with
  | some e => .item e.consumed e.type e.payloadOff e.payloadLen
  | none => d

def pdata_sd5 (s : Bytes) : DataSpec :=
  match specBlock s with
  | .valid h n => .item (h + n) .block h n
  | .incomplete => .swallow
  | .invalid => pdata_tok .expression s .none

def pdata_sd3 (s : Bytes) : DataSpec :=
  match specToken .decimal s with
  | some e =>
    let w := wsLen (s.drop e.consumed)
    match specToken .suffix (s.drop (e.consumed + w)) with
    | some sf => .item (e.consumed + w + sf.consumed) .decimalWithSuffix 0 (e.consumed + w + sf.consumed)
    | none => .item e.consumed .decimal 0 e.consumed
  | none => pdata_tok .string s (pdata_sd5 s)

theorem pdata_specData_eq (s : Bytes) :
    specData s = pdata_tok .nondecimal s (pdata_tok .chr s (pdata_sd3 s)) := by
  unfold specData pdata_tok pdata_sd3 pdata_tok pdata_sd5 pdata_tok
  simp only []
  cases specToken .nondecimal s <;> cases specToken .chr s <;> cases specToken .decimal s <;>
    cases specToken .string s <;> cases specBlock s <;> cases specToken .expression s <;> rfl

/-- what the cascade started at `q` (after the leading white space) returns -/
def pdata_Rel (buf : Bytes) (q : Nat) (d : DataSpec) (c : Nat × Token × Int) : Prop :=
  match d with
  | .item n t po pl => ∃ w : Nat, c.1 = q + n + w ∧ c.2.2 = (n : Int) + w ∧ c.2.1 = ⟨t, q + po, pl⟩ ∧
      w + wsLen (buf.drop (q + n + w)) = wsLen (buf.drop (q + n)) ∧ q + n + w ≤ buf.length
  | .swallow => c.2.1.type = .unknown ∧ c.1 = buf.length
  | .none => c.2.1.type = .unknown ∧ c.2.1.len = 0 ∧ c.1 = q ∧ c.2.2 = 0

/-- one ordinary stage: try a recogniser, otherwise go on at the same place -/
theorem pdata_step {k : Kind} {buf : Bytes} {q : Nat} {r : Nat × Token × Int} (hk : k ≠ .block)
    (hA : Agrees k buf q r) (hpos : ∀ e, specToken k (buf.drop q) = some e → 0 < e.consumed)
    {d : DataSpec} {next : Nat → Nat × Token × Int} (hrel : pdata_Rel buf q d (next q)) :
    pdata_Rel buf q (pdata_tok k (buf.drop q) d) (if r.2.2 != 0 then r else next r.1) := by
  unfold pdata_tok
  cases he : specToken k (buf.drop q) with
  | some e =>
    obtain ⟨h1, h2, h3, h4⟩ := pdata_agrees_some hA he
    have := hpos e he
    have hne : (r.2.2 != 0) = true := by simp [h2]; omega
    rw [if_pos hne]
    exact ⟨0, by omega, by omega, h3, by simp, by omega⟩
  | none =>
    obtain ⟨h1, h2, h3, h4⟩ := pdata_agrees_none hA he
    have hne : ¬ (r.2.2 != 0) = true := by simp [h1]
    rw [if_neg hne, h4, if_neg (fun h => hk h.1)]
    exact hrel

theorem pdata_core6_spec (buf : Bytes) (q : Nat) (h : q ≤ buf.length) :
    pdata_Rel buf q (pdata_tok .expression (buf.drop q) .none) (pdata_core6 buf q) := by
  have hA := expression_spec buf q h
  unfold pdata_tok pdata_core6
  cases he : specToken .expression (buf.drop q) with
  | some e =>
    obtain ⟨h1, h2, h3, h4⟩ := pdata_agrees_some hA he
    exact ⟨0, by omega, by omega, h3, by simp, by omega⟩
  | none =>
    obtain ⟨h1, h2, h3, h4⟩ := pdata_agrees_none hA he
    rw [if_neg (fun h => by cases h.1)] at h4
    exact ⟨h2, h3, h4, h1⟩

theorem pdata_expression_nil : specToken .expression [] = none := by decide

theorem pdata_core6_end (buf : Bytes) :
    (pdata_core6 buf buf.length).2.1.type = .unknown ∧ (pdata_core6 buf buf.length).1 = buf.length := by
  have hA := expression_spec buf buf.length (Nat.le_refl _)
  have he : specToken .expression (buf.drop buf.length) = none := by
    rw [List.drop_length]; exact pdata_expression_nil
  obtain ⟨h1, h2, h3, h4⟩ := pdata_agrees_none hA he
  rw [if_neg (fun h => by cases h.1)] at h4
  exact ⟨h2, h4⟩

theorem pdata_core5_spec (buf : Bytes) (q : Nat) (h : q ≤ buf.length) :
    pdata_Rel buf q (pdata_sd5 (buf.drop q)) (pdata_core5 buf q) := by
  have hA := block_spec buf q h
  unfold pdata_sd5 pdata_core5
  cases hb : specBlock (buf.drop q) with
  | valid hl n =>
    have he : specToken .block (buf.drop q) = some ⟨hl + n, .block, hl, n⟩ := by
      simp only [specToken, hb]
    obtain ⟨h1, h2, h3, h4⟩ := pdata_agrees_some hA he
    have := pdata_block_valid hb
    simp only [] at h1 h2 h3 h4
    have hne : ((lexBlock buf q).2.2 != 0) = true := by simp [h2]; omega
    simp only [hne, if_true]
    exact ⟨0, by omega, by omega, h3, by simp, by omega⟩
  | incomplete =>
    have he : specToken .block (buf.drop q) = none := by
      simp only [specToken, hb]
    obtain ⟨h1, h2, h3, h4⟩ := pdata_agrees_none hA he
    rw [if_pos ⟨rfl, hb⟩] at h4
    have hne : ¬ ((lexBlock buf q).2.2 != 0) = true := by simp [h1]
    simp only [hne, h4]
    exact pdata_core6_end buf
  | invalid =>
    have he : specToken .block (buf.drop q) = none := by
      simp only [specToken, hb]
    obtain ⟨h1, h2, h3, h4⟩ := pdata_agrees_none hA he
    rw [if_neg (fun h => by rw [hb] at h; cases h.2)] at h4
    have hne : ¬ ((lexBlock buf q).2.2 != 0) = true := by simp [h1]
    simp only [hne, h4]
    exact pdata_core6_spec buf q h

theorem pdata_core4_spec (buf : Bytes) (q : Nat) (h : q ≤ buf.length) :
    pdata_Rel buf q (pdata_tok .string (buf.drop q) (pdata_sd5 (buf.drop q))) (pdata_core4 buf q) :=
  pdata_step (k := .string) (by decide) (string_spec buf q h) (fun _ he => pdata_string_some he)
    (next := pdata_core5 buf) (pdata_core5_spec buf q h)

theorem pdata_dec_spec (buf : Bytes) (q n : Nat) (r3 : Nat × Token × Int)
    (h1 : r3.1 = q + n) (h2 : r3.2.2 = n) (h3 : r3.2.1 = ⟨.decimal, q, n⟩) (h4 : q + n ≤ buf.length) :
    pdata_Rel buf q
      (match specToken .suffix ((buf.drop q).drop (n + wsLen ((buf.drop q).drop n))) with
        | some sf => .item (n + wsLen ((buf.drop q).drop n) + sf.consumed) .decimalWithSuffix 0
            (n + wsLen ((buf.drop q).drop n) + sf.consumed)
        | none => .item n .decimal 0 n)
      (pdata_dec buf r3) := by
  have e1 : (buf.drop q).drop n = buf.drop (q + n) := by rw [List.drop_drop]
  rw [e1]
  generalize hw : wsLen (buf.drop (q + n)) = w
  have e2 : (buf.drop q).drop (n + w) = buf.drop (q + n + w) := by rw [List.drop_drop, Nat.add_assoc]
  rw [e2]
  obtain ⟨a1, a2, a3⟩ := pdata_ws buf (q + n) h4
  rw [hw] at a1 a2 a3
  have hA := suffix_spec buf (q + n + w) a3
  unfold pdata_dec
  simp only [h1, a1, a2, h2, h3]
  cases he : specToken .suffix (buf.drop (q + n + w)) with
  | some sf =>
    obtain ⟨b1, b2, b3, b4⟩ := pdata_agrees_some hA he
    have := (pdata_suffix_some he).1
    have hgt : (sf.consumed : Int) > 0 := by omega
    simp only [b1, b2, hgt, if_true]
    refine ⟨0, by omega, by push_cast; omega, ?_, by simp, by omega⟩
    simp only [Nat.add_zero]
    push_cast
    rfl
  | none =>
    obtain ⟨b1, b2, b3, b4⟩ := pdata_agrees_none hA he
    rw [if_neg (fun h => by cases h.1)] at b4
    have hgt : ¬ (0 : Int) > 0 := by omega
    simp only [b1, b4, hgt, if_false]
    refine ⟨w, rfl, rfl, rfl, ?_, a3⟩
    have := pdata_wsLen_drop_wsLen (buf.drop (q + n))
    rw [hw, List.drop_drop] at this
    omega

theorem pdata_core3_spec (buf : Bytes) (q : Nat) (h : q ≤ buf.length) :
    pdata_Rel buf q (pdata_sd3 (buf.drop q)) (pdata_core3 buf q) := by
  have hA := decimal_spec buf q h
  unfold pdata_sd3 pdata_core3
  cases he : specToken .decimal (buf.drop q) with
  | some e =>
    obtain ⟨h1, h2, h3, h4⟩ := pdata_agrees_some hA he
    obtain ⟨hpos, hee⟩ := pdata_decimal_some he
    rw [hee] at h3
    have hne : ((lexDecimal buf q).2.2 != 0) = true := by simp [h2]; omega
    simp only [hne, if_true]
    exact pdata_dec_spec buf q e.consumed _ h1 h2 h3 h4
  | none =>
    obtain ⟨h1, h2, h3, h4⟩ := pdata_agrees_none hA he
    rw [if_neg (fun h => by cases h.1)] at h4
    have hne : ¬ ((lexDecimal buf q).2.2 != 0) = true := by simp [h1]
    simp only [hne, h4]
    exact pdata_core4_spec buf q h

theorem pdata_core2_spec (buf : Bytes) (q : Nat) (h : q ≤ buf.length) :
    pdata_Rel buf q (pdata_tok .chr (buf.drop q) (pdata_sd3 (buf.drop q))) (pdata_core2 buf q) :=
  pdata_step (k := .chr) (by decide) (characterData_spec buf q h) (fun _ he => (pdata_chr_some he).1)
    (next := pdata_core3 buf) (pdata_core3_spec buf q h)

theorem pdata_core1_spec (buf : Bytes) (q : Nat) (h : q ≤ buf.length) :
    pdata_Rel buf q (specData (buf.drop q)) (pdata_core1 buf q) := by
  rw [pdata_specData_eq]
  exact pdata_step (k := .nondecimal) (by decide) (nondecimal_spec buf q h) (fun _ he => pdata_nondecimal_some he)
    (next := pdata_core2 buf) (pdata_core2_spec buf q h)

theorem pdata_main (buf : Bytes) (pos : Nat) (h : pos ≤ buf.length)
    (r : Nat × Token × Int) (hr : r = parseProgramData buf pos) (s : Bytes) (hs : s = buf.drop pos)
    (w0 : Nat) (hw : w0 = wsLen s) :
    match specData (s.drop w0) with
    | .item n t po pl =>
      let w1 := wsLen (s.drop (w0 + n))
      r.1 = pos + w0 + n + w1 ∧ r.2.2 = w0 + n + w1 ∧ r.2.1 = ⟨t, pos + w0 + po, pl⟩ ∧ pos + w0 + n + w1 ≤ buf.length
    | .swallow => r.2.1.type = .unknown ∧ r.1 = buf.length
    | .none => r.2.1.type = .unknown ∧ r.2.1.len = 0 ∧ r.1 = pos + w0 ∧ r.2.2 = w0 := by
  subst hs
  obtain ⟨a1, a2, a3⟩ := pdata_ws buf pos h
  rw [← hw] at a1 a2 a3
  have hz := pdata_wsLen_drop_wsLen (buf.drop pos)
  rw [← hw, List.drop_drop] at hz
  have hc := pdata_core1_spec buf (pos + w0) a3
  rw [pdata_parse_eq] at hr
  simp only [a1, a2] at hr
  have e0 : (buf.drop pos).drop w0 = buf.drop (pos + w0) := by rw [List.drop_drop]
  rw [e0]
  generalize pdata_core1 buf (pos + w0) = c at hc hr
  generalize specData (buf.drop (pos + w0)) = d at hc
  subst hr
  cases d with
  | item n t po pl =>
    obtain ⟨w, c1, c2, c3, c4, c5⟩ := hc
    have e1 : (buf.drop pos).drop (w0 + n) = buf.drop (pos + w0 + n) := by rw [List.drop_drop, Nat.add_assoc]
    simp only [e1, c1, c2, c3]
    obtain ⟨b1, b2, b3⟩ := pdata_ws buf (pos + w0 + n + w) c5
    rw [b1, b2]
    refine ⟨by omega, by omega, trivial, by omega⟩
  | swallow =>
    obtain ⟨c1, c2⟩ := hc
    obtain ⟨b1, b2, b3⟩ := pdata_ws buf buf.length (Nat.le_refl _)
    simp only [c1, c2, b1]
    refine ⟨trivial, by omega⟩
  | none =>
    obtain ⟨c1, c2, c3, c4⟩ := hc
    obtain ⟨b1, b2, b3⟩ := pdata_ws buf (pos + w0) a3
    simp only [c1, c2, c3, c4, b1, b2, hz]
    refine ⟨trivial, trivial, by omega, by omega⟩

theorem programData_spec (buf : Bytes) (pos : Nat) (h : pos ≤ buf.length) :
    let r := parseProgramData buf pos
    let s := buf.drop pos
    let w0 := wsLen s
    match specData (s.drop w0) with
    | .item n t po pl =>
      let w1 := wsLen (s.drop (w0 + n))
      r.1 = pos + w0 + n + w1 ∧ r.2.2 = w0 + n + w1 ∧ r.2.1 = ⟨t, pos + w0 + po, pl⟩ ∧ pos + w0 + n + w1 ≤ buf.length
    | .swallow => r.2.1.type = .unknown ∧ r.1 = buf.length
    | .none => r.2.1.type = .unknown ∧ r.2.1.len = 0 ∧ r.1 = pos + w0 ∧ r.2.2 = w0 := by
  intro r s w0
  exact pdata_main buf pos h r rfl s rfl w0 rfl

/-! ## unit -/
/-! ## consequences of `Agrees` -/

theorem unit_agrees_some {k : Kind} {buf : Bytes} {pos : Nat} {r : Nat × Token × Int} {e : Expect}
    (h : Agrees k buf pos r) (he : specToken k (buf.drop pos) = some e) :
    r.1 = pos + e.consumed ∧ r.2.2 = e.consumed ∧ r.2.1 = ⟨e.type, pos + e.payloadOff, e.payloadLen⟩ ∧
      pos + e.consumed ≤ buf.length := by
  unfold Agrees at h
  rw [he] at h
  exact h

theorem unit_agrees_none {k : Kind} {buf : Bytes} {pos : Nat} {r : Nat × Token × Int}
    (h : Agrees k buf pos r) (he : specToken k (buf.drop pos) = none) :
    r.2.2 = 0 ∧ r.2.1.type = .unknown ∧ r.2.1.len = 0 ∧
      r.1 = (if k = .block ∧ specBlock (buf.drop pos) = .incomplete then buf.length else pos) := by
  unfold Agrees at h
  rw [he] at h
  exact h

/-! ## white space -/

theorem unit_wsLen_eq_tw (s : Bytes) : wsLen s = tw isWs s := by
  have hk : specToken .ws s = plainSpec wsRe .ws s := rfl
  unfold wsLen
  rw [hk]
  by_cases hn : 0 < tw isWs s
  · have : plainSpec wsRe .ws s = some ⟨tw isWs s, .ws, 0, tw isWs s⟩ :=
      plainSpec_some hn (PM_plus_chr.2 ⟨hn, Nat.le_refl _⟩) (fun m hm => (PM_plus_chr.1 hm).2)
    rw [this]; rfl
  · have : plainSpec wsRe .ws s = none :=
      plainSpec_none (fun m hm hP => by have := (PM_plus_chr.1 hP).2; omega)
    rw [this]
    simp; omega

theorem unit_wsLen_nil : wsLen [] = 0 := by
  rw [unit_wsLen_eq_tw]; rfl

theorem unit_wsLen_le (s : Bytes) : wsLen s ≤ s.length := by
  rw [unit_wsLen_eq_tw]; exact tw_le_length _ _

theorem unit_ws_bound (buf : Bytes) (pos : Nat) (h : pos ≤ buf.length) :
    pos + wsLen (buf.drop pos) ≤ buf.length := by
  have := unit_wsLen_le (buf.drop pos)
  simp at this; omega

/-- the white space recogniser computes `wsLen` -/
theorem unit_ws (buf : Bytes) (pos : Nat) :
    lexWhiteSpace buf pos =
      (pos + wsLen (buf.drop pos),
       Token.mk (if wsLen (buf.drop pos) > 0 then .ws else .unknown) pos (wsLen (buf.drop pos)),
       (wsLen (buf.drop pos) : Int)) := by
  rw [unit_wsLen_eq_tw]
  unfold lexWhiteSpace
  lex_rel
  exact plain_result_eq rfl

/-! ## comma, semicolon -/

theorem unit_oneChar (buf : Bytes) (pos : Nat) (ch : UInt8) (ty : TokType) :
    lexOneChar buf pos ch ty =
      if (buf.drop pos).head? = some ch then (pos + 1, Token.mk ty pos 1, 1) else (pos, Token.mk .unknown pos 0, 0) := by
  unfold lexOneChar
  rw [peekP_eq]
  by_cases hh : hd (buf.drop pos) (· == ch) = true
  · rw [if_pos hh, if_pos (hd_eq_iff_head?.1 hh)]; rfl
  · rw [if_neg hh, if_neg (fun h => hh (hd_eq_iff_head?.2 h))]; rfl

theorem unit_head_lt {buf : Bytes} {pos : Nat} {ch : UInt8} (h : (buf.drop pos).head? = some ch) :
    pos + 1 ≤ buf.length := by
  have := hd_drop_length (hd_eq_iff_head?.2 h)
  omega


/-! ## facts about the token specification -/

theorem unit_header_some {s : Bytes} {e : Expect} (h : specToken .header s = some e) :
    0 < e.consumed ∧ e.payloadOff = 0 ∧ e.payloadLen = e.consumed ∧ e.type ≠ .invalid ∧ e.type ≠ .unknown := by
  simp only [specToken] at h
  generalize List.foldl max 0 _ = best at h
  split at h
  · cases h
  · rename_i hb
    split at h
    · cases h
      refine ⟨by simp; omega, rfl, rfl, ?_, ?_⟩ <;> simp only <;> split <;> split <;> simp
    · split at h <;> cases h <;> exact ⟨by simp; omega, rfl, rfl, by simp, by simp⟩

theorem unit_plain_some {re : Re} {ty : TokType} {s : Bytes} {e : Expect} (h : plainSpec re ty s = some e) :
    0 < e.consumed ∧ e.type = ty := by
  unfold plainSpec at h
  split at h
  · split at h
    · cases h; simp; assumption
    · cases h
  · cases h

theorem unit_nondecimal_some {s : Bytes} {e : Expect} (h : specToken .nondecimal s = some e) :
    e.type ≠ .unknown := by
  simp only [specToken] at h
  cases hx : hexnum.longest s <;> cases ho : octnum.longest s <;> cases hb : binnum.longest s <;>
    simp [hx, ho, hb, Option.orElse] at h <;> subst h <;> simp

theorem unit_string_some {s : Bytes} {e : Expect} (h : specToken .string s = some e) :
    e.type ≠ .unknown := by
  simp only [specToken] at h
  cases hx : longestString 34 s <;> cases ho : longestString 39 s <;>
    simp [hx, ho] at h <;> subst h <;> simp

theorem unit_specData_item {s : Bytes} {n : Nat} {t : TokType} {po pl : Nat}
    (h : specData s = .item n t po pl) : t ≠ .unknown := by
  unfold specData at h
  simp only [] at h
  cases h1 : specToken .nondecimal s with
  | some e =>
    simp only [h1] at h
    cases h; exact unit_nondecimal_some h1
  | none =>
    simp only [h1] at h
    cases h2 : specToken .chr s with
    | some e =>
      simp only [h2] at h
      cases h
      rw [(unit_plain_some (re := mnemonic) h2).2]; simp
    | none =>
      simp only [h2] at h
      cases h3 : specToken .decimal s with
      | some e =>
        simp only [h3] at h
        split at h <;> cases h <;> simp
      | none =>
        simp only [h3] at h
        cases h4 : specToken .string s with
        | some e =>
          simp only [h4] at h
          cases h; exact unit_string_some h4
        | none =>
          simp only [h4] at h
          cases h5 : specBlock s with
          | valid a b => simp only [h5] at h; cases h; simp
          | incomplete => simp only [h5] at h; cases h
          | invalid =>
            simp only [h5] at h
            cases h6 : specToken .expression s with
            | some e =>
              simp only [h6] at h
              cases h
              rw [(unit_plain_some (re := expression) h6).2]; simp
            | none => simp only [h6] at h; cases h

theorem unit_specData_swallow {s : Bytes} (h : specData s = .swallow) :
    specToken .nondecimal s = none ∧ specToken .chr s = none ∧ specToken .decimal s = none ∧
    specToken .string s = none ∧ specBlock s = .incomplete := by
  unfold specData at h
  simp only [] at h
  cases h1 : specToken .nondecimal s with
  | some e => simp only [h1] at h; cases h
  | none =>
    simp only [h1] at h
    cases h2 : specToken .chr s with
    | some e => simp only [h2] at h; cases h
    | none =>
      simp only [h2] at h
      cases h3 : specToken .decimal s with
      | some e =>
        simp only [h3] at h
        split at h <;> cases h
      | none =>
        simp only [h3] at h
        cases h4 : specToken .string s with
        | some e => simp only [h4] at h; cases h
        | none =>
          simp only [h4] at h
          cases h5 : specBlock s with
          | valid a b => simp only [h5] at h; cases h
          | incomplete => exact ⟨rfl, rfl, rfl, rfl, rfl⟩
          | invalid =>
            simp only [h5] at h
            cases h6 : specToken .expression s with
            | some e => simp only [h6] at h; cases h
            | none => simp only [h6] at h; cases h



theorem unit_agrees_none' {k : Kind} {buf : Bytes} {pos : Nat} {r : Nat × Token × Int}
    (h : Agrees k buf pos r) (he : specToken k (buf.drop pos) = none) (hk : k ≠ .block) :
    r.2.2 = 0 ∧ r.1 = pos ∧ r.2.1.type = .unknown := by
  have := unit_agrees_none h he
  simp only [hk, false_and, if_false] at this
  exact ⟨this.1, this.2.2.2, this.2.1⟩

theorem unit_specBlock_incomplete_length {s : Bytes} (h : specBlock s = .incomplete) : 1 ≤ s.length := by
  cases s with
  | nil => simp [specBlock] at h
  | cons b s => simp

/-- the swallow case of `parseProgramData` (a definite-length block that has not arrived completely):
the cursor is at the end, nothing is reported, and the return value counts the leading blanks only -/
theorem programData_swallow (buf : Bytes) (pos : Nat) (h : pos ≤ buf.length)
    (hs : specData (buf.drop (pos + wsLen (buf.drop pos))) = .swallow) :
    (parseProgramData buf pos).1 = buf.length ∧ (parseProgramData buf pos).2.1.type = .unknown ∧
    (parseProgramData buf pos).2.2 = wsLen (buf.drop pos) ∧ pos + wsLen (buf.drop pos) + 1 ≤ buf.length := by
  have hp0 := unit_ws_bound buf pos h
  generalize hw : wsLen (buf.drop pos) = w0 at hs hp0
  obtain ⟨e1, e2, e3, e4, e5⟩ := unit_specData_swallow hs
  obtain ⟨a1, b1, _⟩ := unit_agrees_none' (nondecimal_spec buf (pos + w0) hp0) e1 (by decide)
  obtain ⟨a2, b2, _⟩ := unit_agrees_none' (characterData_spec buf (pos + w0) hp0) e2 (by decide)
  obtain ⟨a3, b3, _⟩ := unit_agrees_none' (decimal_spec buf (pos + w0) hp0) e3 (by decide)
  obtain ⟨a4, b4, _⟩ := unit_agrees_none' (string_spec buf (pos + w0) hp0) e4 (by decide)
  have e5' : specToken .block (buf.drop (pos + w0)) = none := by
    simp only [specToken, e5]
  obtain ⟨a5, _, _, b5⟩ := unit_agrees_none (block_spec buf (pos + w0) hp0) e5'
  simp only [e5, and_self, if_true] at b5
  have e6 : specToken .expression (buf.drop buf.length) = none := by
    rw [List.drop_length]; rfl
  obtain ⟨a6, b6, c6⟩ := unit_agrees_none' (expression_spec buf buf.length (Nat.le_refl _)) e6 (by decide)
  have hlen := unit_specBlock_incomplete_length e5
  simp only [List.length_drop] at hlen
  have hwe : wsLen (buf.drop buf.length) = 0 := by rw [List.drop_length]; exact unit_wsLen_nil
  unfold parseProgramData
  rw [unit_ws, hw]
  simp only [a1, b1, a2, b2, a3, b3, a4, b4, a5, b5, a6, b6, c6, unit_ws, hwe, bne_self_eq_false, Bool.false_eq_true, if_false]
  refine ⟨by omega, trivial, by omega, by omega⟩


/-! ## the data list -/

theorem unit_pd_item {buf : Bytes} {pos : Nat} (h : pos ≤ buf.length) {n : Nat} {t : TokType} {po pl : Nat}
    (hs : specData (buf.drop (pos + wsLen (buf.drop pos))) = .item n t po pl) :
    (parseProgramData buf pos).1 = pos + wsLen (buf.drop pos) + n + wsLen (buf.drop (pos + wsLen (buf.drop pos) + n)) ∧
    (parseProgramData buf pos).2.2 = ((wsLen (buf.drop pos) + n + wsLen (buf.drop (pos + wsLen (buf.drop pos) + n)) : Nat) : Int) ∧
    (parseProgramData buf pos).2.1.type = t ∧
    pos + wsLen (buf.drop pos) + n + wsLen (buf.drop (pos + wsLen (buf.drop pos) + n)) ≤ buf.length := by
  have := programData_spec buf pos h
  simp only [List.drop_drop] at this
  rw [hs] at this
  simp only [← Nat.add_assoc] at this
  obtain ⟨h1, h2, h3, h4⟩ := this
  refine ⟨h1, ?_, by rw [h3], h4⟩
  rw [h2]; simp

theorem unit_pd_none {buf : Bytes} {pos : Nat} (h : pos ≤ buf.length)
    (hs : specData (buf.drop (pos + wsLen (buf.drop pos))) = .none) :
    (parseProgramData buf pos).1 = pos + wsLen (buf.drop pos) ∧
    (parseProgramData buf pos).2.2 = (wsLen (buf.drop pos) : Int) ∧
    (parseProgramData buf pos).2.1.type = .unknown := by
  have := programData_spec buf pos h
  simp only [List.drop_drop] at this
  rw [hs] at this
  exact ⟨this.2.2.1, this.2.2.2, this.1⟩



theorem unit_loop_step (buf : Bytes) (fuel pos : Nat) (tlen result cnt : Int) :
    allDataLoop buf (fuel+1) pos tlen result cnt =
      if (parseProgramData buf pos).2.1.type ≠ .unknown then
        if (buf.drop (parseProgramData buf pos).1).head? = some 44 then
          allDataLoop buf fuel ((parseProgramData buf pos).1 + 1) (tlen + result + (parseProgramData buf pos).2.2) 1 (cnt + 1)
        else ⟨(parseProgramData buf pos).1, mkTok .allProgramData 0 (tlen + result + (parseProgramData buf pos).2.2), cnt + 1⟩
      else ⟨(parseProgramData buf pos).1, mkTok .unknown 0 0,
            if cnt = 0 ∧ ((parseProgramData buf pos).1 : Int) = pos + (parseProgramData buf pos).2.2 then 0 else -1⟩ := by
  rw [allDataLoop]
  generalize parseProgramData buf pos = x
  obtain ⟨p1, tmp, r⟩ := x
  simp only [lexComma, unit_oneChar]
  by_cases ht : tmp.type = .unknown
  · simp [ht]
  · by_cases hc : (buf.drop p1).head? = some 44
    · simp only [hc, if_true]; simp [ht]
    · simp only [hc, if_false]; simp [ht]

def unit_listRes : ListSpec → Nat × Int
  | .ok c n => (c, n)
  | .bad c => (c, -1)

theorem unit_specList_step (fuel : Nat) (s : Bytes) (off cnt : Nat) :
    specList (fuel+1) s off cnt =
      match specData (s.drop (off + wsLen (s.drop off))) with
      | .item n _ _ _ =>
        if (s.drop (off + wsLen (s.drop off) + n + wsLen (s.drop (off + wsLen (s.drop off) + n)))).head? = some 44 then
          specList fuel s (off + wsLen (s.drop off) + n + wsLen (s.drop (off + wsLen (s.drop off) + n)) + 1) (cnt + 1)
        else .ok (off + wsLen (s.drop off) + n + wsLen (s.drop (off + wsLen (s.drop off) + n))) (cnt + 1)
      | .swallow => .bad s.length
      | .none => if cnt = 0 then .ok (off + wsLen (s.drop off)) 0 else .bad (off + wsLen (s.drop off)) := by
  rw [specList]
  simp only [beq_iff_eq]
  rfl

theorem unit_loop (buf : Bytes) (fuel : Nat) : ∀ (fuel' pos : Nat) (tlen result : Int) (k : Nat),
    pos ≤ buf.length → buf.length - pos + 1 ≤ fuel → buf.length - pos + 1 ≤ fuel' →
    ((allDataLoop buf fuel pos tlen result k).pos, (allDataLoop buf fuel pos tlen result k).paramCount) =
        unit_listRes (specList fuel' buf pos k) ∧
      pos ≤ (allDataLoop buf fuel pos tlen result k).pos ∧ (allDataLoop buf fuel pos tlen result k).pos ≤ buf.length := by
  induction fuel with
  | zero => intro fuel' pos tlen result k h1 h2; omega
  | succ fuel ih =>
    intro fuel' pos tlen result k h1 h2 h3
    cases fuel' with
    | zero => omega
    | succ fuel' =>
      rw [unit_loop_step, unit_specList_step]
      cases hd : specData (buf.drop (pos + wsLen (buf.drop pos))) with
      | item n t po pl =>
        obtain ⟨e1, e2, e3, e4⟩ := unit_pd_item h1 hd
        have ht := unit_specData_item hd
        simp only [e3, ht, ne_eq, not_false_eq_true, if_true, e1]
        by_cases hc : (buf.drop (pos + wsLen (buf.drop pos) + n + wsLen (buf.drop (pos + wsLen (buf.drop pos) + n)))).head? = some 44
        · rw [if_pos hc, if_pos hc]
          have hlt := unit_head_lt hc
          have hk : (k : Int) + 1 = ((k + 1 : Nat) : Int) := by omega
          rw [hk]
          have := ih fuel' (pos + wsLen (buf.drop pos) + n + wsLen (buf.drop (pos + wsLen (buf.drop pos) + n)) + 1)
            (tlen + result + (parseProgramData buf pos).2.2) 1 (k + 1) hlt (by omega) (by omega)
          refine ⟨this.1, by omega, this.2.2⟩
        · rw [if_neg hc, if_neg hc]
          refine ⟨?_, by simp only; omega, e4⟩
          simp [unit_listRes]
      | swallow =>
        obtain ⟨e1, e2, e3, e4⟩ := programData_swallow buf pos h1 hd
        simp only [e1, e2, e3, ne_eq, not_true_eq_false, if_false]
        refine ⟨?_, h1, Nat.le_refl _⟩
        simp [unit_listRes]
        intro _; omega
      | none =>
        obtain ⟨e1, e2, e3⟩ := unit_pd_none h1 hd
        have hb := unit_ws_bound buf pos h1
        simp only [e1, e2, e3, ne_eq, not_true_eq_false, if_false]
        refine ⟨?_, by omega, hb⟩
        by_cases hk : k = 0
        · subst hk; simp [unit_listRes]
        · simp [unit_listRes, hk]


theorem unit_allData (buf : Bytes) (pos : Nat) (h : pos ≤ buf.length) :
    ((parseAllProgramData buf pos).pos, (parseAllProgramData buf pos).paramCount) =
        unit_listRes (specList (buf.length + 1) buf pos 0) ∧
      pos ≤ (parseAllProgramData buf pos).pos ∧ (parseAllProgramData buf pos).pos ≤ buf.length := by
  unfold parseAllProgramData
  exact unit_loop buf _ _ pos (-1) 1 0 h (by omega) (by omega)

/-! ## the message unit -/

/-- the terminator part of `detectUnit` -/
def unit_tail (buf : Bytes) (hdr : Token) (x : Nat × Token × Int) : Parser.Unit :=
  let (p3, data, n) := x
  let (p4, tnl, rnl) := lexNewLine buf p3
  let (p5, tlast, r) : Nat × Token × Int :=
    if rnl != 0 then (p4, tnl, rnl) else
      let (p, t, rs) := lexSemicolon buf p4
      (p, t, rs)
  let (p6, hdr, data) :=
    if !iseos buf p5 && r == 0 then
      (p5 + 1, { hdr with len := 1, type := TokType.invalid }, mkTok .unknown 0 0)
    else (p5, hdr, data)
  let term := if tlast.type == .semicolon then Termination.semicolon
              else if tlast.type == .nl then Termination.nl else Termination.none
  { header := hdr, data := data, nParams := n, term := term, consumed := p6 }

theorem unit_detect_eq (buf : Bytes) :
    detectUnit buf =
      let (p0, _, _) := lexWhiteSpace buf 0
      let (p1, hdr, hlen) := lexProgramHeader buf p0
      let (p2, _, wlen) := lexWhiteSpace buf p1
      unit_tail buf hdr
        (if hlen ≥ 0 then
          if wlen > 0 then
            let a := parseAllProgramData buf p2
            (a.pos, a.tok, a.paramCount)
          else (p2, mkTok .unknown p2 0, 0)
        else (p2, mkTok .unknown 0 0, 0)) := by
  unfold detectUnit unit_tail
  generalize lexWhiteSpace buf 0 = x0
  obtain ⟨p0, t0, r0⟩ := x0
  simp only []

/-- the terminator part of `specUnit` -/
def unit_specTail (s : Bytes) (w0 hl : Nat) (ht : TokType) (x : Nat × Int) : UnitSpec :=
  let (p2, n) := x
  let rest := s.drop p2
  match specToken .nl rest with
  | some e => ⟨p2 + e.consumed, .nl, true, w0, hl, ht, n⟩
  | none =>
    if rest.head? == some 59 then ⟨p2 + 1, .semicolon, true, w0, hl, ht, n⟩
    else if rest.isEmpty then ⟨p2, .none, true, w0, hl, ht, n⟩
    else ⟨p2 + 1, .none, false, w0, 1, .invalid, n⟩

def unit_hdr : Option Expect → Nat × TokType
  | some e => (e.consumed, e.type)
  | none => (0, TokType.unknown)

theorem unit_spec_eq (s : Bytes) (hl : Nat) (ht : TokType) (x : Nat × Int)
    (hh : unit_hdr (specToken .header (s.drop (wsLen s))) = (hl, ht))
    (hx : (if wsLen (s.drop (wsLen s + hl)) > 0 then
            unit_listRes (specList (s.length + 1) s (wsLen s + hl + wsLen (s.drop (wsLen s + hl))) 0)
          else (wsLen s + hl, 0)) = x) :
    specUnit s = unit_specTail s (wsLen s) hl ht x := by
  subst hx
  unfold specUnit
  simp only []
  cases hh0 : specToken Kind.header (List.drop (wsLen s) s) with
  | none =>
    rw [hh0] at hh
    simp only [unit_hdr] at hh
    cases hh
    simp only []
    by_cases hw : wsLen (List.drop (wsLen s + 0) s) > 0
    · simp only [hw, if_true]
      cases specList (s.length + 1) s (wsLen s + 0 + wsLen (List.drop (wsLen s + 0) s)) 0 <;>
        simp only [unit_listRes, unit_specTail] <;> rfl
    · simp only [hw, if_false, unit_specTail]; rfl
  | some e =>
    rw [hh0] at hh
    simp only [unit_hdr] at hh
    cases hh
    simp only []
    by_cases hw : wsLen (List.drop (wsLen s + e.consumed) s) > 0
    · simp only [hw, if_true]
      cases specList (s.length + 1) s (wsLen s + e.consumed + wsLen (List.drop (wsLen s + e.consumed) s)) 0 <;>
        simp only [unit_listRes, unit_specTail] <;> rfl
    · simp only [hw, if_false, unit_specTail]; rfl


theorem unit_header (buf : Bytes) (pos : Nat) (h : pos ≤ buf.length) :
    ∃ hl ht, unit_hdr (specToken .header (buf.drop pos)) = (hl, ht) ∧
      (lexProgramHeader buf pos).1 = pos + hl ∧ (lexProgramHeader buf pos).2.2 = (hl : Int) ∧
      (lexProgramHeader buf pos).2.1.type = ht ∧ (lexProgramHeader buf pos).2.1.len = (hl : Int) ∧
      (hl > 0 → (lexProgramHeader buf pos).2.1.ptr = pos) ∧ ht ≠ .invalid ∧ pos + hl ≤ buf.length := by
  have hA := programHeader_spec buf pos h
  cases he : specToken .header (buf.drop pos) with
  | none =>
    obtain ⟨a, b, c, d⟩ := unit_agrees_none hA he
    simp only [reduceCtorEq, false_and, if_false] at d
    exact ⟨0, .unknown, rfl, d, a, b, c, by omega, by decide, h⟩
  | some e =>
    obtain ⟨a, b, c, d⟩ := unit_agrees_some hA he
    obtain ⟨f1, f2, f3, f4, f5⟩ := unit_header_some he
    refine ⟨e.consumed, e.type, rfl, a, b, by rw [c], by rw [c, f3], ?_, f4, d⟩
    intro _; rw [c, f2]; rfl

theorem unit_nl_some {buf : Bytes} {pos : Nat} {e : Expect} (h : pos ≤ buf.length)
    (he : specToken .nl (buf.drop pos) = some e) :
    0 < e.consumed ∧ (lexNewLine buf pos).1 = pos + e.consumed ∧ (lexNewLine buf pos).2.2 = (e.consumed : Int) ∧
      (lexNewLine buf pos).2.1.type = .nl ∧ pos + e.consumed ≤ buf.length := by
  obtain ⟨a, b, c, d⟩ := unit_agrees_some (newLine_spec buf pos h) he
  obtain ⟨f1, f2⟩ := unit_plain_some (re := newline) (ty := .nl) he
  exact ⟨f1, a, b, by rw [c, f2], d⟩

theorem unit_nl_none {buf : Bytes} {pos : Nat} (h : pos ≤ buf.length)
    (he : specToken .nl (buf.drop pos) = none) :
    (lexNewLine buf pos).2.2 = 0 ∧ (lexNewLine buf pos).1 = pos ∧ (lexNewLine buf pos).2.1.type = .unknown :=
  unit_agrees_none' (newLine_spec buf pos h) he (by decide)

theorem unit_tail_spec (buf : Bytes) (hdr data : Token) (n : Int) (p w0 hl : Nat) (ht : TokType)
    (hp : p ≤ buf.length) :
    let u := unit_tail buf hdr (p, data, n)
    let e := unit_specTail buf w0 hl ht (p, n)
    u.consumed = e.consumed ∧
    (u.term.code = match e.term with | .none => 0 | .nl => 1 | .semicolon => 2) ∧
    u.nParams = n ∧ e.nParams = n ∧ e.headerOff = w0 ∧
    ((u.header = hdr ∧ e.wellFormed = true ∧ e.headerLen = hl ∧ e.headerType = ht) ∨
     (u.header.type = .invalid ∧ e.wellFormed = false)) ∧
    p ≤ u.consumed ∧ u.consumed ≤ buf.length ∧ (p < buf.length → p + 1 ≤ u.consumed) := by
  unfold unit_tail unit_specTail
  simp only []
  cases he : specToken .nl (buf.drop p) with
  | some e =>
    obtain ⟨f1, f2, f3, f4, f5⟩ := unit_nl_some hp he
    generalize lexNewLine buf p = x at f2 f3 f4
    obtain ⟨p4, tnl, rnl⟩ := x
    simp only at f2 f3 f4
    subst f2 f3
    have hne : ((e.consumed : Int) != 0) = true := by simp; omega
    have hne' : ((e.consumed : Int) == 0) = false := by simp; omega
    simp only [hne, if_true, hne', Bool.and_false, Bool.false_eq_true, if_false, f4]
    refine ⟨trivial, by decide, trivial, trivial, trivial, .inl ⟨trivial, trivial, trivial, trivial⟩, by omega, f5, by omega⟩
  | none =>
    obtain ⟨f1, f2, f3⟩ := unit_nl_none hp he
    generalize lexNewLine buf p = x at f1 f2 f3
    obtain ⟨p4, tnl, rnl⟩ := x
    simp only at f1 f2 f3
    subst f1 f2
    simp only [bne_self_eq_false, Bool.false_eq_true, if_false, lexSemicolon, unit_oneChar, beq_iff_eq]
    by_cases hc : (buf.drop p4).head? = some 59
    · have := unit_head_lt hc
      have h10 : ((1 : Int) == 0) = false := by decide
      simp only [hc, if_true, h10, Bool.and_false, Bool.false_eq_true, if_false]
      exact ⟨trivial, by decide, trivial, trivial, trivial, .inl ⟨trivial, trivial, trivial, trivial⟩, by omega, this, by omega⟩
    · have h00 : ((0 : Int) == 0) = true := by decide
      simp only [hc, if_false, h00, Bool.and_true]
      by_cases hemp : (buf.drop p4).isEmpty = true
      · have hi : iseos buf p4 = true := by
          simp only [List.isEmpty_iff, List.drop_eq_nil_iff] at hemp
          simp [iseos, hemp]
        simp only [hemp, hi, if_true, Bool.not_true, Bool.false_eq_true, if_false]
        exact ⟨trivial, by decide, trivial, trivial, trivial, .inl ⟨trivial, trivial, trivial, trivial⟩, by omega, hp, by
          simp [iseos] at hi; omega⟩
      · have hi : iseos buf p4 = false := by
          simp only [List.isEmpty_iff, List.drop_eq_nil_iff] at hemp
          simp [iseos]; omega
        simp only [hemp, hi, if_true, Bool.not_false, Bool.false_eq_true, if_false]
        exact ⟨trivial, by decide, trivial, trivial, trivial, .inr ⟨trivial, trivial⟩, by omega, by
          simp [iseos] at hi; omega, by omega⟩


theorem unit_assemble (s : Bytes) (hdr data : Token) (n : Int) (p w0 hl : Nat) (ht : TokType)
    (hp : p ≤ s.length) (h3 : hdr.type = ht) (h4 : hdr.len = (hl : Int)) (h5 : hl > 0 → hdr.ptr = w0)
    (h6 : ht ≠ .invalid) :
    let u := unit_tail s hdr (p, data, n)
    let e := unit_specTail s w0 hl ht (p, n)
    (u.consumed = e.consumed) ∧
    (u.term.code = match e.term with | .none => 0 | .nl => 1 | .semicolon => 2) ∧
    ((u.header.type = .invalid) ↔ e.wellFormed = false) ∧
    (e.wellFormed = true → u.header.type = e.headerType ∧ u.header.len = e.headerLen ∧ (e.headerLen > 0 → u.header.ptr = e.headerOff) ∧
                           u.nParams = e.nParams) ∧
    u.consumed ≤ s.length ∧ (s ≠ [] → 1 ≤ u.consumed) := by
  intro u e
  obtain ⟨t1, t2, t3, t4, t5, t6, t7, t8, t9⟩ := unit_tail_spec s hdr data n p w0 hl ht hp
  refine ⟨t1, t2, ?_, ?_, t8, ?_⟩
  · rcases t6 with ⟨b1, b2, b3, b4⟩ | ⟨b1, b2⟩
    · have : u.header.type ≠ .invalid := by
        show (unit_tail s hdr (p, data, n)).header.type ≠ .invalid
        rw [b1, h3]; exact h6
      constructor
      · intro hc; exact absurd hc this
      · intro hc
        have : (unit_specTail s w0 hl ht (p, n)).wellFormed = false := hc
        rw [b2] at this; cases this
    · exact ⟨fun _ => b2, fun _ => b1⟩
  · intro hwf
    rcases t6 with ⟨b1, b2, b3, b4⟩ | ⟨b1, b2⟩
    · show (unit_tail s hdr (p, data, n)).header.type = (unit_specTail s w0 hl ht (p, n)).headerType ∧
        (unit_tail s hdr (p, data, n)).header.len = ((unit_specTail s w0 hl ht (p, n)).headerLen : Int) ∧
        ((unit_specTail s w0 hl ht (p, n)).headerLen > 0 →
          (unit_tail s hdr (p, data, n)).header.ptr = (unit_specTail s w0 hl ht (p, n)).headerOff) ∧
        (unit_tail s hdr (p, data, n)).nParams = (unit_specTail s w0 hl ht (p, n)).nParams
      rw [b1, b3, b4, t5, t3, t4]
      exact ⟨h3, h4, h5, rfl⟩
    · have : (unit_specTail s w0 hl ht (p, n)).wellFormed = true := hwf
      rw [b2] at this; cases this
  · intro hne
    have : 0 < s.length := List.length_pos_iff.2 hne
    show 1 ≤ (unit_tail s hdr (p, data, n)).consumed
    by_cases hp0 : p < s.length
    · have := t9 hp0; omega
    · omega


theorem unit_spec (s : Bytes) :
    let u := detectUnit s
    let e := specUnit s
    (u.consumed = e.consumed) ∧
    (u.term.code = match e.term with | .none => 0 | .nl => 1 | .semicolon => 2) ∧
    ((u.header.type = .invalid) ↔ e.wellFormed = false) ∧
    (e.wellFormed = true → u.header.type = e.headerType ∧ u.header.len = e.headerLen ∧ (e.headerLen > 0 → u.header.ptr = e.headerOff) ∧
                           u.nParams = e.nParams) ∧
    u.consumed ≤ s.length ∧ (s ≠ [] → 1 ≤ u.consumed) := by
  have hw0 := unit_wsLen_le s
  obtain ⟨hl, ht, hh, a1, a2, a3, a4, a5, a6, a7⟩ := unit_header s (wsLen s) hw0
  have hb1 := unit_ws_bound s (wsLen s + hl) a7
  have hm : ∃ data n p, detectUnit s = unit_tail s (lexProgramHeader s (wsLen s)).2.1 (p, data, n) ∧
      specUnit s = unit_specTail s (wsLen s) hl ht (p, n) ∧ p ≤ s.length := by
    rw [unit_detect_eq, unit_ws]
    simp only [List.drop_zero, Nat.zero_add]
    generalize lexProgramHeader s (wsLen s) = x1 at a1 a2
    obtain ⟨p1, hdr, hlen⟩ := x1
    simp only at a1 a2
    subst a1 a2
    rw [unit_ws]
    have hge : ((hl : Int) ≥ 0) := by omega
    simp only [hge, if_true]
    by_cases hw : wsLen (s.drop (wsLen s + hl)) > 0
    · have hw' : ((wsLen (s.drop (wsLen s + hl)) : Nat) : Int) > 0 := by omega
      simp only [hw', if_true]
      obtain ⟨c1, c2, c3⟩ := unit_allData s (wsLen s + hl + wsLen (s.drop (wsLen s + hl))) hb1
      refine ⟨_, _, _, rfl, ?_, c3⟩
      apply unit_spec_eq s hl ht _ hh
      rw [if_pos hw, ← c1]
    · have hw' : ¬ ((wsLen (s.drop (wsLen s + hl)) : Nat) : Int) > 0 := by omega
      have hz : wsLen (s.drop (wsLen s + hl)) = 0 := by omega
      simp only [hw', if_false]
      refine ⟨_, _, _, rfl, ?_, hb1⟩
      apply unit_spec_eq s hl ht _ hh
      rw [if_neg hw, hz]; rfl
  obtain ⟨data, n, p, e1, e2, e3⟩ := hm
  rw [e1, e2]
  exact unit_assemble s _ data n p (wsLen s) hl ht e3 a3 a4 a5 a6

/-- `Agrees` is decidable (used for the non-vacuity examples of Props/C13.lean) -/
instance agreesDecidable (k : Kind) (buf : Bytes) (pos : Nat) (r : Nat × Token × Int) :
    Decidable (Agrees k buf pos r) := by
  unfold Agrees; split <;> infer_instance

end ScpiVerif.Lemmas.Lexer
