/-
Lemmas for C04 (numeric parameters decode to the value their literal denotes):
* the generated unit / special-number tables, by kernel evaluation plus "the first match is the row";
* the strto* specification of Model/Prim.lean on integer literals (decimal and #H / #Q / #B);
* `Spec.Float.litValue` is defined on every decimal literal of the token specification;
* the prefix strtod converts (`Prim.strtodLen`) against the literal the token specification delimits
  (closed forms `dLen` / `decimalTotal` over the suffix `mem.drop off`).

Finding recorded here (`hexfloat_counterexample`): strtod recognises hexadecimal floating constants, so for the
text "0x1" it converts three bytes (value 1) although the lexer delimits the literal "0" (followed by the suffix
"x1").  `conversion_sees_literal_partial` therefore carries the hypothesis `hx`.
-/
import ScpiVerif.Model.Ctx
import ScpiVerif.Spec.Float
import ScpiVerif.Spec.Params
import ScpiVerif.Props.C13
import ScpiVerif.Lemmas.Params
import ScpiVerif.Lemmas.ExprList

namespace ScpiVerif.Lemmas.Numeric
open ScpiVerif ScpiVerif.Lexer ScpiVerif.Spec
open ScpiVerif.Lemmas.Lexer
open ScpiVerif.Lemmas.ExprList (digVal synL sgn)

/-! ## the generated tables -/

theorem ciEq_iff {a b : Bytes} : Pattern.ciEq a b = true ↔ a.map Pattern.lower = b.map Pattern.lower := by
  simp [Pattern.ciEq]

theorem ciEq_trans' {a b c : Bytes} (h1 : Pattern.ciEq a b = true) (h2 : Pattern.ciEq a c = true) :
    Pattern.ciEq b c = true := by
  rw [ciEq_iff] at *; rw [← h1, h2]

theorem unitNames_pairwise :
    Gen.unitsDef.Pairwise (fun a b => Pattern.ciEq a.1.toUTF8.toList b.1.toUTF8.toList = false) := by
  decide +kernel

theorem unitNames_noNul : ∀ u ∈ Gen.unitsDef, ∀ x ∈ u.1.toUTF8.toList, x ≠ 0 := by decide +kernel

theorem unit_names_distinct :
    ∀ i j, i < Gen.unitsDef.length → j < Gen.unitsDef.length → i ≠ j →
      Pattern.ciEq (Gen.unitsDef[i]!).1.toUTF8.toList (Gen.unitsDef[j]!).1.toUTF8.toList = false := by
  intro i j hi hj hne
  have hp := unitNames_pairwise
  rw [List.pairwise_iff_getElem] at hp
  rw [getElem!_pos Gen.unitsDef i hi, getElem!_pos Gen.unitsDef j hj]
  rcases Nat.lt_or_gt_of_ne hne with h | h
  · exact hp i j hi hj h
  · have := hp j i hj hi h
    rw [Lemmas.Params.ciEq_comm]; exact this

theorem unit_names_lex_whole :
    ∀ u ∈ Gen.unitsDef, (Lexer.lexSuffix u.1.toUTF8.toList 0).2.2 = u.1.toUTF8.toList.length := by
  decide +kernel

theorem translateUnit_go_finds (s : Bytes) : ∀ (l : List (String × Nat × Nat × Nat)),
    l.Pairwise (fun a b => Pattern.ciEq a.1.toUTF8.toList b.1.toUTF8.toList = false) →
    (∀ u ∈ l, ∀ x ∈ u.1.toUTF8.toList, x ≠ 0) →
    ∀ u ∈ l, Pattern.ciEq s u.1.toUTF8.toList = true → Ctx.translateUnit.go s l = some u.2 := by
  intro l
  induction l with
  | nil => intro _ _ u hu; cases hu
  | cons e rest ih =>
    intro hp hn u hu hs
    obtain ⟨n, un, a, b⟩ := e
    rw [List.pairwise_cons] at hp
    simp only [Ctx.translateUnit.go]
    have hnb : Result.bytesOf n = n.toUTF8.toList := rfl
    rw [Lemmas.Params.compareStr_take s (Result.bytesOf n) s.length (Nat.le_refl _)
      (Or.inr (by rw [hnb]; exact hn _ (List.mem_cons_self))), List.take_length, hnb, Lemmas.Params.ciEq_comm]
    rcases List.mem_cons.1 hu with rfl | hu'
    · simp only [hs, if_true]
    · have hne : Pattern.ciEq s n.toUTF8.toList = false := by
        cases hc : Pattern.ciEq s n.toUTF8.toList with
        | false => rfl
        | true =>
          have := hp.1 u hu'
          rw [ciEq_trans' hc hs] at this; cases this
      rw [hne]
      simp only [Bool.false_eq_true, if_false]
      exact ih hp.2 (fun v hv => hn v (List.mem_cons_of_mem _ hv)) u hu' hs

theorem translateUnit_finds (s : Bytes) (u : String × Nat × Nat × Nat) (hu : u ∈ Gen.unitsDef)
    (hs : Pattern.ciEq s u.1.toUTF8.toList = true) :
    Ctx.translateUnit s = some (u.2.1, u.2.2.1, u.2.2.2) :=
  translateUnit_go_finds s Gen.unitsDef unitNames_pairwise unitNames_noNul u hu hs

/-- IEEE 488.2 table 7-2 prefixes (copy of `Props.C04.siPrefixes`) -/
def siPrefixes : List (String × Int) :=
  [("EX", 18), ("PE", 15), ("T", 12), ("G", 9), ("MA", 6), ("K", 3), ("M", -3), ("U", -6), ("N", -9), ("P", -12), ("F", -15), ("A", -18)]

/-- copy of `Props.C04.listedRows` -/
def listedRows : List (String × Nat × Nat) :=
  [("MNT", 1, 60), ("SEC", 1, 3600), ("MG", 1, 1000000), ("G", 1, 1000), ("TNE", 1000, 1), ("PCT", 1, 100), ("PPM", 1, 1000000), ("MIN", 60, 1), ("HR", 3600, 1)]

/-- copy of `Props.C04.explainedByPrefix` -/
def explainedByPrefix (row : String × Nat × Nat × Nat) : Bool :=
  Gen.unitsDef.any (fun base =>
    base.2.2.1 == 1 && base.2.2.2 == 1 && base.2.1 == row.2.1 &&
    siPrefixes.any (fun p =>
      row.1 == p.1 ++ base.1 &&
      (let pw : Int := if p.1 == "M" ∧ (base.1 == "OHM" ∨ base.1 == "HZ") then 6 else p.2
       if pw ≥ 0 then row.2.2.1 == 10^pw.toNat && row.2.2.2 == 1 else row.2.2.1 == 1 && row.2.2.2 == 10^(-pw).toNat)))

theorem unit_prefix_rule :
    ∀ row ∈ Gen.unitsDef, (row.2.2.1 = 1 ∧ row.2.2.2 = 1) ∨ explainedByPrefix row = true ∨
      listedRows.contains (row.1, row.2.2.1, row.2.2.2) = true := by
  decide +kernel

/-! ### special numbers -/

def shortOf (name : Bytes) : Bytes := name.takeWhile (fun b => !ScpiVerif.Lexer.isLower b)

def namesDisjoint (a b : Bytes) : Bool :=
  !Pattern.ciEq a b && !Pattern.ciEq a (shortOf b) && !Pattern.ciEq (shortOf a) b && !Pattern.ciEq (shortOf a) (shortOf b)

theorem special_pairwise :
    Gen.specialNumbersDef.Pairwise (fun a b => namesDisjoint a.1.toUTF8.toList b.1.toUTF8.toList = true) := by
  decide +kernel

theorem special_names : ∀ o ∈ Gen.specialNumbersDef, ∀ b ∈ o.1.toUTF8.toList, b ≠ 0 ∧ b ≠ 35 := by decide +kernel

theorem nameMatches_disjoint {a b s : Bytes} (hd : namesDisjoint a b = true)
    (ha : Params.nameMatches a s = true) (hb : Params.nameMatches b s = true) : False := by
  simp only [namesDisjoint, Bool.and_eq_true, Bool.not_eq_true', shortOf] at hd
  obtain ⟨⟨⟨h1, h2⟩, h3⟩, h4⟩ := hd
  simp only [Params.nameMatches, Bool.or_eq_true] at ha hb
  rcases ha with ha | ha <;> rcases hb with hb | hb
  · rw [ciEq_trans' ha hb] at h1; cases h1
  · rw [ciEq_trans' ha hb] at h2; cases h2
  · rw [ciEq_trans' ha hb] at h3; cases h3
  · rw [ciEq_trans' ha hb] at h4; cases h4

theorem lower_noNul {a b : Bytes} (h : Pattern.ciEq a b = true) (hb : ∀ x ∈ b, x ≠ 0) : ∀ x ∈ a, x ≠ 0 := by
  rw [ciEq_iff] at h
  intro x hx hx0
  have : Pattern.lower x ∈ b.map Pattern.lower := by rw [← h]; exact List.mem_map_of_mem hx
  obtain ⟨y, hy, hyx⟩ := List.mem_map.1 this
  rw [hx0] at hyx
  have : Pattern.lower y = 0 := hyx
  exact hb y hy ((Lemmas.Params.lower_eq_zero_iff y).1 this)

theorem nameMatches_noNul {name s : Bytes} (hn : ∀ x ∈ name, x ≠ 0) (h : Params.nameMatches name s = true) :
    ∀ x ∈ s, x ≠ 0 := by
  simp only [Params.nameMatches, Bool.or_eq_true] at h
  rcases h with h | h
  · exact lower_noNul h hn
  · exact lower_noNul h (fun x hx => hn x ((List.takeWhile_sublist _).subset hx))

theorem special_find (s : Bytes) (hs : ∀ b ∈ s, b ≠ 0) : ∀ (l : List (String × Int)),
    l.Pairwise (fun a b => namesDisjoint a.1.toUTF8.toList b.1.toUTF8.toList = true) →
    (∀ o ∈ l, ∀ b ∈ o.1.toUTF8.toList, b ≠ 0 ∧ b ≠ 35) →
    ∀ p ∈ l, Params.nameMatches p.1.toUTF8.toList s = true →
    ((l.map (fun p => (Result.bytesOf p.1, p.2))).find? (fun o => Ctx.matchName o.1 s)).map (·.2) = some p.2 := by
  intro l
  induction l with
  | nil => intro _ _ p hp; cases hp
  | cons e rest ih =>
    intro hpw hn p hp hm
    rw [List.pairwise_cons] at hpw
    simp only [List.map_cons, List.find?_cons]
    have hnb : Result.bytesOf e.1 = e.1.toUTF8.toList := rfl
    rw [hnb, Lemmas.Params.matchName_eq _ s (hn e List.mem_cons_self) hs]
    rcases List.mem_cons.1 hp with rfl | hp'
    · rw [hm]; rfl
    · have : Params.nameMatches e.1.toUTF8.toList s = false := by
        cases hc : Params.nameMatches e.1.toUTF8.toList s with
        | false => rfl
        | true => exact (nameMatches_disjoint (hpw.1 p hp') hc hm).elim
      rw [this]
      exact ih hpw.2 (fun o ho => hn o (List.mem_cons_of_mem _ ho)) p hp' hm

theorem special_mnemonics (s : Bytes) (p : String × Int) (hp : p ∈ Gen.specialNumbersDef)
    (hs : Params.nameMatches p.1.toUTF8.toList s = true) :
    (Ctx.specialDef.find? (fun o => Ctx.matchName o.1 s)).map (·.2) = some p.2 :=
  special_find s (nameMatches_noNul (fun x hx => (special_names p hp x hx).1) hs) Gen.specialNumbersDef
    special_pairwise special_names p hp hs

/-! ## integers -/

theorem isDigit_ge {b : UInt8} (h : isDigit b = true) : 48 ≤ b.toNat ∧ b.toNat ≤ 57 := by
  unfold isDigit at h
  simp only [Bool.and_eq_true, decide_eq_true_eq, UInt8.le_iff_toNat_le] at h
  exact h

theorem intFold_eq (ds : Bytes) (h : ∀ b ∈ ds, isDigit b = true) : ∀ (acc : Nat),
    List.foldl (fun (a : Int) (b : UInt8) => a * 10 + ((b.toNat : Int) - 48)) (acc : Int) ds = ((digVal ds acc : Nat) : Int) := by
  induction ds with
  | nil => intro acc; rfl
  | cons b r ih =>
    intro acc
    have hb := isDigit_ge (h b List.mem_cons_self)
    simp only [List.foldl_cons, digVal]
    have : (acc : Int) * 10 + ((b.toNat : Int) - 48) = ((acc * 10 + (b.toNat - 48) : Nat) : Int) := by omega
    rw [this]
    exact ih (fun x hx => h x (List.mem_cons_of_mem _ hx)) _

theorem digit_not_sign {b : UInt8} (h : isDigit b = true) : isPlusMn b = false := by
  cases h' : isPlusMn b with
  | false => rfl
  | true => rw [decimal_sign_not_digit b h'] at h; cases h

theorem intLiteral_shape {t : Bytes} {v : Int} (ht : Params.intLiteral t = some v) :
    ∃ sg ds, t = sg ++ ds ∧ (sg = [] ∨ sg = [43] ∨ sg = [45]) ∧ ds ≠ [] ∧ (∀ b ∈ ds, isDigit b = true) ∧
      v = if sg = [45] then -((digVal ds 0 : Nat) : Int) else ((digVal ds 0 : Nat) : Int) := by
  unfold Params.intLiteral at ht
  have key : ∀ (neg : Bool) (ds : Bytes),
      (if ds.isEmpty = true ∨ (!ds.all isDigit) = true then none
        else some (if neg = true then -(List.foldl (fun (a : Int) (b : UInt8) => a * 10 + ((b.toNat : Int) - 48)) 0 ds)
          else List.foldl (fun (a : Int) (b : UInt8) => a * 10 + ((b.toNat : Int) - 48)) 0 ds)) = some v →
      ds ≠ [] ∧ (∀ b ∈ ds, isDigit b = true) ∧
        v = if neg = true then -((digVal ds 0 : Nat) : Int) else ((digVal ds 0 : Nat) : Int) := by
    intro neg ds h
    split at h
    · cases h
    · rename_i hc
      simp only [List.isEmpty_iff, Bool.not_eq_true', not_or, Bool.not_eq_false, List.all_eq_true] at hc
      have := intFold_eq ds hc.2 0
      simp only [Int.natCast_zero] at this
      rw [this] at h
      exact ⟨hc.1, hc.2, (Option.some.inj h).symm⟩
  split at ht
  rename_i neg ds hm
  have := key neg ds ht
  split at hm
  · rename_i r
    cases hm
    exact ⟨[45], _, rfl, by simp, this.1, this.2.1, by simpa using this.2.2⟩
  · rename_i r
    cases hm
    exact ⟨[43], _, rfl, by simp, this.1, this.2.1, by simpa using this.2.2⟩
  · cases hm
    exact ⟨[], _, rfl, by simp, this.1, this.2.1, by simpa using this.2.2⟩

theorem hd_append_of_ne {a b : Bytes} (p : UInt8 → Bool) (h : a ≠ []) : hd (a ++ b) p = hd a p := by
  cases a with
  | nil => exact absurd rfl h
  | cons x r => rfl

theorem tw_append_all {p : UInt8 → Bool} {a b : Bytes} (ha : ∀ x ∈ a, p x = true) (hb : hd b p = false) :
    (a ++ b).takeWhile p = a := by
  rw [List.takeWhile_append_of_pos ha]
  cases b with
  | nil => simp
  | cons x r =>
    simp only [hd_cons] at hb
    simp [hb]

/-- the strto* integer syntax on sign? digits+ followed by a non-digit -/
theorem synL_lit (sg ds rest : Bytes) (hsg : sg = [] ∨ sg = [43] ∨ sg = [45]) (hds : ds ≠ [])
    (hall : ∀ b ∈ ds, isDigit b = true) (hrest : hd rest isDigit = false) :
    synL (sg ++ ds ++ rest) = (sg.length + ds.length, decide (sg = [45]), digVal ds 0) := by
  have hd0 : hd ds isPlusMn = false := by
    cases ds with
    | nil => exact absurd rfl hds
    | cons x r => exact digit_not_sign (hall x List.mem_cons_self)
  have hsgn : sgn (sg ++ ds ++ rest) = sg.length := by
    unfold sgn
    rcases hsg with rfl | rfl | rfl
    · simp only [List.nil_append, List.length_nil, hd_append_of_ne _ hds, hd0]; rfl
    · rfl
    · rfl
  have h45 : hd (sg ++ ds ++ rest) (· == 45) = decide (sg = [45]) := by
    rcases hsg with rfl | rfl | rfl
    · simp only [List.nil_append]
      rw [hd_append_of_ne _ hds]
      cases ds with
      | nil => exact absurd rfl hds
      | cons x r =>
        have := hall x List.mem_cons_self
        have h2 : isPlusMn x = false := digit_not_sign this
        simp only [isPlusMn, Bool.or_eq_false_iff] at h2
        simp [h2.2]
    · rfl
    · rfl
  unfold synL
  rw [hsgn, h45, List.append_assoc, List.drop_left, tw_append_all hall hrest]
  have : ds.length ≠ 0 := by
    intro h; exact hds (List.length_eq_zero_iff.1 h)
  simp only [this, if_false]

theorem mem_split {mem : Bytes} {off : Nat} {t : Bytes} (hin : (mem.drop off).take t.length = t) :
    mem.drop off = t ++ mem.drop (off + t.length) := by
  rw [drop_add]
  conv => lhs; rw [← List.take_append_drop t.length (mem.drop off)]
  rw [hin]

theorem strtoSyntax_lit (mem : Bytes) (off : Nat) (t : Bytes) (v : Int)
    (ht : Params.intLiteral t = some v) (hin : (mem.drop off).take t.length = t)
    (hnext : ∀ b, (mem.drop (off + t.length)).head? = some b → ¬ (48 ≤ b ∧ b ≤ 57)) :
    ∃ (neg : Bool) (m : Nat), Prim.strtoSyntax mem off 10 = (t.length, neg, m) ∧ 0 < t.length ∧
      v = if neg = true then -(m : Int) else (m : Int) := by
  obtain ⟨sg, ds, rfl, hsg, hds, hall, hv⟩ := intLiteral_shape ht
  have hs := mem_split hin
  have hrest : hd (mem.drop (off + (sg ++ ds).length)) isDigit = false := by
    cases hr : mem.drop (off + (sg ++ ds).length) with
    | nil => rfl
    | cons x r =>
      have := hnext x (by rw [hr]; rfl)
      simp only [hd_cons, isDigit]
      simpa using this
  have hhd : hd (mem.drop off) (fun b => isPlusMn b || isDigit b || b == 46) = true := by
    rw [hs]
    rcases hsg with rfl | rfl | rfl
    · cases ds with
      | nil => exact absurd rfl hds
      | cons x r => simp [hall x List.mem_cons_self]
    · rfl
    · rfl
  rw [Lemmas.ExprList.strtoSyntax_eq mem off hhd, hs, synL_lit sg ds _ hsg hds hall hrest]
  refine ⟨decide (sg = [45]), digVal ds 0, by simp, ?_, ?_⟩
  · have : 0 < ds.length := List.length_pos_iff.2 hds
    simp; omega
  · simpa using hv

theorem integer_exact_signed (w : Nat) (hw : w = 32 ∨ w = 64) (mem : Bytes) (off : Nat) (t : Bytes) (v : Int)
    (ht : Params.intLiteral t = some v) (hin : (mem.drop off).take t.length = t)
    (hnext : ∀ b, (mem.drop (off + t.length)).head? = some b → ¬ (48 ≤ b ∧ b ≤ 57))
    (hr : -(2^(w-1) : Int) ≤ v ∧ v < 2^(w-1)) :
    Prim.strtolTo w mem off 10 = (t.length, v) := by
  obtain ⟨neg, m, hsyn, hpos, hv⟩ := strtoSyntax_lit mem off t v ht hin hnext
  unfold Prim.strtolTo
  rw [hsyn]
  have hne : (t.length == 0) = false := by rw [beq_eq_false_iff_ne]; omega
  simp only [hne, Bool.false_eq_true, if_false]
  refine Prod.ext rfl ?_
  simp only [Prim.wrapSigned]
  rcases hw with rfl | rfl <;> cases neg <;> simp only [Bool.false_eq_true, if_false, if_true] at hv ⊢ <;>
    subst hv <;> simp only [Nat.reducePow, Int.reducePow, Nat.reduceSub, gt_iff_lt, ge_iff_le] at hr ⊢ <;>
    split <;> split <;> omega


theorem integer_exact_unsigned (w : Nat) (hw : w = 32 ∨ w = 64) (mem : Bytes) (off : Nat) (t : Bytes) (v : Int)
    (ht : Params.intLiteral t = some v) (hin : (mem.drop off).take t.length = t)
    (hnext : ∀ b, (mem.drop (off + t.length)).head? = some b → ¬ (48 ≤ b ∧ b ≤ 57))
    (hr : 0 ≤ v ∧ v < 2^w) :
    Prim.strtoulTo w mem off 10 = (t.length, v.toNat) := by
  obtain ⟨neg, m, hsyn, hpos, hv⟩ := strtoSyntax_lit mem off t v ht hin hnext
  unfold Prim.strtoulTo
  rw [hsyn]
  have hne : (t.length == 0) = false := by rw [beq_eq_false_iff_ne]; omega
  simp only [hne, Bool.false_eq_true, if_false]
  refine Prod.ext rfl ?_
  rcases hw with rfl | rfl <;> cases neg <;> simp only [Bool.false_eq_true, if_false, if_true] at hv ⊢ <;>
    subst hv <;> simp only [Nat.reducePow, Int.reducePow, Nat.reduceSub, gt_iff_lt] at hr ⊢ <;>
    split <;> omega

/-! ## #H / #Q / #B -/

/-- the digit value `Params.nondecimalValue` uses -/
def ndDigit (b : UInt8) : Nat :=
  if 48 ≤ b ∧ b ≤ 57 then b.toNat - 48 else if 97 ≤ b ∧ b ≤ 102 then b.toNat - 87 else if 65 ≤ b ∧ b ≤ 70 then b.toNat - 55 else 0

theorem byte_facts : ∀ b : UInt8, ((Prim.digitVal b).all fun d =>
    (!(decide (d < 16)) || (ndDigit b == d && b != 120 && b != 88)) && !(Prim.isSpace b) && b != 45 && b != 43 && b != 0) = true := by
  apply Lemmas.Params.forall_byte
  decide +kernel

theorem digit_facts {b : UInt8} {d base : Nat} (h : Prim.digitVal b = some d) (hd : d < base) (hb : base ≤ 16) :
    ndDigit b = d ∧ b ≠ 120 ∧ b ≠ 88 ∧ Prim.isSpace b = false ∧ b ≠ 45 ∧ b ≠ 43 := by
  have := byte_facts b
  rw [h] at this
  have hd16 : d < 16 := by omega
  simp [hd16] at this
  simp [this]

theorem digitsOfBase_run (mem : Bytes) (base : Nat) (rest : Bytes)
    (hstop : ∀ d, Prim.digitVal (rest.head?.getD 0) = some d → ¬ d < base) :
    ∀ (ds : Bytes) (f i acc : Nat), mem.drop i = ds ++ rest →
      (∀ b ∈ ds, ∃ d, Prim.digitVal b = some d ∧ d < base) → ds.length < f →
      Prim.digitsOfBase mem base f i acc =
        (i + ds.length, ds.foldl (fun a b => a * base + (Prim.digitVal b).getD 0) acc) := by
  intro ds
  induction ds with
  | nil =>
    intro f i acc hs _ hf
    obtain ⟨f, rfl⟩ : ∃ f', f = f' + 1 := ⟨f - 1, by simp at hf; omega⟩
    have hrd : Prim.rd mem i = rest.head?.getD 0 := by
      rw [Lemmas.ExprList.rd_drop, hs]; rfl
    unfold Prim.digitsOfBase
    rw [hrd]
    cases hdv : Prim.digitVal (rest.head?.getD 0) with
    | none => rfl
    | some d => simp [hstop d hdv]
  | cons b r ih =>
    intro f i acc hs hall hf
    obtain ⟨f, rfl⟩ : ∃ f', f = f' + 1 := ⟨f - 1, by simp at hf; omega⟩
    have hrd : Prim.rd mem i = b := by rw [Lemmas.ExprList.rd_drop, hs]; rfl
    have ht : mem.drop (i + 1) = r ++ rest := by rw [drop_add, hs]; rfl
    obtain ⟨d, hd, hlt⟩ := hall b List.mem_cons_self
    unfold Prim.digitsOfBase
    rw [hrd, hd]
    simp only [hlt, if_true]
    rw [ih f (i + 1) _ ht (fun x hx => hall x (List.mem_cons_of_mem _ hx)) (by simp at hf; omega)]
    simp only [List.foldl_cons, hd, Option.getD_some, List.length_cons]
    refine Prod.ext ?_ rfl
    simp only; omega

theorem ndFold_eq (base : Nat) (hb : base ≤ 16) : ∀ (ds : Bytes) (acc : Nat),
    (∀ b ∈ ds, ∃ d, Prim.digitVal b = some d ∧ d < base) →
    ds.foldl (fun a b => a * base + (Prim.digitVal b).getD 0) acc = ds.foldl (fun a b => a * base + ndDigit b) acc := by
  intro ds
  induction ds with
  | nil => intro _ _; rfl
  | cons b r ih =>
    intro acc hall
    obtain ⟨d, hd, hlt⟩ := hall b List.mem_cons_self
    simp only [List.foldl_cons, hd, Option.getD_some, (digit_facts hd hlt hb).1]
    exact ih _ (fun x hx => hall x (List.mem_cons_of_mem _ hx))

theorem nondecimalValue_eq (ty : TokType) (ds : Bytes) :
    Params.nondecimalValue ty ds =
      ds.foldl (fun a b => a * (if ty == .hexnum then 16 else if ty == .octnum then 8 else 2) + ndDigit b) 0 := rfl

theorem nondecimal_exact (w : Nat) (hw : w = 32 ∨ w = 64) (ty : TokType) (base : Nat)
    (hb : (ty = .hexnum ∧ base = 16) ∨ (ty = .octnum ∧ base = 8) ∨ (ty = .binnum ∧ base = 2))
    (mem : Bytes) (off : Nat) (ds : Bytes) (hds : ds ≠ [])
    (hdig : ∀ b ∈ ds, match Prim.digitVal b with | some d => d < base | none => False)
    (hin : (mem.drop off).take ds.length = ds)
    (hnext : ∀ b, (mem.drop (off + ds.length)).head? = some b → (match Prim.digitVal b with | some d => ¬ d < base | none => True) ∧ b ≠ 120 ∧ b ≠ 88)
    (hr : Params.nondecimalValue ty ds < 2^w) :
    Prim.strtoulTo w mem off base = (ds.length, Params.nondecimalValue ty ds) := by
  have hb16 : base ≤ 16 := by rcases hb with ⟨_, rfl⟩ | ⟨_, rfl⟩ | ⟨_, rfl⟩ <;> omega
  have hbase : (if ty == .hexnum then 16 else if ty == .octnum then 8 else 2) = base := by
    rcases hb with ⟨rfl, rfl⟩ | ⟨rfl, rfl⟩ | ⟨rfl, rfl⟩ <;> rfl
  have hall : ∀ b ∈ ds, ∃ d, Prim.digitVal b = some d ∧ d < base := by
    intro b hb'
    have := hdig b hb'
    cases hdv : Prim.digitVal b with
    | none => rw [hdv] at this; exact this.elim
    | some d => rw [hdv] at this; exact ⟨d, rfl, this⟩
  have hs := mem_split hin
  generalize hrest : mem.drop (off + ds.length) = rest at hs hnext
  have hstop : ∀ d, Prim.digitVal (rest.head?.getD 0) = some d → ¬ d < base := by
    intro d hd
    cases rest with
    | nil => simp [Prim.digitVal] at hd
    | cons x r =>
      have := (hnext x rfl).1
      simp only [List.head?_cons, Option.getD_some] at hd
      rw [hd] at this; exact this
  have hnx : rest.head?.getD 0 ≠ 120 ∧ rest.head?.getD 0 ≠ 88 := by
    cases rest with
    | nil => decide
    | cons x r => exact (hnext x rfl).2
  obtain ⟨x, r, rfl⟩ : ∃ x r, ds = x :: r := by
    cases ds with
    | nil => exact absurd rfl hds
    | cons x r => exact ⟨x, r, rfl⟩
  obtain ⟨dx, hdx, hdxlt⟩ := hall x List.mem_cons_self
  have fx := digit_facts hdx hdxlt hb16
  have hrd0 : Prim.rd mem off = x := by rw [Lemmas.ExprList.rd_drop, hs]; rfl
  have hrd1 : Prim.rd mem (off + 1) ≠ 120 ∧ Prim.rd mem (off + 1) ≠ 88 := by
    rw [Lemmas.ExprList.rd_drop, drop_add, hs]
    cases r with
    | nil => exact hnx
    | cons y r' =>
      obtain ⟨dy, hdy, hdylt⟩ := hall y (by simp)
      have fy := digit_facts hdy hdylt hb16
      exact ⟨fy.2.1, fy.2.2.1⟩
  have hlen : (x :: r).length ≤ mem.length - off := by
    have := congrArg List.length hs
    simp only [List.length_drop, List.length_append] at this
    omega
  have hrun := digitsOfBase_run mem base rest hstop (x :: r) (mem.length - off + 2) off 0 hs hall (by omega)
  rw [ndFold_eq base hb16 _ _ hall] at hrun
  have hsyn : Prim.strtoSyntax mem off base = ((x :: r).length, false, Params.nondecimalValue ty (x :: r)) := by
    unfold Prim.strtoSyntax
    rw [Lemmas.Params.skipSpaces_stop mem _ off (by rw [hrd0]; exact fx.2.2.2.1)]
    have h45 : (Prim.rd mem off == 45) = false := by rw [hrd0]; simpa using fx.2.2.2.2.1
    have h43 : (Prim.rd mem off == 43) = false := by rw [hrd0]; simpa using fx.2.2.2.2.2
    have h120 : (Prim.rd mem (off + 1) == 120) = false := by simpa using hrd1.1
    have h88 : (Prim.rd mem (off + 1) == 88) = false := by simpa using hrd1.2
    simp only [h45, h43, h120, h88, Bool.false_eq_true, if_false, or_self, false_and, and_false]
    rw [hrun, nondecimalValue_eq, hbase]
    have : (off + (x :: r).length == off) = false := by rw [beq_eq_false_iff_ne]; simp
    simp only [this, Bool.false_eq_true, if_false]
    refine Prod.ext ?_ rfl
    simp only; omega
  unfold Prim.strtoulTo
  rw [hsyn]
  have hne : ((x :: r).length == 0) = false := by rw [beq_eq_false_iff_ne]; simp
  simp only [hne, Bool.false_eq_true, if_false]
  refine Prod.ext rfl ?_
  generalize Params.nondecimalValue ty (x :: r) = v at hr ⊢
  rcases hw with rfl | rfl <;> simp only [Nat.reducePow, Nat.reduceSub, gt_iff_lt] at hr ⊢ <;>
    split <;> omega

/-! ## `Spec.Float.litValue` cut into stages -/
def lvSign (s : Bytes) : Bool × Bytes := match s with | 45 :: r => (true, r) | 43 :: r => (false, r) | _ => (false, s)
def lvFrac (s : Bytes) : Bytes × Bytes :=
  match s with | 46 :: r => (r.takeWhile isDigit, r.drop (r.takeWhile isDigit).length) | _ => ([], s)
def lvExp (s : Bytes) : Int × Bytes :=
  let s' := s.dropWhile isWs
  match s' with
  | c :: r =>
    if c == 101 ∨ c == 69 then
      let r := r.dropWhile isWs
      let (eneg, r) := lvSign r
      let ds := r.takeWhile isDigit
      if ds.isEmpty then (0, s) else
        let v : Int := ds.foldl (fun a b => a * 10 + (b.toNat - 48)) 0
        (if eneg then -v else v, r.drop ds.length)
    else (0, s)
  | [] => (0, s)
def lvFin (neg : Bool) (ip fp : Bytes) (ex : Int) : Option (Bool × Nat × Nat) :=
  let mant := (ip ++ fp).foldl (fun a b => a * 10 + (b.toNat - 48)) 0
  let e10 : Int := ex - fp.length
  let e10 : Int := if e10 > 400 + 1100 then 1500 else if e10 < -1500 - (ip.length + fp.length : Nat) then -1500 - (ip.length + fp.length : Nat) else e10
  if e10 ≥ 0 then some (neg, mant * 10^e10.toNat, 1) else some (neg, mant, 10^(-e10).toNat)

theorem ite_isSome {α : Type} (c : Prop) [Decidable c] (a b : α) : (if c then some a else some b).isSome = true := by
  split <;> rfl

theorem lvFin_isSome (neg : Bool) (ip fp : Bytes) (ex : Int) : (lvFin neg ip fp ex).isSome = true := by
  unfold lvFin
  exact ite_isSome _ _ _

def lv (s : Bytes) : Option (Bool × Nat × Nat) :=
  let ip := (lvSign s).2.takeWhile isDigit
  let s2 := (lvSign s).2.drop ip.length
  if ip.isEmpty ∧ (lvFrac s2).1.isEmpty then none else
  if !(lvExp (lvFrac s2).2).2.isEmpty then none else
  lvFin (lvSign s).1 ip (lvFrac s2).1 (lvExp (lvFrac s2).2).1

theorem litValue_eq (s : Bytes) : Spec.Float.litValue s = lv s := rfl


theorem lvSign_eq (s : Bytes) : lvSign s = (hd s (· == 45), s.drop (sgn s)) := by
  unfold lvSign
  split
  · rfl
  · rfl
  · rename_i h1 h2
    cases s with
    | nil => rfl
    | cons b r =>
      have h45 : b ≠ 45 := fun h => h1 r (by rw [h])
      have h43 : b ≠ 43 := fun h => h2 r (by rw [h])
      simp [sgn, isPlusMn, h45, h43]

theorem lvFrac_eq (s : Bytes) : lvFrac s =
    if hd s (· == 46) = true then ((s.drop 1).takeWhile isDigit, s.drop (1 + tw isDigit (s.drop 1))) else ([], s) := by
  unfold lvFrac
  split
  · simp [tw, Nat.add_comm]
  · rename_i h
    cases s with
    | nil => rfl
    | cons b r =>
      have : b ≠ 46 := fun hb => h r (by rw [hb])
      simp [this]

/-- what is left after the exponent, as `litValue` sees it -/
def restOf (s : Bytes) : Bytes :=
  if (decimalExp (s.drop (tw isWs s))).2 ≠ 0 then (s.drop (tw isWs s)).drop (decimalExp (s.drop (tw isWs s))).1 else s

theorem isEmpty_takeWhile (p : UInt8 → Bool) (s : Bytes) : (s.takeWhile p).isEmpty = decide (tw p s = 0) := by
  unfold tw
  cases h : s.takeWhile p <;> simp

theorem lvExp_rest (s : Bytes) : (lvExp s).2 = restOf s := by
  unfold lvExp restOf
  simp only [Lemmas.Params.dropWhile_eq_drop_tw]
  generalize s.drop (tw isWs s) = s'
  cases s' with
  | nil => simp [decimalExp]
  | cons c r =>
    simp only []
    have hE : ((c == 101) = true ∨ (c == 69) = true) ↔ isE c = true := by simp [isE]
    by_cases hc : isE c = true
    · rw [if_pos (hE.2 hc)]
      simp only [lvSign_eq, isEmpty_takeWhile]
      unfold decimalExp
      simp only [hd_cons, hc, if_true, List.drop_succ_cons, List.drop_zero]
      have : (if hd (List.drop (tw isWs r) r) isPlusMn = true then 1 else 0) = sgn (List.drop (tw isWs r) r) := rfl
      rw [this]
      generalize hr' : List.drop (tw isWs r) r = r'
      generalize hr'' : List.drop (sgn r') r' = r''
      have htw : (List.takeWhile isDigit r'').length = tw isDigit r'' := rfl
      rw [htw]
      by_cases hd0 : tw isDigit r'' = 0
      · simp [hd0]
      · simp only [hd0, decide_false, Bool.false_eq_true, if_false, ne_eq, not_false_eq_true, if_true]
        have : ∀ a b c : Nat, 1 + a + b + c = (a + b + c) + 1 := by omega
        rw [this, List.drop_succ_cons, ← hr'', ← hr']
        simp only [List.drop_drop]
    · rw [if_neg (fun h => hc (hE.1 h))]
      simp [decimalExp, hc]

theorem lv_isSome (t : Bytes) (hnd : (decimalMant t).2 ≠ 0) (hrest : restOf (t.drop (decimalMant t).1) = []) :
    (lv t).isSome = true := by
  unfold lv
  simp only [lvSign_eq, lvFrac_eq]
  have hsg : (if hd t isPlusMn = true then 1 else 0) = sgn t := rfl
  unfold decimalMant at hnd hrest
  simp only [hsg] at hnd hrest
  have htw : (List.takeWhile isDigit (List.drop (sgn t) t)).length = tw isDigit (List.drop (sgn t) t) := rfl
  simp only [htw, List.drop_drop, isEmpty_takeWhile]
  by_cases hdot : hd (List.drop (sgn t + tw isDigit (List.drop (sgn t) t)) t) (· == 46) = true
  · simp only [hdot, if_true] at hnd hrest ⊢
    simp only [isEmpty_takeWhile, lvExp_rest]
    have e1 : sgn t + tw isDigit (List.drop (sgn t) t) + (1 + tw isDigit (List.drop (sgn t + tw isDigit (List.drop (sgn t) t) + 1) t)) =
        sgn t + tw isDigit (List.drop (sgn t) t) + 1 + tw isDigit (List.drop (sgn t + tw isDigit (List.drop (sgn t) t) + 1) t) := by omega
    rw [e1, hrest]
    have : ¬ (decide (tw isDigit (List.drop (sgn t) t) = 0) = true ∧
        decide (tw isDigit (List.drop (sgn t + tw isDigit (List.drop (sgn t) t) + 1) t) = 0) = true) := by
      simp only [decide_eq_true_eq]; omega
    rw [if_neg this]
    simp only [List.isEmpty_nil, Bool.not_true, Bool.false_eq_true, if_false]
    exact lvFin_isSome _ _ _ _
  · simp only [hdot, Bool.false_eq_true, if_false] at hnd hrest ⊢
    simp only [lvExp_rest, List.isEmpty_nil]
    rw [hrest]
    have : ¬ (decide (tw isDigit (List.drop (sgn t) t) = 0) = true ∧ True) := by
      simp only [decide_eq_true_eq, and_true]; exact hnd
    simp only [this, if_false, List.isEmpty_nil, Bool.not_true, Bool.false_eq_true]
    exact lvFin_isSome _ _ _ _


/-! ## the literal the token specification delimits -/

theorem literal_facts {s t : Bytes} (h : (specToken .decimal s).map (fun e => s.take e.consumed) = some t) :
    0 < decimalTotal s ∧ decimalTotal s ≤ s.length ∧ t = s.take (decimalTotal s) := by
  have e : specToken .decimal s = plainSpec Spec.decimal .decimal s := rfl
  rw [e] at h
  by_cases hn : 0 < decimalTotal s
  · rw [plainSpec_some hn (decimal_total_mem hn) (fun m hm => decimal_total_max hm)] at h
    simp only [Option.map_some, Option.some.injEq] at h
    exact ⟨hn, PM_le (decimal_total_mem hn), h.symm⟩
  · rw [plainSpec_none (fun m hm hP => by have := decimal_total_max hP; omega)] at h
    cases h

theorem decimalTotal_take {s : Bytes} (hn : 0 < decimalTotal s) :
    decimalTotal (s.take (decimalTotal s)) = decimalTotal s := by
  have hle := PM_le (decimal_total_mem hn)
  have h1 : PM decimal (s.take (decimalTotal s)) (decimalTotal s) :=
    (Lemmas.Params.PM_take hle).2 ⟨decimal_total_mem hn, Nat.le_refl _⟩
  have h2 := decimal_total_max h1
  have h3 : 0 < decimalTotal (s.take (decimalTotal s)) := by omega
  have h4 := ((Lemmas.Params.PM_take hle).1 (decimal_total_mem h3)).2
  omega

theorem literal_has_value (s t : Bytes) (h : (specToken .decimal s).map (fun e => s.take e.consumed) = some t) :
    (Spec.Float.litValue t).isSome = true := by
  obtain ⟨hn, hle, rfl⟩ := literal_facts h
  have hT := decimalTotal_take hn
  have hlen : (s.take (decimalTotal s)).length = decimalTotal s := by simp [Nat.min_eq_left hle]
  rw [litValue_eq]
  generalize s.take (decimalTotal s) = t at hT hlen
  rw [← hT] at hlen hn
  clear hT
  unfold decimalTotal at hlen hn
  by_cases hnd : (decimalMant t).2 ≠ 0
  · rw [if_pos hnd] at hlen
    apply lv_isSome t hnd
    unfold restOf
    split
    · rename_i he
      rw [if_pos he] at hlen
      rw [List.drop_drop, List.drop_drop]
      exact List.drop_eq_nil_of_le (by omega)
    · rename_i he
      rw [if_neg he] at hlen
      exact List.drop_eq_nil_of_le (by omega)
  · rw [if_neg hnd] at hn; omega

/-! ## strtod's prefix -/

/-- a byte test on memory read C-style (NUL beyond the end) is the test on the head of the suffix -/
theorem rd_hd (mem : Bytes) (i : Nat) (p : UInt8 → Bool) (hp : p 0 = false) :
    p (Prim.rd mem i) = hd (mem.drop i) p := by
  rw [Lemmas.ExprList.rd_drop]
  cases mem.drop i with
  | nil => simpa using hp
  | cons b r => rfl

theorem run_eq (mem : Bytes) (p : UInt8 → Bool) (hp : p 0 = false) : ∀ (f i : Nat), mem.length - i < f →
    Prim.strtodLen.run mem p f i = i + tw p (mem.drop i) := by
  intro f
  induction f with
  | zero => intro i h; omega
  | succ f ih =>
    intro i h
    unfold Prim.strtodLen.run
    rw [rd_hd mem i p hp]
    by_cases hh : hd (mem.drop i) p = true
    · rw [if_pos hh, tw_succ hh, ← drop_add]
      have := hd_drop_length hh
      rw [ih (i + 1) (by omega)]
      omega
    · rw [if_neg hh]
      have : tw p (mem.drop i) = 0 := tw_eq_zero_iff.2 (by simpa using hh)
      omega

def dLower (b : UInt8) : UInt8 := if 65 ≤ b ∧ b ≤ 90 then b + 32 else b

def dWord (mem : Bytes) (w : List UInt8) (at_ : Nat) : Bool :=
  (w.zipIdx).all (fun (c, k) => dLower (Prim.rd mem (at_ + k)) == c)

def dSign (mem : Bytes) (i0 : Nat) : Nat :=
  if Prim.rd mem i0 == 45 ∨ Prim.rd mem i0 == 43 then i0 + 1 else i0

def dFrac (mem : Bytes) (p : UInt8 → Bool) (fuel a : Nat) : Nat :=
  if Prim.rd mem a == 46 then Prim.strtodLen.run mem p fuel (a + 1) else a

def dExp (mem : Bytes) (c1 c2 : UInt8) (fuel b : Nat) : Nat :=
  if Prim.rd mem b == c1 ∨ Prim.rd mem b == c2 then
    let s := if Prim.rd mem (b + 1) == 45 ∨ Prim.rd mem (b + 1) == 43 then b + 2 else b + 1
    if isDigit (Prim.rd mem s) then Prim.strtodLen.run mem isDigit fuel s else b
  else b

def dHexCond (mem : Bytes) (i1 : Nat) : Prop :=
  Prim.rd mem i1 == 48 ∧ (Prim.rd mem (i1 + 1) == 120 ∨ Prim.rd mem (i1 + 1) == 88) ∧
    (Prim.isHexDigit (Prim.rd mem (i1 + 2)) ∨
      (Prim.rd mem (i1 + 2) == 46 ∧ Prim.isHexDigit (Prim.rd mem (i1 + 3))))

instance (mem : Bytes) (i1 : Nat) : Decidable (dHexCond mem i1) := by
  unfold dHexCond; infer_instance

def dBody (mem : Bytes) (off i1 : Nat) : Nat :=
  if dWord mem [105, 110, 102] i1 then
    (if dWord mem [105, 110, 102, 105, 110, 105, 116, 121] i1 then i1 + 8 else i1 + 3) - off
  else if dWord mem [110, 97, 110] i1 then i1 + 3 - off
  else
    let fuel := mem.length - i1 + 2
    if dHexCond mem i1 then
      let a := Prim.strtodLen.run mem Prim.isHexDigit fuel (i1 + 2)
      let b := dFrac mem Prim.isHexDigit fuel a
      dExp mem 112 80 fuel b - off
    else
      let a := Prim.strtodLen.run mem isDigit fuel i1
      let b := dFrac mem isDigit fuel a
      let nd := (a - i1) + (if Prim.rd mem a == 46 then b - (a + 1) else 0)
      if nd == 0 then 0 else dExp mem 101 69 fuel b - off

theorem strtodLen_eq (mem : Bytes) (off : Nat) :
    Prim.strtodLen mem off = dBody mem off (dSign mem (Prim.skipSpaces mem (mem.length - off + 1) off)) := rfl

/-- the exponent as strtod takes it: only `[eE][+-]?digit+`, directly after the mantissa that ends at `M` -/
def eTail (s : Bytes) (M : Nat) : Nat :=
  if hd (s.drop M) isE = true then
    if tw isDigit (s.drop (M + 1 + sgn (s.drop (M + 1)))) = 0 then M
    else M + 1 + sgn (s.drop (M + 1)) + tw isDigit (s.drop (M + 1 + sgn (s.drop (M + 1))))
  else M

/-- the prefix strtod converts, relative to the suffix `s` of memory that starts (after an optional sign) with a
digit or '.' and is not a hexadecimal constant -/
def dLen (s : Bytes) : Nat := if (decimalMant s).2 = 0 then 0 else eTail s (decimalMant s).1

theorem eq_rd (mem : Bytes) (i : Nat) (c : UInt8) (hc : c ≠ 0) : (Prim.rd mem i == c) = hd (mem.drop i) (· == c) :=
  rd_hd mem i (· == c) (by simpa using Ne.symm hc)

theorem dSign_eq (mem : Bytes) (i : Nat) : dSign mem i = i + sgn (mem.drop i) := by
  unfold dSign sgn
  rw [eq_rd mem i 45 (by decide), eq_rd mem i 43 (by decide)]
  cases mem.drop i with
  | nil => simp
  | cons b r =>
    simp only [hd_cons, isPlusMn]
    by_cases h45 : b = 45
    · simp [h45]
    · by_cases h43 : b = 43
      · simp [h43]
      · simp [h45, h43]

theorem dFrac_eq (mem : Bytes) (fuel a : Nat) (hf : mem.length - a < fuel) :
    dFrac mem isDigit fuel a =
      if hd (mem.drop a) (· == 46) = true then a + 1 + tw isDigit (mem.drop (a + 1)) else a := by
  unfold dFrac
  rw [eq_rd mem a 46 (by decide)]
  split
  · rw [run_eq mem isDigit (by decide) fuel (a + 1) (by omega)]
  · rfl

theorem dExp_eq (mem : Bytes) (fuel b : Nat) (hf : mem.length - b < fuel) :
    dExp mem 101 69 fuel b =
      if hd (mem.drop b) isE = true then
        if tw isDigit (mem.drop (b + 1 + sgn (mem.drop (b + 1)))) = 0 then b
        else b + 1 + sgn (mem.drop (b + 1)) + tw isDigit (mem.drop (b + 1 + sgn (mem.drop (b + 1))))
      else b := by
  unfold dExp
  have hE : (Prim.rd mem b == 101 ∨ Prim.rd mem b == 69) ↔ hd (mem.drop b) isE = true := by
    rw [← rd_hd mem b isE (by decide)]
    simp [isE]
  by_cases h : hd (mem.drop b) isE = true
  · rw [if_pos (hE.2 h), if_pos h]
    have hs : (if Prim.rd mem (b + 1) == 45 ∨ Prim.rd mem (b + 1) == 43 then b + 2 else b + 1) =
        b + 1 + sgn (mem.drop (b + 1)) := dSign_eq mem (b + 1)
    simp only [hs]
    rw [rd_hd mem _ isDigit (by decide)]
    by_cases hd0 : tw isDigit (mem.drop (b + 1 + sgn (mem.drop (b + 1)))) = 0
    · rw [if_pos hd0, if_neg]
      rw [tw_eq_zero_iff.1 hd0]; simp
    · rw [if_neg hd0, if_pos (tw_pos_iff.1 (by omega))]
      have : sgn (mem.drop (b + 1)) ≤ 1 := by unfold sgn; split <;> omega
      rw [run_eq mem isDigit (by decide) fuel _ (by omega)]
  · rw [if_neg (fun h' => h (hE.1 h')), if_neg h]


theorem dExp_rel (mem : Bytes) (off fuel M : Nat) (hf : mem.length - (off + M) < fuel) :
    dExp mem 101 69 fuel (off + M) = off + eTail (mem.drop off) M := by
  rw [dExp_eq mem fuel _ hf]
  have hk : ∀ k, mem.drop (off + k) = (mem.drop off).drop k := fun k => drop_add mem off k
  unfold eTail
  simp only [Nat.add_assoc, hk]
  split
  · split
    · rfl
    · rfl
  · rfl

theorem dWord_false (mem : Bytes) (c : UInt8) (w : List UInt8) (i1 : Nat) (h : dLower (Prim.rd mem i1) ≠ c) :
    dWord mem (c :: w) i1 = false := by
  simp [dWord, List.zipIdx_cons, h]

theorem dd_bytes : ∀ x : UInt8, (isDigit x || x == 46) = true →
    dLower x ≠ 105 ∧ dLower x ≠ 110 ∧ Prim.isSpace x = false ∧ isPlusMn x = false := by
  apply Lemmas.Params.forall_byte
  decide +kernel

theorem sign_bytes : ∀ x : UInt8, isPlusMn x = true → Prim.isSpace x = false := by
  apply Lemmas.Params.forall_byte
  decide +kernel

theorem sgn_le (s : Bytes) : sgn s ≤ 1 := by unfold sgn; split <;> omega

/-- with digits in the mantissa, the byte after the optional sign is a digit or the point -/
theorem core_hd {s : Bytes} (hnd : (decimalMant s).2 ≠ 0) :
    hd (s.drop (sgn s)) (fun b => isDigit b || b == 46) = true := by
  unfold decimalMant at hnd
  have hsg : (if hd s isPlusMn = true then 1 else 0) = sgn s := rfl
  simp only [hsg] at hnd
  by_cases h0 : tw isDigit (s.drop (sgn s)) = 0
  · rw [h0] at hnd
    simp only [Nat.add_zero, Nat.zero_add] at hnd
    by_cases hdot : hd (s.drop (sgn s)) (· == 46) = true
    · exact hd_imp (p := (· == 46)) (by intro b hb; simp at hb; simp [hb]) hdot
    · rw [if_neg hdot] at hnd; exact absurd rfl hnd
  · exact hd_imp (p := isDigit) (by intro b hb; simp [hb]) (tw_pos_iff.1 (by omega))

theorem strtodLen_closed (mem : Bytes) (off : Nat) (hnd : (decimalMant (mem.drop off)).2 ≠ 0)
    (hhex : ¬ dHexCond mem (off + sgn (mem.drop off))) :
    Prim.strtodLen mem off = dLen (mem.drop off) := by
  have hcore := core_hd hnd
  rw [← drop_add] at hcore
  have hcore' : (isDigit (Prim.rd mem (off + sgn (mem.drop off))) || Prim.rd mem (off + sgn (mem.drop off)) == 46) = true := by
    rw [← hcore]; exact rd_hd mem _ (fun b => isDigit b || b == 46) (by decide)
  have hb := dd_bytes _ hcore'
  have hsp : Prim.isSpace (Prim.rd mem off) = false := by
    by_cases hs : hd (mem.drop off) isPlusMn = true
    · rw [← rd_hd mem off isPlusMn (by decide)] at hs
      exact sign_bytes _ hs
    · have : sgn (mem.drop off) = 0 := by unfold sgn; rw [if_neg hs]
      rw [this] at hb; exact hb.2.2.1
  rw [strtodLen_eq, Lemmas.Params.skipSpaces_stop mem _ off hsp, dSign_eq]
  unfold dBody
  rw [dWord_false mem 105 _ _ hb.1, dWord_false mem 110 _ _ hb.2.1]
  simp only [Bool.false_eq_true, if_false]
  rw [if_neg hhex]
  have hsl := sgn_le (mem.drop off)
  rw [run_eq mem isDigit (by decide) _ _ (by omega)]
  have hk : ∀ k, mem.drop (off + k) = (mem.drop off).drop k := fun k => drop_add mem off k
  rw [hk]
  have hlen : (mem.drop off).length = mem.length - off := List.length_drop
  generalize hs : mem.drop off = s at *
  have hsg : (if hd s isPlusMn = true then 1 else 0) = sgn s := rfl
  have hM : dFrac mem isDigit (mem.length - (off + sgn s) + 2) (off + sgn s + tw isDigit (s.drop (sgn s))) = off + (decimalMant s).1 ∧
      ((off + sgn s + tw isDigit (s.drop (sgn s)) - (off + sgn s)) +
        (if Prim.rd mem (off + sgn s + tw isDigit (s.drop (sgn s))) == 46 then
          off + (decimalMant s).1 - (off + sgn s + tw isDigit (s.drop (sgn s)) + 1) else 0)) = (decimalMant s).2 := by
    rw [dFrac_eq mem _ _ (by omega), eq_rd mem _ 46 (by decide)]
    unfold decimalMant
    simp only [hsg, Nat.add_assoc, hk]
    split
    · exact ⟨by first | trivial | omega, by first | trivial | omega⟩
    · exact ⟨by first | trivial | omega, by first | trivial | omega⟩
  rw [hM.1, hM.2, dExp_rel mem off _ _ (by omega), hs]
  unfold dLen
  have : ((decimalMant s).2 == 0) = false := by rw [beq_eq_false_iff_ne]; exact hnd
  rw [this, if_neg hnd]
  simp only [Bool.false_eq_true, if_false]
  omega


theorem ws_facts {x : Bytes} (h : hd x isWs = true) :
    hd x isE = false ∧ sgn x = 0 ∧ tw isDigit x = 0 := by
  have h1 := hd_disj decimal_ws_not_E h
  have h2 := hd_disj decimal_ws_not_sd h
  refine ⟨h1, ?_, ?_⟩
  · unfold sgn
    have : hd x isPlusMn = false := by
      cases h' : hd x isPlusMn with
      | false => rfl
      | true =>
        have := hd_imp (q := fun b => isPlusMn b || isDigit b) (by intro b hb; simp [hb]) h'
        rw [h2] at this; cases this
    simp [this]
  · rw [tw_eq_zero_iff]
    cases h' : hd x isDigit with
    | false => rfl
    | true =>
      have := hd_imp (q := fun b => isPlusMn b || isDigit b) (by intro b hb; simp [hb]) h'
      rw [h2] at this; cases this

/-- strtod's exponent, relative to the end of the mantissa -/
def eT (u : Bytes) : Nat :=
  if hd u isE = true then
    if tw isDigit (u.drop (1 + sgn (u.drop 1))) = 0 then 0
    else 1 + sgn (u.drop 1) + tw isDigit (u.drop (1 + sgn (u.drop 1)))
  else 0

/-- the lexer's exponent (with the white space 488.2 allows), relative to the end of the mantissa -/
def eX (u : Bytes) : Nat :=
  if (decimalExp (u.drop (tw isWs u))).2 ≠ 0 then tw isWs u + (decimalExp (u.drop (tw isWs u))).1 else 0

theorem eT_eq_eX (u : Bytes) (hws : ∀ k, k < eX u → hd (u.drop k) isWs = false) : eT u = eX u := by
  by_cases hW : hd u isWs = true
  · have h0 : eT u = 0 := by unfold eT; rw [(ws_facts hW).1]; rfl
    rw [h0]
    by_cases hx : eX u = 0
    · exact hx.symm
    · have := hws 0 (by omega)
      rw [List.drop_zero, hW] at this; cases this
  · have hW0 : tw isWs u = 0 := tw_eq_zero_iff.2 (by simpa using hW)
    unfold eX at hws ⊢
    unfold eT
    rw [hW0] at hws ⊢
    simp only [List.drop_zero, Nat.zero_add] at hws ⊢
    unfold decimalExp at hws ⊢
    by_cases hE : hd u isE = true
    · simp only [hE, if_true] at hws ⊢
      by_cases hw : hd (u.drop 1) isWs = true
      · obtain ⟨_, f2, f3⟩ := ws_facts hw
        rw [f2, Nat.add_zero, f3, if_pos rfl]
        generalize tw isDigit (List.drop (if hd (List.drop (tw isWs (List.drop 1 u)) (List.drop 1 u)) isPlusMn = true then 1 else 0)
                  (List.drop (tw isWs (List.drop 1 u)) (List.drop 1 u))) = d' at hws ⊢
        by_cases h0 : d' = 0
        · simp [h0]
        · have := hws 1 (by rw [if_pos h0]; omega)
          rw [hw] at this; cases this
      · have hw0 : tw isWs (u.drop 1) = 0 := tw_eq_zero_iff.2 (by simpa using hw)
        rw [hw0]
        simp only [List.drop_zero, Nat.add_zero]
        have hsg : (if hd (u.drop 1) isPlusMn = true then 1 else 0) = sgn (u.drop 1) := rfl
        rw [hsg, List.drop_drop]
        simp
    · simp only [hE]
      rfl

/-- without white space inside the literal, strtod's prefix is the lexer's literal -/
theorem dLen_eq_total (s : Bytes)
    (hws : ∀ k, k < decimalTotal s → hd (s.drop k) isWs = false) : dLen s = decimalTotal s := by
  have hT : decimalTotal s = if (decimalMant s).2 ≠ 0 then (decimalMant s).1 + eX (s.drop (decimalMant s).1) else 0 := by
    unfold decimalTotal eX
    split
    · split
      · omega
      · rfl
    · rfl
  have hD : dLen s = if (decimalMant s).2 ≠ 0 then (decimalMant s).1 + eT (s.drop (decimalMant s).1) else 0 := by
    unfold dLen eTail eT
    by_cases h : (decimalMant s).2 = 0
    · simp [h]
    · rw [if_neg h, if_pos h]
      simp only [List.drop_drop, Nat.add_assoc]
      by_cases hE : hd (s.drop (decimalMant s).1) isE = true
      · simp only [hE, if_true]
        by_cases h0 : tw isDigit (s.drop ((decimalMant s).1 + (1 + sgn (s.drop ((decimalMant s).1 + 1))))) = 0
        · simp [h0]
        · simp [h0]
      · simp [hE]
  rw [hT] at hws ⊢
  rw [hD]
  split
  · rename_i hnd
    rw [if_pos hnd] at hws
    rw [eT_eq_eX]
    intro k hk
    have := hws ((decimalMant s).1 + k) (by omega)
    rwa [drop_add] at this
  · rfl


theorem zx_total (pre : Bytes) (hpre : pre = [] ∨ pre = [43] ∨ pre = [45]) (x : UInt8) (hx : x = 120 ∨ x = 88) (r : Bytes) :
    decimalTotal (pre ++ 48 :: x :: r) = pre.length + 1 := by
  rcases hpre with rfl | rfl | rfl <;> rcases hx with rfl | rfl <;>
    simp +decide [decimalTotal, decimalMant, decimalExp, tw_cons, hd]


/-- the hexadecimal-constant test of strtod fails unless the literal is `0` (with optional sign) followed by `x`/`X` -/
theorem not_hex (mem : Bytes) (off : Nat) (t : Bytes)
    (_hT : 0 < decimalTotal (mem.drop off)) (ht : t = (mem.drop off).take (decimalTotal (mem.drop off)))
    (hx : (t = [48] ∨ t = [43, 48] ∨ t = [45, 48]) →
      ∀ b, (mem.drop (off + t.length)).head? = some b → b ≠ 120 ∧ b ≠ 88) :
    ¬ dHexCond mem (off + sgn (mem.drop off)) := by
  intro hc
  obtain ⟨h48, hxx, _⟩ := hc
  rw [eq_rd mem _ 48 (by decide), drop_add] at h48
  have hxx' : hd (mem.drop (off + sgn (mem.drop off) + 1)) (fun b => b == 120 || b == 88) = true := by
    rw [← rd_hd mem _ (fun b => b == 120 || b == 88) (by decide)]
    simpa using hxx
  rw [Nat.add_assoc, drop_add] at hxx'
  have hx' : (t = [48] ∨ t = [43, 48] ∨ t = [45, 48]) →
      ∀ b, ((mem.drop off).drop t.length).head? = some b → b ≠ 120 ∧ b ≠ 88 := by
    intro h b hb; rw [← drop_add] at hb; exact hx h b hb
  clear hx
  generalize mem.drop off = s at *
  have h1 := hd_eq_cons h48
  obtain ⟨x, hx1, hx2⟩ := hd_cons_drop hxx'
  have hx1' : x = 120 ∨ x = 88 := by simpa using hx1
  rw [← List.drop_drop] at hx2
  rw [hx2] at h1
  obtain ⟨pre, hpre, hs⟩ : ∃ pre, (pre = [] ∨ pre = [43] ∨ pre = [45]) ∧
      s = pre ++ 48 :: x :: List.drop 1 (List.drop 1 (List.drop (sgn s) s)) := by
    by_cases hsg : hd s isPlusMn = true
    · have e1 : sgn s = 1 := by unfold sgn; rw [if_pos hsg]
      obtain ⟨c, hc, hcs⟩ := hd_cons_drop hsg
      rw [e1] at h1 ⊢
      refine ⟨[c], ?_, ?_⟩
      · simp only [isPlusMn, Bool.or_eq_true, beq_iff_eq] at hc
        rcases hc with rfl | rfl <;> simp
      · rw [h1] at hcs; exact hcs
    · have e0 : sgn s = 0 := by unfold sgn; rw [if_neg hsg]
      rw [e0] at h1 ⊢
      exact ⟨[], .inl rfl, by simpa using h1⟩
  generalize List.drop 1 (List.drop 1 (List.drop (sgn s) s)) = r at hs
  have htot := zx_total pre hpre x hx1' r
  rw [← hs] at htot
  rw [htot] at ht
  have ht' : t = pre ++ [48] := by
    rw [ht, hs]
    rcases hpre with rfl | rfl | rfl <;> rfl
  have hlen : t.length = pre.length + 1 := by rw [ht']; simp
  have := hx' (by rw [ht']; rcases hpre with rfl | rfl | rfl <;> simp) x (by
    rw [hlen, hs]; simp)
  rcases hx1' with rfl | rfl
  · exact this.1 rfl
  · exact this.2 rfl

theorem conversion_sees_literal_partial (mem : Bytes) (off : Nat) (t : Bytes)
    (h : (specToken .decimal (mem.drop off)).map (fun e => (mem.drop off).take e.consumed) = some t)
    (hws : ∀ b ∈ t, b ≠ 32 ∧ b ≠ 9)
    (hx : (t = [48] ∨ t = [43, 48] ∨ t = [45, 48]) →
      ∀ b, (mem.drop (off + t.length)).head? = some b → b ≠ 120 ∧ b ≠ 88) :
    Prim.strtodLen mem off = t.length := by
  obtain ⟨hn, hle, ht⟩ := literal_facts h
  have hlen : t.length = decimalTotal (mem.drop off) := by rw [ht, List.length_take]; exact Nat.min_eq_left hle
  have hnd : (decimalMant (mem.drop off)).2 ≠ 0 := by
    intro h0
    unfold decimalTotal at hn
    rw [if_neg (by simpa using h0)] at hn; omega
  rw [strtodLen_closed mem off hnd (not_hex mem off t hn ht hx), hlen]
  apply dLen_eq_total
  intro k hk
  obtain ⟨b, r, hb⟩ : ∃ b r, (mem.drop off).drop k = b :: r := by
    cases hd' : (mem.drop off).drop k with
    | nil =>
      have := congrArg List.length hd'
      simp only [List.length_drop, List.length_nil] at this hle
      omega
    | cons b r => exact ⟨b, r, rfl⟩
  rw [hb, hd_cons]
  have hmem : b ∈ t := by
    rw [ht, List.mem_take_iff_getElem]
    have hk? : (mem.drop off)[k]? = some b := by rw [← List.head?_drop, hb]; rfl
    obtain ⟨hkl, hkb⟩ := List.getElem?_eq_some_iff.1 hk?
    exact ⟨k, by omega, hkb⟩
  have := hws b hmem
  simp [isWs, this.1, this.2]

/-- no unit name starts with 'x' / 'X' (in either case): a suffix that makes strtod see a hexadecimal constant is
never a known unit, so SCPI_ParamNumber reports -131 and discards the converted value -/
theorem unit_names_no_x : ∀ u ∈ Gen.unitsDef, ∀ s : Bytes, Pattern.ciEq s u.1.toUTF8.toList = true →
    s.head? ≠ some 120 ∧ s.head? ≠ some 88 := by
  have key : ∀ u ∈ Gen.unitsDef, (u.1.toUTF8.toList.map Pattern.lower).head? ≠ some 120 := by decide +kernel
  intro u hu s hs
  have hk := key u hu
  rw [← ciEq_iff.1 hs] at hk
  cases s with
  | nil => simp
  | cons b r =>
    simp only [List.map_cons, List.head?_cons, ne_eq, Option.some.injEq] at hk ⊢
    constructor
    · intro hb; rw [hb] at hk; exact hk (by decide)
    · intro hb; rw [hb] at hk; exact hk (by decide)

/-- the literal "0" followed by 'x' and a hexadecimal digit: the token specification delimits "0", strtod
converts "0x1" (a hexadecimal floating constant) -/
theorem hexfloat_counterexample :
    (specToken .decimal [48, 120, 49]).map (fun e => ([48, 120, 49] : Bytes).take e.consumed) = some [48] ∧
    Prim.strtodLen [48, 120, 49] 0 = 3 := by decide +kernel

end ScpiVerif.Lemmas.Numeric
