/-
C02 helper lemmas, part 5: the table lookup of `findCommandHeader` against `Spec.Message.dispatch`,
the text recorded with a -113, and the list-level bookkeeping of the property statement.
-/
import ScpiVerif.Lemmas.DispatchDefs
import ScpiVerif.Lemmas.DispatchMatch
import ScpiVerif.Lemmas.DispatchCompose
import ScpiVerif.Lemmas.Match

namespace ScpiVerif.Lemmas.Dispatch
open ScpiVerif ScpiVerif.Lexer ScpiVerif.Ctx ScpiVerif.Match ScpiVerif.Spec.Message ScpiVerif.Props.C02
open ScpiVerif.Spec (Pattern.Pat)
open ScpiVerif.Lemmas.Match (hdrAlpha)

/-! ### first match in the table = first index whose pattern accepts -/

theorem find_index {α : Type} (f : α → Bool) : ∀ (l : List α) (g : Nat → Bool),
    (∀ i (h : i < l.length), g i = f l[i]) →
    (l.find? f = none ∧ (List.range l.length).find? g = none) ∨
    (∃ i a, l.find? f = some a ∧ (List.range l.length).find? g = some i ∧ l[i]? = some a) := by
  intro l
  induction l with
  | nil => intro g _; left; simp
  | cons a l ih =>
    intro g hg
    have h0 : g 0 = f a := hg 0 (by simp)
    rw [List.length_cons, List.range_succ_eq_map, List.find?_cons, List.find?_cons, h0]
    cases hfa : f a with
    | true => right; exact ⟨0, a, rfl, rfl, rfl⟩
    | false =>
      dsimp only
      rw [List.find?_map]
      have hg' : ∀ i (h : i < l.length), (g ∘ Nat.succ) i = f l[i] := by
        intro i h
        have := hg (i + 1) (by simp; omega)
        simpa using this
      rcases ih (g ∘ Nat.succ) hg' with ⟨h1, h2⟩ | ⟨i, x, h1, h2, h3⟩
      · left; rw [h1, h2]; simp
      · right
        refine ⟨i + 1, x, h1, ?_, ?_⟩
        · rw [h2]; rfl
        · simpa using h3

/-- the lookup of `findCommandHeader` on the header bytes `eff` lying at `buf[off, off+n)` -/
theorem lookup_spec (cmds : List Cmd) (pats : List Spec.Pattern.Pat) (ht : TableOK cmds pats)
    (buf : Bytes) (off n : Nat) (eff : Bytes) (hbytes : (buf.drop off).take n = eff) (hn : 1 ≤ n)
    (hlen : off + n ≤ buf.length) (halpha : ∀ b ∈ eff, hdrAlpha b = true) :
    let found := cmds.find? (fun cmd => (matchCommand cmd.pattern (buf.drop off) n none 0).1)
    (found = none ∧ dispatch pats eff = none) ∨
    (∃ i cmd, found = some cmd ∧ dispatch pats eff = some i ∧ cmds[i]? = some cmd) := by
  intro found
  have hel : eff.length = n := by rw [← hbytes]; simp; omega
  have hf : ∀ cmd : Cmd, (matchCommand cmd.pattern (buf.drop off) n none 0).1 =
      (matchCommand cmd.pattern eff eff.length none 0).1 := by
    intro cmd
    rw [matchCommand_take cmd.pattern (buf.drop off) n hn (by simp; omega)
      (by rw [hbytes]; intro b hb; exact alpha_ne_zero b (halpha b hb)), hbytes, hel]
  have hall : eff.all hdrAlpha = true := List.all_eq_true.2 halpha
  unfold dispatch
  rw [ht.1]
  apply find_index
  intro i hi
  obtain ⟨p, h1, h2, h3⟩ := ht.2 i hi
  rw [h1, hf]
  exact ((Lemmas.Match.match_iff_language _ p h2 h3 eff hall).1).symm

/-! ### the effective header -/

theorem effective_alpha (pe : Option Bytes) (hdr : Bytes) (h1 : ∀ e, pe = some e → ∀ b ∈ e, hdrAlpha b = true)
    (h2 : ∀ b ∈ hdr, hdrAlpha b = true) : ∀ b ∈ effective pe hdr, hdrAlpha b = true := by
  cases pe with
  | none => exact h2
  | some e =>
    rw [effective_some]
    split
    · exact h2
    · split
      · exact h2
      · intro b hb
        rcases List.mem_append.1 hb with hb | hb
        · rw [pathOf_eq] at hb; exact h1 e rfl b (List.mem_of_mem_take hb)
        · exact h2 b hb

theorem effective_length (pe : Option Bytes) (hdr : Bytes) : hdr.length ≤ (effective pe hdr).length := by
  cases pe with
  | none => exact Nat.le_refl _
  | some e =>
    rw [effective_some]
    split
    · exact Nat.le_refl _
    · split
      · exact Nat.le_refl _
      · simp

/-! ### the text recorded with a -113 contains the header as written -/

theorem dropWhile_append_length (p : UInt8 → Bool) (B : Bytes) (hB : ∀ x, B.head? = some x → p x = false) :
    ∀ A : Bytes, B.length ≤ ((A ++ B).dropWhile p).length := by
  intro A
  induction A with
  | nil =>
    cases B with
    | nil => simp
    | cons x B => simp [List.dropWhile_cons, hB x rfl]
  | cons a A ih =>
    rw [List.cons_append, List.dropWhile_cons]
    split
    · exact ih
    · simp; omega

theorem text_contains (txt hdr : Bytes) (off : Nat) (h1 : (txt.drop off).take hdr.length = hdr)
    (hoff : off + hdr.length ≤ txt.length) (hne : hdr ≠ [])
    (hnz : ∀ x ∈ txt.take (off + hdr.length), x ≠ 0)
    (hnl : ∀ x ∈ hdr, (x == 13 || x == 10) = false) :
    ∃ pre post,
      (if (txt.reverse.dropWhile (fun b => b == 13 || b == 10)).length = 0
        then (txt.take (txt.reverse.dropWhile (fun b => b == 13 || b == 10)).length).takeWhile (· ≠ 0)
        else ((txt.take (txt.reverse.dropWhile (fun b => b == 13 || b == 10)).length).takeWhile (· ≠ 0)).take
          (txt.reverse.dropWhile (fun b => b == 13 || b == 10)).length) = pre ++ hdr ++ post := by
  have hT1 : txt.take (off + hdr.length) = txt.take off ++ hdr := by
    rw [List.take_add, h1]
  have hr2 : off + hdr.length ≤ (txt.reverse.dropWhile (fun b => b == 13 || b == 10)).length := by
    have hsplit : txt.reverse = (txt.drop (off + hdr.length)).reverse ++ (txt.take (off + hdr.length)).reverse := by
      rw [← List.reverse_append, List.take_append_drop]
    have := dropWhile_append_length (fun b => b == 13 || b == 10) (txt.take (off + hdr.length)).reverse (by
      intro x hx
      rw [List.head?_reverse, hT1, List.getLast?_append] at hx
      cases hl : hdr.getLast? with
      | none => exact absurd (List.getLast?_eq_none_iff.1 hl) hne
      | some y =>
        rw [hl] at hx
        have hx' : some y = some x := hx
        cases hx'
        exact hnl _ (List.mem_of_getLast? hl)) (txt.drop (off + hdr.length)).reverse
    rw [← hsplit] at this
    simp only [List.length_reverse, List.length_take] at this
    omega
  generalize (txt.reverse.dropWhile (fun b => b == 13 || b == 10)).length = r2 at hr2
  have hlen : 0 < hdr.length := List.length_pos_iff.2 hne
  rw [if_neg (by omega)]
  have hsp : txt.take r2 = txt.take (off + hdr.length) ++ (txt.take r2).drop (off + hdr.length) := by
    have : txt.take (off + hdr.length) = (txt.take r2).take (off + hdr.length) := by
      rw [List.take_take, Nat.min_eq_left hr2]
    rw [this, List.take_append_drop]
  rw [hsp, List.takeWhile_append_of_pos (by intro a ha; simpa using hnz a ha), List.take_append,
    List.take_of_length_le (by simp; omega), hT1]
  exact ⟨_, _, rfl⟩

end ScpiVerif.Lemmas.Dispatch
